(* INDEPENDENT decoders of the pzpr (puzz.link / pzv.jp) URL body formats, written from the
   pzpr encoding rules (pzpr.js src/puzzle/Encode.js: decodeNumber16, decode4Cell, decodeCircle,
   decodeArrowNumber16, decodeBorder, decodeRoomNumber16, decodeNumber16ExCell) and NOT from
   cspuz.  They are the "independent decoder" of property C16 and are trusted as a
   specification.  Nothing here uses Codec/Comb.v's ser/de, int() or hex(); only the types
   [str] and [pv] are shared.

   Conventions of pzpr kept here: cells are numbered row-major; qnum = -1 means "no clue",
   qnum = -2 means the clue "?"; a decoder stops as soon as every cell has been passed and
   returns the unread rest of the text; a text that ends early leaves the remaining cells
   empty.  Stricter than pzpr in one respect: a character that belongs to no rule of the
   format makes the decoder fail (None) instead of being skipped.                              *)
From Coq Require Import ZArith List Ascii Bool NArith.
From Cspuz Require Import Codec.Comb.
Import ListNotations.
Local Open Scope Z_scope.

Definition code (c : ascii) : Z := Z.of_N (N_of_ascii c).
Definition between (lo hi : ascii) (c : ascii) : bool := (code lo <=? code c) && (code c <=? code hi).
Definition is_ch (a c : ascii) : bool := code a =? code c.

(* parseInt(c, 36) for 0-9 a-z *)
Definition b36v (c : ascii) : option Z :=
  if between "0" "9" c then Some (code c - 48)
  else if between "a" "z" c then Some (code c - 87)
  else None.

(* a digit of the given base (at most 36), lower case only *)
Definition digit_in (base : Z) (c : ascii) : option Z :=
  match b36v c with Some v => if v <? base then Some v else None | None => None end.

Fixpoint hexnum (s : str) (acc : Z) : option Z :=
  match s with
  | [] => Some acc
  | c :: t => match digit_in 16 c with Some v => hexnum t (acc * 16 + v) | None => None end
  end.

(* exactly k hexadecimal digits *)
Definition take_hex (k : nat) (s : str) : option (Z * str) :=
  if Nat.ltb (length s) k then None
  else match hexnum (firstn k s) 0 with Some v => Some (v, skipn k s) | None => None end.

Fixpoint upd {A} (l : list A) (i : nat) (x : A) : list A :=
  match l, i with
  | [], _ => []
  | _ :: t, O => x :: t
  | a :: t, S j => a :: upd t j x
  end.

(* ------------------------------------------------------------------ decodeNumber16
   0-9a-f: that number; -XX: two hex digits; +XXX: three hex digits; '.': the clue "?";
   g-z: 1..20 cells without clue.  n cells, c = current cell.                              *)
Fixpoint num16 (fuel : nat) (n c : nat) (cells : list Z) (s : str) : option (list Z * str) :=
  match fuel with
  | O => None
  | S f =>
      match s with
      | [] => Some (cells, [])
      | ch :: t =>
          if Nat.leb n c then None
          else
            let next (cells' : list Z) (c' : nat) (rest : str) :=
              if Nat.leb n c' then Some (cells', rest) else num16 f n c' cells' rest in
            match digit_in 16 ch with
            | Some v => next (upd cells c v) (S c) t
            | None =>
                if is_ch "-" ch then
                  match take_hex 2 t with Some (v, r) => next (upd cells c v) (S c) r | None => None end
                else if is_ch "+" ch then
                  match take_hex 3 t with Some (v, r) => next (upd cells c v) (S c) r | None => None end
                else if is_ch "." ch then next (upd cells c (-2)) (S c) t
                else if between "g" "z" ch then next cells (c + Z.to_nat (code ch - 87 - 16) + 1)%nat t
                else None
            end
      end
  end.

Definition decode_number16 (n : nat) (s : str) : option (list Z * str) :=
  match n with
  | O => Some ([], s)
  | _ => num16 (S (length s)) n 0 (repeat (-1) n) s
  end.

(* ------------------------------------------------------------------ decode4Cell (slitherlink)
   0-4: the number; 5-9: number - 5 followed by one empty cell; a-e: number - 10 followed by
   two empty cells; g-z: 1..20 empty cells; '.': "?"                                          *)
Fixpoint cell4 (fuel : nat) (n c : nat) (cells : list Z) (s : str) : option (list Z * str) :=
  match fuel with
  | O => None
  | S f =>
      match s with
      | [] => Some (cells, [])
      | ch :: t =>
          if Nat.leb n c then None
          else
            let next (cells' : list Z) (c' : nat) :=
              if Nat.leb n c' then Some (cells', t) else cell4 f n c' cells' t in
            if between "0" "4" ch then next (upd cells c (code ch - 48)) (S c)
            else if between "5" "9" ch then next (upd cells c (code ch - 48 - 5)) (S (S c))
            else if between "a" "e" ch then next (upd cells c (code ch - 87 - 10)) (S (S (S c)))
            else if between "g" "z" ch then next cells (c + Z.to_nat (code ch - 87 - 16) + 1)%nat
            else if is_ch "." ch then next (upd cells c (-2)) (S c)
            else None
      end
  end.

Definition decode_4cell (n : nat) (s : str) : option (list Z * str) :=
  match n with
  | O => Some ([], s)
  | _ => cell4 (S (length s)) n 0 (repeat (-1) n) s
  end.

(* ------------------------------------------------------------------ decodeCircle (masyu)
   ceil(n / 3) characters, each a base-27 digit holding three cells in base 3 (most
   significant first): 0 = nothing, 1 = white circle, 2 = black circle                       *)
Fixpoint circle (k : nat) (s : str) : option (list Z * str) :=
  match k with
  | O => Some ([], s)
  | S k' =>
      match s with
      | [] => Some ([], [])
      | ch :: t =>
          match digit_in 27 ch with
          | None => None
          | Some v =>
              match circle k' t with
              | None => None
              | Some (l, r) => Some ((v / 9) mod 3 :: (v / 3) mod 3 :: v mod 3 :: l, r)
              end
          end
      end
  end.

Definition pad_to (n : nat) (l : list Z) (d : Z) : list Z := firstn n (l ++ repeat d n).

(* cells: 0 / 1 / 2 as in the text *)
Definition decode_circle (n : nat) (s : str) : option (list Z * str) :=
  match circle ((n + 2) / 3) s with
  | None => None
  | Some (l, r) => Some (pad_to n l 0, r)
  end.

(* ------------------------------------------------------------------ decodeArrowNumber16 (yajilin)
   a cell with a clue is (direction, number): direction 0 = none, 1 = up, 2 = down, 3 = left,
   4 = right.  D H: direction D in 0-4 and one hex digit H ('.' = "?"); (D+5) HH: two hex
   digits; - D HHH: three hex digits; a-z: 1..26 cells without clue.                           *)
Definition no_arrow : Z * Z := (0, -1).

Fixpoint arrow16 (fuel : nat) (n c : nat) (cells : list (Z * Z)) (s : str) : option (list (Z * Z) * str) :=
  match fuel with
  | O => None
  | S f =>
      match s with
      | [] => Some (cells, [])
      | ch :: t =>
          if Nat.leb n c then None
          else
            let next (cells' : list (Z * Z)) (c' : nat) (rest : str) :=
              if Nat.leb n c' then Some (cells', rest) else arrow16 f n c' cells' rest in
            if between "0" "4" ch then
              match t with
              | [] => None
              | c1 :: r =>
                  if is_ch "." c1 then next (upd cells c (code ch - 48, -2)) (S c) r
                  else match digit_in 16 c1 with
                       | Some v => next (upd cells c (code ch - 48, v)) (S c) r
                       | None => None
                       end
              end
            else if between "5" "9" ch then
              match take_hex 2 t with
              | Some (v, r) => next (upd cells c (code ch - 48 - 5, v)) (S c) r
              | None => None
              end
            else if is_ch "-" ch then
              match t with
              | d :: t' =>
                  if between "0" "4" d then
                    match take_hex 3 t' with
                    | Some (v, r) => next (upd cells c (code d - 48, v)) (S c) r
                    | None => None
                    end
                  else None
              | [] => None
              end
            else if between "a" "z" ch then next cells (c + Z.to_nat (code ch - 87 - 10) + 1)%nat t
            else None
      end
  end.

Definition decode_arrow16 (n : nat) (s : str) : option (list (Z * Z) * str) :=
  match n with
  | O => Some ([], s)
  | _ => arrow16 (S (length s)) n 0 (repeat no_arrow n) s
  end.

(* ------------------------------------------------------------------ decodeBorder
   ceil((w-1)*h / 5) characters for the borders between horizontally adjacent cells
   (row-major), then ceil(w*(h-1) / 5) characters for the borders between vertically adjacent
   cells (row-major); each character is a base-32 digit holding five flags, most significant
   first; the last character of each part is zero-padded.                                      *)
Fixpoint bits32 (k : nat) (s : str) : option (list Z * str) :=
  match k with
  | O => Some ([], s)
  | S k' =>
      match s with
      | [] => Some ([], [])
      | ch :: t =>
          match digit_in 32 ch with
          | None => None
          | Some v =>
              match bits32 k' t with
              | None => None
              | Some (l, r) =>
                  Some ((v / 16) mod 2 :: (v / 8) mod 2 :: (v / 4) mod 2 :: (v / 2) mod 2 :: v mod 2 :: l, r)
              end
          end
      end
  end.

(* (flags between (y,x) and (y,x+1), flags between (y,x) and (y+1,x), rest) *)
Definition decode_border (h w : nat) (s : str) : option (list Z * list Z * str) :=
  let nv := ((w - 1) * h)%nat in
  let nh := (w * (h - 1))%nat in
  match bits32 ((nv + 4) / 5) s with
  | None => None
  | Some (lv, r1) =>
      match bits32 ((nh + 4) / 5) r1 with
      | None => None
      | Some (lh, r2) => Some (pad_to nv lv 0, pad_to nh lh 0, r2)
      end
  end.

(* ------------------------------------------------------------------ cell-based puzzles as cspuz problems
   The translation of a pzpr board into the data structure of the cspuz module is part of
   the specification.                                                                          *)
Fixpoint rows_of {A} (h w : nat) (l : list A) : list (list A) :=
  match h with
  | O => []
  | S h' => firstn w l :: rows_of h' w (skipn w l)
  end.

Definition grid_pv {A} (f : A -> pv) (h w : nat) (cells : list A) : pv :=
  VList (map (fun r => VList (map f r)) (rows_of h w cells)).

(* the whole body must be consumed *)
Definition whole {A} (r : option (A * str)) : option A :=
  match r with Some (a, []) => Some a | _ => None end.

(* nurikabe: no clue = 0, "?" = -1, number n = n *)
Definition nurikabe_cell (q : Z) : pv := if q =? -1 then VInt 0 else if q =? -2 then VInt (-1) else VInt q.
Definition pzpr_decode_nurikabe (h w : nat) (body : str) : option pv :=
  match whole (decode_number16 (h * w) body) with
  | Some cells => Some (grid_pv nurikabe_cell h w cells) | None => None end.

(* sudoku: no clue = 0, number n = n; "?" does not occur *)
Definition sudoku_cell (q : Z) : pv := if q =? -1 then VInt 0 else VInt q.
Definition pzpr_decode_sudoku (h w : nat) (body : str) : option pv :=
  match whole (decode_number16 (h * w) body) with
  | Some cells => if existsb (fun q => q =? -2) cells then None else Some (grid_pv sudoku_cell h w cells)
  | None => None end.

(* nurimisaki: no clue = -1, circle without number ("?") = 0, number n = n *)
Definition nurimisaki_cell (q : Z) : pv := if q =? -2 then VInt 0 else VInt q.
Definition pzpr_decode_nurimisaki (h w : nat) (body : str) : option pv :=
  match whole (decode_number16 (h * w) body) with
  | Some cells => Some (grid_pv nurimisaki_cell h w cells) | None => None end.

(* masyu: 0 nothing, 1 white, 2 black *)
Definition pzpr_decode_masyu (h w : nat) (body : str) : option pv :=
  match whole (decode_circle (h * w) body) with
  | Some cells => Some (grid_pv VInt h w cells) | None => None end.

(* slitherlink: no clue = -1, number n = n; "?" does not occur *)
Definition pzpr_decode_slitherlink (h w : nat) (body : str) : option pv :=
  match whole (decode_4cell (h * w) body) with
  | Some cells => if existsb (fun q => q =? -2) cells then None else Some (grid_pv VInt h w cells)
  | None => None end.

(* decimal text of a natural number, written here independently of Comb.py_str_int *)
Fixpoint dec_digits (fuel : nat) (n : Z) (acc : str) : str :=
  match fuel with
  | O => acc
  | S f => let acc' := ascii_of_N (Z.to_N (48 + n mod 10)) :: acc in
           if n <? 10 then acc' else dec_digits f (n / 10) acc'
  end.
Definition dec (n : Z) : str := dec_digits (S (Z.to_nat (Z.log2 (Z.max n 1)))) n [].

(* yajilin: ".." no clue; "??" a clue without number; arrow character + decimal number *)

Definition yajilin_cell (dq : Z * Z) : option pv :=
  let '(d, q) := dq in
  if q =? -1 then Some (VStr ["."; "."]%char)
  else if q =? -2 then Some (VStr ["?"; "?"]%char)
  else if d =? 1 then Some (VStr ("^"%char :: dec q))
  else if d =? 2 then Some (VStr ("v"%char :: dec q))
  else if d =? 3 then Some (VStr ("<"%char :: dec q))
  else if d =? 4 then Some (VStr (">"%char :: dec q))
  else None.                                             (* a number without direction has no cspuz form *)

Fixpoint all_some {A} (l : list (option A)) : option (list A) :=
  match l with
  | [] => Some []
  | Some a :: t => match all_some t with Some r => Some (a :: r) | None => None end
  | None :: _ => None
  end.

Definition pzpr_decode_yajilin (h w : nat) (body : str) : option pv :=
  match whole (decode_arrow16 (h * w) body) with
  | Some cells =>
      match all_some (map yajilin_cell cells) with
      | Some l => Some (grid_pv (fun v => v) h w l)
      | None => None
      end
  | None => None
  end.

(* ------------------------------------------------------------------ room-based puzzles
   lits / norinori: the body is decodeBorder.  heyawake: decodeBorder, then decodeRoomNumber16 =
   decodeNumber16 over the rooms ordered by their top-left (least, row-major) cell.
   star battle: "<stars>/" then decodeBorder.  aquarium: decodeBorder, "/", then
   decodeNumber16ExCell over the w numbers above the board followed by the h numbers left of it.
   The flood fill that turns border flags into rooms is done by the checking harness.          *)
Definition pzpr_decode_rooms (h w : nat) (body : str) : option (list Z * list Z) :=
  whole (decode_border h w body).

Definition pzpr_decode_heyawake_borders (h w : nat) (body : str) : option (list Z * list Z * str) :=
  decode_border h w body.

Definition pzpr_decode_room_numbers (n_rooms : nat) (s : str) : option (list Z) :=
  whole (decode_number16 n_rooms s).

Definition pzpr_decode_aquarium (h w : nat) (body : str) : option (list Z * list Z * list Z) :=
  match decode_border h w body with
  | Some (v, hz, sl :: r) =>
      if is_ch "/" sl then
        match whole (decode_number16 (w + h) r) with
        | Some nums => Some (v, hz, nums)
        | None => None
        end
      else None
  | _ => None
  end.

(* compass: a cell with a clue is four number16 tokens (up, down, left, right; '.' = blank),
   g-z: 1..20 cells without clue.  Cells: None or the four numbers (-1 = blank).               *)
Definition tok16 (s : str) : option (Z * str) :=
  match s with
  | [] => None
  | ch :: t =>
      match digit_in 16 ch with
      | Some v => Some (v, t)
      | None =>
          if is_ch "-" ch then take_hex 2 t
          else if is_ch "+" ch then take_hex 3 t
          else if is_ch "." ch then Some (-1, t)
          else None
      end
  end.

Fixpoint compass_cells (fuel : nat) (n c : nat) (s : str) : option (list (nat * (Z * Z * Z * Z))) :=
  match fuel with
  | O => None
  | S f =>
      match s with
      | [] => Some []
      | ch :: t =>
          if Nat.leb n c then None
          else if between "g" "z" ch then compass_cells f n (c + Z.to_nat (code ch - 87 - 16) + 1)%nat t
          else
            match tok16 s with
            | Some (u, s1) =>
            match tok16 s1 with
            | Some (d, s2) =>
            match tok16 s2 with
            | Some (l, s3) =>
            match tok16 s3 with
            | Some (r, s4) =>
                match compass_cells f n (S c) s4 with
                | Some rest => Some ((c, (u, d, l, r)) :: rest)
                | None => None
                end
            | None => None end
            | None => None end
            | None => None end
            | None => None end
      end
  end.

(* clues as (y, x, up, down, left, right) in row-major order *)
Definition pzpr_decode_compass (h w : nat) (body : str) : option (list (Z * Z * (Z * Z * Z * Z))) :=
  match compass_cells (S (length body)) (h * w) 0 body with
  | Some l => Some (map (fun cv => (Z.of_nat (fst cv / w), Z.of_nat (fst cv mod w), snd cv)) l)
  | None => None
  end.
