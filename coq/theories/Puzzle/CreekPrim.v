(* C11 Tier 1, native-operator route - creek.  The program solve_creek posts when cspuz.config.use_graph_primitive is
   on (csugar / enigma_csp / cspuz_core backends): graph.active_vertices_connected(solver, is_white) posts ONE node
   GRAPH_ACTIVE_VERTICES_CONNECTED over the answer grid (model Graph/Avc.v::post_avc with prim = true) instead of the
   rank / root encoding; no auxiliary variable is declared.  Everything else is the program of Puzzle/Creek.v
   (creek_clues).  On a board without cells the call succeeds on this route (0 operands = 0 vertices: no int_array(0,
   0, -1)); the theorem covers that board too.
   Theorem: same ids, same rules as CreekProofs.creek_exact; the meaning of the node is C04's gsem_avc. *)
From Coq Require Import ZArith List Bool Arith Lia.
From Cspuz Require Import Lib.PyErr Core.Expr Core.Program Graph.GraphModel Graph.Avc
     Puzzle.PuzzleBase Puzzle.SatAbs Puzzle.ModelBase Puzzle.ModelLemmas Puzzle.Rules_creek Puzzle.Creek Puzzle.CreekProofs
     Puzzle.AvcPrimCompose.
Import ListNotations.
Local Open Scope nat_scope.

Definition solve_creek_model_prim (pb : problem) : res state :=
  let h := dim pb 0 in let w := dim pb 1 in
  match post_avc (bool_grid_state (h * w) []) (map BVar (seq 0 (h * w))) (grid_graph h w) false true with
  | Ok st1 => Ok (ensure st1 (creek_clues h w (sec pb 1)))
  | Err e => Err e
  end.

Theorem creek_exact_prim h w clue st ans :
  solve_creek_model_prim [[Z.of_nat h; Z.of_nat w]; clue] = Ok st ->
  ((exists en, model_of gsem_avc en st /\ reads st en (seq 0 (h * w)) = ans)
   <-> rules_creek [[Z.of_nat h; Z.of_nat w]; clue] ans = true).
Proof.
  unfold solve_creek_model_prim, rules_creek.
  destruct (dims2c h w [clue]) as [-> ->].
  change (sec [[Z.of_nat h; Z.of_nat w]; clue] 1) with clue.
  destruct (post_avc (bool_grid_state (h * w) []) (map BVar (seq 0 (h * w))) (grid_graph h w) false true)
    as [st1|e] eqn:Hp; [|discriminate].
  intros H. inversion H; subst st; clear H.
  apply (avc_grid_compose_prim h w (creek_clues h w clue)
           (fun a => forallb (fun '(py, px) =>
              let c := at2 clue (S w) py px in
              (c <? 0)%Z ||
              (zcount (fun '(y, x) => negb (isb (at2 a w y x)))
                      (filter (fun '(y, x) => (Nat.eqb (S y) py || Nat.eqb y py) && (Nat.eqb (S x) px || Nat.eqb x px))
                              (cells h w)) =? c)%Z) (cells (S h) (S w))) st1 ans Hp).
  intros en. apply (creek_clues_core gsem_avc h w clue en).
Qed.

(* the premise is satisfiable: the model succeeds on every board, e.g. 2 x 3 *)
Example creek_model_prim_ok :
  exists st, solve_creek_model_prim [[2; 3]; [-1; 0; -1; -1; -1; 2; -1; -1; -1; -1; -1; 1]]%Z = Ok st.
Proof. vm_compute. eexists. reflexivity. Qed.
