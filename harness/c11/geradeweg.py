"""C11 plug-in: geradeweg (solve_geradeweg(height, width, problem)); 0 = no number, n >= 1 number."""
import c11lib as L

NAME = "geradeweg"
MODULE = "cspuz.puzzle.geradeweg"
FUNC = "solve_geradeweg"
LOOP = True


def call(mod, pb):
    return mod.solve_geradeweg(pb["h"], pb["w"], pb["grid"])


def ncand(pb):
    return 2 ** L.n_loop_edges(pb['h'], pb['w'])


def encode(pb):
    return [[pb["h"], pb["w"]], L.flat(pb["grid"])]


def _values(h, w):
    return list(range(0, max(h, w) + 1))


def families(tier, rng):
    th = tier == "thorough"
    for (h, w) in [(1, 1), (1, 2), (2, 1), (2, 2), (1, 3), (3, 1)] + ([(2, 3), (3, 2)] if th else []):
        for g in L.all_grids(h, w, _values(h, w)):
            yield {"h": h, "w": w, "grid": g}
    for (h, w) in [(2, 3), (3, 2), (3, 3), (2, 4), (4, 2), (2, 5)] + ([(3, 4), (4, 3)] if th else []):
        for _ in range(200 if th else 25):
            yield {"h": h, "w": w, "grid": L.random_grid(rng, h, w, _values(h, w), 0.7)}


def tier2(tier, rng):
    th = tier == "thorough"
    for (h, w) in [(1, 1), (1, 2), (2, 1)]:
        for g in L.all_grids(h, w, _values(h, w)):
            yield {"h": h, "w": w, "grid": g}
    for g in L.sample(rng, L.all_grids(2, 2, _values(2, 2)), 30 if th else 5):
        yield {"h": 2, "w": 2, "grid": g}


TIER1 = ("Geradeweg", "solve_geradeweg_model")
TIER1_PRIM = ("GeradewegPrim", "solve_geradeweg_model_prim")


def tier1_problems(tier, rng):
    """program-capture tie: every clue grid (values 0 .. max(h, w) + 1 and one negative value on the boards with <= 3
    cells) of the boards with <= 3 cells, a sample of all grids on the boards with 4 .. 6 cells (both orientations),
    random grids on larger and non-square boards (up to 7x7, 1xN, Nx1) with clue values at and beyond the boundaries
    (negative, 0, h + w, larger), boards with height <= 0 or width <= 0 (ValueError in the Python unless both
    dimensions are negative - those are outside the model's scope and never generated) and clue lists with trailing
    cells / rows missing (IndexError)"""
    th = tier == "thorough"
    for (h, w) in [(1, 1), (1, 2), (2, 1), (1, 3), (3, 1)]:
        for g in L.all_grids(h, w, [-1] + _values(h, w) + [max(h, w) + 1]):
            yield {"h": h, "w": w, "grid": g}
    for (h, w) in [(2, 2), (1, 4), (4, 1), (1, 5), (5, 1), (2, 3), (3, 2), (1, 6), (6, 1)]:
        for g in L.sample(rng, L.all_grids(h, w, _values(h, w)), 120 if th else 12):
            yield {"h": h, "w": w, "grid": g}
    for (h, w) in [(3, 3), (2, 4), (4, 2), (2, 5), (5, 2), (3, 4), (4, 3), (4, 4), (3, 6), (6, 3), (5, 5), (4, 6),
                   (6, 5), (7, 7), (1, 7), (7, 1), (1, 9), (8, 1), (2, 7), (7, 2)]:
        far = [-3, -1, 0, 0, 0, 1, 2, 3, max(h, w) - 1, max(h, w), max(h, w) + 1, h + w, h + w + 3, 12]
        for p in [0.3, 0.7] * (3 if th else 1):
            yield {"h": h, "w": w, "grid": L.random_grid(rng, h, w, _values(h, w), p)}
        yield {"h": h, "w": w, "grid": [[rng.choice(far) for _ in range(w)] for _ in range(h)]}
        yield {"h": h, "w": w, "grid": [[rng.choice([1, 2, 3]) for _ in range(w)] for _ in range(h)]}
    # boards without cells / a non-positive dimension -> ValueError (never both dimensions negative)
    for (h, w) in [(0, 0), (0, 1), (1, 0), (0, 3), (3, 0), (0, 6), (5, 0), (-1, 0), (0, -1), (-1, 2), (2, -1), (-3, 1),
                   (1, -2), (0, -4), (-2, 0)]:
        yield {"h": h, "w": w, "grid": [[1] * max(w, 0) for _ in range(max(h, 0))]}
    # malformed: trailing cells / rows missing -> IndexError (after the frame and the loop constraints were posted)
    for (h, w) in [(1, 1), (1, 3), (3, 1), (2, 2), (3, 2), (4, 4)]:
        g = L.random_grid(rng, h, w, _values(h, w), 0.5)
        yield {"h": h, "w": w, "grid": g[:-1] + [g[-1][:-1]]}
        yield {"h": h, "w": w, "grid": g[:-1]}
        yield {"h": h, "w": w, "grid": []}
