(* C11 Tier 1, native-operator route - nurimaze: cspuz/puzzle/nurimaze.py::solve_nurimaze with
   cspuz.config.use_graph_primitive ON.  The module calls graph.active_vertices_connected(solver, is_white, acyclic=True);
   the native operator has no acyclic form, so cspuz/graph.py::_active_vertices_connected ignores the flag for
   acyclic=True and posts the auxiliary-variable encoding exactly as on the other route (property C04,
   Props/C04.v::avc_acyclic_ignores_primitive).  Hence the program is the same on both routes:
     solve_nurimaze_model_prim       : the body of Nurimaze.v::solve_nurimaze_model with the flag on in the helper call
     solve_nurimaze_model_prim_eq    : it equals solve_nurimaze_model
     nurimaze_exact_prim / _gen_prim : the Tier-1 theorems restated for it (same ids: nothing shifts)
   tied to the Python by program capture with both configuration flags on (kind program-native:nurimaze). *)
From Coq Require Import ZArith List Bool Arith Lia.
From Cspuz Require Import Lib.PyErr Core.Expr Core.Program Graph.GraphModel Graph.Avc Graph.AvcProofs
     Puzzle.PuzzleBase Puzzle.SatAbs Puzzle.ModelBase Puzzle.Rules_nurimaze Puzzle.Nurimaze Puzzle.NurimazeProofs.
Import ListNotations.
Local Open Scope nat_scope.

Definition solve_nurimaze_model_prim (pb : problem) : res state :=
  let h := dim pb 0 in let w := dim pb 1 in
  let wv := sec pb 1 in let wh := sec pb 2 in let mark := sec pb 3 in
  let sy := getz (sec pb 4) 0 in let sx := getz (sec pb 4) 1 in
  let gy := getz (sec pb 4) 2 in let gx := getz (sec pb 4) 3 in
  match post_avc (bool_grid_state (h * w) []) (map BVar (seq 0 (h * w))) (grid_graph h w) true true with
  | Ok st1 =>
      if Nat.ltb (length wv) (h * (w - 1)) || Nat.ltb (length wh) ((h - 1) * w) || Nat.ltb (length mark) (h * w)
      then Err IndexError
      else Ok {| vars := vars st1 ++ repeat DBool (h * w);
                 keys := keys st1 ++ repeat false (h * w);
                 cons := Program.cons st1 ++ nurimaze_constraints (next_id st1) h w wv wh mark sy sx gy gx |}
  | Err e => Err e
  end.

Theorem solve_nurimaze_model_prim_eq pb : solve_nurimaze_model_prim pb = solve_nurimaze_model pb.
Proof.
  unfold solve_nurimaze_model_prim, solve_nurimaze_model. cbv zeta.
  rewrite (avc_acyclic_ignores_primitive _ _ _ true). reflexivity.
Qed.

Theorem nurimaze_exact_prim h w wv wh mark sy sx gy gx st ans :
  on_board h w sy sx = true -> on_board h w gy gx = true -> (sy, sx) <> (gy, gx) ->
  solve_nurimaze_model_prim [[Z.of_nat h; Z.of_nat w]; wv; wh; mark; [sy; sx; gy; gx]] = Ok st ->
  ((exists en, model_of gsem_avc en st /\ reads st en (seq 0 (h * w)) = ans)
   <-> rules_nurimaze [[Z.of_nat h; Z.of_nat w]; wv; wh; mark; [sy; sx; gy; gx]] ans = true).
Proof. rewrite solve_nurimaze_model_prim_eq. apply nurimaze_exact. Qed.

Theorem nurimaze_exact_gen_prim h w wv wh mark sy sx gy gx st ans :
  on_board h w sy sx = true \/ on_board h w gy gx = true ->
  solve_nurimaze_model_prim [[Z.of_nat h; Z.of_nat w]; wv; wh; mark; [sy; sx; gy; gx]] = Ok st ->
  ((exists en, model_of gsem_avc en st /\ reads st en (seq 0 (h * w)) = ans)
   <-> rules_nurimaze [[Z.of_nat h; Z.of_nat w]; wv; wh; mark; [sy; sx; gy; gx]] ans = true).
Proof. rewrite solve_nurimaze_model_prim_eq. apply nurimaze_exact_gen. Qed.
