(* C11 rule specification - Castle Wall.
   Published rules (puzz.link, "Castle Wall"):
     1. Draw a single loop through the centres of cells, horizontally or
        vertically; it does not cross itself or branch.
     2. The loop cannot pass through a clue cell.
     3. A white clue cell lies inside the loop, a black clue cell outside; a
        gray clue cell may be either.
     4. A number with an arrow is the number of loop segments (lines between the
        centres of two adjacent cells) that lie in the direction of the arrow
        from the clue cell, in its row or column.
   Library convention: drawing no line at all also counts as a loop (everything is then outside).

   problem = [[h; w]; kind; num; side]   per cell: kind 0 = no clue, 1 ^, 2 v, 3 <, 4 >, 5 = clue cell without arrow;
                                          side 0 = gray / not a clue, 1 = white (inside), 2 = black (outside)
   answer  = the segments between cell centres (lattice h w) *)
From Coq Require Import ZArith List Bool Arith.
From Cspuz Require Import Graph.GraphModel Puzzle.PuzzleBase.
Import ListNotations.

Definition rules_castle_wall (pb : problem) (ans : answer) : bool :=
  let h := dim pb 0 in let w := dim pb 1 in
  let kind := sec pb 1 in let num := sec pb 2 in let side := sec pb 3 in
  let on := fun k => isb (getz ans k) in
  let g := lattice h w in
  (* a cell centre off the loop is inside iff a ray from it crosses the loop an odd number of
     times: count the vertical segments to the right that span the half row below (or, in the
     last row, above) the cell *)
  let inside := fun y x =>
     let yy := if Nat.ltb (S y) h then y else y - 1 in
     Nat.ltb 1 h &&
     Nat.odd (count (fun x' => Nat.ltb x x' && on (vseg h w yy x')) (seq 0 w)) in
  Nat.eqb (length ans) (n_lattice_edges h w) && forallb is01 ans &&
  single_loop_b g on &&
  forallb (fun '(y, x) =>
     let k := at2 kind w y x in
     (k =? 0)%Z ||
     (negb (on_line g on (y * w + x)) &&
      (let s := at2 side w y x in
       if (s =? 1)%Z then inside y x else if (s =? 2)%Z then negb (inside y x) else true) &&
      (let n := at2 num w y x in
       if (k =? 1)%Z then (zcount (fun y' => on (vseg h w y' x)) (seq 0 y) =? n)%Z
       else if (k =? 2)%Z then (zcount (fun y' => on (vseg h w y' x)) (seq y (h - 1 - y)) =? n)%Z
       else if (k =? 3)%Z then (zcount (fun x' => on (hseg h w y x')) (seq 0 x) =? n)%Z
       else if (k =? 4)%Z then (zcount (fun x' => on (hseg h w y x')) (seq x (w - 1 - x)) =? n)%Z
       else true))) (cells h w).

Definition answers_castle_wall (pb : problem) : list answer :=
  all_answers (bool_doms (n_lattice_edges (dim pb 0) (dim pb 1))).
