(* C07, level S, completeness: when every block of a partition is connected, a
   certificate exists: per block a spanning tree taken from the discovery order
   of the flood fill, rooted at the least vertex of the block. *)
From Coq Require Import ZArith List Bool Arith Lia.
From Cspuz Require Import Graph.GraphModel Graph.ReachProofs Graph.VarGroups Graph.VarGroupsSound.
Import ListNotations.
Open Scope nat_scope.

(* ------------------------------------------------------------------------ *)
(* position of an element in a list                                          *)

Fixpoint index (v : nat) (l : list nat) : nat :=
  match l with [] => 0 | x :: r => if Nat.eqb x v then 0 else S (index v r) end.

Lemma index_In v l : In v l -> nth_error l (index v l) = Some v /\ index v l < length l.
Proof.
  induction l as [|x r IH]; simpl; [intros []|]. intros H.
  destruct (Nat.eqb_spec x v) as [->|Hne]; simpl; [split; [reflexivity|lia]|].
  destruct H as [H|H]; [contradiction|]. destruct (IH H) as [H1 H2]. split; [exact H1|lia].
Qed.

Lemma index_nth v l p : NoDup l -> nth_error l p = Some v -> index v l = p.
Proof.
  revert p. induction l as [|x r IH]; intros p Hn Hp; [destruct p; discriminate|].
  inversion Hn; subst. simpl. destruct p as [|p]; simpl in Hp.
  - inversion Hp; subst. rewrite Nat.eqb_refl. reflexivity.
  - destruct (Nat.eqb_spec x v) as [->|Hne].
    + exfalso. apply H1. eapply nth_error_In; exact Hp.
    + f_equal. apply IH; assumption.
Qed.

Lemma find_exists {A} (f : A -> bool) l x : In x l -> f x = true -> exists y, find f l = Some y.
Proof.
  induction l as [|a l IH]; simpl; [intros []|]. intros [->|H] Hf.
  - rewrite Hf. eauto.
  - destruct (f a); [eauto|apply IH; assumption].
Qed.

(* the entries of incident g i that carry a given edge id *)
Lemma incident_from_filter_id i k0 es k :
  filter (fun x => Nat.eqb (snd x) k) (incident_from i k0 es) =
  if Nat.ltb k k0 then [] else
    match nth_error es (k - k0) with
    | Some (a, b) => (if Nat.eqb a i then [(b, k)] else []) ++ (if Nat.eqb b i then [(a, k)] else [])
    | None => []
    end.
Proof.
  revert k0. induction es as [|[a b] r IH]; intros k0; simpl.
  - destruct (Nat.ltb k k0); [reflexivity|]. destruct (k - k0); reflexivity.
  - rewrite !filter_app, IH.
    destruct (Nat.ltb_spec k k0) as [Hlt|Hge].
    + destruct (Nat.ltb_spec k (S k0)) as [_|H]; [|lia].
      assert (Hne : Nat.eqb k0 k = false) by (apply Nat.eqb_neq; lia).
      destruct (Nat.eqb a i), (Nat.eqb b i); simpl; rewrite ?Hne; reflexivity.
    + destruct (Nat.eq_dec k k0) as [->|Hne].
      * destruct (Nat.ltb_spec k0 (S k0)) as [_|H]; [|lia].
        rewrite Nat.sub_diag. simpl.
        destruct (Nat.eqb a i), (Nat.eqb b i); simpl; rewrite ?Nat.eqb_refl; rewrite ?app_nil_r; reflexivity.
      * destruct (Nat.ltb_spec k (S k0)) as [H|_]; [lia|].
        assert (Hne' : Nat.eqb k0 k = false) by (apply Nat.eqb_neq; lia).
        replace (k - k0) with (S (k - S k0)) by lia. simpl.
        destruct (Nat.eqb a i), (Nat.eqb b i); simpl; rewrite ?Hne'; reflexivity.
Qed.

Lemma incident_filter_id g i k :
  filter (fun x => Nat.eqb (snd x) k) (incident g i) =
  match nth_error (edges g) k with
  | Some (a, b) => (if Nat.eqb a i then [(b, k)] else []) ++ (if Nat.eqb b i then [(a, k)] else [])
  | None => []
  end.
Proof. unfold incident. rewrite incident_from_filter_id. simpl. rewrite Nat.sub_0_r. reflexivity. Qed.

(* two incident entries with the same edge id describe the same edge *)
Lemma incident_same_edge g i j v p e :
  In (j, e) (incident g i) -> In (p, e) (incident g v) -> (i = v /\ j = p) \/ (i = p /\ j = v).
Proof.
  rewrite !incident_spec. intros [H1|H1] [H2|H2]; rewrite H1 in H2; inversion H2; subst; tauto.
Qed.

(* ------------------------------------------------------------------------ *)

Section Complete.
  Variable g : graph.
  Variable blk : nat -> nat.
  Hypothesis Hwf : wf_graph g = true.
  Hypothesis Hconn : forall v, v < nv g -> connected g (same_block blk v).

  Let n := nv g.

  Definition vokb (b : nat) : nat -> bool := fun w => Nat.eqb b (blk w).
  Definition rootb (b : nat) : nat :=
    match filter (vokb b) (seq 0 (nv g)) with [] => 0 | r :: _ => r end.
  Definition Lb (b : nat) : list nat := component g (vokb b) all_edges_ok (rootb b).
  Definition rk (v : nat) : nat := index v (Lb (blk v)).
  Definition par (v : nat) : option (nat * nat) :=
    find (fun '(j, e) => Nat.eqb (blk j) (blk v) && Nat.ltb (rk j) (rk v)) (incident g v).
  Definition actb (e : nat) : bool :=
    existsb (fun v => match par v with Some (_, e') => Nat.eqb e' e | None => false end) (seq 0 (nv g)).
  Definition the_cert : vg_cert :=
    {| c_gid := fun v => zn (rootb (blk v)); c_rank := fun v => zn (rk v);
       c_root := fun v => Nat.eqb (rk v) 0; c_act := actb |}.

  Lemma rootb_spec v : v < n -> rootb (blk v) < n /\ blk (rootb (blk v)) = blk v.
  Proof.
    intros Hv. unfold rootb.
    assert (Hin : In v (filter (vokb (blk v)) (seq 0 (nv g)))).
    { apply filter_In. split; [apply in_seq; unfold n in Hv; lia|]. unfold vokb. apply Nat.eqb_refl. }
    destruct (filter (vokb (blk v)) (seq 0 (nv g))) as [|r t] eqn:Hf; [destruct Hin|].
    assert (Hr : In r (filter (vokb (blk v)) (seq 0 (nv g)))) by (rewrite Hf; left; reflexivity).
    apply filter_In in Hr. destruct Hr as [Hr1 Hr2]. apply in_seq in Hr1.
    unfold vokb in Hr2. apply Nat.eqb_eq in Hr2. split; [unfold n; lia|congruence].
  Qed.

  Lemma Lb_head v : v < n -> exists t, Lb (blk v) = rootb (blk v) :: t.
  Proof.
    intros Hv. apply component_head. unfold vokb. apply Nat.eqb_eq.
    symmetry. apply (rootb_spec v Hv).
  Qed.

  Lemma Lb_In v : v < n -> In v (Lb (blk v)).
  Proof.
    intros Hv. destruct (rootb_spec v Hv) as [Hr1 Hr2].
    apply component_complete; [exact Hwf|exact Hr1|].
    apply (Hconn v Hv (rootb (blk v)) v Hr1 Hv).
    - unfold same_block. apply Nat.eqb_eq. congruence.
    - unfold same_block. apply Nat.eqb_refl.
  Qed.

  Lemma Lb_blk b u : In u (Lb b) -> blk u = b.
  Proof. intros H. apply component_vok in H. unfold vokb in H. apply Nat.eqb_eq in H. congruence. Qed.

  Lemma Lb_nodup b : NoDup (Lb b).
  Proof. apply component_nodup. Qed.

  Lemma rk_nth v : v < n -> nth_error (Lb (blk v)) (rk v) = Some v.
  Proof. intros Hv. apply index_In. apply Lb_In; exact Hv. Qed.

  Lemma rk_lt v : v < n -> rk v < n.
  Proof.
    intros Hv. destruct (rootb_spec v Hv) as [Hr _].
    pose proof (index_In v (Lb (blk v)) (Lb_In v Hv)) as [_ H].
    pose proof (component_length g (vokb (blk v)) all_edges_ok (rootb (blk v)) Hwf Hr).
    unfold rk, Lb in *. unfold n. lia.
  Qed.

  Lemma rk_zero v : v < n -> (rk v = 0 <-> v = rootb (blk v)).
  Proof.
    intros Hv. destruct (Lb_head v Hv) as [t Ht]. unfold rk. rewrite Ht. simpl.
    destruct (Nat.eqb_spec (rootb (blk v)) v); split; intros; try congruence; try lia.
  Qed.

  Lemma par_some v j e :
    par v = Some (j, e) -> In (j, e) (incident g v) /\ blk j = blk v /\ rk j < rk v.
  Proof.
    unfold par. intros H. apply find_some in H. destruct H as [H1 H2].
    apply andb_true_iff in H2. destruct H2 as [H2 H3].
    apply Nat.eqb_eq in H2. apply Nat.ltb_lt in H3. tauto.
  Qed.

  Lemma par_exists v : v < n -> rk v <> 0 -> exists j e, par v = Some (j, e).
  Proof.
    intros Hv Hr.
    destruct (component_earlier_nbr_nth g (vokb (blk v)) all_edges_ok (rootb (blk v)) (rk v) v)
      as [q [u [Hq [Hu [_ Hn]]]]]; [apply rk_nth; exact Hv|lia|].
    apply nbrs_incident in Hn. destruct Hn as [e [_ Hin]].
    assert (Hbu : blk u = blk v) by (apply Lb_blk; eapply nth_error_In; exact Hu).
    assert (Hru : rk u = q).
    { unfold rk. rewrite Hbu. apply index_nth; [apply Lb_nodup|exact Hu]. }
    destruct (find_exists (fun '(j, e) => Nat.eqb (blk j) (blk v) && Nat.ltb (rk j) (rk v)) (incident g v) (u, e) Hin)
      as [[j e'] Hf].
    - apply andb_true_iff. split; [apply Nat.eqb_eq; exact Hbu|apply Nat.ltb_lt; lia].
    - exists j, e'. exact Hf.
  Qed.

  Lemma actb_spec e : actb e = true <-> exists v j, v < n /\ par v = Some (j, e).
  Proof.
    unfold actb. rewrite existsb_exists. split.
    - intros [v [Hv H]]. apply in_seq in Hv. destruct (par v) as [[j e']|] eqn:Hp; [|discriminate].
      apply Nat.eqb_eq in H. subst e'. exists v, j. split; [unfold n; lia|exact Hp].
    - intros [v [j [Hv Hp]]]. exists v. split; [apply in_seq; unfold n in Hv; lia|].
      rewrite Hp. apply Nat.eqb_refl.
  Qed.

  (* an active edge seen from one of its endpoints *)
  Lemma act_entry i j e :
    In (j, e) (incident g i) -> actb e = true ->
    (par i = Some (j, e)) \/ (par j = Some (i, e)).
  Proof.
    intros Hin Ha. apply actb_spec in Ha. destruct Ha as [v [p [Hv Hp]]].
    destruct (par_some v p e Hp) as [Hin' _].
    destruct (incident_same_edge g i j v p e Hin Hin') as [[-> ->]|[-> ->]]; [left|right]; exact Hp.
  Qed.

  Lemma the_cert_vertex i : i < n -> cert_vertex g the_cert i = true.
  Proof.
    intros Hi. unfold cert_vertex. simpl. apply andb_true_iff. split; [apply andb_true_iff; split|].
    - (* a root's id is its own index *)
      destruct (Nat.eqb_spec (rk i) 0) as [H0|H0]; [|reflexivity]. simpl.
      apply Z.eqb_eq. f_equal. symmetry. apply rk_zero; assumption.
    - (* ranks differ along active edges *)
      apply forallb_forall. intros [j e] Hin. destruct (actb e) eqn:Ha; [|reflexivity]. simpl.
      apply negb_true_iff. apply Z.eqb_neq. unfold zn.
      destruct (act_entry i j e Hin Ha) as [Hp|Hp]; apply par_some in Hp; lia.
    - (* exactly one active edge towards a smaller rank, none for a root *)
      apply Z.eqb_eq. unfold bcount.
      destruct (Nat.eqb_spec (rk i) 0) as [H0|H0].
      + rewrite (filter_ext_in' _ (fun _ => false)); [induction (incident g i); simpl; auto|].
        intros [j e] _. rewrite H0. destruct (actb e); [|reflexivity]. simpl.
        apply Z.ltb_ge. unfold zn. lia.
      + destruct (par_exists i Hi H0) as [pj [pe Hp]].
        destruct (par_some i pj pe Hp) as [Hin [Hb Hlt]].
        rewrite (filter_ext_in' _ (fun x => Nat.eqb (snd x) pe)).
        * rewrite incident_filter_id.
          apply incident_spec in Hin. destruct Hin as [He|He]; rewrite He.
          -- rewrite Nat.eqb_refl. destruct (Nat.eqb_spec pj i) as [->|_]; [lia|]. reflexivity.
          -- rewrite Nat.eqb_refl. destruct (Nat.eqb_spec pj i) as [->|_]; [lia|]. reflexivity.
        * intros [j e] Hje. simpl. destruct (Nat.eqb_spec e pe) as [->|Hne].
          -- assert (Ha : actb pe = true) by (apply actb_spec; exists i, pj; split; assumption).
             rewrite Ha. simpl. apply Z.ltb_lt. unfold zn.
             destruct (incident_same_edge g i j i pj pe Hje Hin) as [[_ ->]|[-> ->]]; lia.
          -- destruct (actb e) eqn:Ha; [|reflexivity]. simpl. apply Z.ltb_ge. unfold zn.
             destruct (act_entry i j e Hje Ha) as [Hp'|Hp'].
             ++ rewrite Hp in Hp'. inversion Hp'. congruence.
             ++ apply par_some in Hp'. lia.
  Qed.

  Lemma the_cert_main : cert_main g the_cert = true.
  Proof.
    unfold cert_main. apply andb_true_iff. split; [apply andb_true_iff; split|].
    - apply forallb_forall. intros i _. simpl. unfold zn.
      destruct (Nat.eqb_spec (rk i) 0) as [->|H]; [reflexivity|].
      destruct (Z.eqb_spec (Z.of_nat (rk i)) 0); [lia|reflexivity].
    - apply forallb_forall. intros i Hi. apply in_seq in Hi. apply the_cert_vertex. unfold n; lia.
    - apply forallb_forall. intros [k [u v]] Hin. apply in_combine_seq in Hin. simpl.
      destruct (actb k) eqn:Ha; [|reflexivity]. simpl. apply Z.eqb_eq. f_equal.
      assert (Hinc : In (v, k) (incident g u)) by (apply incident_spec; left; exact Hin).
      destruct (act_entry u v k Hinc Ha) as [Hp|Hp]; apply par_some in Hp; destruct Hp as [_ [Hb _]]; congruence.
  Qed.

  Lemma the_cert_ranges : 1 <= n -> cert_ranges g the_cert = true.
  Proof.
    intros Hn. unfold cert_ranges, in_range. apply andb_true_iff.
    split; apply forallb_forall; intros i Hi; apply in_seq in Hi; simpl;
      apply andb_true_iff; split; apply Z.leb_le; unfold zn.
    - lia.
    - assert (Hi' : i < n) by (unfold n; lia). destruct (rootb_spec i Hi') as [H _]. unfold n in H. lia.
    - lia.
    - assert (Hi' : i < n) by (unfold n; lia). pose proof (rk_lt i Hi') as H. unfold n in H. lia.
  Qed.

  Lemma the_cert_ids : ids_realise n (c_gid the_cert) blk.
  Proof.
    intros u v Hu Hv. simpl. unfold same_block, zn.
    destruct (Nat.eqb_spec (blk u) (blk v)) as [He|Hne].
    - rewrite He. apply Z.eqb_refl.
    - apply Z.eqb_neq. intros H. apply Nat2Z.inj in H. apply Hne.
      destruct (rootb_spec u Hu) as [_ H1]. destruct (rootb_spec v Hv) as [_ H2]. congruence.
  Qed.
End Complete.
