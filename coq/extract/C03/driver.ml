open Model
open Zutil

(* ---- Coq string (char list under ExtrOcamlString) <-> OCaml string ---- *)
let cs_of_string (s : String.t) : char list = List.init (String.length s) (String.get s)
let string_of_cs (cs : char list) : String.t =
  let b = Buffer.create 64 in List.iter (Buffer.add_char b) cs; Buffer.contents b
let ascii_of_char (c : char) = c

let hex_of s = if s = "" then "-" else
  String.concat "" (List.map (fun c -> Printf.sprintf "%02x" (Char.code c)) (List.init (String.length s) (String.get s)))
let unhex h = if h = "-" then "" else
  String.init (String.length h / 2) (fun i -> Char.chr (int_of_string ("0x" ^ String.sub h (2 * i) 2)))

let err e = "E " ^ string_of_int (int_of_nat (pyerr_code e))

(* ---- variable lists:  [ b3 i5:0:3 ... ] ---- *)
let take_list toks = match toks with
  | "[" :: r -> let rec go acc r = match r with
      | "]" :: r' -> (List.rev acc, r') | t :: r' -> go (t :: acc) r' | [] -> failwith "list" in go [] r
  | _ -> failwith "list expected"

let bvar_of_tok t =
  match fst (Exprio.parse_expr [t]) with
  | BVar i -> VBool i
  | IVar (i, lo, hi) -> VInt (i, lo, hi)
  | _ -> failwith "bvar"

let value_of_tok t =
  if t = "T" then VB true else if t = "F" then VB false
  else VI (z_of_int (int_of_string (String.sub t 1 (String.length t - 1))))
let show_value = function VB true -> "T" | VB false -> "F" | VI z -> "#" ^ string_of_int (int_of_z z)
let show_ov = function None -> "N" | Some v -> show_value v

(* name:value pairs *)
let pair_of_tok t =
  match String.index_opt t '=' with
  | Some k -> (String.sub t 0 k, value_of_tok (String.sub t (k + 1) (String.length t - k - 1)))
  | None -> failwith "pair"

let rho_of pairs = fun name -> List.assoc_opt (string_of_cs name) pairs

let env_of pairs =
  let bs = Hashtbl.create 16 and is = Hashtbl.create 16 in
  List.iter (fun (n, v) ->
      let id = int_of_string (String.sub n 1 (String.length n - 1)) in
      match v with VB b -> Hashtbl.replace bs id b | VI z -> Hashtbl.replace is id z) pairs;
  { eb = (fun n -> try Hashtbl.find bs (int_of_nat n) with Not_found -> false);
    ei = (fun n -> try Hashtbl.find is (int_of_nat n) with Not_found -> Z0) }

let kind_of = function
  | "sugar" -> K_sugar | "sugar_extended" -> K_sugar_extended | "csugar" -> K_csugar
  | "enigma_csp" -> K_enigma_csp | "cspuz_core" -> K_cspuz_core | _ -> failwith "kind"

let show_res_str = function Ok s -> "OK " ^ hex_of (string_of_cs s) | Err e -> err e

let show_parse = function
  | Err e -> err e
  | Ok (b, sol) -> "OK " ^ (if b then "1" else "0") ^ String.concat "" (List.map (fun v -> " " ^ show_ov v) sol)

let show_names l = "[" ^ String.concat "" (List.map (fun n -> " " ^ hex_of (string_of_cs n)) l) ^ " ]"

let show_decl = function
  | None -> "?"
  | Some (SDBool n) -> "b:" ^ hex_of (string_of_cs n)
  | Some (SDInt (n, lo, hi)) -> Printf.sprintf "i:%s:%d:%d" (hex_of (string_of_cs n)) (int_of_z lo) (int_of_z hi)

let handle toks = match toks with
  | "DESC" :: kind :: mode :: "VARS" :: r ->
      let (vs, r) = take_list r in
      (match r with
       | "K" :: r ->
           let (ks, r) = take_list r in
           (match r with
            | "C" :: r ->
                let (cs, _) = Exprio.parse_expr_list r in
                let vs = List.map bvar_of_tok vs in
                let ks = List.map (fun k -> k = "1") ks in
                show_res_str (description_k (kind_of kind) vs cs (if mode = "D" then Some ks else None))
            | _ -> failwith "DESC C")
       | _ -> failwith "DESC K")
  (* HIST kind mode VARS [ vs ] K [ ks ] P  (L [ exprs ] | O expr)*  E : one backend object, the posts in order *)
  | "HIST" :: kind :: mode :: "VARS" :: r ->
      let (vs, r) = take_list r in
      (match r with
       | "K" :: r ->
           let (ks, r) = take_list r in
           (match r with
            | "P" :: r ->
                let rec posts acc r = match r with
                  | "L" :: r -> let (cs, r) = Exprio.parse_expr_list r in posts (PList cs :: acc) r
                  | "O" :: r -> let (c, r) = Exprio.parse_expr r in posts (POne c :: acc) r
                  | "E" :: _ | [] -> List.rev acc
                  | _ -> failwith "HIST post" in
                let ps = posts [] r in
                let vs = List.map bvar_of_tok vs in
                let ks = List.map (fun k -> k = "1") ks in
                show_res_str (history_description (kind_of kind) vs ps (if mode = "D" then Some ks else None))
            | _ -> failwith "HIST P")
       | _ -> failwith "HIST K")
  | "PE" :: r -> let (e, _) = Exprio.parse_expr r in show_res_str (print_expr e)
  | "PA" :: r -> let (vs, r) = take_list r in
      show_parse (parse_answer (List.map bvar_of_tok vs) (cs_of_string (unhex (List.hd r))))
  | "PD" :: r -> let (vs, r) = take_list r in
      show_parse (parse_deduction (List.map bvar_of_tok vs) (cs_of_string (unhex (List.hd r))))
  | "KIND" :: k :: _ ->
      Printf.sprintf "%b %b %s" (native_deduction (kind_of k)) (uses_subprocess (kind_of k))
        (string_of_cs (entry_point (kind_of k)))
  | "JL" :: h :: _ ->
      (match java_load (cs_of_string (unhex h)) with
       | None -> "NONE"
       | Some jp ->
           "OK I " ^ show_names jp.j_ints ^ " B " ^ show_names jp.j_bools ^ " K " ^
           (match jp.j_keys with None -> "NULL" | Some l -> show_names l) ^
           " D [" ^ String.concat "" (List.map (fun d -> " " ^ show_decl d) (sugar_decls jp.j_problem)) ^ " ] NC " ^
           string_of_int (List.length (sugar_constraints jp.j_problem)))
  | "JR" :: h :: "U" :: _ ->
      (match java_load (cs_of_string (unhex h)) with
       | None -> "NONE"
       | Some jp -> (match java_reply jp None with None -> "NONE" | Some s -> "OK " ^ hex_of (string_of_cs s)))
  | "JR" :: h :: "S" :: r ->
      let (ps, r) = take_list r in
      let (refuted, _) = (match r with "R" :: r -> take_list r | _ -> ([], r)) in
      let rho = rho_of (List.map pair_of_tok ps) in
      let nr = fun name -> not (List.mem (string_of_cs name) refuted) in
      (match java_load (cs_of_string (unhex h)) with
       | None -> "NONE"
       | Some jp -> (match java_reply jp (Some (rho, nr)) with None -> "NONE" | Some s -> "OK " ^ hex_of (string_of_cs s)))
  (* meaning of the constraints of a whole description under a Sugar assignment *)
  | "SEMD" :: h :: r ->
      let (ps, _) = take_list r in
      let rho = rho_of (List.map pair_of_tok ps) in
      (match java_load (cs_of_string (unhex h)) with
       | None -> "NOPARSE"
       | Some jp -> "OK" ^ String.concat "" (List.map (fun x -> " " ^ show_ov (sugar_sem graph_sem rho x))
                                                   (sugar_constraints jp.j_problem)))
  | "SEMT" :: h :: r ->
      let (ps, _) = take_list r in
      let rho = rho_of (List.map pair_of_tok ps) in
      (match sx_parse (cs_of_string (unhex h)) with
       | None -> "NOPARSE"
       | Some x -> "OK " ^ show_ov (sugar_sem graph_sem rho x))
  | "EVAL" :: r ->
      let (ps, r) = take_list r in
      let (cs, _) = Exprio.parse_expr_list r in
      let en = env_of (List.map pair_of_tok ps) in
      "OK" ^ String.concat "" (List.map (fun e -> " " ^ show_ov (eval graph_sem en e)) cs)
  | "INT" :: h :: _ ->
      (match py_int (cs_of_string (unhex h)) with Ok z -> "OK " ^ string_of_int (int_of_z z) | Err e -> err e)
  | "STRIP" :: h :: _ -> "OK " ^ hex_of (string_of_cs (strip (cs_of_string (unhex h))))
  | "SPLIT" :: c :: h :: _ ->
      "OK " ^ show_names (split_on (ascii_of_char (Char.chr (int_of_string c))) (cs_of_string (unhex h)))
  | "IN" :: n :: h :: _ ->
      Printf.sprintf "%b" (contains (cs_of_string (unhex n)) (cs_of_string (unhex h)))
  | "PZ" :: n :: _ -> "OK " ^ hex_of (string_of_cs (pz (z_of_int (int_of_string n))))
  | _ -> "EXN bad request"

let () = main_loop handle
