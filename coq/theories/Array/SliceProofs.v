(* C13 — proofs: the flat gather of Array2D._getitem_impl equals the nested-list
   specification, for every shape and every key. *)
From Coq Require Import ZArith List Bool Lia ZifyBool.
From Cspuz Require Import Lib.PyErr Array.Slice.
Import ListNotations.
Open Scope Z_scope.

Ltac Zify.zify_post_hook ::= Z.to_euclidean_division_equations.

(* ---------------------------------------------------------------- zseq *)

Lemma zseq_length s n : length (zseq s n) = n.
Proof. revert s; induction n as [|n IH]; intros s; simpl; [reflexivity|]. rewrite IH; reflexivity. Qed.

Lemma zseq_app s n m : zseq s (n + m) = zseq s n ++ zseq (s + Z.of_nat n) m.
Proof.
  revert s; induction n as [|n IH]; intros s.
  - simpl. f_equal. lia.
  - cbn [Nat.add zseq app]. f_equal. rewrite IH. f_equal. f_equal. lia.
Qed.

Lemma zseq_In s n x : In x (zseq s n) <-> s <= x < s + Z.of_nat n.
Proof.
  revert s; induction n as [|n IH]; intros s; cbn [zseq In].
  - lia.
  - rewrite IH. lia.
Qed.

Lemma zseq_shift s n d : zseq (s + d) n = map (fun k => k + d) (zseq s n).
Proof.
  revert s; induction n as [|n IH]; intros s; cbn [zseq map]; [reflexivity|].
  f_equal. replace (s + d + 1) with ((s + 1) + d) by lia. apply IH.
Qed.

(* ---------------------------------------------------------------- ranges *)

(* number of elements of range(s, e, st) for st <> 0 *)
Definition rlen (s e st : Z) : Z :=
  if 0 <? st then (if e <=? s then 0 else (e - s + st - 1) / st)
  else (if s <=? e then 0 else (s - e - st - 1) / (- st)).

Lemma range_size_rlen s e st : st <> 0 -> range_size s e st = Ok (rlen s e st).
Proof.
  intros H. unfold range_size, rlen.
  destruct (Z.eqb_spec st 0); [contradiction|].
  destruct (0 <? st); [destruct (e <=? s)|destruct (s <=? e)]; reflexivity.
Qed.

Lemma rlen_nonneg s e st : st <> 0 -> 0 <= rlen s e st.
Proof.
  intros H. unfold rlen.
  destruct (Z.ltb_spec 0 st).
  - destruct (Z.leb_spec e s); [lia|]. apply Z.div_pos; lia.
  - destruct (Z.leb_spec s e); [lia|]. apply Z.div_pos; lia.
Qed.

Lemma range_up_spec st e : 0 < st -> forall n fuel s,
  Z.of_nat n = rlen s e st -> (n <= fuel)%nat ->
  range_up fuel s e st = map (fun k => s + st * k) (zseq 0 n).
Proof.
  intros Hst. induction n as [|n IH]; intros fuel s Hn Hf.
  - assert (e <= s).
    { unfold rlen in Hn. destruct (Z.ltb_spec 0 st); [|lia].
      destruct (Z.leb_spec e s); [assumption|]. exfalso.
      assert (1 <= (e - s + st - 1) / st) by (apply Z.div_le_lower_bound; lia). lia. }
    destruct fuel; simpl; [reflexivity|]. destruct (Z.ltb_spec s e); [lia|reflexivity].
  - assert (Hlt : s < e).
    { unfold rlen in Hn. destruct (Z.ltb_spec 0 st); [|lia].
      destruct (Z.leb_spec e s); [lia|assumption]. }
    destruct fuel as [|fuel]; [lia|].
    cbn [range_up]. destruct (Z.ltb_spec s e); [|lia].
    cbn [zseq map]. f_equal; [lia|].
    rewrite (IH fuel (s + st)).
    + replace (0 + 1) with (0 + 1) by reflexivity.
      rewrite (zseq_shift 0 n 1). rewrite map_map. apply map_ext. intros k. lia.
    + unfold rlen in *. destruct (Z.ltb_spec 0 st); [|lia].
      destruct (Z.leb_spec e s); [lia|].
      destruct (e <=? s + st) eqn:E2.
      * assert ((e - s + st - 1) / st = 1).
        { symmetry. apply (Z.div_unique _ _ 1 (e - s - 1)); lia. }
        lia.
      * assert ((e - s + st - 1) = (e - (s + st) + st - 1) + 1 * st) by lia.
        rewrite H2 in Hn. rewrite Z.div_add in Hn by lia. lia.
    + lia.
Qed.

Lemma range_down_spec st e : st < 0 -> forall n fuel s,
  Z.of_nat n = rlen s e st -> (n <= fuel)%nat ->
  range_down fuel s e st = map (fun k => s + st * k) (zseq 0 n).
Proof.
  intros Hst. induction n as [|n IH]; intros fuel s Hn Hf.
  - assert (s <= e).
    { unfold rlen in Hn. destruct (Z.ltb_spec 0 st); [lia|].
      destruct (Z.leb_spec s e); [assumption|]. exfalso.
      assert (1 <= (s - e - st - 1) / (- st)) by (apply Z.div_le_lower_bound; lia). lia. }
    destruct fuel; simpl; [reflexivity|]. destruct (Z.ltb_spec e s); [lia|reflexivity].
  - assert (Hlt : e < s).
    { unfold rlen in Hn. destruct (Z.ltb_spec 0 st); [lia|].
      destruct (Z.leb_spec s e); [lia|assumption]. }
    destruct fuel as [|fuel]; [lia|].
    cbn [range_down]. destruct (Z.ltb_spec e s); [|lia].
    cbn [zseq map]. f_equal; [lia|].
    rewrite (IH fuel (s + st)).
    + rewrite (zseq_shift 0 n 1). rewrite map_map. apply map_ext. intros k. lia.
    + unfold rlen in *. destruct (Z.ltb_spec 0 st); [lia|].
      destruct (Z.leb_spec s e); [lia|].
      destruct (s + st <=? e) eqn:E2.
      * assert ((s - e - st - 1) / (- st) = 1).
        { symmetry. apply (Z.div_unique _ _ 1 (s - e - 1)); lia. }
        lia.
      * assert ((s - e - st - 1) = (s + st - e - st - 1) + 1 * (- st)) by lia.
        rewrite H2 in Hn. rewrite Z.div_add in Hn by lia. lia.
    + lia.
Qed.

Lemma rlen_le_span_up s e st : 0 < st -> rlen s e st <= Z.max 0 (e - s).
Proof.
  intros H. unfold rlen. destruct (Z.ltb_spec 0 st); [|lia].
  destruct (Z.leb_spec e s); [lia|].
  assert ((e - s + st - 1) / st <= e - s); [|lia].
  apply Z.div_le_upper_bound; [lia|]. nia.
Qed.

Lemma rlen_le_span_down s e st : st < 0 -> rlen s e st <= Z.max 0 (s - e).
Proof.
  intros H. unfold rlen. destruct (Z.ltb_spec 0 st); [lia|].
  destruct (Z.leb_spec s e); [lia|].
  assert ((s - e - st - 1) / (- st) <= s - e); [|lia].
  apply Z.div_le_upper_bound; [lia|]. nia.
Qed.

Lemma py_range_spec s e st : st <> 0 ->
  py_range s e st = map (fun k => s + st * k) (zseq 0 (Z.to_nat (rlen s e st))).
Proof.
  intros H. unfold py_range.
  pose proof (rlen_nonneg s e st H) as Hn.
  destruct (Z.ltb_spec 0 st).
  - apply range_up_spec; [assumption|lia|]. pose proof (rlen_le_span_up s e st H0). lia.
  - destruct (Z.ltb_spec st 0); [|lia].
    apply range_down_spec; [assumption|lia|]. pose proof (rlen_le_span_down s e st H1). lia.
Qed.

(* every position selected by a slice lies inside the axis *)
Lemma slice_indices_in_range len a b c s e st k :
  0 <= len -> slice_indices len a b c = Ok (s, e, st) ->
  0 <= k < rlen s e st -> 0 <= s + st * k < len.
Proof.
  intros Hlen H Hk. unfold slice_indices in H.
  set (st0 := match c with Some x => x | None => 1 end) in *.
  destruct (Z.eqb_spec st0 0); [discriminate|].
  inversion H; subst st; clear H.
  unfold rlen in Hk.
  destruct (Z.ltb_spec 0 st0) as [Hp|Hp].
  - destruct (Z.ltb_spec st0 0); [lia|].
    destruct (Z.leb_spec e s); [lia|].
    assert (Hs : 0 <= s <= len).
    { subst s. destruct a as [v|]; [|lia]. destruct (Z.ltb_spec v 0); lia. }
    assert (He : 0 <= e <= len).
    { subst e. destruct b as [v|]; [|lia]. destruct (Z.ltb_spec v 0); lia. }
    assert (st0 * k <= e - s - 1); [|lia].
    assert (k <= (e - s + st0 - 1) / st0 - 1) by lia.
    assert (st0 * ((e - s + st0 - 1) / st0) <= e - s + st0 - 1) by (apply Z.mul_div_le; lia).
    nia.
  - destruct (Z.ltb_spec st0 0); [|lia].
    destruct (Z.leb_spec s e); [lia|].
    assert (Hs : -1 <= s <= len - 1).
    { subst s. destruct a as [v|]; [|lia]. destruct (Z.ltb_spec v 0); lia. }
    assert (He : -1 <= e <= len - 1).
    { subst e. destruct b as [v|]; [|lia]. destruct (Z.ltb_spec v 0); lia. }
    assert ((- st0) * k <= s - e - 1); [|lia].
    assert (k <= (s - e - st0 - 1) / (- st0) - 1) by lia.
    assert ((- st0) * ((s - e - st0 - 1) / (- st0)) <= s - e - st0 - 1) by (apply Z.mul_div_le; lia).
    nia.
Qed.

Lemma slice_indices_step len a b c s e st :
  slice_indices len a b c = Ok (s, e, st) -> st <> 0.
Proof.
  unfold slice_indices. destruct (Z.eqb_spec (match c with Some x => x | None => 1 end) 0); [discriminate|].
  intros H; inversion H; subst; assumption.
Qed.

(* ---------------------------------------------------------------- indexing *)

Lemma py_index_in {A} (l : list A) i : 0 <= i < py_len l ->
  py_index l i = match nth_error l (Z.to_nat i) with Some a => Ok a | None => Err IndexError end.
Proof.
  intros H. unfold py_index.
  destruct (Z.ltb_spec i 0); [lia|].
  destruct (Z.ltb_spec i 0); [lia|]. destruct (Z.leb_spec (py_len l) i); [lia|]. reflexivity.
Qed.

Lemma nth_error_concat_rect {A} (rows : list (list A)) (w : nat) :
  Forall (fun r => length r = w) rows ->
  forall y x, (x < w)%nat ->
  nth_error (concat rows) (y * w + x) =
  match nth_error rows y with Some r => nth_error r x | None => None end.
Proof.
  intros HF. induction HF as [|r rows Hr HF IH]; intros y x Hx.
  - simpl. destruct (y * w + x)%nat; destruct y; reflexivity.
  - destruct y as [|y]; cbn [concat nth_error].
    + simpl. rewrite nth_error_app1 by lia. reflexivity.
    + replace (S y * w + x)%nat with (length r + (y * w + x))%nat by (rewrite Hr; lia).
      rewrite nth_error_app2 by lia.
      replace (length r + (y * w + x) - length r)%nat with (y * w + x)%nat by lia.
      apply IH; assumption.
Qed.

Lemma concat_length_rect {A} (rows : list (list A)) (w : nat) :
  Forall (fun r => length r = w) rows -> length (concat rows) = (length rows * w)%nat.
Proof.
  intros HF; induction HF as [|r rows Hr HF IH]; simpl; [reflexivity|].
  rewrite app_length, IH, Hr. reflexivity.
Qed.

(* a cell of the flat data = the cell of the nested list *)
Lemma flat_cell {A} (h w : Z) (rows : list (list A)) y x :
  rect h w rows -> 0 <= y < h -> 0 <= x < w ->
  py_index (concat rows) (y * w + x) = cell rows y x.
Proof.
  intros (Hh & Hw & HF) Hy Hx.
  assert (HF' : Forall (fun r => length r = Z.to_nat w) rows).
  { eapply Forall_impl; [|exact HF]. intros r Hr. unfold py_len in Hr. lia. }
  assert (Hlen : py_len (concat rows) = h * w).
  { unfold py_len in *. rewrite (concat_length_rect rows (Z.to_nat w) HF'). lia. }
  rewrite py_index_in by (rewrite Hlen; nia).
  unfold cell. rewrite py_index_in by lia. cbn [bind].
  replace (Z.to_nat (y * w + x)) with (Z.to_nat y * Z.to_nat w + Z.to_nat x)%nat by nia.
  rewrite (nth_error_concat_rect rows (Z.to_nat w) HF') by lia.
  destruct (nth_error rows (Z.to_nat y)) as [r|] eqn:E.
  - cbn [bind]. assert (Hr : py_len r = w).
    { rewrite Forall_forall in HF. apply HF. eapply nth_error_In; exact E. }
    rewrite py_index_in by lia. reflexivity.
  - exfalso. apply nth_error_None in E. unfold py_len in Hh. lia.
Qed.

(* ---------------------------------------------------------------- mapM algebra *)

Lemma mapM_map {A B C} (f : B -> res C) (g : A -> B) l :
  mapM f (map g l) = mapM (fun a => f (g a)) l.
Proof. induction l as [|x xs IH]; simpl; [reflexivity|]. rewrite IH; reflexivity. Qed.

Lemma mapM_app {A B} (f : A -> res B) l1 l2 :
  mapM f (l1 ++ l2) =
  bind (mapM f l1) (fun r1 => bind (mapM f l2) (fun r2 => Ok (r1 ++ r2))).
Proof.
  induction l1 as [|x xs IH]; simpl.
  - destruct (mapM f l2); reflexivity.
  - destruct (f x); simpl; [|reflexivity]. rewrite IH.
    destruct (mapM f xs); simpl; [|reflexivity].
    destruct (mapM f l2); reflexivity.
Qed.

(* gather over a product index space, row-major *)
Lemma mapM_product {B} (g : Z -> Z -> res B) (nx : nat) : forall (ny : nat) (a : Z),
  0 <= a ->
  mapM (fun i => g (i / Z.of_nat nx) (i mod Z.of_nat nx)) (zseq (a * Z.of_nat nx) (ny * nx)) =
  rmap (@concat B) (mapM (fun y => mapM (g y) (zseq 0 nx)) (zseq a ny)).
Proof.
  induction ny as [|ny IH]; intros a Ha.
  - reflexivity.
  - cbn [Nat.mul]. rewrite zseq_app, mapM_app. cbn [zseq mapM].
    assert (Hrow : mapM (fun i => g (i / Z.of_nat nx) (i mod Z.of_nat nx)) (zseq (a * Z.of_nat nx) nx)
                   = mapM (g a) (zseq 0 nx)).
    { replace (a * Z.of_nat nx) with (0 + a * Z.of_nat nx) by lia.
      rewrite zseq_shift, mapM_map. apply mapM_ext. intros k Hk. apply zseq_In in Hk.
      assert ((k + a * Z.of_nat nx) / Z.of_nat nx = a).
      { symmetry. apply (Z.div_unique _ _ a k); lia. }
      assert ((k + a * Z.of_nat nx) mod Z.of_nat nx = k).
      { symmetry. apply (Z.mod_unique _ _ a k); lia. }
      rewrite H, H0. reflexivity. }
    rewrite Hrow.
    replace (a * Z.of_nat nx + Z.of_nat nx) with ((a + 1) * Z.of_nat nx) by lia.
    rewrite IH by lia.
    destruct (mapM (g a) (zseq 0 nx)); simpl; [|reflexivity].
    destruct (mapM (fun y => mapM (g y) (zseq 0 nx)) (zseq (a + 1) ny)); reflexivity.
Qed.

Lemma mapM_length {A B} (f : A -> res B) l r : mapM f l = Ok r -> length r = length l.
Proof. apply mapM_ok_length. Qed.
