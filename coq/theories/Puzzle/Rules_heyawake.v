(* C11 rule specification - Heyawake.
   Published rules (Nikoli, "Heyawake"):
     1. Paint some cells black.
     2. A number in a room is the number of black cells in that room.
     3. Black cells cannot be adjacent horizontally or vertically.
     4. All white cells must be connected.
     5. A straight (horizontal or vertical) line of white cells cannot stretch
        over three or more rooms, i.e. it cannot cross two room borders.

   problem = [[h; w]; room; clue]   room: h*w room ids row-major; clue: one value per room id (negative = none)
   answer  = h*w cells row-major, 1 = black *)
From Coq Require Import ZArith List Bool Arith.
From Cspuz Require Import Graph.GraphModel Puzzle.PuzzleBase.
Import ListNotations.

(* number of room borders crossed inside the maximal white run that starts at
   the head of [l] (l = the cells from some cell to the edge, as (room, black) pairs) *)
Fixpoint borders_in_run (prev : Z) (l : list (Z * bool)) : nat :=
  match l with
  | [] => 0
  | (r, b) :: rest => if b then 0 else (if (r =? prev)%Z then 0 else 1) + borders_in_run r rest
  end.

Definition rules_heyawake (pb : problem) (ans : answer) : bool :=
  let h := dim pb 0 in let w := dim pb 1 in
  let room := sec pb 1 in let clue := sec pb 2 in
  let black := fun y x => isb (at2 ans w y x) in
  let cs := cells h w in
  let info := fun '(y, x) => (at2 room w y x, black y x) in
  Nat.eqb (length ans) (h * w) && forallb is01 ans &&
  forallb (fun i => let c := getz clue i in
     (c <? 0)%Z || (zcount (fun '(y, x) => (at2 room w y x =? Z.of_nat i)%Z && black y x) cs =? c)%Z)
     (seq 0 (length clue)) &&
  forallb (fun '(y, x) => negb (black y x) || forallb (fun '(y', x') => negb (black y' x')) (nbr4 h w y x)) cs &&
  cells_connected h w (fun v => negb (isb (getz ans v))) &&
  forallb (fun '(y, x) =>
     black y x ||
     (Nat.ltb (borders_in_run (at2 room w y x) (map info (ray h w y x 0 1))) 2 &&
      Nat.ltb (borders_in_run (at2 room w y x) (map info (ray h w y x 1 0))) 2)) cs.

Definition answers_heyawake (pb : problem) : list answer :=
  all_answers (bool_doms (dim pb 0 * dim pb 1)).
