(* C16 — puzzle URL codecs round-trip and agree with the puzz.link / pzv format.
   Only final statements here; proofs are in Codec/UrlProofs.v, Codec/PuzzleProofs.v.
   Gen/Codecs.v is regenerated from cspuz/puzzle/*.py on every run (harness/c16trans.py):
   the statements about <P>_COMBINATOR / serialize_<p>_w / deserialize_<p>_w below are
   obligations about the code as it is now. *)
From Coq Require Import ZArith List Ascii Bool Lia Sorting.Permutation.
From Cspuz Require Import Lib.PyErr Codec.Comb Codec.CombWf Codec.CombRoundTrip Codec.Legacy Codec.LegacyProofs Codec.LegacyEq Codec.Pzpr Codec.PzprProofs Codec.Url
  Codec.UrlProofs Codec.Yajilin Codec.Puzzles Codec.SerChars Codec.PuzzleProofs Gen.Codecs.
Import ListNotations.
Local Open Scope Z_scope.

(* ------------------------------------------------------------------ URL assembly / regular expression *)
(* For every puzzle name without slash, all naturals h and w and every body without
   newline, the regular expression reads name, WIDTH, HEIGHT (in this order) and body back
   from the f-string serialize_problem_as_url writes; for every prefix the expression
   accepts (http/https, any host, /p or /p.html). *)
Theorem url_roundtrip :
  forall p nm h w body,
    valid_prefix p -> valid_name nm -> valid_body body -> 0 <= h -> 0 <= w ->
    parse_url (make_url p nm h w body) = Ok (Some (nm, w, h, body)).
Proof. exact url_roundtrip_gen. Qed.
Print Assumptions url_roundtrip.

Theorem known_prefixes_valid : valid_prefix default_prefix /\ valid_prefix pzv_prefix.
Proof. split; [exact default_prefix_valid | exact pzv_prefix_valid]. Qed.
Print Assumptions known_prefixes_valid.

(* ------------------------------------------------------------------ the generated codec table *)
(* every combinator term of the bundled modules (except yajilin's, which uses a Combinator
   subclass) satisfies C15's well-formedness predicate *)
Theorem generated_terms_wf :
  wf NURIKABE_COMBINATOR = true /\ wf MASYU_COMBINATOR = true /\ wf SLITHERLINK_COMBINATOR = true /\
  wf SUDOKU_COMBINATOR = true /\ wf NURIMISAKI_COMBINATOR = true /\ wf HEYAWAKE_COMBINATOR = true /\
  wf LITS_COMBINATOR = true /\ wf NORINORI_COMBINATOR = true.
Proof. vm_compute. repeat split; reflexivity. Qed.
Print Assumptions generated_terms_wf.

(* encoder and decoder of every module use the same term, the encoder's puzzle name can be
   read by the regular expression and is accepted by the decoder's allowed_puzzles *)
Theorem generated_wrappers_consistent :
  wrappers_consistent serialize_nurikabe_w deserialize_nurikabe_w /\
  wrappers_consistent serialize_masyu_w deserialize_masyu_w /\
  wrappers_consistent serialize_slitherlink_w deserialize_slitherlink_w /\
  wrappers_consistent serialize_sudoku_w deserialize_sudoku_w /\
  wrappers_consistent serialize_nurimisaki_w deserialize_nurimisaki_w /\
  wrappers_consistent serialize_yajilin_w deserialize_yajilin_w /\
  wrappers_consistent serialize_heyawake_w deserialize_heyawake_w /\
  wrappers_consistent serialize_lits_w deserialize_lits_w /\
  wrappers_consistent serialize_norinori_w deserialize_norinori_w.
Proof.
  repeat split; try reflexivity; try discriminate; vm_compute; repeat constructor.
Qed.
Print Assumptions generated_wrappers_consistent.

(* ------------------------------------------------------------------ URL level from body level (all nine modules) *)
(* no text any of the nine terms serializes to contains a newline (so `.*` reads all of it);
   this holds for YajilinClue as well *)
Theorem generated_terms_newline_free :
  nl_free NURIKABE_COMBINATOR = true /\ nl_free MASYU_COMBINATOR = true /\ nl_free SLITHERLINK_COMBINATOR = true /\
  nl_free SUDOKU_COMBINATOR = true /\ nl_free NURIMISAKI_COMBINATOR = true /\ nl_free YAJILIN_COMBINATOR = true /\
  nl_free HEYAWAKE_COMBINATOR = true /\ nl_free LITS_COMBINATOR = true /\ nl_free NORINORI_COMBINATOR = true /\
  (forall h w, cust_good (cu_env no_custom h w)) /\ (forall h w, cust_good (cu_env yajilin_custom h w)).
Proof.
  repeat split; try (vm_compute; reflexivity); [exact no_custom_cu_good | exact yajilin_cu_good].
Qed.
Print Assumptions generated_terms_newline_free.

(* For any module whose wrappers are consistent and whose term writes no newline: if the
   body serialization of a problem round-trips, then serialize_<p> writes
   prefix name/width/height/body and deserialize_<p> returns the problem, with
   (height, width) when return_size is set — for all sizes, square or not. *)
Theorem url_from_body_roundtrip :
  forall cu sw dw h w pb pb' body,
    wrappers_consistent sw dw -> 0 <= h -> 0 <= w ->
    cust_good (cu_env cu h w) -> nl_free (sw_comb sw) = true ->
    serialize_problem_cu cu (sw_comb sw) pb h w = Ok body ->
    deserialize_problem_cu cu (sw_comb sw) body h w = Ok (Some pb') -> pb' <> VNone ->
    run_ser_sized cu sw h w pb = Ok (make_url default_prefix (sw_puzzle sw) h w body) /\
    run_de cu dw (make_url default_prefix (sw_puzzle sw) h w body) = Ok (Some (sized dw h w pb')).
Proof. exact url_level_roundtrip_nl. Qed.
Print Assumptions url_from_body_roundtrip.

(* ------------------------------------------------------------------ cell-grid codecs: full round trip *)
(* nurikabe, masyu, slitherlink, sudoku, nurimisaki: for every board size h, w >= 1 and every
   h x w problem for which the body serialization succeeds (it succeeds exactly on the cell
   values the text format can carry), serialize_<p> returns
   https://puzz.link/p?<name>/<w>/<h>/<body> and deserialize_<p> of that URL returns the problem. *)
Definition grid_codec_roundtrip_for (sw : ser_wrapper) (dw : de_wrapper) : Prop :=
  forall h w pb rows body,
    1 <= h -> 1 <= w -> grid_shape h w pb rows ->
    serialize_problem_cu no_custom (sw_comb sw) pb h w = Ok body ->
    run_ser_problem no_custom sw pb = Ok (make_url default_prefix (sw_puzzle sw) h w body) /\
    run_de no_custom dw (make_url default_prefix (sw_puzzle sw) h w body) = Ok (Some pb).

Theorem grid_codecs_roundtrip :
  grid_codec_roundtrip_for serialize_nurikabe_w deserialize_nurikabe_w /\
  grid_codec_roundtrip_for serialize_masyu_w deserialize_masyu_w /\
  grid_codec_roundtrip_for serialize_slitherlink_w deserialize_slitherlink_w /\
  grid_codec_roundtrip_for serialize_sudoku_w deserialize_sudoku_w /\
  grid_codec_roundtrip_for serialize_nurimisaki_w deserialize_nurimisaki_w.
Proof.
  pose proof generated_wrappers_consistent as (H1 & H2 & H3 & H4 & H5 & _).
  assert (T : forall sw dw c1, sw_comb sw = Grid c1 None -> wf (Grid c1 None) = true -> rooms_free c1 = true ->
                cell_comb c1 = true -> wrappers_consistent sw dw -> dw_return_size dw = false -> nl_free c1 = true ->
                grid_codec_roundtrip_for sw dw).
  { intros sw dw c1 E1 E2 E3 E4 E5 E6 E7 h w pb rows body Hh Hw Hs Hser.
    eapply grid_url_roundtrip; eauto. }
  split; [|split; [|split; [|split]]];
    (eapply T; [reflexivity | vm_compute; reflexivity | reflexivity | reflexivity | assumption | reflexivity
               | vm_compute; reflexivity]).
Qed.
Print Assumptions grid_codecs_roundtrip.

(* the hypotheses are satisfiable: a 1 x 3 nurikabe board with an empty cell, the clue 16 and "?" *)
Example nurikabe_instance :
  let pb := VList [VList [VInt 0; VInt 16; VInt (-1)]] in
  run_ser_problem no_custom serialize_nurikabe_w pb
    = Ok (make_url default_prefix (sw_puzzle serialize_nurikabe_w) 1 3 (lit [103; 45; 49; 48; 46]%nat)) /\
  run_de no_custom deserialize_nurikabe_w
    (make_url default_prefix (sw_puzzle serialize_nurikabe_w) 1 3 (lit [103; 45; 49; 48; 46]%nat)) = Ok (Some pb).
Proof. vm_compute. split; reflexivity. Qed.

(* ------------------------------------------------------------------ room-based codecs (lits, norinori, heyawake) *)
(* C15 states the round trip of Rooms / ValuedRooms for partitions given in any order as
   [rooms_roundtrip_statement] / [valued_rooms_roundtrip_statement] (not proved there yet).
   GIVEN those statements as explicit premises, the URL functions of the three room-based
   modules round-trip every partition of every h x w board (h, w >= 1) into connected rooms:
   the URL is prefix name/w/h/body and the decoder returns (h, w, the same partition in
   canonical order [, the clues carried with their rooms]). *)
Theorem rooms_codecs_roundtrip_given_rooms :
  rooms_roundtrip_statement ->
  forall sw dw, (sw = serialize_lits_w /\ dw = deserialize_lits_w) \/ (sw = serialize_norinori_w /\ dw = deserialize_norinori_w) ->
  forall h w rs, 1 <= h -> 1 <= w -> valid_rooms h w rs ->
  exists body rs',
    run_ser_sized no_custom sw h w (rooms_to_pv rs) = Ok (make_url default_prefix (sw_puzzle sw) h w body) /\
    canonical_rooms h w rs' /\ rooms_equiv rs rs' /\
    run_de no_custom dw (make_url default_prefix (sw_puzzle sw) h w body) = Ok (Some (VTup [VInt h; VInt w; rooms_to_pv rs'])).
Proof.
  intros Hst sw dw Hsw.
  pose proof generated_wrappers_consistent as (_ & _ & _ & _ & _ & _ & _ & H8 & H9).
  destruct Hsw as [[-> ->]|[-> ->]].
  - exact (rooms_url_roundtrip_given serialize_lits_w deserialize_lits_w false false Hst eq_refl H8).
  - exact (rooms_url_roundtrip_given serialize_norinori_w deserialize_norinori_w false false Hst eq_refl H9).
Qed.
Print Assumptions rooms_codecs_roundtrip_given_rooms.

Theorem heyawake_roundtrip_given_rooms :
  valued_rooms_roundtrip_statement ->
  forall h w rs vs body, 1 <= h -> 1 <= w -> valid_rooms h w rs -> length vs = length rs ->
  serialize_problem_cu no_custom HEYAWAKE_COMBINATOR (VTup [rooms_to_pv rs; VList vs]) h w = Ok body ->
  exists ps rs',
    Permutation ps (combine rs vs) /\ Forall2 (fun p r' => Permutation (fst p) r') ps rs' /\ canonical_rooms h w rs' /\
    run_ser_sized no_custom serialize_heyawake_w h w (VTup [rooms_to_pv rs; VList vs])
      = Ok (make_url default_prefix (sw_puzzle serialize_heyawake_w) h w body) /\
    run_de no_custom deserialize_heyawake_w (make_url default_prefix (sw_puzzle serialize_heyawake_w) h w body)
      = Ok (Some (VTup [VInt h; VInt w; VTup [rooms_to_pv rs'; VList (map snd ps)]])).
Proof.
  intros Hst.
  pose proof generated_wrappers_consistent as (_ & _ & _ & _ & _ & _ & H7 & _).
  exact (valued_rooms_url_roundtrip_given serialize_heyawake_w deserialize_heyawake_w _ true false Hst eq_refl H7
           ltac:(vm_compute; reflexivity) eq_refl eq_refl eq_refl).
Qed.
Print Assumptions heyawake_roundtrip_given_rooms.

(* Unconditional forms, from C15's Codec/RoomsProofs.v (roundtrip_all, rooms_roundtrip_any_order):
   lits / norinori: for every partition rs of every h x w board (h, w >= 1) into connected rooms,
   given in ANY order of rooms and cells, if the body serializes then the URL is
   prefix name/w/h/body and the decoder returns (h, w, rs') for the canonical listing rs' of the
   same partition.  heyawake: the same when the rooms are given in canonical order (clues stay
   with their rooms); for heyawake rooms in arbitrary order see heyawake_roundtrip_given_rooms. *)
Theorem rooms_codecs_roundtrip :
  forall sw dw, (sw = serialize_lits_w /\ dw = deserialize_lits_w) \/ (sw = serialize_norinori_w /\ dw = deserialize_norinori_w) ->
  forall h w rs rs' body, 1 <= h -> 1 <= w ->
    valid_rooms h w rs -> canonical_rooms h w rs' -> rooms_equiv rs rs' ->
    serialize_problem_cu no_custom (sw_comb sw) (rooms_to_pv rs) h w = Ok body ->
    run_ser_sized no_custom sw h w (rooms_to_pv rs) = Ok (make_url default_prefix (sw_puzzle sw) h w body) /\
    run_de no_custom dw (make_url default_prefix (sw_puzzle sw) h w body) = Ok (Some (VTup [VInt h; VInt w; rooms_to_pv rs'])).
Proof.
  intros sw dw Hsw h w rs rs' body Hh Hw Hv Hcan Heq Hser.
  pose proof generated_wrappers_consistent as (_ & _ & _ & _ & _ & _ & _ & H8 & H9).
  destruct Hsw as [[-> ->]|[-> ->]].
  - exact (rooms_url_roundtrip serialize_lits_w deserialize_lits_w false false h w rs rs' body eq_refl H8 Hh Hw Hv Hcan Heq Hser).
  - exact (rooms_url_roundtrip serialize_norinori_w deserialize_norinori_w false false h w rs rs' body eq_refl H9 Hh Hw Hv Hcan Heq Hser).
Qed.
Print Assumptions rooms_codecs_roundtrip.

Theorem heyawake_roundtrip_canonical :
  forall h w rs vs body, 1 <= h -> 1 <= w -> canonical_rooms h w rs -> length vs = length rs ->
    serialize_problem_cu no_custom HEYAWAKE_COMBINATOR (VTup [rooms_to_pv rs; VList vs]) h w = Ok body ->
    run_ser_sized no_custom serialize_heyawake_w h w (VTup [rooms_to_pv rs; VList vs])
      = Ok (make_url default_prefix (sw_puzzle serialize_heyawake_w) h w body) /\
    run_de no_custom deserialize_heyawake_w (make_url default_prefix (sw_puzzle serialize_heyawake_w) h w body)
      = Ok (Some (VTup [VInt h; VInt w; VTup [rooms_to_pv rs; VList vs]])).
Proof.
  intros h w rs vs body Hh Hw Hcan Hlen Hser.
  pose proof generated_wrappers_consistent as (_ & _ & _ & _ & _ & _ & H7 & _).
  exact (valued_rooms_url_roundtrip serialize_heyawake_w deserialize_heyawake_w _ true false h w rs vs body eq_refl H7
           ltac:(vm_compute; reflexivity) eq_refl eq_refl Hh Hw Hcan Hlen Hser).
Qed.
Print Assumptions heyawake_roundtrip_canonical.

(* ------------------------------------------------------------------ yajilin (Combinator subclass YajilinClue) *)
(* C15's general theorem does not cover Combinator subclasses.  The body-level round trip
   of yajilin's term is the statement below (not proved; tied and searched on every run:
   all clue kinds incl. "??", values 0..4095, boards up to 17x16 / 1x80).  Its URL level
   then follows from url_from_body_roundtrip (wrappers consistent, no newline: proved above). *)
Definition yajilin_cell_ok (v : pv) : Prop :=
  v = VStr s_dotdot \/ v = VStr s_qq \/
  exists c d n, dir_code c = Ok d /\ 0 <= n <= 4095 /\ v = VStr (c :: py_str_int n).

Definition yajilin_body_roundtrip_statement : Prop :=
  forall h w pb rows, 1 <= h -> 1 <= w -> grid_shape h w pb rows -> Forall (Forall yajilin_cell_ok) rows ->
  exists body, serialize_problem_cu yajilin_custom YAJILIN_COMBINATOR pb h w = Ok body /\
               deserialize_problem_cu yajilin_custom YAJILIN_COMBINATOR body h w = Ok (Some pb).

(* ------------------------------------------------------------------ compass (legacy encoder + hand-written parser) *)
(* For every board size h x w (h, w >= 0, square or not) and every list of clues
   (y, x, up, left, down, right) inside the board, listed in row-major order of their cells
   (strictly increasing, so no cell twice), every number blank (-1) or in 0..4095:
   to_puzz_link_url writes https://puzz.link/p?compass/<w>/<h>/<body> and
   parse_puzz_link_url returns exactly (h, w, clues). *)
Theorem compass_roundtrip :
  forall h w pos, 0 <= h -> 0 <= w -> compass_clues_ok h w pos ->
    exists body,
      to_puzz_link_url h w pos = Ok (make_url default_prefix ["c"; "o"; "m"; "p"; "a"; "s"; "s"]%char h w body) /\
      parse_puzz_link_url (make_url default_prefix ["c"; "o"; "m"; "p"; "a"; "s"; "s"]%char h w body) = Ok (h, w, pos).
Proof. exact compass_roundtrip_proof. Qed.
Print Assumptions compass_roundtrip.

(* the 5 x 4 board of DESIGN section 7 #17 (with a clue value >= 256 added) satisfies the hypotheses and
   evaluates as stated *)
Example compass_instance :
  let pos := [(1, 1, (1, 2, -1, 3)); (2, 2, (-1, -1, 6, -1)); (3, 0, (4, -1, 300, 5))] in
  compass_clues_ok 5 4 pos /\
  match to_puzz_link_url 5 4 pos with Ok url => parse_puzz_link_url url = Ok (5, 4, pos) | Err _ => False end.
Proof.
  split.
  - split; [|split].
    + repeat constructor; simpl; lia.
    + repeat (constructor; [unfold clue_ok, cell_ok, ctup, vnum; repeat split; ((left; reflexivity) || (right; lia))|]).
      constructor.
    + simpl. repeat split; lia.
  - vm_compute. reflexivity.
Qed.

(* ------------------------------------------------------------------ legacy encoder = combinator codec *)
(* For every empty-cell value e and every h x w board of ints whose cells are e or in
   0..4095: util.encode_array(board, empty=e) (dimension inferred, marker "g") and
   serialize_problem(Grid(OneOf(Spaces(e, "g"), HexInt())), board) return the same text;
   likewise for a flat list against Seq(OneOf(Spaces(e, "g"), HexInt()), n). *)
Theorem legacy_eq_combinator :
  forall e h w rows,
    Z.of_nat (length rows) = h -> Forall (fun r => Z.of_nat (length r) = w) rows ->
    Forall (Forall (icell_ok e)) rows -> rows <> [] ->
    exists text,
      encode_array (int_rows rows) marker_g (VInt e) None = Ok text /\
      serialize_problem (Grid (OneOf [Spaces (VInt e) "g"%char; HexInt]) None) (VList (int_rows rows)) h w = Ok text.
Proof.
  intros e h w rows Hh Hw Hall Hne. exists (enc_ints e (concat rows) 0).
  exact (legacy_eq_grid e h w rows Hh Hw Hall Hne).
Qed.
Print Assumptions legacy_eq_combinator.

Theorem legacy_eq_combinator_flat :
  forall e env l, Forall (icell_ok e) l ->
    exists text,
      encode_array (map VInt l) marker_g (VInt e) (Some 1) = Ok text /\
      ser env (Seq (OneOf [Spaces (VInt e) "g"%char; HexInt]) (Z.of_nat (length l))) (VList [VList (map VInt l)]) 0
        = Ok (Some (1%nat, text)).
Proof. intros e env l H. exists (enc_ints e l 0). exact (legacy_eq_seq e env l H). Qed.
Print Assumptions legacy_eq_combinator_flat.

(* the term of legacy_eq_combinator with e = 0 is the one sudoku.py uses today *)
Theorem sudoku_term_is_legacy_form : SUDOKU_COMBINATOR = Grid (OneOf [Spaces (VInt 0) "g"%char; HexInt]) None.
Proof. reflexivity. Qed.
Print Assumptions sudoku_term_is_legacy_form.

(* ------------------------------------------------------------------ border bitmaps *)
(* util.encode_grid_segmentation codes each of its two flag sequences with convert_binary_seq;
   Rooms codes its two border grids with Seq(MultiDigit(base=2, digits=5), n).  On every
   sequence of 0/1 flags (any length, the last group zero-padded) both give the same text. *)
Theorem segmentation_bitmap_eq :
  forall env F, Forall bit F ->
    exists text,
      convert_binary_seq (length F) F = Ok text /\
      ser env (Seq (MultiDigit 2 5) (Z.of_nat (length F))) (VList [VList (map VInt F)]) 0 = Ok (Some (1%nat, text)).
Proof. intros env F H. exists (cbs (length F) F). exact (bitmap_text_eq env F H). Qed.
Print Assumptions segmentation_bitmap_eq.

(* the whole-function form (flags computed from the same room ids on both sides) is not proved;
   it is searched on every run (kind legacy-eq:lits/norinori/heyawake/aquarium, star_battle) *)
Definition zcell (c : cell) : Z * Z := (Z.of_nat (fst c), Z.of_nat (snd c)).
Definition segmentation_eq_rooms_statement : Prop :=
  forall h w rs bid, 1 <= h -> 1 <= w -> valid_rooms h w rs ->
    blocks_to_block_id h w (map (map zcell) rs) = Ok bid ->
    exists text, encode_grid_segmentation h w bid = Ok text /\
                 serialize_problem (Rooms false false) (rooms_to_pv rs) h w = Ok text.

(* ------------------------------------------------------------------ agreement with the independent pzpr decoder *)
(* sudoku (and any use of util.encode_array(empty=0)): for every h x w board (h, w >= 1) with
   cells in 0..4095 (0 = empty), the body serialize_sudoku writes is read back by the
   independent pzpr decoder (decodeNumber16, Codec/Pzpr.v) as exactly that board, the whole
   body being consumed.  The other formats (4-cell, circle, arrow-number, borders, room
   numbers, ex-cells) agree with their independent decoders on every run of the search only. *)
Theorem sudoku_pzpr_agrees :
  forall rows w, rows <> [] -> (0 < w)%nat ->
    Forall (fun r => length r = w) rows -> Forall (Forall scell_ok) rows ->
    exists body,
      serialize_problem SUDOKU_COMBINATOR (VList (int_rows rows)) (Z.of_nat (length rows)) (Z.of_nat w) = Ok body /\
      encode_array (int_rows rows) marker_g (VInt 0) None = Ok body /\
      pzpr_decode_sudoku (length rows) w body = Some (VList (int_rows rows)).
Proof.
  intros rows w Hne Hw Hrect Hall. exists (enc_ints 0 (concat rows) 0).
  assert (Hall' : Forall (Forall (icell_ok 0)) rows).
  { eapply Forall_impl; [|exact Hall]. intros r Hr. eapply Forall_impl; [|exact Hr]. intros v Hv. right. exact Hv. }
  assert (Hrect' : Forall (fun r => Z.of_nat (length r) = Z.of_nat w) rows).
  { eapply Forall_impl; [|exact Hrect]. intros r Hr. simpl in Hr. rewrite Hr. reflexivity. }
  destruct (legacy_eq_grid 0 (Z.of_nat (length rows)) (Z.of_nat w) rows eq_refl Hrect' Hall' Hne) as [H1 H2].
  split; [exact H2|]. split; [exact H1|]. apply pzpr_sudoku_reads; assumption.
Qed.
Print Assumptions sudoku_pzpr_agrees.
