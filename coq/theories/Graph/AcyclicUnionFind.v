(* C09 (stretch): the bridge formulation [forest] coincides with the union-find
   formulation "no active edge joins two vertices already joined by earlier
   active edges" (uf_forest), i.e. with the usual no-cycle test. *)
From Coq Require Import ZArith List Bool Arith Lia.
From Cspuz Require Import Graph.GraphModel Graph.Acyclic Graph.AcyclicGraphFacts.
Import ListNotations.
Local Open Scope nat_scope.

(* the active edges with index below k *)
Definition below (A : nat -> bool) (k : nat) : nat -> bool := fun e => A e && Nat.ltb e k.

Section UF.
  Variable g : graph.
  Variable A : nat -> bool.

  Lemma joined_mono (eok eok' : nat -> bool) u v :
    (forall k, eok k = true -> eok' k = true) -> joined g eok u v -> joined g eok' u v.
  Proof. intros H. apply reach_mono; auto. Qed.

  Lemma joined_edge (eok : nat -> bool) k a b :
    nth_error (edges g) k = Some (a, b) -> eok k = true -> joined g eok a b.
  Proof.
    intros Hn Hk. apply reach_edge; try reflexivity. apply in_nbrs. exists k. split; [|exact Hk].
    apply in_incident. auto.
  Qed.

  (* adding one edge K = (a, b) to the allowed edges: a walk either does not
     need it, or decomposes around it *)
  Lemma add_edge_reach (eok eok' : nat -> bool) K a b u v :
    nth_error (edges g) K = Some (a, b) ->
    (forall k, eok' k = true -> eok k = true \/ k = K) ->
    joined g eok' u v ->
    joined g eok u v \/ (joined g eok u a /\ joined g eok b v) \/ (joined g eok u b /\ joined g eok a v).
  Proof.
    intros HK Hsub H. unfold joined in *.
    induction H as [v _|u v w Huv IH Hw _]; [left; apply reach_refl; reflexivity|].
    apply in_nbrs in Hw. destruct Hw as [k [Hin Hk]].
    destruct (Hsub k Hk) as [Hok| ->].
    - assert (Hstep : forall x, reach g all_vertices_ok eok x v -> reach g all_vertices_ok eok x w).
      { intros x Hx. eapply reach_step; [exact Hx| |reflexivity]. apply in_nbrs. exists k. auto. }
      destruct IH as [H1|[[H1 H2]|[H1 H2]]]; [left|right; left|right; right]; auto.
    - apply in_incident in Hin. rewrite HK in Hin.
      assert (Hrefl : forall x, reach g all_vertices_ok eok x x) by (intros x; apply reach_refl; reflexivity).
      destruct Hin as [E|E]; inversion E; subst.
      + (* v = a, w = b *)
        destruct IH as [H1|[[H1 H2]|[H1 H2]]].
        * right; left. split; [exact H1|apply Hrefl].
        * right; left. split; [exact H1|apply Hrefl].
        * left. exact H1.
      + (* v = b, w = a *)
        destruct IH as [H1|[[H1 H2]|[H1 H2]]].
        * right; right. split; [exact H1|apply Hrefl].
        * left. exact H1.
        * right; right. split; [exact H1|apply Hrefl].
  Qed.

  Lemma below_S_cases k e : below A (S k) e = true -> below A k e = true \/ e = k.
  Proof.
    unfold below. intros H. apply andb_true_iff in H. destruct H as [Ha Hl]. apply Nat.ltb_lt in Hl.
    destruct (Nat.eq_dec e k) as [->|Hne]; [right; reflexivity|left].
    rewrite Ha. simpl. apply Nat.ltb_lt. lia.
  Qed.

  Lemma below_mono k e : below A k e = true -> below A (S k) e = true.
  Proof.
    unfold below. intros H. apply andb_true_iff in H. destruct H as [Ha Hl]. apply Nat.ltb_lt in Hl.
    rewrite Ha. simpl. apply Nat.ltb_lt. lia.
  Qed.

  Lemma below_inactive k e : A k = false -> below A (S k) e = true -> below A k e = true.
  Proof.
    intros Hk H. destruct (below_S_cases k e H) as [H1| ->]; [exact H1|].
    unfold below in H. rewrite Hk in H. discriminate.
  Qed.

  (* ---------------------------------------------------------------- prefix characterisation *)

  Definition prefix_acyclic : Prop :=
    forall K a b, nth_error (edges g) K = Some (a, b) -> A K = true -> ~ joined g (below A K) a b.

  Lemma forest_prefix : forest g A -> prefix_acyclic.
  Proof.
    intros Hf K a b Hn Ha Hj. apply (Hf K a b Hn Ha). eapply joined_mono; [|exact Hj].
    intros k Hk. unfold below in Hk. unfold without. apply andb_true_iff in Hk. destruct Hk as [Hk1 Hk2].
    apply Nat.ltb_lt in Hk2. rewrite Hk1. simpl. apply negb_true_iff. apply Nat.eqb_neq. lia.
  Qed.

  Lemma prefix_forest_below : prefix_acyclic -> forall K, forest g (below A K).
  Proof.
    intros Hp. induction K as [|K IH].
    - intros e a b _ He. unfold below in He. rewrite andb_false_r in He. discriminate.
    - destruct (A K) eqn:HAK.
      2:{ intros e x y Hn He Hj. apply (IH e x y Hn (below_inactive K e HAK He)).
          eapply joined_mono; [|exact Hj]. intros k Hk. unfold without in *.
          apply andb_true_iff in Hk. destruct Hk as [Hk1 Hk2]. rewrite (below_inactive K k HAK Hk1). exact Hk2. }
      destruct (nth_error (edges g) K) as [[a b]|] eqn:HK.
      2:{ (* no such edge: nothing changes on real edges *)
          intros e x y Hn He Hj.
          assert (HeK : e <> K) by (intros ->; congruence).
          assert (He' : below A K e = true) by (destruct (below_S_cases K e He); [assumption|contradiction]).
          apply (IH e x y Hn He'). unfold joined in *.
          clear - Hj HK. induction Hj as [v Hv|u v w Huv IHr Hw Hok]; [apply reach_refl; exact Hv|].
          eapply reach_step; [exact IHr| |exact Hok].
          apply in_nbrs in Hw. destruct Hw as [k [Hin Hk]]. apply in_nbrs. exists k. split; [exact Hin|].
          unfold without in *. apply andb_true_iff in Hk. destruct Hk as [Hk1 Hk2].
          destruct (below_S_cases K k Hk1) as [H1| ->]; [rewrite H1; exact Hk2|].
          apply in_incident in Hin. destruct Hin as [E|E]; congruence. }
      pose proof (Hp K a b HK HAK) as Hnew.
      intros e x y Hn He Hj.
      destruct (Nat.eq_dec e K) as [->|HeK].
      + (* the new edge itself *)
        rewrite HK in Hn. inversion Hn; subst. apply Hnew. eapply joined_mono; [|exact Hj].
        intros k Hk. unfold without in Hk. apply andb_true_iff in Hk. destruct Hk as [Hk1 Hk2].
        apply negb_true_iff in Hk2. apply Nat.eqb_neq in Hk2.
        destruct (below_S_cases K k Hk1); [assumption|contradiction].
      + assert (He' : below A K e = true) by (destruct (below_S_cases K e He); [assumption|contradiction]).
        set (B := without (below A K) e).
        assert (Hsub : forall k, without (below A (S K)) e k = true -> B k = true \/ k = K).
        { intros k Hk. unfold without in Hk. apply andb_true_iff in Hk. destruct Hk as [Hk1 Hk2].
          destruct (below_S_cases K k Hk1) as [H1| ->]; [left|right; reflexivity].
          unfold B, without. rewrite H1. exact Hk2. }
        assert (HB : forall u v, joined g B u v -> joined g (below A K) u v).
        { intros u v. apply joined_mono. intros k Hk. unfold B, without in Hk.
          apply andb_true_iff in Hk. tauto. }
        assert (Hxy : joined g (below A K) x y) by (eapply joined_edge; eauto).
        destruct (add_edge_reach B _ K a b x y HK Hsub Hj) as [H1|[[H1 H2]|[H1 H2]]].
        * exact (IH e x y Hn He' H1).
        * apply Hnew. apply (reach_trans _ _ _ _ x); [apply reach_sym; apply HB; exact H1|].
          apply (reach_trans _ _ _ _ y); [exact Hxy|]. apply reach_sym. apply HB. exact H2.
        * apply Hnew. apply reach_sym. apply (reach_trans _ _ _ _ x); [apply reach_sym; apply HB; exact H1|].
          apply (reach_trans _ _ _ _ y); [exact Hxy|]. apply reach_sym. apply HB. exact H2.
  Qed.

  Lemma prefix_forest : prefix_acyclic -> forest g A.
  Proof.
    intros Hp e a b Hn Ha Hj.
    pose proof (prefix_forest_below Hp (length (edges g))) as Hf.
    assert (Hlt : e < length (edges g)) by (apply nth_error_Some; congruence).
    apply (Hf e a b Hn).
    - unfold below. rewrite Ha. simpl. apply Nat.ltb_lt. exact Hlt.
    - unfold joined in *. clear - Hj.
      induction Hj as [v Hv|u v w Huv IHr Hw Hok]; [apply reach_refl; exact Hv|].
      eapply reach_step; [exact IHr| |exact Hok].
      apply in_nbrs in Hw. destruct Hw as [k [Hin Hk]]. apply in_nbrs. exists k. split; [exact Hin|].
      unfold without, below in *. apply andb_true_iff in Hk. destruct Hk as [Hk1 Hk2]. rewrite Hk1, Hk2.
      apply in_incident in Hin.
      assert (k < length (edges g)) by (apply nth_error_Some; destruct Hin; congruence).
      apply Nat.ltb_lt in H. rewrite H. reflexivity.
  Qed.

  (* ---------------------------------------------------------------- union-find *)

  Definition uf_inv (uf : nat -> nat) (k : nat) : Prop :=
    forall u v, uf u = uf v <-> joined g (below A k) u v.

  Lemma no_edges_joined u v : joined g (below A 0) u v -> u = v.
  Proof.
    unfold joined. induction 1 as [v _|u v w _ IH Hw _]; [reflexivity|].
    apply in_nbrs in Hw. destruct Hw as [k [_ Hk]]. unfold below in Hk.
    rewrite andb_false_r in Hk. discriminate.
  Qed.

  Lemma uf_inv_init : uf_inv (fun v => v) 0.
  Proof.
    intros u v. split; [intros ->; apply reach_refl; reflexivity|apply no_edges_joined].
  Qed.

  Lemma uf_inv_skip uf k : A k = false -> uf_inv uf k -> uf_inv uf (S k).
  Proof.
    intros Hk Hinv u v. rewrite (Hinv u v). split; apply joined_mono.
    - apply below_mono.
    - intros e. apply below_inactive. exact Hk.
  Qed.

  Lemma uf_inv_union uf k a b :
    nth_error (edges g) k = Some (a, b) -> A k = true -> uf_inv uf k -> uf_inv (uf_union uf a b) (S k).
  Proof.
    intros HK Hk Hinv u v. unfold uf_union.
    assert (Hab : joined g (below A (S k)) a b).
    { eapply joined_edge; eauto. unfold below. rewrite Hk. simpl. apply Nat.ltb_lt. lia. }
    assert (Hup : forall x y, uf x = uf y -> joined g (below A (S k)) x y).
    { intros x y E. apply (joined_mono (below A k)); [apply below_mono|]. apply Hinv. exact E. }
    split.
    - intros E.
      destruct (Nat.eqb_spec (uf u) (uf a)) as [Eu|Eu], (Nat.eqb_spec (uf v) (uf a)) as [Ev|Ev].
      + apply Hup. congruence.
      + apply (reach_trans _ _ _ _ a); [apply Hup; exact Eu|].
        apply (reach_trans _ _ _ _ b); [exact Hab|]. apply Hup. exact E.
      + apply reach_sym. apply (reach_trans _ _ _ _ a); [apply Hup; exact Ev|].
        apply (reach_trans _ _ _ _ b); [exact Hab|]. apply Hup. symmetry. exact E.
      + apply Hup. exact E.
    - intros Hj.
      destruct (add_edge_reach (below A k) _ k a b u v HK (below_S_cases k) Hj) as [H1|[[H1 H2]|[H1 H2]]].
      + apply Hinv in H1. rewrite H1. reflexivity.
      + apply Hinv in H1. apply Hinv in H2. rewrite H1, Nat.eqb_refl.
        destruct (Nat.eqb_spec (uf v) (uf a)); congruence.
      + apply Hinv in H1. apply Hinv in H2. rewrite <- H2, Nat.eqb_refl.
        destruct (Nat.eqb_spec (uf u) (uf a)); congruence.
  Qed.

  Lemma uf_from_spec : forall es pre uf,
    edges g = pre ++ es -> uf_inv uf (length pre) ->
    (uf_forest_from uf (length pre) es A = true <->
     forall K a b, length pre <= K -> nth_error (edges g) K = Some (a, b) -> A K = true ->
                   ~ joined g (below A K) a b).
  Proof.
    induction es as [|[a b] r IH]; intros pre uf Hsplit Hinv; simpl.
    - split; [|reflexivity]. intros _ K x y HK Hn. exfalso.
      assert (K < length (edges g)) by (apply nth_error_Some; congruence).
      rewrite Hsplit, app_nil_r in H. lia.
    - assert (Hk : nth_error (edges g) (length pre) = Some (a, b)).
      { rewrite Hsplit, nth_error_app2, Nat.sub_diag by lia. reflexivity. }
      assert (Hsplit' : edges g = (pre ++ [(a, b)]) ++ r) by (rewrite <- app_assoc; exact Hsplit).
      assert (Hlen : length (pre ++ [(a, b)]) = S (length pre)) by (rewrite app_length; simpl; lia).
      destruct (A (length pre)) eqn:HA.
      + destruct (Nat.eqb_spec (uf a) (uf b)) as [E|E].
        * split; [discriminate|]. intros H. exfalso.
          apply (H (length pre) a b (le_n _) Hk HA). apply Hinv. exact E.
        * specialize (IH (pre ++ [(a, b)]) (uf_union uf a b) Hsplit').
          rewrite Hlen in IH. rewrite (IH (uf_inv_union uf _ a b Hk HA Hinv)).
          split; intros H K x y HK Hn Ha.
          -- destruct (Nat.eq_dec K (length pre)) as [->|Hne]; [|apply H; auto; lia].
             rewrite Hk in Hn. inversion Hn; subst. intros Hj. apply E. apply Hinv. exact Hj.
          -- apply H; auto. lia.
      + specialize (IH (pre ++ [(a, b)]) uf Hsplit').
        rewrite Hlen in IH. rewrite (IH (uf_inv_skip uf _ HA Hinv)).
        split; intros H K x y HK Hn Ha.
        * destruct (Nat.eq_dec K (length pre)) as [->|Hne]; [congruence|apply H; auto; lia].
        * apply H; auto. lia.
  Qed.

  Theorem uf_forest_spec : uf_forest g A = true <-> forest g A.
  Proof.
    unfold uf_forest.
    rewrite (uf_from_spec (edges g) [] (fun v => v) eq_refl uf_inv_init). simpl.
    split.
    - intros H. apply prefix_forest. intros K a b Hn Ha. apply H; auto. lia.
    - intros Hf K a b _ Hn Ha. apply (forest_prefix Hf K a b Hn Ha).
  Qed.
End UF.
