(* C17: the nine puzzle modules' deserialize_<p> (terms and options generated from the source
   into Gen/Codecs.v): totality and dimensions. *)
From Coq Require Import ZArith List Ascii Bool.
From Cspuz Require Import Lib.PyErr Codec.Comb Codec.CombWf Codec.Yajilin Codec.Puzzles
  Codec.TotalModel Codec.TotalLeaf Codec.TotalRooms Codec.Total Codec.TotalDims Codec.TotalRedecode Gen.Codecs.
Import ListNotations.
Local Open Scope Z_scope.

Lemma codecs_total_lemma : forall url,
  safe (run_de no_custom deserialize_nurikabe_w url) /\
  safe (run_de no_custom deserialize_masyu_w url) /\
  safe (run_de no_custom deserialize_slitherlink_w url) /\
  safe (run_de no_custom deserialize_sudoku_w url) /\
  safe (run_de no_custom deserialize_nurimisaki_w url) /\
  safe (run_de yajilin_custom deserialize_yajilin_w url) /\
  safe (run_de no_custom deserialize_heyawake_w url) /\
  safe (run_de no_custom deserialize_lits_w url) /\
  safe (run_de no_custom deserialize_norinori_w url).
Proof.
  intros url. unfold run_de.
  repeat split; apply url_total_lemma; try reflexivity;
    solve [right; reflexivity | left; exact yajilin_custom_total].
Qed.

(* what a deserialize_<p> returns, relative to the sizes written in the URL *)
Definition returns_grid (r : res (option pv)) (wd hd : str) : Prop :=
  forall v, r = Ok (Some v) ->
    exists w h, py_int wd 10 = Ok w /\ py_int hd 10 = Ok h /\ grid_shape h w v.
Definition returns_sized_rooms (r : res (option pv)) (wd hd : str) : Prop :=
  forall v, r = Ok (Some v) ->
    exists w h p, py_int wd 10 = Ok w /\ py_int hd 10 = Ok h /\ rooms_shape h w p /\ v = VTup [VInt h; VInt w; p].
Definition returns_sized_valued_rooms (r : res (option pv)) (wd hd : str) : Prop :=
  forall v, r = Ok (Some v) ->
    exists w h rooms values, py_int wd 10 = Ok w /\ py_int hd 10 = Ok h /\ rooms_shape h w rooms /\
      v = VTup [VInt h; VInt w; VTup [rooms; values]].

Lemma codecs_dims_lemma : forall url name wd hd body, url_match url = Some (name, wd, hd, body) ->
  returns_grid (run_de no_custom deserialize_nurikabe_w url) wd hd /\
  returns_grid (run_de no_custom deserialize_masyu_w url) wd hd /\
  returns_grid (run_de no_custom deserialize_slitherlink_w url) wd hd /\
  returns_grid (run_de no_custom deserialize_sudoku_w url) wd hd /\
  returns_grid (run_de no_custom deserialize_nurimisaki_w url) wd hd /\
  returns_grid (run_de yajilin_custom deserialize_yajilin_w url) wd hd /\
  returns_sized_valued_rooms (run_de no_custom deserialize_heyawake_w url) wd hd /\
  returns_sized_rooms (run_de no_custom deserialize_lits_w url) wd hd /\
  returns_sized_rooms (run_de no_custom deserialize_norinori_w url) wd hd.
Proof.
  intros url name wd hd body E. unfold run_de.
  repeat split; intros v Hv.
  1-6: (eapply url_dims_lemma in Hv; [|exact E]; destruct Hv as (w & h & p & Pw & Ph & Hs & ->); exists w, h; auto).
  - eapply url_vrooms_dims_lemma in Hv; [|exact E]. destruct Hv as (w & h & rooms & values & Pw & Ph & Hs & ->).
    exists w, h, rooms, values. auto.
  - eapply url_rooms_dims_lemma in Hv; [|exact E]. destruct Hv as (w & h & p & Pw & Ph & Hs & ->). exists w, h, p. auto.
  - eapply url_rooms_dims_lemma in Hv; [|exact E]. destruct Hv as (w & h & p & Pw & Ph & Hs & ->). exists w, h, p. auto.
Qed.

(* the grid puzzles whose cell combinator is a leaf or alternatives of leaves: a decoded problem that
   serializes decodes to itself again (C15's problem_roundtrip applied to the decoded value) *)
Lemma grid_codecs_redecode_lemma : forall c,
  In c [NURIKABE_COMBINATOR; MASYU_COMBINATOR; SLITHERLINK_COMBINATOR; SUDOKU_COMBINATOR; NURIMISAKI_COMBINATOR] ->
  forall s t h w p, 1 <= h -> 1 <= w ->
    deserialize_problem c s h w = Ok (Some p) -> serialize_problem c p h w = Ok t ->
    deserialize_problem c t h w = Ok (Some p).
Proof.
  intros c Hin. simpl in Hin.
  repeat (destruct Hin as [<-|Hin]; [intros s t h w p Hh Hw Hd Hs;
    (eapply grid_redecode_lemma; [exact Hh|exact Hw| | |exact Hd|exact Hs]; vm_compute; reflexivity)|]).
  contradiction.
Qed.
