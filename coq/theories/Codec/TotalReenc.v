(* C17: re-encodability, lifted through OneOf / Tupl / Seq / Grid / Rooms / ValuedRooms.

   [dom e c v]: v is a value of the shape the term c decodes to (defined by recursion on c).
   For every term satisfying the side conditions
     S1  whatever [de] returns is one item of [dom];
     S2  every value of [dom] is serialized ([ser] returns a text, no None, no exception) and lies
         in the domain ([accepts], [exact]) of C15's round-trip theorem;
   hence (C15's roundtrip_all) the canonical text decodes to the same value.  The canonical text
   need not be the text that was decoded (non-minimal run lengths, redundant borders, leading
   zeros): the statement is about the value.

   Side condition [reenc_ok] beyond wf / dec_ok / tupl_single, each shown necessary by a witness
   at the end of this file (all witnesses replayed on the Python code):
     - alternatives of a OneOf are the leaves Dict / Spaces / DecInt / HexInt / IntSpaces,
     - the space value of an IntSpaces alternative is accepted by some alternative,
     - Seq / Grid / ValuedRooms loop over such a OneOf, one of those leaves, or a MultiDigit
       with at least one digit,
     - Seq counts and explicit Grid sizes are not negative.                                  *)
From Coq Require Import ZArith List Ascii Bool NArith Lia Sorting.Permutation.
From Cspuz Require Import Lib.PyErr Codec.Comb Codec.CombWf Codec.CombBasics Codec.CombLeaf Codec.CombRoundTrip
  Codec.RoomsGrid Codec.RoomsProofs Codec.RoomsTotal
  Codec.TotalModel Codec.TotalLeaf Codec.Total Codec.TotalDims Codec.TotalRedecode Codec.TotalReencModel Codec.TotalReencLeaf.
Import ListNotations.
Local Open Scope Z_scope.


(* ------------------------------------------------------------------ the values a single-item term decodes to *)
Fixpoint dom (e : env) (c : comb) (v : pv) {struct c} : Prop :=
  match c with
  | Dict _ _ | DecInt | HexInt => leaf_dom c v = true
  | OneOf l => existsb (fun a => leaf_dom a v) l = true
  | Tupl l => exists ds, v = VTup ds /\
      (fix go (l : list comb) (ds : list pv) : Prop :=
         match l, ds with
         | [], [] => True
         | c1 :: l', d1 :: ds' =>
             (if is_fixstr c1 then d1 = VList [] else exists x, d1 = VList [x] /\ dom e c1 x) /\ go l' ds'
         | _, _ => False
         end) l ds
  | Seq c1 n => exists d, v = VList d /\ Z.of_nat (length d) = n /\ Forall (fun x => sdom c1 x = true) d
  | Grid c1 hw => exists rows, v = VList (map VList rows) /\
      Z.of_nat (length rows) = fst (grid_dims e hw) /\
      Forall (fun r => Z.of_nat (length r) = snd (grid_dims e hw)) rows /\
      Forall (fun x => sdom c1 x = true) (concat rows)
  | Rooms _ _ => exists rs, v = rooms_to_pv rs /\ canonical_rooms (height e) (width e) rs
  | ValuedRooms vc _ _ => exists rs values, v = VTup [rooms_to_pv rs; VList values] /\
      canonical_rooms (height e) (width e) rs /\ length values = length rs /\
      Forall (fun x => sdom vc x = true) values
  | _ => False
  end.

Definition tdom (e : env) :=
  fix go (l : list comb) (ds : list pv) : Prop :=
    match l, ds with
    | [], [] => True
    | c1 :: l', d1 :: ds' =>
        (if is_fixstr c1 then d1 = VList [] else exists x, d1 = VList [x] /\ dom e c1 x) /\ go l' ds'
    | _, _ => False
    end.

Lemma dom_tupl e l v : dom e (Tupl l) v = exists ds, v = VTup ds /\ tdom e l ds.
Proof. reflexivity. Qed.

(* what is proved of every term *)
Definition S1 (e : env) (c : comb) : Prop :=
  forall s n items, de e c s = Ok (Some (n, items)) -> exists v, items = [v] /\ dom e c v.
Definition S2 (e : env) (c : comb) : Prop :=
  forall v, dom e c v ->
    exists s, ser e c (VList [v]) 0 = Ok (Some (1%nat, s)) /\ accepts e c [v] 0 /\ exact e c [v] 0.
Definition REENC (e : env) (c : comb) : Prop :=
  single c = true -> wf c = true -> dec_ok c = true -> tupl_single c = true -> reenc_ok c = true ->
  S1 e c /\ S2 e c.

(* the decoder of Rooms returns a canonical partition (proved in Codec/TotalReencRooms.v) *)
Definition rooms_canon (e : env) : Prop :=
  forall skip allow s n items, de e (Rooms skip allow) s = Ok (Some (n, items)) ->
    exists rs, items = [rooms_to_pv rs] /\ canonical_rooms (height e) (width e) rs.

(* ------------------------------------------------------------------ small facts *)
Lemma pleaf_leaf c : pleaf c = true -> leaf c = true.
Proof. destruct c; simpl; auto. Qed.

Lemma pleaf_flat l : forallb pleaf l = true -> flat (OneOf l) = true.
Proof.
  simpl. induction l as [|a l IH]; simpl; auto. intros H. apply andb_true_iff in H as [H1 H2].
  rewrite (pleaf_leaf a H1). auto.
Qed.

Lemma sbase_flat c : sbase c = true -> flat c = true.
Proof.
  destruct c; simpl; try discriminate; auto.
  intros H. apply andb_true_iff in H as [H _]. apply (pleaf_flat choices H).
Qed.

Lemma pleaf_custom_free c : pleaf c = true -> custom_free c = true.
Proof. destruct c; simpl; auto; discriminate. Qed.

Lemma sbase_custom_free c : sbase c = true -> custom_free c = true.
Proof.
  destruct c; simpl; try discriminate; auto.
  intros H. apply andb_true_iff in H as [H _].
  induction choices as [|a l IH]; simpl in *; auto. apply andb_true_iff in H as [H1 H2].
  rewrite (pleaf_custom_free a H1). auto.
Qed.

Lemma pleaf_exact e c data idx : pleaf c = true -> exact e c data idx.
Proof. destruct c; simpl; try discriminate; intros; exact I. Qed.

Lemma oneof_pleaf_exact e l data idx : forallb pleaf l = true -> exact e (OneOf l) data idx.
Proof.
  rewrite exact_oneof. induction l as [|a l IH]; simpl; intros H; [exact I|].
  apply andb_true_iff in H as [H1 H2].
  destruct (ser e a (VList data) idx) as [[r|]|]; auto using pleaf_exact.
Qed.

Lemma gooddec_strengthen dec p sg (Q : pv -> Prop) : gooddec dec p sg anyv ->
  (forall s k l, dec s = Ok (Some (k, l)) -> Forall Q l) -> gooddec dec p sg Q.
Proof.
  intros H HQ s. destruct (H s) as [H1 H2]. split; auto.
  intros k l Hk. destruct (H2 k l Hk) as (A & B & C & _). repeat split; auto. eapply HQ; eauto.
Qed.

Lemma env_ok_nonneg e : env_ok e -> env_nonneg e.
Proof. intros [H1 H2]. unfold env_nonneg. nia. Qed.

(* the decoder of a scalar base, with its item domain *)
Lemma sbase_gooddec e c : env_ok e -> wf c = true -> sbase c = true -> dec_ok c = true -> productive c = true ->
  gooddec (de e c) true (single c) (fun v => sdom c v = true).
Proof.
  intros He Hwf Hs Hok Hp. apply gooddec_strengthen.
  - pose proof (de_good e (env_ok_nonneg e He) c Hok (or_intror (sbase_custom_free c Hs))) as Hg.
    unfold good in Hg. rewrite Hp in Hg. exact Hg.
  - intros s k l H. eapply sbase_de_dom; eauto.
Qed.

(* a single pointwise leaf returns exactly one item *)
Lemma single_leaf_one e c s n items : pleaf c = true -> single c = true ->
  de e c s = Ok (Some (n, items)) -> exists v, items = [v].
Proof.
  intros Hp Hs H. destruct c; try discriminate; simpl in H.
  - unfold dict_de_at in H. destruct s as [|c0 s]; [discriminate|].
    apply dict_de_in in H as (b & -> & _). eauto.
  - unfold decint_de in H. destruct s as [|c0 s]; [discriminate|].
    destruct (span_digits (c0 :: s)); [discriminate|].
    destruct (py_int _ 10); [|discriminate]. inversion H; eauto.
  - destruct (hexint_reencodable_lemma s n items H) as (z & t & -> & _). eauto.
Qed.

Lemma single_leaf_dom c v : pleaf c = true -> single c = true -> item_of c v -> leaf_dom c v = true.
Proof. intros Hp Hs [H|(mi & ms & -> & _)]; [exact H|discriminate]. Qed.

Lemma grid_rows_rows W : forall H d2, length d2 = (H * W)%nat ->
  exists rows, grid_rows d2 H W = map VList rows /\ length rows = H /\
    Forall (fun r : list pv => length r = W) rows /\ concat rows = d2.
Proof.
  induction H as [|H IH]; intros d2 Hl; simpl.
  - exists []. simpl. destruct d2; [auto|discriminate].
  - destruct (IH (skipn W d2)) as (rows & E & L & F & C). { rewrite skipn_length. lia. }
    exists (firstn W d2 :: rows). simpl. rewrite E, C, firstn_skipn. repeat split; auto.
    constructor; auto. rewrite firstn_length. lia.
Qed.

Lemma cells_of_nonempty h w : 1 <= h -> 1 <= w -> In (0%nat, 0%nat) (cells_of h w).
Proof.
  intros Hh Hw. replace h with (Z.of_nat (Z.to_nat h)) by lia. replace w with (Z.of_nat (Z.to_nat w)) by lia.
  apply cells_of_in. lia.
Qed.

Lemma canonical_nonempty h w rs : 1 <= h -> 1 <= w -> canonical_rooms h w rs -> rs <> [].
Proof.
  intros Hh Hw ((_ & Hperm & _) & _) E. subst rs. simpl in Hperm.
  apply Permutation_nil in Hperm. pose proof (cells_of_nonempty h w Hh Hw) as Hin. rewrite Hperm in Hin. exact Hin.
Qed.

(* ------------------------------------------------------------------ leaves and alternatives of leaves *)
Lemma leaf_reenc e c : pleaf c = true -> REENC e c.
Proof.
  intros Hp Hsg Hwf _ _ _. split.
  - intros s n items H. destruct (single_leaf_one e c s n items Hp Hsg H) as (v & ->).
    exists v. split; auto.
    pose proof (leaf_de_dom e c s n [v] Hwf (pleaf_pleafmd c Hp) H) as HF. inversion HF; subst.
    pose proof (single_leaf_dom c v Hp Hsg H2) as Hd.
    destruct c; try discriminate; exact Hd.
  - intros v Hd.
    assert (Hd' : leaf_dom c v = true) by (destruct c; try discriminate; exact Hd).
    destruct (leaf_ser_cases e c [v] 0 v Hwf Hp eq_refl) as [[_ E]|(k & s & E1 & _ & E3 & _)]; [congruence|].
    rewrite (E3 Hsg) in E1. exists s. split; [exact E1|]. split.
    + apply leaf_accepts. apply pleaf_leaf; auto.
    + apply pleaf_exact; auto.
Qed.

Lemma oneof_reenc e l : REENC e (OneOf l).
Proof.
  intros Hsg Hwf _ _ Hre. simpl in Hsg, Hre. apply wf_oneof in Hwf as (Hw & _).
  pose proof Hre as Hreb.
  rewrite forallb_forall in Hsg, Hre, Hw. split.
  - intros s n items H. rewrite de_oneof' in H.
    assert (Hgen : forall l0, (forall a, In a l0 -> In a l) -> oneof_de' e s l0 = Ok (Some (n, items)) ->
              exists v, items = [v] /\ existsb (fun a => leaf_dom a v) l = true).
    { induction l0 as [|a l0 IH]; intros Hsub H0; simpl in H0; [discriminate|].
      assert (Hin : In a l) by (apply Hsub; left; auto).
      destruct (de e a s) as [[[k0 it0]|]|] eqn:E; try discriminate.
      - inversion H0; subst.
        destruct (single_leaf_one e a s n items (Hre a Hin) (Hsg a Hin) E) as (v & ->).
        exists v. split; auto.
        pose proof (leaf_de_dom e a s n [v] (Hw a Hin) (pleaf_pleafmd a (Hre a Hin)) E) as HF. inversion HF; subst.
        apply existsb_exists. exists a. split; auto. apply single_leaf_dom; auto.
      - apply IH; auto. intros a' Ha'. apply Hsub. right; auto. }
    apply (Hgen l); auto.
  - intros v Hd. simpl in Hd.
    assert (Hgen : forall l0, (forall a, In a l0 -> In a l) -> existsb (fun a => leaf_dom a v) l0 = true ->
              exists s, oneof_ser' e (VList [v]) 0 l0 = Ok (Some (1%nat, s))).
    { induction l0 as [|a l0 IH]; intros Hsub Hex; simpl in Hex; [discriminate|].
      assert (Hin : In a l) by (apply Hsub; left; auto). simpl.
      destruct (leaf_ser_cases e a [v] 0 v (Hw a Hin) (Hre a Hin) eq_refl) as [[E1 E2]|(k & s & E1 & _ & E3 & _)].
      - rewrite E1. rewrite E2 in Hex. simpl in Hex. apply IH; auto. intros a' Ha'. apply Hsub. right; auto.
      - rewrite (E3 (Hsg a Hin)) in E1. rewrite E1. eauto. }
    destruct (Hgen l) as (s & E); auto.
    exists s. rewrite ser_oneof'. split; [exact E|]. split.
    + apply flat_accepts. apply pleaf_flat. exact Hreb.
    + apply oneof_pleaf_exact. exact Hreb.
Qed.

(* ------------------------------------------------------------------ Seq *)
Lemma seq_reenc e c1 n : env_ok e -> REENC e (Seq c1 n).
Proof.
  intros He _ Hwf Hok _ Hre. apply wf_seq in Hwf as (Hw1 & _).
  simpl in Hok, Hre. apply andb_true_iff in Hok as [Hok1 Hp1]. apply andb_true_iff in Hre as [Hs1 Hn].
  apply Z.leb_le in Hn. split.
  - intros s k items H. simpl in H.
    destruct (seq_de_good (de e c1) (single c1) _ (sbase_gooddec e c1 He Hw1 Hs1 Hok1 Hp1) n s) as [_ H2].
    destruct (H2 k items H) as (_ & ret & -> & Hl & HQ).
    exists (VList ret). split; auto. simpl. exists ret. auto.
  - intros v (d & -> & Hl & HQ). subst n.
    destruct (seq_ser_total e c1 d Hw1 Hs1 HQ) as (s & E). exists s. split; [exact E|]. split; [|exact I].
    simpl. exists d. repeat split; auto. intros p. apply flat_accepts. apply sbase_flat; auto.
Qed.

(* ------------------------------------------------------------------ Grid *)
Lemma grid_reenc e c1 hw : env_ok e -> REENC e (Grid c1 hw).
Proof.
  intros He _ Hwf Hok _ Hre. apply (wf_seq c1 0) in Hwf as (Hw1 & _).
  assert (Hdims : 0 <= fst (grid_dims e hw) /\ 0 <= snd (grid_dims e hw) /\ sbase c1 = true /\
                  dec_ok c1 = true /\ productive c1 = true).
  { destruct He as [Hh Hw]. destruct hw as [[h w]|]; simpl in *.
    - apply andb_true_iff in Hre as [Hs1 Hd]. apply andb_true_iff in Hd as [Hd1 Hd2].
      apply Z.leb_le in Hd1, Hd2. apply andb_true_iff in Hok as [Hok _]. apply andb_true_iff in Hok as [Hok1 Hp1]. auto.
    - apply andb_true_iff in Hre as [Hs1 _]. apply andb_true_iff in Hok as [Hok1 Hp1]. repeat split; auto; lia. }
  destruct Hdims as (Hh & Hw & Hs1 & Hok1 & Hp1). split.
  - intros s k items H. simpl in H.
    destruct (grid_de_good (de e c1) (single c1) _ e hw (sbase_gooddec e c1 He Hw1 Hs1 Hok1 Hp1) ltac:(nia) s) as [_ H2].
    destruct (H2 k items H) as (_ & d2 & -> & Hl & HQ).
    destruct (grid_rows_rows (Z.to_nat (snd (grid_dims e hw))) (Z.to_nat (fst (grid_dims e hw))) d2) as (rows & E & L & F & C).
    { nia. }
    exists (VList (map VList rows)). rewrite E. split; auto. simpl. exists rows. repeat split; auto.
    + lia.
    + eapply Forall_impl; [|exact F]. simpl. intros r Hr. lia.
    + rewrite C. exact HQ.
  - intros v (rows & -> & Hl & Hr & HQ).
    pose proof (concat_rows_length _ rows Hr) as Hlen. rewrite Hl in Hlen.
    destruct (seq_ser_total e c1 (concat rows) Hw1 Hs1 HQ) as (s & E).
    exists s. split; [|split; [|exact I]].
    + simpl. unfold grid_ser. cbn [py_items length Nat.eqb nth_res nth_error].
      rewrite (surjective_pairing (grid_dims e hw)).
      replace (Z.to_nat (fst (grid_dims e hw))) with (length rows) by lia.
      pose proof (grid_flatten_rows rows []) as Hfl. cbn [app length] in Hfl. rewrite Hfl.
      rewrite <- Hlen. exact E.
    + simpl. exists rows. repeat split; auto. intros p. apply flat_accepts. apply sbase_flat; auto.
Qed.

(* ------------------------------------------------------------------ Rooms *)
Lemma rooms_reenc e skip allow : env_ok e -> rooms_canon e -> REENC e (Rooms skip allow).
Proof.
  intros He Hrc _ _ _ _ _. split.
  - intros s n items H. destruct (Hrc skip allow s n items H) as (rs & -> & Hcan).
    exists (rooms_to_pv rs). split; auto. simpl. eauto.
  - intros v (rs & -> & Hcan).
    destruct (rooms_ser_total e skip rs He (proj1 Hcan)) as (s & E).
    exists s. split; [exact E|]. split; [|exact I]. simpl. exists rs. auto.
Qed.

(* ------------------------------------------------------------------ ValuedRooms *)
Lemma vrooms_reenc e vc skip allow : env_ok e -> rooms_canon e -> REENC e (ValuedRooms vc skip allow).
Proof.
  intros He Hrc _ Hwf Hok _ Hre. apply (wf_seq vc 0) in Hwf as (Hw1 & _).
  simpl in Hok, Hre. apply andb_true_iff in Hok as [Hok1 Hp1]. split.
  - intros s n items H. simpl in H. unfold vrooms_de in H.
    change (rooms_de e skip allow s) with (de e (Rooms skip allow) s) in H.
    destruct (de e (Rooms skip allow) s) as [[[ofs rooms]|]|] eqn:Er; try discriminate.
    destruct (Hrc skip allow s ofs rooms Er) as (rs & -> & Hcan).
    cbn [nth_res nth_error] in H. unfold rooms_to_pv in H at 1. cbn [py_items] in H. rewrite map_length in H.
    destruct (seq_de (de e vc) (Z.of_nat (length rs)) (skipn ofs s)) as [[[ofs2 values]|]|] eqn:Eq; try discriminate.
    destruct (seq_de_good (de e vc) (single vc) _ (sbase_gooddec e vc He Hw1 Hre Hok1 Hp1) (Z.of_nat (length rs)) (skipn ofs s)) as [_ H2].
    destruct (H2 ofs2 values Eq) as (_ & ret & -> & Hl & HQ). cbn [nth_res nth_error] in H.
    inversion H; subst. exists (VTup [rooms_to_pv rs; VList ret]). split; auto.
    simpl. exists rs, ret. split; [reflexivity|]. split; [exact Hcan|]. split; [|exact HQ]. specialize (Hl ltac:(lia)). lia.
  - intros v (rs & values & -> & Hcan & Hlen & HQ).
    destruct He as [Hh Hw]. pose proof (conj Hh Hw : env_ok e) as He.
    pose proof (canonical_nonempty _ _ rs Hh Hw Hcan) as Hne.
    destruct (rooms_ser_total e skip rs He (proj1 Hcan)) as (s1 & E1).
    destruct (seq_ser_total e vc values Hw1 Hre HQ) as (s2 & E2).
    exists (s1 ++ s2). split; [|split; [|exact I]].
    + simpl. unfold vrooms_ser. rewrite (with_item_at [_] 0 _ _ eq_refl).
      unfold rooms_to_pv at 1. cbn [py_items].
      rewrite (vr_sorted_canonical _ _ rs values Hcan Hlen).
      assert (Ef : map fst (map (fun p : list cell * pv => (room_to_pv (fst p), snd p)) (combine rs values)) = map room_to_pv rs).
      { rewrite map_map. cbn [fst]. rewrite <- (map_map fst room_to_pv). rewrite map_fst_combine; auto. }
      assert (Es : map snd (map (fun p : list cell * pv => (room_to_pv (fst p), snd p)) (combine rs values)) = values).
      { rewrite map_map. cbn [snd]. apply map_snd_combine; auto. }
      destruct (map (fun p : list cell * pv => (room_to_pv (fst p), snd p)) (combine rs values)) as [|p0 l0] eqn:Em.
      { exfalso. destruct rs as [|r rs']; [congruence|]. destruct values; simpl in *; discriminate. }
      cbv zeta. rewrite Ef, Es. rewrite map_length.
      change (VList (map room_to_pv rs)) with (rooms_to_pv rs). rewrite E1.
      rewrite <- Hlen. rewrite E2. reflexivity.
    + simpl. exists rs, values. split; [reflexivity|]. split; [exact Hcan|]. split; [exact Hlen|].
      intros p. apply flat_accepts. apply sbase_flat; auto.
Qed.

(* ------------------------------------------------------------------ Tupl *)
Definition elem_ok (e : env) (c : comb) : Prop :=
  (is_fixstr c = true \/ single c = true) /\ (is_fixstr c = false -> S1 e c /\ S2 e c).

Lemma tdom_length e : forall l ds, tdom e l ds -> length ds = length l.
Proof.
  induction l as [|c1 l IH]; intros [|d1 ds] H; simpl in *; try contradiction; auto.
  destruct H as [_ H]. rewrite (IH ds H). reflexivity.
Qed.

Lemma tupl_de_dom e : forall l, Forall (elem_ok e) l ->
  forall s ofs parts n r, tupl_de e l s ofs parts = Ok (Some (n, r)) ->
  exists ds, r = [VTup (parts ++ ds)] /\ tdom e l ds.
Proof.
  induction l as [|c1 l IH]; intros HF s ofs parts n r H; simpl in H.
  - inversion H; subst. exists []. rewrite app_nil_r. split; simpl; auto.
  - inversion HF as [|? ? [Hk H1] HF']; subst.
    destruct (de e c1 s) as [[[n_read val]|]|] eqn:E; try discriminate.
    destruct (IH HF' _ _ _ _ _ H) as (ds & -> & Hd).
    exists (VList val :: ds). rewrite <- app_assoc. split; auto. simpl. split; auto.
    destruct (is_fixstr c1) eqn:Ef.
    + destruct c1; try discriminate. simpl in E. unfold fixstr_de in E.
      destruct (Nat.ltb (length s) (length s0)); [discriminate|].
      destruct (str_eqb (firstn (length s0) s) s0); [|discriminate]. inversion E; subst. reflexivity.
    + destruct (H1 eq_refl) as [Hs1 _]. destruct (Hs1 s n_read val E) as (x & -> & Hx). eauto.
Qed.

Lemma tupl_ser_dom e : forall l, Forall (elem_ok e) l -> forall ds parts, tdom e l ds ->
  (exists s, tupl_ser e l ds parts = Ok (Some (1%nat, s))) /\ tupl_accepts e l ds.
Proof.
  induction l as [|c1 l IH]; intros HF ds parts Hd; destruct ds as [|d1 ds]; simpl in Hd; try contradiction.
  - split; [eexists; reflexivity|exact I].
  - inversion HF as [|? ? [Hk H1] HF']; subst. destruct Hd as [Hd1 Hd].
    destruct (is_fixstr c1) eqn:Ef.
    + destruct c1; try discriminate. subst d1. cbn [tupl_ser ser].
      destruct (IH HF' ds (parts ++ s) Hd) as [Hs Ha]. split; [exact Hs|].
      cbn [tupl_accepts]. split; [|exact Ha]. exists []. repeat split; auto.
      intros k s' E. simpl in E. inversion E; reflexivity.
    + destruct Hd1 as (x & -> & Hx). destruct (H1 eq_refl) as [_ Hs2].
      destruct (Hs2 x Hx) as (s1 & E1 & A1 & X1). cbn [tupl_ser]. rewrite E1.
      destruct (IH HF' ds (parts ++ s1) Hd) as [Hs Ha]. split; [exact Hs|].
      cbn [tupl_accepts]. split; [|exact Ha]. exists [x]. repeat split; auto.
      intros k s' E. rewrite E1 in E. inversion E; reflexivity.
Qed.

Lemma tupl_reenc e l : Forall (elem_ok e) l -> S1 e (Tupl l) /\ S2 e (Tupl l).
Proof.
  intros HF. split.
  - intros s n items H. rewrite de_tupl in H.
    destruct (tupl_de_dom e l HF s 0%nat [] n items H) as (ds & -> & Hd).
    exists (VTup ds). split; auto. rewrite dom_tupl. eauto.
  - intros v Hv. rewrite dom_tupl in Hv. destruct Hv as (ds & -> & Hd).
    destruct (tupl_ser_dom e l HF ds [] Hd) as [(s & E) Ha].
    exists s. split; [|split; [|exact I]].
    + rewrite ser_tupl. rewrite (with_item_at [_] 0 _ _ eq_refl).
      rewrite (tdom_length e l ds Hd), Nat.eqb_refl. exact E.
    + rewrite accepts_tupl. exists ds. split; auto.
Qed.

(* ------------------------------------------------------------------ all terms *)
Theorem reenc_all e : env_ok e -> forall c, rooms_canon e \/ rooms_free c = true -> REENC e c.
Proof.
  intros He. induction c using comb_ind'; intros Hr.
  - intros Hsg. discriminate.
  - apply leaf_reenc. reflexivity.
  - intros Hsg. discriminate.
  - apply leaf_reenc. reflexivity.
  - apply leaf_reenc. reflexivity.
  - intros Hsg. discriminate.
  - intros Hsg. discriminate.
  - apply oneof_reenc.
  - intros _ Hwf Hok Hts Hre. apply tupl_reenc.
    apply wf_tupl in Hwf as (Hw & _). simpl in Hok, Hts, Hre.
    assert (Hr' : rooms_canon e \/ forallb rooms_free l = true) by (destruct Hr; auto).
    clear Hr. induction H as [|c l Hc _ IH]; constructor.
    + simpl in Hw, Hok, Hts, Hre.
      apply andb_true_iff in Hw as [Hw1 _]. apply andb_true_iff in Hok as [Hok1 _].
      apply andb_true_iff in Hts as [Hts1 _]. apply andb_true_iff in Hre as [Hre1 _].
      apply andb_true_iff in Hts1 as [Hk Hts1]. apply orb_true_iff in Hk. split.
      * destruct Hk; auto.
      * intros Hf. destruct Hk as [Hk|Hk]; [|congruence]. apply Hc; auto.
        destruct Hr' as [Hr'|Hr']; auto. simpl in Hr'. apply andb_true_iff in Hr' as [Hr' _]. auto.
    + simpl in Hw, Hok, Hts, Hre.
      apply andb_true_iff in Hw as [_ Hw]. apply andb_true_iff in Hok as [_ Hok].
      apply andb_true_iff in Hts as [_ Hts]. apply andb_true_iff in Hre as [_ Hre].
      apply IH; auto. destruct Hr' as [Hr'|Hr']; auto. simpl in Hr'. apply andb_true_iff in Hr' as [_ Hr']. auto.
  - apply seq_reenc; auto.
  - apply grid_reenc; auto.
  - destruct Hr as [Hr|Hr]; [|discriminate]. apply rooms_reenc; auto.
  - destruct Hr as [Hr|Hr]; [|discriminate]. apply vrooms_reenc; auto.
  - intros _ Hwf. discriminate.
Qed.

(* ------------------------------------------------------------------ the statement, for terms satisfying the side condition *)
Theorem de_reencodable_gen e c s n p : env_ok e -> rooms_canon e \/ rooms_free c = true ->
  wf c = true -> tupl_single c = true -> dec_ok c = true -> single c = true -> reenc_ok c = true ->
  de e c s = Ok (Some (n, [p])) ->
  exists t, ser e c (VList [p]) 0 = Ok (Some (1%nat, t)) /\ de e c t = Ok (Some (length t, [p])).
Proof.
  intros He Hr Hwf Hts Hok Hsg Hre Hd.
  destruct (reenc_all e He c Hr Hsg Hwf Hok Hts Hre) as [H1 H2].
  destruct (H1 s n [p] Hd) as (v & Ev & Hv). inversion Ev; subst v.
  destruct (H2 p Hv) as (t & Es & Ha & Hx). exists t. split; [exact Es|].
  destruct (roundtrip_all e c He Hwf [p] 0%nat 1%nat t [] Es Ha I) as (items & Hde & Hf & _ & Hl).
  rewrite app_nil_r in Hde. rewrite Hde. specialize (Hl Hx).
  destruct items as [|i0 [|i1 items]]; simpl in Hl; try discriminate. simpl in Hf. inversion Hf; subst. reflexivity.
Qed.
