(* C11 Tier 1 - fivecells: the program posted by solve_fivecells (model Puzzle/Fivecells.v) accepts a border pattern
   exactly when it obeys the published rules (Rules_fivecells.v), for every board shape and every layout of holes
   and numbers.  The "regions of five cells" rule goes through property C07 (graph.division_connected_variable_groups
   with a scalar group size; Puzzle/GroupsCompose.v::groups_compose); the solver's graph lives on the renumbered usable
   cells, the rule graph on all cells (GroupsCompose.v::emb_border_exact); the number clues are read on the border
   pattern through is_border[k] == (group_id[u] != group_id[v]). *)
From Coq Require Import ZArith List Bool Arith Lia.
From Cspuz Require Import Lib.PyErr Core.Expr Core.Program Core.Build Graph.GraphModel Graph.ReachProofs
     Graph.VarGroups Graph.VarGroupsSound Graph.VarGroupsEval Graph.VarGroupsMain Graph.VarGroupsExact
     Graph.VarGroupsSized Graph.VarGroupsCut Graph.VarGroupsBorders
     Puzzle.PuzzleBase Puzzle.SatAbs Puzzle.ModelBase Puzzle.ModelLemmas Puzzle.CreekProofs Puzzle.DivisionCompose
     Puzzle.GroupsCompose Puzzle.Rules_fivecells Puzzle.Fivecells.
Import ListNotations.
Local Open Scope nat_scope.
Local Arguments Nat.mul : simpl never.

Notation pcount := PuzzleBase.count.

(* ------------------------------------------------------------------------ *)
(* vertex ids                                                                 *)

Section Vid.
  Variable grid : list Z.
  Notation U := (fc_usable grid).
  Notation vid := (fc_vid grid).

  Lemma vid_S v : vid (S v) = vid v + (if U v then 1 else 0).
  Proof.
    unfold fc_vid, PuzzleBase.count. rewrite seq_S, filter_app, app_length. simpl.
    destruct (U v); reflexivity.
  Qed.

  Lemma vid_mono u v : u <= v -> vid u <= vid v.
  Proof. induction 1 as [|v _ IH]; [lia|]. rewrite vid_S. lia. Qed.

  Lemma vid_lt u v : u < v -> U u = true -> vid u < vid v.
  Proof.
    intros Huv Hu. assert (H : vid (S u) <= vid v) by (apply vid_mono; lia).
    rewrite vid_S, Hu in H. lia.
  Qed.

  Lemma vid_inj u v : U u = true -> U v = true -> vid u = vid v -> u = v.
  Proof.
    intros Hu Hv E. destruct (Nat.lt_trichotomy u v) as [L|[L|L]]; [|exact L|].
    - pose proof (vid_lt u v L Hu). lia.
    - pose proof (vid_lt v u L Hv). lia.
  Qed.

  Lemma vid_sur N : forall i, i < vid N -> exists u, u < N /\ U u = true /\ vid u = i.
  Proof.
    induction N as [|N IH]; intros i Hi; [unfold fc_vid, PuzzleBase.count in Hi; simpl in Hi; lia|].
    rewrite vid_S in Hi. destruct (Nat.lt_ge_cases i (vid N)) as [L|L].
    - destruct (IH i L) as [u [Hu H]]. exists u. split; [lia|exact H].
    - destruct (U N) eqn:E; [|lia]. exists N. repeat split; [lia|exact E|lia].
  Qed.
End Vid.

Lemma cell_eq w y x y' x' : x < w -> x' < w -> y * w + x = y' * w + x' -> y = y' /\ x = x'.
Proof. intros Hx Hx' E. destruct (Nat.lt_trichotomy y y') as [L|[L|L]]; [nia|subst; lia|nia]. Qed.

Lemma cells_NoDup h w : NoDup (cells h w).
Proof. apply (NoDup_map_inv (cidx w)). rewrite cells_cidx. apply seq_NoDup. Qed.

Lemma NoDup_app_disj {A} (l1 l2 : list A) :
  NoDup l1 -> NoDup l2 -> (forall e, In e l1 -> In e l2 -> False) -> NoDup (l1 ++ l2).
Proof.
  induction l1 as [|a r IH]; simpl; intros H1 H2 Hd; [exact H2|].
  inversion H1 as [|? ? Ha Hr]; subst. constructor.
  - rewrite in_app_iff. intros [H|H]; [contradiction|]. apply (Hd a); [left; reflexivity|exact H].
  - apply IH; [exact Hr|exact H2|]. intros e He. apply Hd. right; exact He.
Qed.

Lemma NoDup_flat_map_disj {A B} (f : A -> list B) (l : list A) :
  NoDup l -> (forall x, In x l -> NoDup (f x)) ->
  (forall x y e, In x l -> In y l -> x <> y -> In e (f x) -> In e (f y) -> False) ->
  NoDup (flat_map f l).
Proof.
  induction 1 as [|a r Ha Hr IH]; intros Hf Hd; simpl; [constructor|].
  apply NoDup_app_disj.
  - apply Hf. left; reflexivity.
  - apply IH; [intros x Hx; apply Hf; right; exact Hx|].
    intros x y e Hx Hy. apply Hd; right; assumption.
  - intros e He Hin. apply in_flat_map in Hin. destruct Hin as [y [Hy Hey]].
    apply (Hd a y e); [left; reflexivity|right; exact Hy| |exact He|exact Hey].
    intros ->. contradiction.
Qed.

(* incident edges of a graph without parallel edges whose edges all point upwards: distinct neighbours *)
Lemma incident_from_nodup es : NoDup es -> (forall a b, In (a, b) es -> a < b) ->
  forall i k, NoDup (map fst (incident_from i k es)).
Proof.
  induction 1 as [|[a b] r Hab Hr IH]; intros Hlt i k; simpl; [constructor|].
  assert (Hlt' : forall a b, In (a, b) r -> a < b) by (intros; apply Hlt; right; assumption).
  assert (Hab' : a < b) by (apply Hlt; left; reflexivity).
  assert (Hno : forall j, In j (map fst (incident_from i (S k) r)) -> In (i, j) r \/ In (j, i) r).
  { intros j Hj. apply in_map_iff in Hj. destruct Hj as [[j' k'] [E Hin]]. simpl in E. subst j'.
    apply incident_from_spec in Hin. destruct Hin as [q [_ [H|H]]]; apply nth_error_In in H; tauto. }
  rewrite !map_app. destruct (Nat.eqb_spec a i) as [->|Na]; destruct (Nat.eqb_spec b i) as [->|Nb]; simpl.
  - lia.
  - constructor; [|apply IH; exact Hlt']. intros Hin. destruct (Hno b Hin) as [H|H]; [contradiction|].
    apply Hlt' in H. lia.
  - constructor; [|apply IH; exact Hlt']. intros Hin. destruct (Hno a Hin) as [H|H]; [|contradiction].
    apply Hlt' in H. lia.
  - apply IH; exact Hlt'.
Qed.

Lemma count_same_elements (P : nat -> bool) (l1 l2 : list nat) :
  NoDup l1 -> NoDup l2 -> (forall x, In x l1 <-> In x l2) -> pcount P l1 = pcount P l2.
Proof.
  intros N1 N2 E. unfold PuzzleBase.count. apply same_elements_length; try (apply NoDup_filter; assumption).
  intros x. rewrite !filter_In, E. reflexivity.
Qed.

(* ------------------------------------------------------------------------ *)
(* the board                                                                  *)

Section Board.
  Variables (h w : nat) (grid : list Z).
  Notation U := (fc_usable grid).
  Notation vid := (fc_vid grid).
  Let rg := fivecells_graph h w grid.
  Let sg := fc_graph h w grid.

  Lemma rg_edges : edges rg = fc_pairs h w grid.
  Proof. reflexivity. Qed.
  Lemma rg_nv : nv rg = h * w.
  Proof. reflexivity. Qed.
  Lemma sg_edges : edges sg = map (fun '(u, v) => (vid u, vid v)) (edges rg).
  Proof. reflexivity. Qed.

  Lemma pairs_in a b :
    In (a, b) (fc_pairs h w grid) <->
    exists y x, y < h /\ x < w /\ U (y * w + x) = true /\ a = y * w + x /\
                ((S y < h /\ U (S y * w + x) = true /\ b = S y * w + x) \/
                 (S x < w /\ U (y * w + S x) = true /\ b = y * w + S x)).
  Proof.
    unfold fc_pairs. rewrite in_flat_map. split.
    - intros [[y x] [Hc Hin]]. apply cells_in in Hc. destruct Hc as [Hy Hx]. exists y, x.
      destruct (U (y * w + x)) eqn:E; [|destruct Hin].
      split; [exact Hy|]. split; [exact Hx|]. split; [reflexivity|].
      apply in_app_iff in Hin. destruct Hin as [Hin|Hin].
      + destruct (Nat.ltb_spec (S y) h) as [L|L]; [|destruct Hin].
        destruct (U (S y * w + x)) eqn:E2; [|destruct Hin]. destruct Hin as [Hin|[]].
        inversion Hin; subst. split; [reflexivity|]. left. repeat split; assumption.
      + destruct (Nat.ltb_spec (S x) w) as [L|L]; [|destruct Hin].
        destruct (U (y * w + S x)) eqn:E2; [|destruct Hin]. destruct Hin as [Hin|[]].
        inversion Hin; subst. split; [reflexivity|]. right. repeat split; assumption.
    - intros [y [x [Hy [Hx [E [-> Hb]]]]]]. exists (y, x). split; [apply cells_in; split; assumption|].
      rewrite E. apply in_app_iff. destruct Hb as [[L [E2 ->]]|[L [E2 ->]]]; [left|right];
        apply Nat.ltb_lt in L; rewrite L, E2; left; reflexivity.
  Qed.

  Lemma pairs_lt a b : In (a, b) (fc_pairs h w grid) -> a < b /\ b < h * w /\ U a = true /\ U b = true.
  Proof.
    intros H. apply pairs_in in H. destruct H as [y [x [Hy [Hx [E [-> Hb]]]]]].
    destruct Hb as [[L [E2 ->]]|[L [E2 ->]]]; repeat split; try assumption; nia.
  Qed.

  Lemma rg_wf : wf_graph rg = true.
  Proof.
    unfold wf_graph. apply forallb_forall. intros [a b] Hin. apply pairs_lt in Hin.
    rewrite rg_nv. apply andb_true_iff. split; apply Nat.ltb_lt; lia.
  Qed.

  Lemma pairs_NoDup : NoDup (fc_pairs h w grid).
  Proof.
    unfold fc_pairs. apply NoDup_flat_map_disj; [apply cells_NoDup| |].
    - intros [y x] Hc. apply cells_in in Hc. destruct (U (y * w + x)); [|constructor].
      destruct (Nat.ltb (S y) h && U (S y * w + x)); destruct (Nat.ltb_spec (S x) w) as [L|L]; simpl;
        try destruct (U (y * w + S x)); simpl; repeat constructor; simpl; try tauto.
      intros [H|[]]. inversion H. nia.
    - intros [y x] [y' x'] [a b] Hc Hc' Hne Hin Hin'. apply cells_in in Hc. apply cells_in in Hc'.
      assert (Ha : forall y x, In (a, b) (if U (y * w + x) then
          (if Nat.ltb (S y) h && U (S y * w + x) then [(y * w + x, S y * w + x)] else []) ++
          (if Nat.ltb (S x) w && U (y * w + S x) then [(y * w + x, y * w + S x)] else []) else []) -> a = y * w + x).
      { clear. intros y x H. destruct (U (y * w + x)); [|destruct H]. apply in_app_iff in H.
        destruct H as [H|H]; match type of H with context [if ?c then _ else _] => destruct c end;
          simpl in H; try contradiction; destruct H as [H|[]]; inversion H; reflexivity. }
      apply Ha in Hin. apply Ha in Hin'. subst a.
      destruct (cell_eq w y x y' x' ltac:(tauto) ltac:(tauto) Hin'). apply Hne. congruence.
  Qed.

  (* the embedding of the usable cells *)
  Lemma fc_HeS k u v : nth_error (edges rg) k = Some (u, v) -> U u = true /\ U v = true.
  Proof. intros H. apply nth_error_In in H. apply pairs_lt in H. tauto. Qed.
  Lemma fc_Hinj u v : u < nv rg -> v < nv rg -> U u = true -> U v = true -> vid u = vid v -> u = v.
  Proof. intros _ _. apply vid_inj. Qed.
  Lemma fc_Hran u : u < nv rg -> U u = true -> vid u < nv sg.
  Proof. intros Hu Su. apply vid_lt; assumption. Qed.
  Lemma fc_Hsur i : i < nv sg -> exists u, u < nv rg /\ U u = true /\ vid u = i.
  Proof. apply vid_sur. Qed.

  Lemma sg_wf : wf_graph sg = true.
  Proof. apply (emb_wf rg sg vid U rg_wf sg_edges fc_HeS fc_Hran). Qed.

  (* the usable neighbours of a cell, as listed by the solver and as found in the rule graph *)
  Lemma nbrs_len y x : length (fc_nbrs h w grid y x) <= 4.
  Proof.
    unfold fc_nbrs. rewrite !app_length.
    destruct (_ && _); destruct (_ && _); destruct (_ && _); destruct (_ && _); simpl; lia.
  Qed.

  Lemma nbrs_spec4 y x j :
    In j (fc_nbrs h w grid y x) <->
    ((0 < y /\ U j = true /\ j = (y - 1) * w + x) \/ (S y < h /\ U j = true /\ j = S y * w + x) \/
     (0 < x /\ U j = true /\ j = y * w + (x - 1)) \/ (S x < w /\ U j = true /\ j = y * w + S x)).
  Proof.
    unfold fc_nbrs. rewrite !in_app_iff.
    assert (P : forall (c : bool) (u : bool) (a : nat) (Q : Prop), (c = true <-> Q) ->
                (In j (if c && u then [a] else []) <-> (Q /\ u = true /\ j = a))).
    { intros c u a Q HQ. destruct c, u; simpl; split; try tauto.
      - intros [E|[]]. split; [apply HQ; reflexivity|]. split; [reflexivity|congruence].
      - intros [_ [_ E]]. left. congruence.
      - intros [_ [E _]]. discriminate.
      - intros [H _]. apply HQ in H. discriminate.
      - intros [H _]. apply HQ in H. discriminate. }
    rewrite (P (Nat.ltb 0 y) _ _ (0 < y) (Nat.ltb_lt 0 y)), (P (Nat.ltb (S y) h) _ _ (S y < h) (Nat.ltb_lt (S y) h)),
            (P (Nat.ltb 0 x) _ _ (0 < x) (Nat.ltb_lt 0 x)), (P (Nat.ltb (S x) w) _ _ (S x < w) (Nat.ltb_lt (S x) w)).
    split; intros H; repeat destruct H as [H|H]; destruct H as [H1 [H2 H3]]; subst j; tauto.
  Qed.

  Lemma nbrs_in y x j : y < h -> x < w -> U (y * w + x) = true ->
    (In j (fc_nbrs h w grid y x) <->
     (In (y * w + x, j) (fc_pairs h w grid) \/ In (j, y * w + x) (fc_pairs h w grid))).
  Proof.
    intros Hy Hx Uv. rewrite nbrs_spec4, !pairs_in. split.
    - intros [[H0 [Uj ->]]|[[L [Uj ->]]|[[H0 [Uj ->]]|[L [Uj ->]]]]].
      + right. exists (y - 1), x. assert (E : S (y - 1) = y) by lia. rewrite E.
        repeat split; try assumption; try lia. left. repeat split; assumption.
      + left. exists y, x. repeat split; try assumption. left. repeat split; assumption.
      + right. exists y, (x - 1). assert (E : S (x - 1) = x) by lia. rewrite E.
        repeat split; try assumption; try lia. right. repeat split; assumption.
      + left. exists y, x. repeat split; try assumption. right. repeat split; assumption.
    - intros [[y' [x' [Hy' [Hx' [Ua [Ea Hb]]]]]]|[y' [x' [Hy' [Hx' [Ua [Ea Hb]]]]]]].
      + destruct (cell_eq w y x y' x' Hx Hx' Ea) as [<- <-].
        destruct Hb as [[L [Ub ->]]|[L [Ub ->]]]; [right; left|right; right; right]; repeat split; assumption.
      + destruct Hb as [[L [Ub Eb]]|[L [Ub Eb]]].
        * destruct (cell_eq w y x (S y') x' Hx Hx' Eb) as [-> <-]. left.
          assert (E : S y' - 1 = y') by lia. rewrite E. subst j. repeat split; try assumption; lia.
        * destruct (cell_eq w y x y' (S x') Hx L Eb) as [<- ->]. right; right; left.
          assert (E : S x' - 1 = x') by lia. rewrite E. subst j. repeat split; try assumption; lia.
  Qed.

  Lemma nbrs_NoDup y x : x < w -> NoDup (fc_nbrs h w grid y x).
  Proof.
    intros Hx. unfold fc_nbrs.
    assert (Hup : 0 < y -> (y - 1) * w + w = y * w).
    { intros H0. destruct y as [|y']; [lia|]. replace (S y' - 1) with y' by lia. rewrite Nat.mul_succ_l. lia. }
    rewrite Nat.mul_succ_l.
    destruct (Nat.ltb_spec 0 y); destruct (Nat.ltb_spec (S y) h); destruct (Nat.ltb_spec 0 x);
      destruct (Nat.ltb_spec (S x) w); simpl;
      repeat match goal with |- context [if ?c then _ else _] => destruct c end; simpl;
      repeat constructor; simpl; intuition lia.
  Qed.

  Lemma inc_in v j :
    In j (map fst (incident rg v)) <-> (In (v, j) (fc_pairs h w grid) \/ In (j, v) (fc_pairs h w grid)).
  Proof.
    rewrite in_map_iff. split.
    - intros [[j' k] [E Hin]]. simpl in E. subst j'. apply incident_spec in Hin.
      destruct Hin as [H|H]; apply nth_error_In in H; [left|right]; exact H.
    - intros [H|H]; apply In_nth_error in H; destruct H as [k Hk]; exists (j, k); (split; [reflexivity|]);
        apply incident_spec; [left|right]; exact Hk.
  Qed.

  Lemma inc_NoDup v : NoDup (map fst (incident rg v)).
  Proof.
    unfold incident. apply incident_from_nodup; [apply pairs_NoDup|].
    intros a b H. apply pairs_lt in H. tauto.
  Qed.

  (* ---------------------------------------------------------------------- *)
  (* the number clues                                                         *)

  Definition fc_local (bp : nat -> bool) : bool :=
    forallb (fun v =>
       let c := getz grid v in
       (c <? 0)%Z ||
       let inc := incident rg v in
       (Z.of_nat (pcount (fun '(_, k) => bp k) inc + (4 - length inc)) =? c)%Z) (seq 0 (h * w)).

  Lemma gid_eval gsem en i : i < nv sg -> eval gsem en (at_ (gc_gid sg) i) = Some (VI (ei en i)).
  Proof. intros Hi. unfold gc_gid, main_gid. rewrite at_ivars by exact Hi. reflexivity. Qed.

  Lemma fc_clues_sem gsem en bp :
    (forall k a b, nth_error (edges sg) k = Some (a, b) -> bp k = negb (ei en a =? ei en b)%Z) ->
    forallb (holds gsem en) (fc_clues h w grid (gc_gid sg)) = fc_local bp.
  Proof.
    intros Hp. unfold fc_clues, fc_local. rewrite ModelLemmas.forallb_flat_map.
    rewrite <- (forallb_cells_seq h w). apply ModelLemmas.forallb_ext_in.
    intros [y x] Hc. apply cells_in in Hc. destruct Hc as [Hy Hx]. unfold cidx. cbn [fst snd].
    unfold fc_clue. set (v := y * w + x). cbv zeta.
    destruct (Z.leb_spec 0 (getz grid v)) as [Hc|Hc].
    2:{ destruct (Z.ltb_spec (getz grid v) 0); [reflexivity|lia]. }
    destruct (Z.ltb_spec (getz grid v) 0) as [?|_]; [lia|]. rewrite orb_false_l. cbn [forallb]. rewrite andb_true_r.
    assert (Uv : U v = true) by (unfold fc_usable; apply Z.leb_le; lia).
    assert (Hv : v < h * w) by (unfold v; nia).
    set (nb := fc_nbrs h w grid y x).
    set (D := fun u => negb (ei en (vid v) =? ei en (vid u))%Z).
    assert (Hnb : forall u, In u nb -> u < h * w /\ U u = true).
    { intros u Hu. apply (nbrs_in y x u Hy Hx Uv) in Hu. destruct Hu as [H|H]; apply pairs_lt in H; split; try tauto; lia. }
    rewrite map_length.
    transitivity ((bcount D nb =? getz grid v - (4 - Z.of_nat (length nb)))%Z).
    { apply holds_of_eval. apply ev_i_eq; [|reflexivity].
      apply (ev_count_true gsem en (fun u => i_ne (at_ (gc_gid sg) (vid v)) (at_ (gc_gid sg) (vid u))) D nb).
      intros u Hu. destruct (Hnb u Hu) as [Hu1 Hu2].
      apply ev_i_ne; apply gid_eval; apply vid_lt; assumption. }
    set (inc := incident rg v).
    assert (E1 : pcount (fun '(_, k) => bp k) inc = pcount D nb).
    { transitivity (pcount (fun jk => D (fst jk)) inc).
      - apply count_ext_in. intros [j k] Hin. cbn [fst]. apply incident_spec in Hin. unfold D.
        destruct Hin as [H|H]; rewrite (Hp k _ _ (eq_trans (f_equal (fun l => nth_error l k) sg_edges)
                                          (eq_trans (nth_error_map _ k (edges rg)) (f_equal (option_map _) H))));
          [reflexivity|rewrite Z.eqb_sym; reflexivity].
      - rewrite <- (count_map D fst inc). apply count_same_elements; [apply inc_NoDup|apply nbrs_NoDup; exact Hx|].
        intros j. unfold inc. rewrite inc_in. symmetry. apply nbrs_in; assumption. }
    assert (E2 : length inc = length nb).
    { rewrite <- (map_length fst inc). apply same_elements_length; [apply inc_NoDup|apply nbrs_NoDup; exact Hx|].
      intros j. unfold inc. rewrite inc_in. symmetry. apply nbrs_in; assumption. }
    rewrite E1, E2. pose proof (nbrs_len y x) as L. fold nb in L.
    change (bcount D nb) with (Z.of_nat (pcount D nb)).
    destruct (Z.eqb_spec (Z.of_nat (pcount D nb)) (getz grid v - (4 - Z.of_nat (length nb))));
      destruct (Z.eqb_spec (Z.of_nat (pcount D nb + (4 - length nb))) (getz grid v)); try reflexivity; lia.
  Qed.

  Lemma fc_local_ext p p' : (forall k, k < length (edges sg) -> p k = p' k) -> fc_local p = fc_local p'.
  Proof.
    intros E. unfold fc_local. apply ModelLemmas.forallb_ext_in. intros v _. cbv zeta. f_equal. f_equal. f_equal. f_equal.
    apply count_ext_in. intros [j k] Hin. apply E. rewrite sg_edges, map_length.
    apply incident_spec in Hin. destruct Hin as [H|H]; apply (nth_error_lt _ _ _ H).
  Qed.

  (* ---------------------------------------------------------------------- *)
  (* the region rules                                                         *)

  Lemma R3_iff bp :
    forallb (fun v => negb (U v) || Nat.eqb (length (component rg (fun _ => true) (fun k => negb (bp k)) v)) 5)
            (seq 0 (h * w)) = true <->
    (forall v, v < nv rg -> U v = true -> vzn (length (component rg all_vertices (cut bp) v)) = 5%Z).
  Proof.
    rewrite forallb_forall. split.
    - intros H v Hv Uv. specialize (H v ltac:(apply in_seq; rewrite rg_nv in Hv; lia)). rewrite Uv in H. simpl in H.
      apply Nat.eqb_eq in H. unfold all_vertices, cut. rewrite H. reflexivity.
    - intros H v Hv. apply in_seq in Hv. destruct (U v) eqn:Uv; [|reflexivity]. simpl. apply Nat.eqb_eq.
      specialize (H v ltac:(rewrite rg_nv; lia) Uv). unfold all_vertices, cut, VarGroups.zn in H. lia.
  Qed.

  Lemma R4_iff bp :
    forallb (fun '(k, (u, v)) => negb (bp k) || negb (mem v (component rg (fun _ => true) (fun k => negb (bp k)) u)))
            (combine (seq 0 (length (edges rg))) (edges rg)) = true <->
    (forall k u v, nth_error (edges rg) k = Some (u, v) -> bp k = true ->
                   ~ In v (component rg all_vertices (cut bp) u)).
  Proof.
    rewrite forallb_forall. split.
    - intros H k u v Hk Hp. specialize (H (k, (u, v)) (proj2 (VarGroupsSound.in_combine_seq _ _ _) Hk)).
      cbv beta iota in H. rewrite Hp in H. simpl in H. apply negb_true_iff in H. apply mem_not_In in H. exact H.
    - intros H [k [u v]] Hin. apply VarGroupsSound.in_combine_seq in Hin. destruct (bp k) eqn:Hp; [|reflexivity].
      simpl. apply negb_true_iff. apply mem_not_In. apply (H k u v Hin Hp).
  Qed.
End Board.

(* ------------------------------------------------------------------------ *)
(* the theorem                                                                *)

Lemma final_state_eq (st1 : state) (extra bd : list expr) (m : nat) :
  {| vars := vars (ensure st1 extra) ++ repeat DBool m;
     keys := keys (ensure st1 extra) ++ repeat true m;
     cons := Program.cons (ensure st1 extra) ++ bd |} =
  {| vars := vars st1 ++ repeat DBool m; keys := keys st1 ++ repeat true m; cons := Program.cons st1 ++ extra ++ bd |}.
Proof. unfold ensure; simpl. rewrite <- app_assoc. reflexivity. Qed.

Lemma fivecells_model_shape h w grid st :
  solve_fivecells_model [[Z.of_nat h; Z.of_nat w]; grid] = Ok st ->
  1 <= nv (fc_graph h w grid) /\
  st = gc_final (fc_graph h w grid) 5 (fc_clues h w grid (gc_gid (fc_graph h w grid))).
Proof.
  unfold solve_fivecells_model. destruct (dims2c h w [grid]) as [-> ->].
  change (sec [[Z.of_nat h; Z.of_nat w]; grid] 1) with grid.
  destruct (Nat.ltb (length grid) (h * w)); [discriminate|].
  set (sg := fc_graph h w grid).
  unfold division_connected_variable_groups. cbn [to_gs1_graph].
  destruct (Nat.eq_dec (nv sg) 0) as [Z0|NZ].
  - rewrite (post_vargroups_zero _ _ _ Z0). discriminate.
  - assert (Hn : 1 <= nv sg) by lia. rewrite (gc_post sg 5 Hn). cbn [bind].
    intros [= <-]. split; [exact Hn|].
    unfold gc_final.
    change (next_id (ensure (gc_st1 sg 5) (fc_clues h w grid (gc_gid sg)))) with (next_id (gc_st1 sg 5)).
    rewrite gc_next. exact (final_state_eq (gc_st1 sg 5) _ _ _).
Qed.

Theorem fivecells_exact gsem h w grid st ans :
  solve_fivecells_model [[Z.of_nat h; Z.of_nat w]; grid] = Ok st ->
  ((exists en, model_of gsem en st /\ reads st en (key_ids st) = ans)
   <-> rules_fivecells [[Z.of_nat h; Z.of_nat w]; grid] ans = true).
Proof.
  intros Hst. destruct (fivecells_model_shape h w grid st Hst) as [Hn ->].
  set (sg := fc_graph h w grid) in *. set (rg := fivecells_graph h w grid).
  rewrite (groups_compose gsem sg 5 (sg_wf h w grid) Hn (fc_clues h w grid (gc_gid sg)) (fc_local h w grid)
             (fun en bp => fc_clues_sem h w grid gsem en bp) (fc_local_ext h w grid) ans).
  set (bp := fun k => isb (getz ans k)).
  rewrite (emb_border_exact rg sg (fc_vid grid) (fc_usable grid) (rg_wf h w grid) (sg_edges h w grid)
             (fc_HeS h w grid) (fc_Hinj h w grid) (fc_Hran h w grid) (fc_Hsur h w grid) bp 5).
  subst rg. rewrite <- (R3_iff h w grid bp), <- (R4_iff h w grid bp).
  unfold rules_fivecells. destruct (dims2c h w [grid]) as [-> ->].
  change (sec [[Z.of_nat h; Z.of_nat w]; grid] 1) with grid.
  rewrite !andb_true_iff, Nat.eqb_eq.
  change (length (edges sg)) with (length (map (fun '(u, v) => (fc_vid grid u, fc_vid grid v)) (edges (fivecells_graph h w grid)))).
  rewrite map_length. unfold fc_local, bp. tauto.
Qed.

(* the answer keys are the is_border variables, declared last *)
Lemma fivecells_key_ids h w grid st :
  solve_fivecells_model [[Z.of_nat h; Z.of_nat w]; grid] = Ok st ->
  key_ids st = seq (5 * fc_vid grid (h * w) + length (fc_pairs h w grid)) (length (fc_pairs h w grid)).
Proof.
  intros Hst. destruct (fivecells_model_shape h w grid st Hst) as [Hn ->].
  rewrite gc_key_ids. unfold gc_base. simpl. rewrite map_length. reflexivity.
Qed.

(* the model is defined exactly on the full grids with at least one usable cell *)
Lemma fivecells_model_defined h w grid :
  (exists st, solve_fivecells_model [[Z.of_nat h; Z.of_nat w]; grid] = Ok st)
  <-> (h * w <= length grid /\ 1 <= fc_vid grid (h * w)).
Proof.
  split.
  - intros [st Hst]. destruct (fivecells_model_shape h w grid st Hst) as [Hn _]. split; [|exact Hn].
    unfold solve_fivecells_model in Hst. destruct (dims2c h w [grid]) as [E1 E2]. rewrite E1, E2 in Hst.
    destruct (Nat.ltb_spec (length (sec [[Z.of_nat h; Z.of_nat w]; grid] 1)) (h * w)) as [L|L]; [discriminate|exact L].
  - intros [Hl Hn]. unfold solve_fivecells_model. destruct (dims2c h w [grid]) as [-> ->].
    change (sec [[Z.of_nat h; Z.of_nat w]; grid] 1) with grid.
    destruct (Nat.ltb_spec (length grid) (h * w)) as [L|_]; [lia|].
    unfold division_connected_variable_groups. cbn [to_gs1_graph].
    rewrite (gc_post (fc_graph h w grid) 5 Hn). cbn [bind]. eexists. reflexivity.
Qed.

(* the hypothesis of fivecells_exact is satisfiable: a 1 x 5 board without numbers *)
Example fivecells_model_ok :
  exists st, solve_fivecells_model [[1; 5]; [-1; -1; -1; -1; -1]]%Z = Ok st.
Proof. apply (fivecells_model_defined 1 5 [-1; -1; -1; -1; -1]%Z). split; vm_compute; lia. Qed.
