(* C07: the hypotheses of the theorems are satisfiable (concrete instances) *)
From Coq Require Import ZArith List Bool Arith Lia.
From Cspuz Require Import Lib.PyErr Core.Expr Core.Program Graph.GraphModel Graph.ReachProofs Graph.VarGroups
  Graph.VarGroupsExact Graph.VarGroupsSized Graph.VarGroupsSizedExact Graph.VarGroupsBorders Graph.VarGroupsReflect.
Import ListNotations.
Open Scope nat_scope.

Definition ex_path : graph := {| nv := 3; edges := [(0, 1); (1, 2)] |}.

(* a caller with one bool variable (id 0) and one int variable (id 1, domain 1..3) *)
Definition ex_state : state := {| vars := [DBool; DInt 1 3]; keys := [false; false]; cons := [] |}.
Definition ex_env : env := {| eb := fun _ => true; ei := fun _ => 2%Z |}.

(* blocks {0, 1} and {2}; sizes [x, None, 1] with x = 2 *)
Definition ex_blk (v : nat) : nat := if v <? 2 then 0 else 1.
Definition ex_sizes : list expr := [IVar 1 1 3; PyNone; PyInt 1].
Definition ex_sval (v : nat) : option Z := match v with 0 => Some 2%Z | 2 => Some 1%Z | _ => None end.

Example ex_sizes_eval : sizes_eval no_graph (next_id ex_state) ex_env ex_sizes ex_sval.
Proof.
  intros i Hi. simpl in Hi. destruct i as [|[|[|i]]]; simpl; try lia.
  - split; [reflexivity|]. split; [cbv; lia|]. exists 2%Z. split; reflexivity.
  - reflexivity.
  - split; [reflexivity|]. split; [cbv; lia|]. exists 1%Z. split; reflexivity.
Qed.

Example ex_realisable : realisable ex_path ex_blk ex_sval.
Proof. apply realisable_b_spec; [reflexivity|]. vm_compute. reflexivity. Qed.

Example ex_sized_sat :
  exists st' ids, post_vargroups ex_state ex_path (G1Seq ex_sizes) = Ok (st', ids) /\
    exists en', extends_sat no_graph ex_state st' ex_env en' /\
                ids_realise 3 (ids_val no_graph en' ids) ex_blk.
Proof.
  destruct (post_vargroups ex_state ex_path (G1Seq ex_sizes)) as [[st' ids]|e] eqn:Hp; [|vm_compute in Hp; discriminate].
  exists st', ids. split; [reflexivity|].
  apply (proj2 (vargroups_exact_sized_proved no_graph ex_state ex_path ex_sizes st' ids ex_blk ex_env ex_sval
                  eq_refl (le_S _ _ (le_S _ _ (le_n 1))) eq_refl ex_sizes_eval Hp)).
  exact ex_realisable.
Qed.

(* borders: the edge (1, 2) is a border (the caller's variable 0 is true), the edge (0, 1) is not *)
Definition ex_bd : list expr := [BNode NOT [BVar 0]; BVar 0].
Definition ex_pat (k : nat) : bool := match k with 1 => true | _ => false end.

Example ex_borders_eval : borders_eval no_graph (next_id ex_state) ex_env ex_bd ex_pat.
Proof.
  intros e He. simpl in He. destruct e as [|[|e]]; simpl; try lia; repeat split; cbv; lia.
Qed.

Example ex_border_exact : border_exact ex_path ex_pat ex_sval.
Proof. apply border_exact_b_spec; [reflexivity|]. vm_compute. reflexivity. Qed.

Example ex_borders_sat :
  exists st', post_with_borders ex_state ex_path ex_sizes ex_bd false = Ok st' /\
    exists en', extends_sat no_graph ex_state st' ex_env en'.
Proof.
  destruct (post_with_borders ex_state ex_path ex_sizes ex_bd false) as [st'|e] eqn:Hp; [|vm_compute in Hp; discriminate].
  exists st'. split; [reflexivity|].
  apply (proj2 (vargroups_borders_exact_proved no_graph ex_state ex_path ex_sizes ex_bd st' ex_env ex_sval ex_pat
                  eq_refl (le_S _ _ (le_S _ _ (le_n 1))) eq_refl eq_refl ex_sizes_eval ex_borders_eval Hp)).
  exact ex_border_exact.
Qed.

(* and a pattern that is rejected: a border inside a block of prescribed size 2 *)
Example ex_border_rejected : ~ border_exact ex_path (fun _ => true) ex_sval.
Proof.
  intros H. apply border_exact_b_spec in H; [|reflexivity]. vm_compute in H. discriminate.
Qed.
