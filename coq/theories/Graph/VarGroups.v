(* C07 - mirror of cspuz/graph.py::_division_connected_variable_groups,
   division_connected_variable_groups, _division_connected_variable_groups_with_borders,
   division_connected_variable_groups_with_borders (and the part of
   cspuz/grid_frame.py::BoolInnerGridFrame.dual / graph.py::_from_grid_frame they
   use), plus the certificate checker and the graph-theoretic specification.
   Definitions only; proofs are in VarGroupsProofs*.v. *)
From Coq Require Import ZArith List Bool Arith.
From Cspuz Require Import Lib.PyErr Core.Expr Core.Program Core.Build Graph.GraphModel.
Import ListNotations.
Open Scope nat_scope.
Open Scope res_scope.

(* ======================================================================== *)
(* Level E : the posted program                                             *)

Definition at_ (l : list expr) (i : nat) : expr := nth i l PyNone.

Definition zn (n : nat) : Z := Z.of_nat n.

(* isinstance(x, (int, IntExpr)); a Python bool is an int *)
Definition is_size_like (e : expr) : bool :=
  match e with PyInt _ | PyBool _ | IVar _ _ _ | INode _ _ => true | _ => false end.

(* what _division_connected_variable_groups receives as group_size *)
Inductive gs1 :=
  | G1None
  | G1Scalar (e : expr)            (* one object that is not a sequence *)
  | G1Seq (l : list expr)          (* list / tuple / IntArray1D: group_size[i] = i-th item *)
  | G1Fail (e : pyerr).            (* group_size[0] raises e, or is an object (a row list,
                                      an IntArray1D row) that is neither None nor int-like *)

Definition gs_absent (gs : gs1) : bool :=
  match gs with G1None | G1Scalar PyNone => true | _ => false end.

(* isinstance(group_size, (int, IntExpr)) *)
Definition gs_scalar (gs : gs1) : bool :=
  match gs with G1Scalar e => is_size_like e | _ => false end.

(* the value `s` of the loop body for vertex i (None = no constraint) *)
Definition size_at (gs : gs1) (i : nat) : res (option expr) :=
  match gs with
  | G1None => Ok None
  | G1Scalar e => if is_size_like e then Ok (Some e) else Err TypeError   (* not subscriptable *)
  | G1Seq l =>
      match nth_error l i with
      | None => Err IndexError
      | Some PyNone => Ok None
      | Some e => if is_size_like e then Ok (Some e) else Err TypeError
      end
  | G1Fail e => Err e
  end.

(* is_root == (rank == 0) : two element-wise array operators *)
Definition c_rootrank (root rank : list expr) : list expr :=
  map (fun '(r, k) => b_iff r (i_eq k (PyInt 0))) (combine root rank).

(* constraints.count_true on a list of BoolExpr nodes *)
Definition count_true_nodes (l : list expr) : expr :=
  match l with
  | [] => INode INT_CONSTANT [PyInt 0]
  | _ => INode ADD (map (fun x => i_cond x (PyInt 1) (PyInt 0)) l)
  end.

(* the body of the first `for i in range(n)` loop *)
Definition c_vertex (g : graph) (gid rank root act : list expr) (i : nat) : list expr :=
  [b_imp (at_ root i) (i_eq (at_ gid i) (PyInt (zn i)))]
  ++ map (fun '(j, e) => b_imp (at_ act e) (i_ne (at_ rank j) (at_ rank i))) (incident g i)
  ++ [i_eq (count_true_nodes
              (map (fun '(j, e) => b_and (at_ act e) (i_lt (at_ rank j) (at_ rank i))) (incident g i)))
           (i_cond (at_ root i) (PyInt 0) (PyInt 1))].

(* for i, (u, v) in enumerate(graph): is_active_edge[i].then(xs[u] == xs[v]) *)
Definition c_edges_eq (g : graph) (act xs : list expr) : list expr :=
  map (fun '(k, (u, v)) => b_imp (at_ act k) (i_eq (at_ xs u) (at_ xs v)))
      (combine (seq 0 (length (edges g))) (edges g)).

(* Python's sum(list): 0 + x0 + x1 + ... through int.__add__ -> IntExpr.__radd__
   and IntExpr.__add__ *)
Definition py_sum (l : list expr) : expr :=
  fold_left (fun acc x => i_add acc x) l (PyInt 0).

(* sum([...]) + 1 : the Python int 1 for an empty list *)
Definition sum_plus1 (l : list expr) : expr :=
  match l with [] => PyInt 1 | _ => i_add (py_sum l) (PyInt 1) end.

(* `sum(...) + 1 == downstream_size[i]`: the right operand is an IntVar, a proper
   subclass of the left operand's class IntExpr (or the left operand is a Python
   int), so CPython calls the reflected IntVar.__eq__ first: operands swapped *)
Definition c_down (g : graph) (rank act ds : list expr) (i : nat) : expr :=
  i_eq (at_ ds i)
       (sum_plus1 (map (fun '(j, e) =>
           i_cond (b_and (at_ act e) (i_gt (at_ rank j) (at_ rank i))) (at_ ds j) (PyInt 0))
         (incident g i))).

(* `total_size[i] == s`; for a Python bool both __eq__ return NotImplemented and
   the comparison falls back to identity: the Python constant False is posted *)
Definition c_size (ts_i : expr) (s : option expr) : list expr :=
  match s with
  | None => []
  | Some (PyBool _) => [PyBool false]
  | Some s => [i_eq ts_i s]
  end.

Definition map2 {A B C} (f : A -> B -> C) (l1 : list A) (l2 : list B) : list C :=
  map (fun '(a, b) => f a b) (combine l1 l2).

Definition c_sized_head (root ds ts : list expr) : list expr :=
  map2 i_le ds ts
  ++ map (fun '(r, (d, t)) => b_imp r (i_eq d t)) (combine root (combine ds ts)).

Definition c_sized_vertex (g : graph) (gs : gs1) (rank act ds ts : list expr) (i : nat)
  : res (list expr) :=
  let* s := size_at gs i in Ok (c_down g rank act ds i :: c_size (at_ ts i) s).

Definition post_vargroups (st : state) (g : graph) (gs : gs1) : res (state * list expr) :=
  let n := nv g in
  let m := length (edges g) in
  let* '(st1, gid) := int_array st n 0%Z (zn n - 1)%Z in
  let* '(st2, rank) := int_array st1 n 0%Z (zn n - 1)%Z in
  let '(st3, root) := bool_array st2 n in
  let '(st4, act) := bool_array st3 m in
  let st5 := ensure st4 (c_rootrank root rank) in
  let st6 := ensure st5 (flat_map (c_vertex g gid rank root act) (seq 0 n)) in
  let st7 := ensure st6 (c_edges_eq g act gid) in
  if gs_absent gs then Ok (st7, gid)
  else
    let* '(st8, ds) := int_array st7 n 1%Z (zn n) in
    let* '(st9, ts) := int_array st8 n 1%Z (zn n) in
    let st10 := ensure st9 (c_sized_head root ds ts) in
    let* cs := mapM (c_sized_vertex g gs rank act ds ts) (seq 0 n) in
    let st11 := ensure st10 (concat cs) in
    let st12 := if gs_scalar gs then st11 else ensure st11 (c_edges_eq g act ts) in
    Ok (st12, gid).

(* ---- the public wrapper ------------------------------------------------ *)

(* the group_size argument of the public functions *)
Inductive gs_arg :=
  | GNone
  | GScalar (e : expr)                      (* int / IntExpr / any other single object *)
  | GList (l : list expr)                   (* a Python list (or tuple) of items *)
  | GArr1 (l : list expr)                   (* IntArray1D *)
  | GRows (rows : list (list expr))         (* a list of lists *)
  | GArr2 (h w : nat) (l : list expr).      (* IntArray2D of shape (h, w) *)

Definition to_gs1_graph (a : gs_arg) : gs1 :=
  match a with
  | GNone => G1None
  | GScalar e => G1Scalar e
  | GList l | GArr1 l => G1Seq l
  | GRows rows => G1Fail (match rows with [] => IndexError | _ => TypeError end)
  | GArr2 h _ _ => G1Fail (match h with O => IndexError | _ => TypeError end)
  end.

(* array.py::_infer_shape on a list of lists *)
Definition infer_shape (rows : list (list expr)) : res (nat * nat) :=
  match rows with
  | [] => Err ValueError
  | r0 :: rest =>
      if forallb (fun r => Nat.eqb (length r) (length r0)) rest
      then Ok (length rows, length r0) else Err ValueError
  end.

(* the `shape is None` block *)
Definition shape_from_group_size (a : gs_arg) : res (nat * nat) :=
  match a with
  | GNone => Err ValueError
  | GArr2 h w _ => Ok (h, w)
  | GRows rows => infer_shape rows
  | GList [] => Err ValueError            (* no row to reject; _infer_shape([]) *)
  | GList _ => Err TypeError              (* an item is not a Sequence *)
  | GArr1 _ | GScalar _ => Err TypeError
  end.

(* group_size_converted *)
Definition convert_group_size (a : gs_arg) : res gs1 :=
  match a with
  | GNone => Ok G1None
  | GScalar PyNone => Ok G1None
  | GScalar e => if is_size_like e then Ok (G1Scalar e) else Err TypeError  (* not iterable *)
  | GArr2 _ _ l => Ok (G1Seq l)
  | GRows rows => Ok (G1Seq (concat rows))
  | GList [] | GArr1 [] => Ok (G1Seq [])
  | GList _ | GArr1 _ => Err TypeError    (* a row is None / int-like / not iterable *)
  end.

Inductive vg_result := RFlat (ids : list expr) | RGrid (h w : nat) (ids : list expr).

Definition division_connected_variable_groups
    (st : state) (gr : option graph) (shape : option (nat * nat)) (a : gs_arg)
  : res (state * vg_result) :=
  match gr with
  | None =>
      let* shp := match shape with Some s => Ok s | None => shape_from_group_size a end in
      let* gs := convert_group_size a in
      let '(h, w) := shp in
      let* '(st', ids) := post_vargroups st (grid_graph h w) gs in
      Ok (st', RGrid h w ids)
  | Some g =>
      match shape with
      | Some _ => Err ValueError
      | None => let* '(st', ids) := post_vargroups st g (to_gs1_graph a) in Ok (st', RFlat ids)
      end
  end.

(* ---- with borders ------------------------------------------------------ *)

(* `is_border[i] == (group_id[u] != group_id[v])` *)
Definition c_border (b ne : expr) : expr :=
  match b with
  | PyBool _ => b_iff ne b            (* bool.__eq__ is NotImplemented: reflected BoolExpr.__eq__ *)
  | BVar _ | BNode _ _ => b_iff b ne
  | _ => PyBool false                 (* NotImplemented both ways: identity comparison *)
  end.

Definition c_borders (g : graph) (gid bd : list expr) : list expr :=
  map (fun '(k, (u, v)) => c_border (at_ bd k) (i_ne (at_ gid u) (at_ gid v)))
      (combine (seq 0 (length (edges g))) (edges g)).

Definition flat_edges (g : graph) : list expr :=
  flat_map (fun '(u, v) => [PyInt (zn u); PyInt (zn v)]) (edges g).

Definition gdiv_operands (g : graph) (sizes bd : list expr) : list expr :=
  [PyInt (zn (nv g)); PyInt (zn (length (edges g)))] ++ sizes ++ flat_edges g ++ bd.

Definition post_with_borders (st : state) (g : graph) (sizes bd : list expr) (prim : bool)
  : res state :=
  if negb (Nat.eqb (length sizes) (nv g)) then Err ValueError
  else if negb (Nat.eqb (length bd) (length (edges g))) then Err ValueError
  else if prim then Ok (ensure st [BNode G_DIV (gdiv_operands g sizes bd)])
  else
    let* '(st1, gid) := post_vargroups st g (G1Seq sizes) in
    Ok (ensure st1 (c_borders g gid bd)).

(* BoolInnerGridFrame of height h, width w: horizontal has shape (h-1, w),
   vertical (h, w-1); both row-major *)
Record inner_frame := { fh : nat; fw : nat; fhor : list expr; fver : list expr }.

(* graph.py::_from_grid_frame(frame.dual()): vertices are the cells y*w+x; for
   each cell first the edge to the cell below (inner horizontal[y, x]), then
   the edge to the right (inner vertical[y, x]) *)
Definition frame_cells (f : inner_frame) : list (nat * nat) :=
  flat_map (fun y => map (fun x => (y, x)) (seq 0 (fw f))) (seq 0 (fh f)).

Definition frame_graph (f : inner_frame) : graph :=
  let h := fh f in let w := fw f in
  {| nv := h * w;
     edges := flat_map (fun '(y, x) =>
                 (if Nat.eqb (S y) h then [] else [(y * w + x, S y * w + x)]) ++
                 (if Nat.eqb (S x) w then [] else [(y * w + x, y * w + S x)]))
               (frame_cells f) |}.

Definition frame_borders (f : inner_frame) : list expr :=
  let h := fh f in let w := fw f in
  flat_map (fun '(y, x) =>
      (if Nat.eqb (S y) h then [] else [at_ (fhor f) (y * w + x)]) ++
      (if Nat.eqb (S x) w then [] else [at_ (fver f) (y * (w - 1) + x)]))
    (frame_cells f).

Inductive bd_arg := BList (l : list expr) | BFrame (f : inner_frame).

Definition division_connected_variable_groups_with_borders
    (st : state) (a : gs_arg) (b : bd_arg) (gr : option graph)
    (use_graph_primitive : option bool) (config_division_primitive : bool) : res state :=
  let prim := match use_graph_primitive with Some p => p | None => config_division_primitive end in
  match gr with
  | None =>
      match a with
      | GArr2 _ _ l =>
          match b with
          | BFrame f => post_with_borders st (frame_graph f) l (frame_borders f) prim
          | BList _ => Err TypeError
          end
      | _ => Err TypeError
      end
  | Some g =>
      match a with
      | GArr2 _ _ _ => Err TypeError
      | _ =>
        match b with
        | BFrame _ => Err TypeError
        | BList bd =>
            match a with
            | GNone | GScalar PyNone => post_with_borders st g (repeat PyNone (nv g)) bd prim
            | GScalar _ => Err TypeError                        (* len() of an int / Expr *)
            | GList l | GArr1 l => post_with_borders st g l bd prim
            | GRows rows =>
                (* rows are not expression operands: only the error paths are modelled *)
                if negb (Nat.eqb (length rows) (nv g)) then Err ValueError
                else if negb (Nat.eqb (length bd) (length (edges g))) then Err ValueError
                else if prim then
                  match rows with [] => post_with_borders st g [] bd prim | _ => Err OtherError end
                else let* '(_, _) := post_vargroups st g (G1Fail TypeError) in Err TypeError
            | GArr2 _ _ _ => Err TypeError
            end
        end
      end
  end.

(* ======================================================================== *)
(* Level S : certificate and specification                                   *)

(* plain-data view of the hidden variables *)
Record vg_cert := {
  c_gid : nat -> Z; c_rank : nat -> Z; c_root : nat -> bool; c_act : nat -> bool }.

Definition bcount {A} (f : A -> bool) (l : list A) : Z := zn (length (filter f l)).

Definition cert_vertex (g : graph) (c : vg_cert) (i : nat) : bool :=
  implb (c_root c i) (c_gid c i =? zn i)%Z
  && forallb (fun '(j, e) => implb (c_act c e) (negb (c_rank c j =? c_rank c i)%Z)) (incident g i)
  && (bcount (fun '(j, e) => c_act c e && (c_rank c j <? c_rank c i)%Z) (incident g i)
      =? (if c_root c i then 0 else 1))%Z.

Definition cert_main (g : graph) (c : vg_cert) : bool :=
  forallb (fun i => Bool.eqb (c_root c i) (c_rank c i =? 0)%Z) (seq 0 (nv g))
  && forallb (cert_vertex g c) (seq 0 (nv g))
  && forallb (fun '(k, (u, v)) => implb (c_act c k) (c_gid c u =? c_gid c v)%Z)
             (combine (seq 0 (length (edges g))) (edges g)).

Definition in_range (lo hi : Z) (f : nat -> Z) (n : nat) : bool :=
  forallb (fun i => (lo <=? f i)%Z && (f i <=? hi)%Z) (seq 0 n).

Definition cert_ranges (g : graph) (c : vg_cert) : bool :=
  in_range 0 (zn (nv g) - 1) (c_gid c) (nv g) && in_range 0 (zn (nv g) - 1) (c_rank c) (nv g).

(* sizes: down / total *)
Definition down_sum (g : graph) (c : vg_cert) (down : nat -> Z) (i : nat) : Z :=
  fold_right Z.add 0%Z
    (map (fun '(j, e) => if c_act c e && (c_rank c i <? c_rank c j)%Z then down j else 0%Z)
         (incident g i)).

Definition cert_sizes (g : graph) (c : vg_cert) (down total : nat -> Z)
           (sizes : nat -> option Z) (per_vertex : bool) : bool :=
  forallb (fun i => (down i <=? total i)%Z) (seq 0 (nv g))
  && forallb (fun i => implb (c_root c i) (down i =? total i)%Z) (seq 0 (nv g))
  && forallb (fun i => (down i =? down_sum g c down i + 1)%Z
                       && match sizes i with None => true | Some s => (total i =? s)%Z end)
             (seq 0 (nv g))
  && (negb per_vertex ||
      forallb (fun '(k, (u, v)) => implb (c_act c k) (total u =? total v)%Z)
              (combine (seq 0 (length (edges g))) (edges g))).

Definition cert_size_ranges (g : graph) (down total : nat -> Z) : bool :=
  in_range 1 (zn (nv g)) down (nv g) && in_range 1 (zn (nv g)) total (nv g).

(* ---- specification ----------------------------------------------------- *)

(* a partition of the vertices is given by a label per vertex *)
Definition same_block (blk : nat -> nat) (u v : nat) : bool := Nat.eqb (blk u) (blk v).

Definition block_size (n : nat) (blk : nat -> nat) (v : nat) : Z :=
  bcount (same_block blk v) (seq 0 n).

(* every block induces a connected subgraph; every vertex with a specified size
   lies in a block of exactly that size *)
Definition realisable (g : graph) (blk : nat -> nat) (sizes : nat -> option Z) : Prop :=
  (forall v, v < nv g -> connected g (same_block blk v)) /\
  (forall v s, v < nv g -> sizes v = Some s -> block_size (nv g) blk v = s).

Definition realisable_b (g : graph) (blk : nat -> nat) (sizes : nat -> option Z) : bool :=
  forallb (fun v => connected_b g (same_block blk v)) (seq 0 (nv g))
  && forallb (fun v => match sizes v with None => true
                                     | Some s => (block_size (nv g) blk v =? s)%Z end)
             (seq 0 (nv g)).

(* the returned ids realise the partition: equal ids exactly within a block *)
Definition ids_realise (n : nat) (gid : nat -> Z) (blk : nat -> nat) : Prop :=
  forall u v, u < n -> v < n -> ((gid u =? gid v)%Z = same_block blk u v).

(* borders: the blocks are the components of the graph minus the border edges *)
Definition all_vertices : nat -> bool := fun _ => true.
Definition cut (bd : nat -> bool) : nat -> bool := fun k => negb (bd k).
Definition same_cut (g : graph) (bd : nat -> bool) (u v : nat) : Prop :=
  reach g all_vertices (cut bd) u v.

(* [l] lists the block of v exactly once each *)
Definition is_cut_block (g : graph) (bd : nat -> bool) (v : nat) (l : list nat) : Prop :=
  NoDup l /\ forall w, In w l <-> (w < nv g /\ same_cut g bd v w).

Definition border_exact (g : graph) (bd : nat -> bool) (sizes : nat -> option Z) : Prop :=
  (forall v s l, v < nv g -> sizes v = Some s -> is_cut_block g bd v l -> zn (length l) = s) /\
  (forall k u v, nth_error (edges g) k = Some (u, v) -> bd k = true -> ~ same_cut g bd u v).

Definition cut_component (g : graph) (bd : nat -> bool) (v : nat) : list nat :=
  component g all_vertices (cut bd) v.

Definition border_exact_b (g : graph) (bd : nat -> bool) (sizes : nat -> option Z) : bool :=
  forallb (fun v => match sizes v with None => true
                                     | Some s => (zn (length (cut_component g bd v)) =? s)%Z end)
          (seq 0 (nv g))
  && forallb (fun '(k, (u, v)) => implb (bd k) (negb (mem v (cut_component g bd u))))
             (combine (seq 0 (length (edges g))) (edges g)).

(* the label "least vertex of my block" of the cut graph *)
Definition cut_label (g : graph) (bd : nat -> bool) (v : nat) : nat :=
  fold_right Nat.min v (cut_component g bd v).

(* ======================================================================== *)
(* the native operator: Op.GRAPH_DIVISION                                   *)

(* operand layout  [n; m] ++ sizes(n) ++ [u0; v0; u1; v1; ...] ++ borders(m) *)
Fixpoint pairs_of {A} (l : list A) : list (A * A) :=
  match l with a :: b :: r => (a, b) :: pairs_of r | _ => [] end.

Definition as_nat (e : expr) : option nat :=
  match e with PyInt z => if (0 <=? z)%Z then Some (Z.to_nat z) else None | _ => None end.

Fixpoint all_some_nat (l : list (option nat)) : option (list nat) :=
  match l with
  | [] => Some []
  | None :: _ => None
  | Some a :: r => match all_some_nat r with Some r' => Some (a :: r') | None => None end
  end.

Definition decode_gdiv (ops : list expr) : option (graph * list expr * list expr) :=
  match ops with
  | en :: em :: rest =>
      match as_nat en, as_nat em with
      | Some n, Some m =>
          if Nat.eqb (length rest) (n + 2 * m + m) then
            let sizes := firstn n rest in
            let r1 := skipn n rest in
            match all_some_nat (map as_nat (firstn (2 * m) r1)) with
            | Some ends => Some ({| nv := n; edges := pairs_of ends |}, sizes, skipn (2 * m) r1)
            | None => None
            end
          else None
      | _, _ => None
      end
  | _ => None
  end.

(* meaning of the operator on evaluated operands (None = a `None` hole):
   defined as the specification *)
Definition val_nat (v : option value) : option nat :=
  match v with Some (VI z) => if (0 <=? z)%Z then Some (Z.to_nat z) else None | _ => None end.

Definition gdiv_sem (vs : list (option value)) : option bool :=
  match vs with
  | vn :: vm :: rest =>
      match val_nat vn, val_nat vm with
      | Some n, Some m =>
          if Nat.eqb (length rest) (n + 2 * m + m) then
            let sizes := firstn n rest in
            let r1 := skipn n rest in
            match all_some_nat (map val_nat (firstn (2 * m) r1)),
                  all_some (skipn (2 * m) r1) with
            | Some ends, Some bvals =>
                match as_bools bvals with
                | Some bs =>
                    if forallb (fun v => match v with None | Some (VI _) => true | _ => false end) sizes
                    then
                      let g := {| nv := n; edges := pairs_of ends |} in
                      Some (border_exact_b g (fun k => nth k bs false)
                              (fun v => match nth v sizes None with Some (VI z) => Some z | _ => None end))
                    else None
                | None => None
                end
            | _, _ => None
            end
          else None
      | _, _ => None
      end
  | _ => None
  end.

Definition graph_sem (o : op) (vs : list (option value)) : option bool :=
  match o with G_DIV => gdiv_sem vs | _ => None end.
