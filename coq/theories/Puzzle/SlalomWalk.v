(* C11 Tier 1, slalom - the geometry of a single loop on PuzzleBase.lattice (fh+1) (fw+1) in the vocabulary of the rule
   file (seg / step_dir / opposite, directions 0 up, 1 down, 2 left, 3 right), and the walk along the loop:
     part 1  directions: symmetry of seg, stepping back, injectivity
     part 2  the edges of the lattice by number; neighbours in the sense of Graph/GraphModel.v are steps along drawn segments
     part 3  sl_walkd, the walk of Rules_slalom.slalom_walk with the direction in which each cell is left; on a single
             loop through the start it lists every cell of the loop exactly once, consecutive cells are joined by drawn
             segments, it never turns back, and its last step leads to the start (walk_trail, then sl_F_nodup / sl_F_chain /
             sl_F_last / sl_F_dirs / sl_F_cover)
   Everything here is orientation-free (no solver variables). *)
From Coq Require Import ZArith List Bool Arith Lia.
From Cspuz Require Import Graph.GraphModel Graph.ReachProofs Graph.Cycle Graph.CycleCert Graph.CycleSpec
     Puzzle.PuzzleBase Puzzle.ModelBase Puzzle.ModelLemmas Puzzle.CycleFrameBase Puzzle.CycleCompose Puzzle.CycleLattice
     Puzzle.Rules_slalom.
Import ListNotations.
Local Open Scope nat_scope.

Definition cell := (nat * nat)%type.
Definition stepc (c : cell) (d : nat) : cell := step_dir (fst c) (snd c) d.

Lemma cell_eqb_eq c c' : cell_eqb c c' = true <-> c = c'.
Proof.
  destruct c as [a b], c' as [a' b']. unfold cell_eqb. simpl. rewrite andb_true_iff, !Nat.eqb_eq.
  split; [intros [-> ->]; reflexivity|intros H; inversion H; auto].
Qed.
Lemma cell_eqb_refl c : cell_eqb c c = true.
Proof. apply cell_eqb_eq. reflexivity. Qed.
Lemma cell_eq_dec (c c' : cell) : {c = c'} + {c <> c'}.
Proof. decide equality; apply Nat.eq_dec. Qed.
Lemma cell_in_In c l : cell_in c l = true <-> In c l.
Proof.
  unfold cell_in. rewrite existsb_exists. split.
  - intros [c' [Hin E]]. apply cell_eqb_eq in E. subst. exact Hin.
  - intros H. exists c. split; [exact H|apply cell_eqb_refl].
Qed.

Lemma opposite_lt d : d < 4 -> opposite d < 4.
Proof. intros H. destruct d as [|[|[|[|]]]]; simpl; lia. Qed.
Lemma opposite_inv d : d < 4 -> opposite (opposite d) = d.
Proof. intros H. destruct d as [|[|[|[|]]]]; simpl; try reflexivity; lia. Qed.
Lemma opposite_neq d : opposite d <> d.
Proof. destruct d as [|[|[|[|]]]]; simpl; lia. Qed.
Lemma opposite_inj d d' : d < 4 -> d' < 4 -> opposite d = opposite d' -> d = d'.
Proof. intros H H' E. rewrite <- (opposite_inv d H), <- (opposite_inv d' H'), E. reflexivity. Qed.

Section Geo.
  Variables (fh fw : nat) (on : nat -> bool).
  Let P := S fh.
  Let Q := S fw.
  Let sg (c : cell) (d : nat) : bool := seg P Q on (fst c) (snd c) d.
  Definition onb (c : cell) : Prop := fst c < S fh /\ snd c < S fw.
  Definition cix (c : cell) : nat := fst c * S fw + snd c.

  (* ---------------------------------------------------------------- part 1 *)
  Lemma seg_onb c d : onb c -> sg c d = true -> onb (stepc c d).
  Proof.
    destruct c as [y x]. unfold onb, sg, seg, stepc, step_dir, P, Q. simpl. intros [Hy Hx] H.
    destruct d as [|[|[|d]]]; apply andb_prop in H; destruct H as [H _]; apply Nat.ltb_lt in H; simpl; lia.
  Qed.

  Lemma seg_sym c d : onb c -> d < 4 -> sg c d = true -> sg (stepc c d) (opposite d) = true.
  Proof.
    destruct c as [y x]. unfold onb, sg, seg, stepc, step_dir, P, Q. simpl. intros [Hy Hx] Hd H.
    destruct d as [|[|[|[|d]]]]; try lia; apply andb_prop in H; destruct H as [H1 H2]; apply Nat.ltb_lt in H1; simpl.
    - replace (S (y - 1) <? S fh) with true by (symmetry; apply Nat.ltb_lt; lia). exact H2.
    - replace (y - 0) with y by lia. exact H2.
    - replace (S (x - 1) <? S fw) with true by (symmetry; apply Nat.ltb_lt; lia). exact H2.
    - replace (x - 0) with x by lia. exact H2.
  Qed.

  Lemma step_back c d : d < 4 -> sg c d = true -> stepc (stepc c d) (opposite d) = c.
  Proof.
    destruct c as [y x]. unfold sg, seg, stepc, step_dir. simpl. intros Hd H.
    destruct d as [|[|[|[|d]]]]; try lia; apply andb_prop in H; destruct H as [H1 _]; apply Nat.ltb_lt in H1; simpl;
      f_equal; lia.
  Qed.

  Lemma step_neq c d : d < 4 -> sg c d = true -> stepc c d <> c.
  Proof.
    destruct c as [y x]. unfold sg, seg, stepc, step_dir. simpl. intros Hd H E.
    destruct d as [|[|[|[|d]]]]; try lia; apply andb_prop in H; destruct H as [H1 _]; apply Nat.ltb_lt in H1;
      inversion E; lia.
  Qed.

  Lemma step_inj c d d' : d < 4 -> d' < 4 -> sg c d = true -> sg c d' = true -> stepc c d = stepc c d' -> d = d'.
  Proof.
    destruct c as [y x]. unfold sg, seg, stepc, step_dir. simpl. intros Hd Hd' H H' E.
    destruct d as [|[|[|[|d]]]]; try lia; destruct d' as [|[|[|[|d']]]]; try lia; try reflexivity;
      apply andb_prop in H; destruct H as [H1 _]; apply Nat.ltb_lt in H1;
      apply andb_prop in H'; destruct H' as [H1' _]; apply Nat.ltb_lt in H1'; inversion E; lia.
  Qed.

  (* number of drawn segments at a cell *)
  Definition deg4 (c : cell) : nat := b2n (sg c 0) + b2n (sg c 1) + b2n (sg c 2) + b2n (sg c 3).

  Lemma deg4_degree c : onb c -> degree (lattice P Q) on (cix c) = deg4 c.
  Proof.
    destruct c as [y x]. unfold onb. simpl. intros [Hy Hx].
    apply (lattice_degree fh fw on y x); lia.
  Qed.

  Lemma deg4_two c d1 d2 d : deg4 c = 2 -> d1 < 4 -> d2 < 4 -> d < 4 -> d1 <> d2 ->
    sg c d1 = true -> sg c d2 = true -> sg c d = true -> d = d1 \/ d = d2.
  Proof.
    unfold deg4. intros H2 H1 H2' Hd Hne S1 S2 S.
    destruct d1 as [|[|[|[|d1]]]]; try lia; destruct d2 as [|[|[|[|d2]]]]; try lia;
      destruct d as [|[|[|[|d]]]]; try lia; auto; rewrite ?S1, ?S2, ?S in H2;
      repeat match goal with |- context [sg c ?k] => destruct (sg c k) end; simpl in H2; try lia;
      destruct (sg c 0), (sg c 1), (sg c 2), (sg c 3); simpl in H2; lia.
  Qed.

  Lemma deg4_pos c d : d < 4 -> sg c d = true -> 0 < deg4 c.
  Proof.
    unfold deg4. intros Hd S. destruct d as [|[|[|[|d]]]]; try lia; rewrite S; simpl; lia.
  Qed.

  (* a cell on the line with one known drawn direction has exactly one other *)
  Lemma deg4_other c d : deg4 c = 2 -> d < 4 -> sg c d = true ->
    exists d', d' < 4 /\ d' <> d /\ sg c d' = true /\
               filter (fun k => negb (Nat.eqb k d) && sg c k) [0; 1; 2; 3] = [d'].
  Proof.
    unfold deg4. intros H2 Hd S.
    destruct d as [|[|[|[|d]]]]; try lia; rewrite S in H2;
      destruct (sg c 0) eqn:E0, (sg c 1) eqn:E1, (sg c 2) eqn:E2, (sg c 3) eqn:E3; simpl in H2; try lia;
      try discriminate;
      first [ exists 0; cbn [filter negb Nat.eqb andb]; rewrite ?E0, ?E1, ?E2, ?E3; cbn [negb andb]; repeat split; (lia || reflexivity)
            | exists 1; cbn [filter negb Nat.eqb andb]; rewrite ?E0, ?E1, ?E2, ?E3; cbn [negb andb]; repeat split; (lia || reflexivity)
            | exists 2; cbn [filter negb Nat.eqb andb]; rewrite ?E0, ?E1, ?E2, ?E3; cbn [negb andb]; repeat split; (lia || reflexivity)
            | exists 3; cbn [filter negb Nat.eqb andb]; rewrite ?E0, ?E1, ?E2, ?E3; cbn [negb andb]; repeat split; (lia || reflexivity) ].
  Qed.
End Geo.

(* ---------------------------------------------------------------- part 2 *)
Lemma sl_hseg_hid h w y x : hseg (S h) (S w) y x = frame_hid h w y x.
Proof. unfold hseg, frame_hid. replace (S w - 1) with w by lia. reflexivity. Qed.
Lemma sl_vseg_vid h w y x : vseg (S h) (S w) y x = frame_vid h w y x.
Proof. unfold vseg, frame_vid. replace (S w - 1) with w by lia. reflexivity. Qed.

Lemma nth_error_combine_seq {A} (l : list A) : forall s k a,
  nth_error l k = Some a -> In (s + k, a) (combine (seq s (length l)) l).
Proof.
  induction l as [|b l IH]; intros s k a H; [destruct k; discriminate|].
  destruct k as [|k]; simpl in *.
  - inversion H; subst. left. f_equal. lia.
  - right. replace (s + S k) with (S s + k) by lia. apply IH. exact H.
Qed.

Section Nbr.
  Variables (fh fw : nat) (on : nat -> bool).
  Let P := S fh.
  Let Q := S fw.
  Let sg (c : cell) (d : nat) : bool := seg P Q on (fst c) (snd c) d.

  Lemma lattice_edge_inv k a b : nth_error (lattice_edges P Q) k = Some (a, b) ->
    (exists y x, y <= fh /\ x < fw /\ k = frame_hid fh fw y x /\ a = y * Q + x /\ b = y * Q + S x) \/
    (exists y x, y < fh /\ x <= fw /\ k = frame_vid fh fw y x /\ a = y * Q + x /\ b = S y * Q + x).
  Proof.
    intros H. apply (nth_error_combine_seq _ 0) in H. simpl in H. unfold P, Q in H. rewrite lattice_ids in H.
    apply in_app_iff in H. destruct H as [H|H].
    - left. unfold hrows in H. apply in_flat_map in H. destruct H as [y [Hy H]].
      apply in_map_iff in H. destruct H as [x [E Hx]]. apply in_seq in Hy. apply in_seq in Hx.
      inversion E; subst. exists y, x. repeat split; lia.
    - right. unfold vrows in H. apply in_flat_map in H. destruct H as [y [Hy H]].
      apply in_map_iff in H. destruct H as [x [E Hx]]. apply in_seq in Hy. apply in_seq in Hx.
      inversion E; subst. exists y, x. repeat split; lia.
  Qed.

  Lemma lattice_nbr v w : In w (nbrs (lattice P Q) on v) ->
    exists c d, onb fh fw c /\ d < 4 /\ cix fw c = v /\ sg c d = true /\ cix fw (stepc c d) = w.
  Proof.
    intros H. apply nbrs_spec in H. destruct H as [k [Hk H]]. cbn [edges lattice] in H.
    destruct H as [H|H]; apply lattice_edge_inv in H;
      destruct H as [[y [x [Hy [Hx [Ek [Ea Eb]]]]]]|[y [x [Hy [Hx [Ek [Ea Eb]]]]]]]; subst k.
    - exists (y, x), 3. unfold onb, cix, sg, seg, stepc, P, Q in *. cbn [fst snd step_dir]. rewrite sl_hseg_hid, Hk.
      replace (S x <? S fw) with true by (symmetry; apply Nat.ltb_lt; lia). repeat split; lia.
    - exists (y, x), 1. unfold onb, cix, sg, seg, stepc, P, Q in *. cbn [fst snd step_dir]. rewrite sl_vseg_vid, Hk.
      replace (S y <? S fh) with true by (symmetry; apply Nat.ltb_lt; lia). repeat split; lia.
    - exists (y, S x), 2. unfold onb, cix, sg, seg, stepc, P, Q in *. cbn [fst snd step_dir].
      replace (S x - 1) with x by lia. rewrite sl_hseg_hid, Hk. repeat split; lia.
    - exists (S y, x), 0. unfold onb, cix, sg, seg, stepc, P, Q in *. cbn [fst snd step_dir].
      replace (S y - 1) with y by lia. rewrite sl_vseg_vid, Hk. repeat split; lia.
  Qed.

  Lemma cix_inj c c' : onb fh fw c -> onb fh fw c' -> cix fw c = cix fw c' -> c = c'.
  Proof.
    destruct c as [y x], c' as [y' x']. unfold onb, cix. simpl. intros [_ Hx] [_ Hx'] E.
    apply rowcol_inj in E; [|lia|lia]. destruct E; subst; reflexivity.
  Qed.

  Lemma cix_lt c : onb fh fw c -> cix fw c < P * Q.
  Proof. destruct c as [y x]. unfold onb, cix, P, Q. simpl. nia. Qed.

  (* a duplicate-free list of cells of the board is at most as long as the board is large *)
  Lemma onb_nodup_length (l : list cell) : NoDup l -> (forall c, In c l -> onb fh fw c) -> length l <= P * Q.
  Proof.
    intros Hnd Hon.
    assert (Hnd' : NoDup (map (cix fw) l)).
    { revert Hnd Hon. induction l as [|a l IH]; intros Hnd Hon; simpl; [constructor|].
      inversion Hnd; subst. constructor.
      - intros Hin. apply in_map_iff in Hin. destruct Hin as [b [E Hb]].
        apply cix_inj in E; [subst; contradiction| |]; apply Hon; simpl; auto.
      - apply IH; [assumption|]. intros c Hc. apply Hon. right. exact Hc. }
    assert (Hincl : incl (map (cix fw) l) (seq 0 (P * Q))).
    { intros v Hv. apply in_map_iff in Hv. destruct Hv as [c [<- Hc]]. apply in_seq. split; [lia|].
      simpl. apply cix_lt. apply Hon. exact Hc. }
    pose proof (NoDup_incl_length Hnd' Hincl) as H. rewrite map_length, seq_length in H. exact H.
  Qed.
End Nbr.

(* ---------------------------------------------------------------- part 3 *)
Lemma nodup_fst_unique {A B} (l : list (A * B)) a x y :
  NoDup (map fst l) -> In (a, x) l -> In (a, y) l -> x = y.
Proof.
  induction l as [|[a' b'] l IH]; simpl; intros Hnd Hx Hy; [contradiction|].
  inversion Hnd; subst.
  destruct Hx as [Hx|Hx], Hy as [Hy|Hy].
  - inversion Hx; inversion Hy; subst. reflexivity.
  - inversion Hx; subst. exfalso. apply H1. apply in_map_iff. exists (a, y). split; [reflexivity|exact Hy].
  - inversion Hy; subst. exfalso. apply H1. apply in_map_iff. exists (a, x). split; [reflexivity|exact Hx].
  - apply IH; assumption.
Qed.

Lemma nth_error_rev {A} (l : list A) i : i < length l -> nth_error (rev l) i = nth_error l (length l - 1 - i).
Proof.
  intros Hi. destruct l as [|a0 l0]; [simpl in Hi; lia|]. set (l := a0 :: l0) in *.
  rewrite (nth_error_nth' (rev l) a0) by (rewrite rev_length; exact Hi).
  rewrite rev_nth by exact Hi. rewrite (nth_error_nth' l a0) by lia. f_equal. f_equal. lia.
Qed.

Section Walk.
  Variables (fh fw : nat) (on : nat -> bool) (o : cell) (d0 : nat).
  Let P := S fh.
  Let Q := S fw.
  Let sg (c : cell) (d : nat) : bool := seg P Q on (fst c) (snd c) d.
  Let onb' := onb fh fw.
  Let dg := deg4 fh fw on.

  (* the walk of the rule file, with the direction in which each cell is left *)
  Fixpoint sl_walkd (fuel : nat) (c : cell) (d : nat) : list (cell * nat) :=
    match fuel with
    | O => []
    | S f =>
        if cell_eqb c o then []
        else match filter (fun d' => negb (Nat.eqb d' (opposite d)) && sg c d') [0; 1; 2; 3] with
             | d' :: _ => (c, d') :: sl_walkd f (stepc c d') d'
             | [] => [(c, 4)]
             end
    end.

  Lemma sl_walkd_fst fuel : forall c d,
    map fst (sl_walkd fuel c d) = slalom_walk P Q on (fst o) (snd o) fuel (fst c) (snd c) d.
  Proof.
    induction fuel as [|f IH]; intros [y x] d; [reflexivity|].
    cbn [sl_walkd slalom_walk fst snd]. unfold cell_eqb at 1. cbn [fst snd].
    destruct (Nat.eqb y (fst o) && Nat.eqb x (snd o)); [reflexivity|].
    unfold sg. cbn [fst snd].
    destruct (filter _ [0; 1; 2; 3]) as [|d' r]; [reflexivity|].
    cbn [map fst]. f_equal. unfold stepc. cbn [fst snd].
    destruct (step_dir y x d') as [y' x'] eqn:E. rewrite IH. reflexivity.
  Qed.

  Hypothesis Ho : onb' o.
  Hypothesis Hd0 : d0 < 4.
  Hypothesis Hs0 : sg o d0 = true.
  Hypothesis Hdeg : forall c, onb' c -> dg c = 0 \/ dg c = 2.

  (* the darts (cell, leaving direction) of a walk from the start, most recent first *)
  Inductive trail : list (cell * nat) -> Prop :=
  | trail_one : trail [(o, d0)]
  | trail_cons a da b db V :
      trail ((a, da) :: V) -> stepc a da = b -> db < 4 -> sg b db = true -> db <> opposite da ->
      ~ In b (map fst ((a, da) :: V)) -> trail ((b, db) :: (a, da) :: V).

  Lemma trail_all V : trail V -> forall a da, In (a, da) V -> da < 4 /\ onb' a /\ sg a da = true.
  Proof.
    induction 1 as [|a da b db V HT IH Hst Hdb Hsb Hnb Hnin]; intros a' da' Hin.
    - destruct Hin as [E|[]]. inversion E; subst. auto.
    - destruct Hin as [E|Hin]; [|apply IH; exact Hin].
      inversion E; subst. split; [exact Hdb|]. split; [|exact Hsb].
      destruct (IH a da (or_introl eq_refl)) as [_ [Ha Hsa]]. apply (seg_onb fh fw on a da Ha Hsa).
  Qed.

  Lemma trail_nodup V : trail V -> NoDup (map fst V).
  Proof.
    induction 1 as [|a da b db V HT IH Hst Hdb Hsb Hnb Hnin].
    - simpl. constructor; [intros []|constructor].
    - change (map fst ((b, db) :: (a, da) :: V)) with (b :: map fst ((a, da) :: V)). constructor; assumption.
  Qed.

  Lemma trail_start V : trail V -> In (o, d0) V.
  Proof. induction 1; [left; reflexivity|right; assumption]. Qed.

  (* the dart after the first one *)
  Lemma trail_second V : trail V -> 2 <= length V -> exists db, In (stepc o d0, db) V /\ db <> opposite d0.
  Proof.
    induction 1 as [|a da b db V HT IH Hst Hdb Hsb Hnb Hnin]; intros Hl; [simpl in Hl; lia|].
    destruct V as [|q V].
    - inversion HT; subst. exists db. split; [left; reflexivity|exact Hnb].
    - destruct IH as [db' [Hin Hne]]; [simpl; lia|]. exists db'. split; [right; exact Hin|exact Hne].
  Qed.

  Lemma trail_chain V : trail V -> forall j b db a da,
    nth_error V j = Some (b, db) -> nth_error V (S j) = Some (a, da) -> stepc a da = b /\ db <> opposite da.
  Proof.
    induction 1 as [|a da b db V HT IH Hst Hdb Hsb Hnb Hnin]; intros j b' db' a' da' H1 H2.
    - destruct j; simpl in H2; [discriminate|destruct j; discriminate].
    - destruct j as [|j].
      + simpl in H1, H2. inversion H1; inversion H2; subst. auto.
      + apply (IH j); assumption.
  Qed.

  (* every cell of the trail other than its two ends has both its drawn segments inside the trail *)
  Lemma trail_nbr V : trail V -> forall hc hd V', V = (hc, hd) :: V' ->
    forall b, In b (map fst V') -> b <> o -> forall d, d < 4 -> sg b d = true -> In (stepc b d) (map fst V).
  Proof.
    induction 1 as [|a da b0 db0 V HT IH Hst Hdb Hsb Hnb Hnin]; intros hc hd V' E b Hb Hbo d Hd Hs.
    - inversion E; subst. contradiction.
    - inversion E; subst hc hd V'. clear E.
      destruct (cell_eq_dec b a) as [->|Hba].
      + (* b is the cell just before the head *)
        inversion HT as [E1|a' da' b' db' V1 HT' Hst' Hdb' Hsb' Hnb' Hnin' E1]; subst.
        * contradiction.
        * destruct (trail_all _ HT' a' da' (or_introl eq_refl)) as [Hda' [Hoa' Hsa']].
          pose proof (seg_onb fh fw on a' da' Hoa' Hsa') as Hoa.
          pose proof (seg_sym fh fw on a' da' Hoa' Hda' Hsa') as Hback.
          assert (H2 : dg (stepc a' da') = 2).
          { destruct (Hdeg _ Hoa) as [H0|H2]; [|exact H2].
            pose proof (deg4_pos fh fw on _ _ Hdb' Hsb'). unfold dg in H0. lia. }
          destruct (deg4_two fh fw on (stepc a' da') da (opposite da') d H2 Hdb' (opposite_lt _ Hda') Hd Hnb' Hsb'
                      Hback Hs) as [->| ->].
          -- left. reflexivity.
          -- right. rewrite (step_back fh fw on a' da' Hda' Hsa'). right. left. reflexivity.
      + right. apply (IH a da V eq_refl b); try assumption.
        destruct Hb as [Hb|Hb]; [simpl in Hb; congruence|exact Hb].
  Qed.

  Lemma walk_trail fuel : forall V p d c,
    trail ((p, d) :: V) -> stepc p d = c -> (In c (map fst ((p, d) :: V)) -> c = o) ->
    P * Q < fuel + length ((p, d) :: V) ->
    exists Vf z dz, trail ((z, dz) :: Vf) /\ rev ((z, dz) :: Vf) = rev ((p, d) :: V) ++ sl_walkd fuel c d /\
                    stepc z dz = o /\ d0 <> opposite dz.
  Proof.
    induction fuel as [|f IH]; intros V p d c HT Hst HF Hfuel.
    - exfalso. pose proof (trail_nodup _ HT) as Hnd.
      assert (Hon : forall a, In a (map fst ((p, d) :: V)) -> onb fh fw a).
      { intros a Ha. apply in_map_iff in Ha. destruct Ha as [[a' da] [<- Hin]].
        destruct (trail_all _ HT a' da Hin) as [_ [H _]]. exact H. }
      pose proof (onb_nodup_length fh fw _ Hnd Hon) as Hl. rewrite map_length in Hl. fold P Q in Hl. lia.
    - destruct (trail_all _ HT p d (or_introl eq_refl)) as [Hd [Hop Hsp]].
      pose proof (seg_onb fh fw on p d Hop Hsp) as Hoc. rewrite Hst in Hoc.
      pose proof (seg_sym fh fw on p d Hop Hd Hsp) as Hback. rewrite Hst in Hback.
      cbn [sl_walkd]. destruct (cell_eqb c o) eqn:Eco.
      + apply cell_eqb_eq in Eco. rewrite Eco in *. clear Eco. exists V, p, d. rewrite app_nil_r.
        split; [exact HT|]. split; [reflexivity|]. split; [exact Hst|].
        intros E0.
        destruct V as [|q V].
        * inversion HT; subst. apply (step_neq fh fw on o d0 Hd0 Hs0). exact Hst.
        * destruct (trail_second _ HT) as [db [Hin Hne]]; [simpl; lia|].
          assert (Ep : stepc o d0 = p).
          { rewrite E0, <- Hst. apply (step_back fh fw on p d Hd Hsp). }
          rewrite Ep in Hin.
          pose proof (nodup_fst_unique _ p db d (trail_nodup _ HT) Hin (or_introl eq_refl)) as Edb.
          subst db. apply Hne. rewrite E0. rewrite opposite_inv by exact Hd. reflexivity.
      + assert (Hco : c <> o) by (intros ->; rewrite cell_eqb_refl in Eco; discriminate).
        assert (Hcn : ~ In c (map fst ((p, d) :: V))) by (intros Hin; apply Hco; apply HF; exact Hin).
        assert (H2 : dg c = 2).
        { destruct (Hdeg _ Hoc) as [H0|H2]; [|exact H2].
          pose proof (deg4_pos fh fw on _ _ (opposite_lt _ Hd) Hback). unfold dg in H0. lia. }
        destruct (deg4_other fh fw on c (opposite d) H2 (opposite_lt _ Hd) Hback) as [d' [Hd' [Hne [Hs' Hfil]]]].
        change (filter (fun d'0 => negb (Nat.eqb d'0 (opposite d)) && sg c d'0) [0; 1; 2; 3] = [d']) in Hfil. rewrite Hfil.
        assert (HT2 : trail ((c, d') :: (p, d) :: V)) by (apply trail_cons; assumption).
        destruct (IH ((p, d) :: V) c d' (stepc c d') HT2 eq_refl) as [Vf [z [dz [HTf [Hrev [Hz Hdz]]]]]].
        * (* the next cell is new, or the start *)
          intros Hin. destruct Hin as [Hin|Hin]; [exfalso; apply (step_neq fh fw on c d' Hd' Hs'); symmetry; exact Hin|].
          destruct (cell_eq_dec (stepc c d') o) as [E|Hno]; [exact E|]. exfalso.
          destruct Hin as [Hin|Hin].
          -- simpl in Hin. (* turning back *)
             apply Hne. apply (step_inj fh fw on c d' (opposite d) Hd' (opposite_lt _ Hd) Hs' Hback).
             rewrite <- Hin. rewrite <- Hst. symmetry. apply (step_back fh fw on p d Hd Hsp).
          -- pose proof (seg_onb fh fw on c d' Hoc Hs') as Hoc'.
             pose proof (seg_sym fh fw on c d' Hoc Hd' Hs') as Hback'.
             pose proof (trail_nbr _ HT p d V eq_refl (stepc c d') Hin Hno (opposite d') (opposite_lt _ Hd') Hback') as Hc.
             rewrite (step_back fh fw on c d' Hd' Hs') in Hc. contradiction.
        * simpl length in *. lia.
        * exists Vf, z, dz. split; [exact HTf|]. split; [|split; assumption].
          rewrite Hrev. change (rev ((c, d') :: (p, d) :: V)) with (rev ((p, d) :: V) ++ [(c, d')]).
          rewrite <- app_assoc. reflexivity.
  Qed.
End Walk.

(* ---------------------------------------------------------------- the loop as the list of its darts, from the start *)
Section Cyc.
  Variables (fh fw : nat) (on : nat -> bool) (o : cell) (d0 : nat).
  Let P := S fh.
  Let Q := S fw.
  Let sg (c : cell) (d : nat) : bool := seg P Q on (fst c) (snd c) d.
  Let onb' := onb fh fw.
  Let dg := deg4 fh fw on.
  Hypothesis Ho : onb' o.
  Hypothesis Hd0 : d0 < 4.
  Hypothesis Hs0 : sg o d0 = true.
  Hypothesis Hdeg : forall c, onb' c -> dg c = 0 \/ dg c = 2.

  Definition sl_F : list (cell * nat) := (o, d0) :: sl_walkd fh fw on o (P * Q) (stepc o d0) d0.

  Lemma sl_F_trail : exists Vf z dz, trail fh fw on o d0 ((z, dz) :: Vf) /\ rev ((z, dz) :: Vf) = sl_F /\
                                     stepc z dz = o /\ d0 <> opposite dz.
  Proof.
    destruct (walk_trail fh fw on o d0 Ho Hd0 Hs0 Hdeg (P * Q) [] o d0 (stepc o d0)) as [Vf [z [dz [HT [Hrev H]]]]].
    - constructor.
    - reflexivity.
    - intros [E|[]]. simpl in E. symmetry. exact E.
    - simpl. fold P Q. lia.
    - exists Vf, z, dz. split; [exact HT|]. split; [|exact H]. rewrite Hrev. reflexivity.
  Qed.

  Lemma sl_F_all a da : In (a, da) sl_F -> da < 4 /\ onb' a /\ sg a da = true.
  Proof.
    destruct sl_F_trail as [Vf [z [dz [HT [Hrev _]]]]]. rewrite <- Hrev. intros H. apply in_rev in H.
    apply (trail_all fh fw on o d0 Ho Hd0 Hs0 _ HT). exact H.
  Qed.

  Lemma sl_F_nodup : NoDup (map fst sl_F).
  Proof.
    destruct sl_F_trail as [Vf [z [dz [HT [Hrev _]]]]]. rewrite <- Hrev. rewrite map_rev.
    apply NoDup_rev. apply (trail_nodup fh fw on o d0 _ HT).
  Qed.

  Lemma sl_F_chain i a da b db :
    nth_error sl_F i = Some (a, da) -> nth_error sl_F (S i) = Some (b, db) -> stepc a da = b /\ db <> opposite da.
  Proof.
    destruct sl_F_trail as [Vf [z [dz [HT [Hrev _]]]]]. rewrite <- Hrev. intros H1 H2.
    set (V := (z, dz) :: Vf) in *.
    assert (Hi : S i < length V).
    { rewrite <- rev_length. apply nth_error_Some. rewrite H2. discriminate. }
    rewrite nth_error_rev in H1, H2 by lia.
    apply (trail_chain fh fw on o d0 _ HT (length V - 1 - S i) b db a da); [exact H2|].
    replace (S (length V - 1 - S i)) with (length V - 1 - i) by lia. exact H1.
  Qed.

  Lemma sl_F_last : exists z dz, nth_error sl_F (length sl_F - 1) = Some (z, dz) /\ stepc z dz = o /\ d0 <> opposite dz.
  Proof.
    destruct sl_F_trail as [Vf [z [dz [HT [Hrev [Hz Hdz]]]]]]. exists z, dz. split; [|split; assumption].
    rewrite <- Hrev. rewrite rev_length. rewrite nth_error_rev by (simpl; lia).
    replace (length ((z, dz) :: Vf) - 1 - (length ((z, dz) :: Vf) - 1)) with 0 by lia. reflexivity.
  Qed.

  Lemma sl_F_succ a da : In (a, da) sl_F -> exists db, In (stepc a da, db) sl_F /\ db <> opposite da.
  Proof.
    intros Hin. apply In_nth_error in Hin. destruct Hin as [i Hi].
    destruct (nth_error sl_F (S i)) as [[b db]|] eqn:E.
    - destruct (sl_F_chain i a da b db Hi E) as [<- Hne]. exists db. split; [|exact Hne].
      apply nth_error_In with (S i). exact E.
    - destruct sl_F_last as [z [dz [Hl [Hz Hdz]]]].
      assert (Hil : i = length sl_F - 1).
      { apply nth_error_None in E. assert (i < length sl_F) by (apply nth_error_Some; rewrite Hi; discriminate). lia. }
      rewrite <- Hil, Hi in Hl. inversion Hl; subst. exists d0. rewrite Hz. split; [left; reflexivity|exact Hdz].
  Qed.

  Lemma sl_F_pred b db : In (b, db) sl_F -> exists a da, In (a, da) sl_F /\ stepc a da = b /\ db <> opposite da.
  Proof.
    intros Hin. apply In_nth_error in Hin. destruct Hin as [i Hi]. destruct i as [|i].
    - simpl in Hi. inversion Hi; subst. destruct sl_F_last as [z [dz [Hl [Hz Hdz]]]].
      exists z, dz. split; [apply nth_error_In with (length sl_F - 1); exact Hl|]. split; assumption.
    - destruct (nth_error sl_F i) as [[a da]|] eqn:E.
      + destruct (sl_F_chain i a da b db E Hi) as [H1 H2]. exists a, da. split; [|split; assumption].
        apply nth_error_In with i. exact E.
      + apply nth_error_None in E. assert (S i < length sl_F) by (apply nth_error_Some; rewrite Hi; discriminate). lia.
  Qed.

  (* the two drawn segments at a cell of the loop: the one it is left by and the one it is entered by *)
  Lemma sl_F_dirs b db a da d : In (b, db) sl_F -> In (a, da) sl_F -> stepc a da = b -> d < 4 -> sg b d = true ->
    d = db \/ d = opposite da.
  Proof.
    intros Hb Ha Hst Hd Hs.
    destruct (sl_F_all b db Hb) as [Hdb [Hob Hsb]]. destruct (sl_F_all a da Ha) as [Hda [Hoa Hsa]].
    assert (Hback : sg b (opposite da) = true) by (rewrite <- Hst; apply (seg_sym fh fw on a da); assumption).
    assert (Hne : db <> opposite da).
    { intros E. destruct (sl_F_succ b db Hb) as [dc [Hc Hnc]].
      assert (Ec : stepc b db = a) by (rewrite E, <- Hst; apply (step_back fh fw on a da Hda Hsa)).
      rewrite Ec in Hc. pose proof (nodup_fst_unique _ a dc da sl_F_nodup Hc Ha) as Edc. subst dc.
      apply Hnc. rewrite E. rewrite opposite_inv by exact Hda. reflexivity. }
    apply (deg4_two fh fw on b db (opposite da) d); auto using opposite_lt.
    destruct (Hdeg b Hob) as [H0|H2]; [|exact H2]. pose proof (deg4_pos fh fw on b db Hdb Hsb). unfold dg in H0. lia.
  Qed.

  Hypothesis Hconn : forall c, onb' c -> 0 < dg c -> reach (lattice P Q) all_vertices_ok on (cix fw o) (cix fw c).

  Lemma sl_F_cover c : onb' c -> 0 < dg c -> In c (map fst sl_F).
  Proof.
    intros Hoc Hpos.
    assert (H : forall v, reach (lattice P Q) all_vertices_ok on (cix fw o) v ->
                exists c', onb' c' /\ cix fw c' = v /\ In c' (map fst sl_F)).
    { clear Hconn Hoc Hpos. intros v Hr. remember (cix fw o) as s eqn:Es. induction Hr as [v _|u v w Hr IH Hn _].
      - subst v. exists o. split; [exact Ho|]. split; [reflexivity|]. left. reflexivity.
      - destruct (IH Es) as [b [Hob [Eb Hb]]].
        destruct (lattice_nbr fh fw on v w Hn) as [b' [d [Hob' [Hd [Eb' [Hs Ew]]]]]].
        assert (b' = b) by (apply (cix_inj fh fw); [assumption|assumption|congruence]). subst b'.
        apply in_map_iff in Hb. destruct Hb as [[b1 db] [E1 Hb]]. simpl in E1. subst b1.
        destruct (sl_F_pred b db Hb) as [a [da [Ha [Hst Hne]]]].
        destruct (sl_F_all a da Ha) as [Hda [Hoa Hsa]].
        exists (stepc b d). split; [apply (seg_onb fh fw on b d Hob Hs)|]. split; [exact Ew|].
        destruct (sl_F_dirs b db a da d Hb Ha Hst Hd Hs) as [->| ->].
        + destruct (sl_F_succ b db Hb) as [dc [Hc _]]. apply in_map_iff. exists (stepc b db, dc). split; [reflexivity|exact Hc].
        + rewrite <- Hst. rewrite (step_back fh fw on a da Hda Hsa). apply in_map_iff. exists (a, da). split; [reflexivity|exact Ha]. }
    destruct (H _ (Hconn c Hoc Hpos)) as [c' [Hoc' [E Hin]]].
    assert (c' = c) by (apply (cix_inj fh fw); assumption). subst c'. exact Hin.
  Qed.
End Cyc.

(* ---------------------------------------------------------------- what a single loop through a cell gives *)
Lemma sl_loop_facts fh fw on o :
  single_loop_b (lattice (S fh) (S fw)) on = true -> onb fh fw o -> 0 < deg4 fh fw on o ->
  (forall c, onb fh fw c -> deg4 fh fw on c = 0 \/ deg4 fh fw on c = 2) /\
  (forall c, onb fh fw c -> 0 < deg4 fh fw on c ->
     reach (lattice (S fh) (S fw)) all_vertices_ok on (cix fw o) (cix fw c)).
Proof.
  intros Hl Ho Hpos. apply (single_loop_b_spec _ _ (lattice_wf fh fw)) in Hl.
  destruct Hl as [Hna|[Hd Hc]].
  - exfalso. rewrite <- (deg4_degree fh fw on o Ho) in Hpos.
    rewrite (CycleCert.no_active_degree _ _ _ Hna) in Hpos. lia.
  - split.
    + intros c Hc'. rewrite <- (deg4_degree fh fw on c Hc'). apply Hd. cbn [nv lattice]. apply (cix_lt fh fw c Hc').
    + intros c Hc' Hp. apply Hc; cbn [nv lattice]; try (apply (cix_lt fh fw); assumption);
        rewrite (deg4_degree fh fw on) by assumption; assumption.
Qed.
