(* C11 Tier 1 - firefly: functional graphs (every vertex has one successor) on a finite vertex set, the abstract
   side of the proofs about solve_firefly's connectivity encoding (orientation + ranks + one ignored segment):
     - pigeonhole on orbits;
     - a non-negative rank that strictly decreases along every step that does not start at a [bad] vertex forces
       every orbit to reach a bad vertex (ff_descent);
     - when vertices without firefly have a unique predecessor, no orbit enters a firefly-free cycle from
       outside (ff_entry);
     - merging orbits (ff_merge), periodic points, and the distance to a vertex that every orbit reaches
       (ff_dist), bounded by the number of vertices.
   Nothing here refers to the puzzle. *)
From Coq Require Import ZArith List ListDec Bool Arith Lia.
Import ListNotations.
Local Open Scope nat_scope.

Lemma ff_NoDup_snoc {A} (l : list A) c : NoDup l -> ~ In c l -> NoDup (l ++ [c]).
Proof.
  induction l as [|a r IH]; intros ND Hc; simpl.
  - constructor; [intros []|constructor].
  - inversion ND; subst. constructor.
    + rewrite in_app_iff. intros [H|[H|[]]]; [contradiction|]. subst. apply Hc. left; reflexivity.
    + apply IH; [assumption|]. intros H. apply Hc. right; exact H.
Qed.

(* among N + 1 numbers below N two are equal *)
Lemma ff_pigeon (g : nat -> nat) N :
  (forall k, k <= N -> g k < N) -> exists i j, i < j /\ j <= N /\ g i = g j.
Proof.
  intros Hb.
  destruct (NoDup_dec Nat.eq_dec (map g (seq 0 (S N)))) as [ND|ND].
  - exfalso.
    assert (Hl : length (map g (seq 0 (S N))) <= length (seq 0 N)).
    { apply NoDup_incl_length; [exact ND|]. intros a Ha. apply in_map_iff in Ha.
      destruct Ha as [k [<- Hk]]. apply in_seq in Hk. apply in_seq. specialize (Hb k). lia. }
    rewrite map_length, !seq_length in Hl. lia.
  - assert (Hgen : forall n, n <= S N -> ~ NoDup (map g (seq 0 n)) -> exists i j, i < j /\ j < n /\ g i = g j).
    { induction n as [|n IH]; intros Hn Hnd.
      - exfalso. apply Hnd. constructor.
      - rewrite seq_S, map_app in Hnd. simpl in Hnd.
        destruct (NoDup_dec Nat.eq_dec (map g (seq 0 n))) as [ND'|ND'].
        + destruct (in_dec Nat.eq_dec (g n) (map g (seq 0 n))) as [Hin|Hin].
          * apply in_map_iff in Hin. destruct Hin as [i [Hi Hik]]. apply in_seq in Hik.
            exists i, n. split; [lia|]. split; [lia|exact Hi].
          * exfalso. apply Hnd. apply ff_NoDup_snoc; assumption.
        + destruct (IH ltac:(lia) ND') as [i [j [Hij [Hj E]]]]. exists i, j. split; [lia|]. split; [lia|exact E]. }
    destruct (Hgen (S N) (le_n _) ND) as [i [j [Hij [Hj E]]]]. exists i, j. split; [lia|]. split; [lia|exact E].
Qed.

Section Fun.
  Variable V : Type.
  Variable f : V -> V.

  Fixpoint ff_iter (k : nat) (a : V) : V :=
    match k with O => a | S k' => ff_iter k' (f a) end.

  Lemma ff_iter_add m n a : ff_iter (m + n) a = ff_iter n (ff_iter m a).
  Proof. revert a. induction m as [|m IH]; intros a; simpl; [reflexivity|apply IH]. Qed.
  Lemma ff_iter_S k a : ff_iter (S k) a = f (ff_iter k a).
  Proof. replace (S k) with (k + 1) by lia. rewrite ff_iter_add. reflexivity. Qed.

  (* the vertices we talk about: closed under f *)
  Variable L : V -> Prop.
  Hypothesis L_closed : forall v, L v -> L (f v).

  Lemma ff_iter_L k a : L a -> L (ff_iter k a).
  Proof. revert a. induction k as [|k IH]; intros a H; simpl; [exact H|]. apply IH, L_closed, H. Qed.

  (* ---- descent *)
  Section Descent.
    Variable rank : V -> Z.
    Variable bad : V -> Prop.
    Hypothesis rank_nonneg : forall v, L v -> (0 <= rank v)%Z.
    Hypothesis bad_dec : forall v, bad v \/ ~ bad v.
    Hypothesis descends : forall v, L v -> ~ bad v -> (rank (f v) < rank v)%Z.

    Lemma ff_descent a : L a -> exists k, bad (ff_iter k a) /\ (Z.of_nat k <= rank a)%Z.
    Proof.
      intros La.
      assert (Hgen : forall n a, L a -> (rank a < Z.of_nat n)%Z ->
                                 exists k, bad (ff_iter k a) /\ (Z.of_nat k <= rank a)%Z).
      { clear a La. induction n as [|n IH]; intros a La Hr.
        - pose proof (rank_nonneg a La). lia.
        - destruct (bad_dec a) as [B|B].
          + exists 0. split; [exact B|]. pose proof (rank_nonneg a La). simpl. lia.
          + pose proof (descends a La B) as Hd.
            destruct (IH (f a) (L_closed a La) ltac:(lia)) as [k [Hk Hle]].
            exists (S k). split; [exact Hk|]. lia. }
      apply (Hgen (S (Z.to_nat (rank a)))); [exact La|]. pose proof (rank_nonneg a La). lia.
    Qed.
  End Descent.

  (* ---- no entry into a cycle of vertices with unique predecessors *)
  Section Entry.
    Variable plain : V -> Prop.        (* vertices with at most one predecessor ("no firefly") *)
    Hypothesis uniq : forall a b, L a -> L b -> f a = f b -> plain (f a) -> a = b.

    Lemma ff_entry c p : L c -> 1 <= p -> ff_iter p c = c -> (forall k, plain (ff_iter k c)) ->
      forall m a, L a -> (exists k, ff_iter m a = ff_iter k c) -> exists k, a = ff_iter k c.
    Proof.
      intros Lc Hp Hper Hplain. induction m as [|m IH]; intros a La [k Hk].
      - exists k. exact Hk.
      - simpl in Hk. destruct (IH (f a) (L_closed a La) (ex_intro _ k Hk)) as [k' Hk'].
        (* f a = iter k' c; make k' positive *)
        assert (Hpos : exists k'', f a = ff_iter (S k'') c).
        { destruct k' as [|k'']; [|exists k''; exact Hk'].
          exists (p - 1). simpl in Hk'. rewrite Hk'. replace (S (p - 1)) with p by lia. symmetry; exact Hper. }
        destruct Hpos as [k'' Hk''].
        exists k''. apply uniq.
        + exact La.
        + apply ff_iter_L; exact Lc.
        + rewrite Hk''. apply ff_iter_S.
        + rewrite Hk''. apply Hplain.
    Qed.
  End Entry.

  (* ---- merging orbits *)
  Definition ff_merge (a b : V) : Prop := exists m n, ff_iter m a = ff_iter n b.

  Lemma ff_merge_refl a : ff_merge a a.
  Proof. exists 0, 0. reflexivity. Qed.
  Lemma ff_merge_sym a b : ff_merge a b -> ff_merge b a.
  Proof. intros [m [n E]]. exists n, m. symmetry; exact E. Qed.
  Lemma ff_merge_trans a b c : ff_merge a b -> ff_merge b c -> ff_merge a c.
  Proof.
    intros [m [n E]] [m' [n' E']]. exists (m + m'), (n' + n).
    rewrite (ff_iter_add m m'), E, <- ff_iter_add, (Nat.add_comm n m'), ff_iter_add, E', <- ff_iter_add. reflexivity.
  Qed.
  Lemma ff_merge_step a : ff_merge a (f a).
  Proof. exists 1, 0. reflexivity. Qed.

  Lemma ff_periodic_mul c p : ff_iter p c = c -> forall t, ff_iter (t * p) c = c.
  Proof.
    intros Hper. induction t as [|t IH]; [reflexivity|]. simpl. rewrite ff_iter_add, Hper. exact IH.
  Qed.

  (* a point on a cycle is reached by every orbit that merges with its own *)
  Lemma ff_merge_reach_periodic a c p : 1 <= p -> ff_iter p c = c -> ff_merge a c -> exists k, ff_iter k a = c.
  Proof.
    intros Hp Hper [m [n E]].
    (* iter n c lies on the cycle; n * p - n further steps lead back to c *)
    exists (m + (n * p - n)). rewrite ff_iter_add, E, <- ff_iter_add.
    replace (n + (n * p - n)) with (n * p) by nia. apply ff_periodic_mul. exact Hper.
  Qed.

  (* ---- finitely many vertices *)
  Variable idx : V -> nat.
  Variable N : nat.
  Hypothesis idx_lt : forall v, L v -> idx v < N.
  Hypothesis idx_inj : forall a b, L a -> L b -> idx a = idx b -> a = b.

  Lemma ff_orbit_repeats a : L a -> exists i j, i < j /\ j <= N /\ ff_iter i a = ff_iter j a.
  Proof.
    intros La. destruct (ff_pigeon (fun k => idx (ff_iter k a)) N) as [i [j [Hij [Hj E]]]].
    - intros k _. apply idx_lt, ff_iter_L, La.
    - exists i, j. split; [exact Hij|]. split; [exact Hj|]. apply idx_inj; [apply ff_iter_L, La|apply ff_iter_L, La|exact E].
  Qed.

  (* every orbit contains a periodic point *)
  Lemma ff_periodic_point a : L a -> exists i p, 1 <= p /\ i + p <= N /\ ff_iter p (ff_iter i a) = ff_iter i a.
  Proof.
    intros La. destruct (ff_orbit_repeats a La) as [i [j [Hij [Hj E]]]].
    exists i, (j - i). split; [lia|]. split; [lia|]. rewrite <- ff_iter_add. replace (i + (j - i)) with j by lia.
    symmetry; exact E.
  Qed.

  (* the first time an orbit reaches c comes within N - 1 steps *)
  Lemma ff_first_hit_bound a c k :
    L a -> ff_iter k a = c -> (forall k', k' < k -> ff_iter k' a <> c) -> k < N.
  Proof.
    intros La Hk Hmin. destruct (Nat.lt_ge_cases k N) as [Hlt|Hge]; [exact Hlt|exfalso].
    destruct (ff_orbit_repeats a La) as [i [j [Hij [Hj E]]]].
    apply (Hmin (k - (j - i))); [lia|].
    replace (k - (j - i)) with (i + (k - j)) by lia. rewrite ff_iter_add, E, <- ff_iter_add.
    replace (j + (k - j)) with k by lia. exact Hk.
  Qed.

  (* ---- the distance to a target, by search *)
  Variable veq : V -> V -> bool.
  Hypothesis veq_spec : forall a b, veq a b = true <-> a = b.
  Variable target : V.

  Fixpoint ff_dist (fuel : nat) (a : V) : nat :=
    if veq a target then 0 else match fuel with O => 0 | S fl => S (ff_dist fl (f a)) end.

  Lemma ff_dist_spec fuel : forall a k, k <= fuel -> ff_iter k a = target ->
    ff_iter (ff_dist fuel a) a = target /\ ff_dist fuel a <= k /\
    (forall k', k' < ff_dist fuel a -> ff_iter k' a <> target).
  Proof.
    induction fuel as [|fuel IH]; intros a k Hk Hit.
    - assert (k = 0) by lia. subst k. simpl in Hit. subst a. simpl.
      replace (veq target target) with true by (symmetry; apply veq_spec; reflexivity).
      split; [reflexivity|]. split; [lia|]. intros k' Hk'. lia.
    - simpl. destruct (veq a target) eqn:E.
      + apply veq_spec in E. subst a. split; [reflexivity|]. split; [lia|]. intros k' Hk'. lia.
      + assert (Hne : a <> target) by (intros H; apply veq_spec in H; congruence).
        destruct k as [|k]; [simpl in Hit; contradiction|]. simpl in Hit.
        destruct (IH (f a) k ltac:(lia) Hit) as [H1 [H2 H3]].
        split; [exact H1|]. split; [lia|].
        intros k' Hk'. destruct k' as [|k']; [exact Hne|]. simpl. apply H3. lia.
  Qed.

  (* with enough fuel the distance does not depend on the fuel *)
  Lemma ff_dist_stable fuel fuel' a k :
    k <= fuel -> k <= fuel' -> ff_iter k a = target -> ff_dist fuel a = ff_dist fuel' a.
  Proof.
    intros H1 H2 Hit.
    destruct (ff_dist_spec fuel a k H1 Hit) as [A1 [A2 A3]].
    destruct (ff_dist_spec fuel' a k H2 Hit) as [B1 [B2 B3]].
    destruct (lt_eq_lt_dec (ff_dist fuel a) (ff_dist fuel' a)) as [[Hlt|E]|Hlt]; [|exact E|].
    - exfalso. exact (B3 _ Hlt A1).
    - exfalso. exact (A3 _ Hlt B1).
  Qed.

  Lemma ff_dist_step fuel a k :
    k <= fuel -> ff_iter k a = target -> a <> target -> ff_dist fuel a = S (ff_dist fuel (f a)).
  Proof.
    intros Hk Hit Hne. destruct fuel as [|fuel].
    - assert (k = 0) by lia. subst k. simpl in Hit. contradiction.
    - cbn [ff_dist]. destruct (veq a target) eqn:E; [apply veq_spec in E; contradiction|]. f_equal.
      destruct k as [|k]; [simpl in Hit; contradiction|]. simpl in Hit.
      apply (ff_dist_stable fuel (S fuel) (f a) k); [lia|lia|exact Hit].
  Qed.

  Lemma ff_dist_bound fuel a k : L a -> k <= fuel -> ff_iter k a = target -> ff_dist fuel a < N.
  Proof.
    intros La Hk Hit. destruct (ff_dist_spec fuel a k Hk Hit) as [A1 [A2 A3]].
    exact (ff_first_hit_bound a target _ La A1 A3).
  Qed.
End Fun.

(* ---- the structure behind solve_firefly's encoding: vertices with a firefly ("not plain") and without ("plain");
   plain vertices have exactly one predecessor; a rank that descends except at bad vertices, of which there is at
   most one; some vertex carries a firefly *)
Section Network.
  Variable V : Type.
  Variable f : V -> V.
  Variable L : V -> Prop.
  Hypothesis L_closed : forall v, L v -> L (f v).
  Variable idx : V -> nat.
  Variable N : nat.
  Hypothesis idx_lt : forall v, L v -> idx v < N.
  Hypothesis idx_inj : forall a b, L a -> L b -> idx a = idx b -> a = b.
  Variable plain : V -> Prop.
  Hypothesis plain_dec : forall v, plain v \/ ~ plain v.
  Hypothesis uniq : forall a b, L a -> L b -> f a = f b -> plain (f a) -> a = b.
  Hypothesis has_pred : forall a, L a -> plain a -> exists b, L b /\ f b = a.
  Variable rank : V -> Z.
  Variable bad : V -> Prop.
  Hypothesis rank_nonneg : forall v, L v -> (0 <= rank v)%Z.
  Hypothesis bad_dec : forall v, bad v \/ ~ bad v.
  Hypothesis descends : forall v, L v -> ~ bad v -> (rank (f v) < rank v)%Z.
  Hypothesis bad_unique : forall a b, L a -> L b -> bad a -> bad b -> a = b.
  Variable F0 : V.
  Hypothesis F0_L : L F0.
  Hypothesis F0_fly : ~ plain F0.

  Notation iter := (ff_iter V f).

  Lemma ff_periodic_all c p (P : V -> Prop) :
    1 <= p -> iter p c = c -> (forall k, k < p -> P (iter k c)) -> forall k, P (iter k c).
  Proof.
    intros Hp Hper Hlt k. induction k as [k IH] using lt_wf_ind.
    destruct (Nat.lt_ge_cases k p) as [Hk|Hk]; [apply Hlt; exact Hk|].
    replace k with (p + (k - p)) by lia. rewrite ff_iter_add, Hper. apply IH. lia.
  Qed.

  (* no cycle consists of plain vertices only *)
  Lemma ff_no_plain_cycle c p : L c -> 1 <= p -> iter p c = c -> (forall k, plain (iter k c)) -> False.
  Proof.
    intros Lc Hp Hper Hpl.
    destruct (ff_descent V f L L_closed rank bad rank_nonneg bad_dec descends c Lc) as [k [Bk _]].
    destruct (ff_descent V f L L_closed rank bad rank_nonneg bad_dec descends F0 F0_L) as [m [Bm _]].
    assert (E : iter m F0 = iter k c).
    { apply bad_unique; try assumption; apply ff_iter_L; assumption. }
    destruct (ff_entry V f L L_closed plain uniq c p Lc Hp Hper Hpl m F0 F0_L (ex_intro _ k E)) as [k' Hk'].
    apply F0_fly. rewrite Hk'. apply Hpl.
  Qed.

  (* every orbit meets a firefly within N steps *)
  Lemma ff_fly_ahead a : L a -> exists k, 1 <= k /\ k <= N /\ ~ plain (iter k a) /\
                                          (forall i, 1 <= i -> i < k -> plain (iter i a)).
  Proof.
    intros La.
    assert (Hsearch : forall n, (exists k, 1 <= k /\ k <= n /\ ~ plain (iter k a) /\
                                           (forall i, 1 <= i -> i < k -> plain (iter i a))) \/
                                (forall k, 1 <= k -> k <= n -> plain (iter k a))).
    { induction n as [|n IH]; [right; intros k H1 H2; lia|].
      destruct IH as [[k [H1 [H2 [H3 H4]]]]|IH].
      - left. exists k. repeat split; try assumption; lia.
      - destruct (plain_dec (iter (S n) a)) as [P|P].
        + right. intros k H1 H2. destruct (Nat.eq_dec k (S n)) as [->|Nk]; [exact P|apply IH; lia].
        + left. exists (S n). split; [lia|]. split; [lia|]. split; [exact P|]. intros i Hi1 Hi2. apply IH; lia. }
    destruct (Hsearch N) as [Hex|Hall]; [exact Hex|exfalso].
    destruct (ff_orbit_repeats V f L L_closed idx N idx_lt idx_inj a La) as [i [j [Hij [Hj E]]]].
    apply (ff_no_plain_cycle (iter i a) (j - i)).
    - apply ff_iter_L; assumption.
    - lia.
    - rewrite <- ff_iter_add. replace (i + (j - i)) with j by lia. symmetry; exact E.
    - apply ff_periodic_all with (p := j - i).
      + lia.
      + rewrite <- ff_iter_add. replace (i + (j - i)) with j by lia. symmetry; exact E.
      + intros k Hk. rewrite <- ff_iter_add.
        destruct (Nat.eq_dec (i + k) 0) as [Z0|NZ].
        * assert (i = 0) by lia. assert (k = 0) by lia. subst i k. simpl. simpl in E. rewrite E. apply Hall; lia.
        * apply Hall; lia.
  Qed.

  (* every vertex lies on the beam of a firefly *)
  Lemma ff_back_to_fly a : L a -> exists k F, L F /\ ~ plain F /\ iter k F = a /\
                                             (forall i, 1 <= i -> i <= k -> plain (iter i F)).
  Proof.
    intros La.
    assert (Hback : forall n, (exists k F, L F /\ ~ plain F /\ iter k F = a /\
                                           (forall i, 1 <= i -> i <= k -> plain (iter i F))) \/
                              (exists b, L b /\ iter n b = a /\ forall i, i <= n -> plain (iter i b))).
    { induction n as [|n IH].
      - destruct (plain_dec a) as [P|P].
        + right. exists a. split; [exact La|]. split; [reflexivity|]. intros i Hi. replace i with 0 by lia. exact P.
        + left. exists 0, a. split; [exact La|]. split; [exact P|]. split; [reflexivity|]. intros i H1 H2. lia.
      - destruct IH as [IH|[b [Lb [Hb Hpl]]]]; [left; exact IH|].
        destruct (has_pred b Lb (Hpl 0 ltac:(lia))) as [b' [Lb' Eb']].
        destruct (plain_dec b') as [P|P].
        + right. exists b'. split; [exact Lb'|]. split; [simpl; rewrite Eb'; exact Hb|].
          intros i Hi. destruct i as [|i]; [exact P|]. simpl. rewrite Eb'. apply Hpl. lia.
        + left. exists (S n), b'. split; [exact Lb'|]. split; [exact P|]. split; [simpl; rewrite Eb'; exact Hb|].
          intros i H1 H2. destruct i as [|i]; [lia|]. simpl. rewrite Eb'. apply Hpl. lia. }
    destruct (Hback N) as [Hex|[b [Lb [Hb Hpl]]]]; [exact Hex|exfalso].
    destruct (ff_orbit_repeats V f L L_closed idx N idx_lt idx_inj b Lb) as [i [j [Hij [Hj E]]]].
    apply (ff_no_plain_cycle (iter i b) (j - i)).
    - apply ff_iter_L; assumption.
    - lia.
    - rewrite <- ff_iter_add. replace (i + (j - i)) with j by lia. symmetry; exact E.
    - apply ff_periodic_all with (p := j - i).
      + lia.
      + rewrite <- ff_iter_add. replace (i + (j - i)) with j by lia. symmetry; exact E.
      + intros k Hk. rewrite <- ff_iter_add. apply Hpl. lia.
  Qed.

  (* all orbits meet: every vertex reaches the bad vertex *)
  Lemma ff_all_reach_bad : exists v0, L v0 /\ bad v0 /\ forall a, L a -> exists k, iter k a = v0.
  Proof.
    destruct (ff_descent V f L L_closed rank bad rank_nonneg bad_dec descends F0 F0_L) as [m [Bm _]].
    exists (iter m F0). split; [apply ff_iter_L; assumption|]. split; [exact Bm|].
    intros a La.
    destruct (ff_descent V f L L_closed rank bad rank_nonneg bad_dec descends a La) as [k [Bk _]].
    exists k. apply bad_unique; try assumption; apply ff_iter_L; assumption.
  Qed.
End Network.
