(* C05: division_exact (both encodings) for every program with the model's
   declarations / answer keys and the model's added constraints in any order. *)
From Coq Require Import ZArith List Bool Permutation.
From Cspuz Require Import Lib.PyErr Core.Expr Core.Program Core.ProgramFacts
  Graph.GraphModel Graph.Division Graph.DivisionProofs Graph.DivisionMain.
Import ListNotations.
Open Scope nat_scope.

Lemma extends_sat_perm gsem st st' st2 en :
  reordered_extension st st' st2 ->
  (extends_sat gsem st st2 en <-> extends_sat gsem st st' en).
Proof. intros H. exact (completable_perm gsem st st' st2 en H). Qed.

Theorem division_exact_modulo_order st s R g roots aeg prim st' st2 en :
  wf_graph g = true ->
  length (seq_data s) = nv g ->
  labels_ok division_gsem (next_id st) (seq_data s) ->
  post_division st s R g roots aeg prim = Ok st' ->
  reordered_extension st st' st2 ->
  (extends_sat division_gsem st st2 en
   <-> spec_division g R (label_of division_gsem en (seq_data s)) roots aeg).
Proof.
  intros Hwf Hl Hlab Hpost Hre.
  rewrite (extends_sat_perm division_gsem st st' st2 en Hre).
  exact (division_exact_both st s R g roots aeg prim st' en Hwf Hl Hlab Hpost).
Qed.
