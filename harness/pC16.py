"""C16 — puzzle URL codecs round-trip and agree with the puzz.link / pzv format."""
import hashlib
import importlib
import re

import vlib
import c15gen as G
import c16gen as P
import c16hist as H
import c16trans as T

PROPS = "Props/C16.v"
RULE = ("translator (T): every <P>_COMBINATOR assignment and serialize_<p>/deserialize_<p> wrapper of the nine combinator-based "
        "modules is re-read from the source with `ast` (fail-closed) into Gen/Codecs.v, over which Props/C16.v is re-checked.  "
        "correspondence (C): the real serialize_<p>/deserialize_<p>, compass.to_puzz_link_url/parse_puzz_link_url, "
        "star_battle.problem_to_pzv_url, aquarium.problem_to_url, util.encode_array/_encode_int_or_str/encode_grid_segmentation/"
        "blocks_to_block_id, heyawake.convert_from_rectangular_repr and the URL regular expression are run against the extracted Coq "
        "model (Codec/Comb.v terms from the translator, Codec/Legacy.v, Codec/Url.v, Codec/Yajilin.v) on generated problems of every "
        "listed module (boundary-biased: values 15/16/255/256/4095, empty runs across the 20/26-cell one-character limits, 1xN, Nx1, "
        "non-square boards up to 17x16/1x80, every yajilin clue kind incl. '??' and all four directions, shuffled room/cell orders, "
        "all partitions of tiny boards), plus malformed streams (ill-shaped problems, URL variants: other scheme/prefix/name, swapped "
        "or wrong sizes, truncated/extended/mutated bodies, non-URLs); results compared as value | None | error enum.  "
        "search: on the real code only — decode(encode(p)) == canonical p with the dimensions; URL = known prefix + puzz.link name / "
        "width / height / body in this order; the INDEPENDENT pzpr decoders of Codec/Pzpr.v (extracted; authoritative) read the body "
        "back as the same problem (rooms via an independent flood fill in the harness); legacy encoders (encode_array, "
        "encode_grid_segmentation) and combinator codecs give identical text on identical data.  A case is non-trivial when it is a "
        "distinct (kind, module, size, problem/text).  "
        "hardening (both in the tie and in the search): every generated problem is rebuilt from newly created objects (ints via "
        "int(str(v)), strings via join, fresh tuples/lists) so that equality-vs-identity slips show; HISTORIES — every encoder is called "
        "twice on the same argument objects, the arguments are deep-copied before and compared after (they must be unchanged), the second "
        "result must equal the first / the model's, the expected problem is computed from the copy taken before the call; every decoder "
        "result is emptied in place and the URL decoded again (no aliased cache), a decoded problem must not contain one list object twice; "
        "encode -> other use of the same objects (legacy encoder after / before the combinator codec on one grid object, cell->room/clue "
        "map, solve_heyawake on boards of <= 16 cells before vs after serialize_heyawake); CONTAINER FORMS — tuples, generators, iter, "
        "map, reversed, zip, generators nested in lists, another listing order, for every argument the code merely iterates (heyawake "
        "rooms/clues and rectangles, compass clues, aquarium blocks and clue lists, block-id grids, encode_array with dim given; grid rows "
        "as tuples): same text as for the list form, the model always sees the materialised list; SIZES — runs of empties of length "
        "19..101 around every multiple of 20/26/36 (leading, inner, trailing, two runs, all-empty boards) on 1xN, Nx1, 7/36/37-wide "
        "boards, boards with a side of 36..73 and 300, clue lists of heyawake/aquarium with such runs; VALUES the format cannot carry "
        "(>= 4096, negative, masyu 3, slitherlink 5): the encoder must raise, or else the URL it returns must satisfy the property; "
        "OPTIONS — deserialize_problem_as_url with every combination of allowed_puzzles (omitted/None/str/list/empty list), "
        "allow_failure, return_size given, omitted or positional; encode_array keyword / positional / defaults omitted; "
        "util.encode_array against Grid(OneOf(Spaces(empty, marker), HexInt())) for markers 0,1,a,g,h,k,z and empty values -1/None/0/5000/'.'.")
TRUSTED = [
    "the pzpr body formats as transcribed in Codec/Pzpr.v from pzpr.js' Encode.js rules (decodeNumber16, decode4Cell, decodeCircle, "
    "decodeArrowNumber16, decodeBorder, decodeRoomNumber16, decodeNumber16ExCell; compass: four number16 tokens up/down/left/right per "
    "clue cell) and the translation of a pzpr board into each cspuz problem format (same file); no network: written from the format rules",
    "puzz.link names of the puzzles (nurikabe, masyu|mashu, slither, sudoku, nurimisaki, yajilin, heyawake, lits, norinori, compass, "
    "starbattle, aquarium) and the order name/width/height of the URL (table NAMES in harness/pC16.py)",
    "CPython re semantics of _DESERIALIZE_URL_REG as read deterministically by Codec/Comb.v url_match (validated on every run against "
    "the re module on generated and adversarial strings, kind 'regex'); int()/hex()/str() on Latin-1 text as in Codec/Comb.v",
    "harness-side flood fill (rooms of a border bitmap) and canonical form of a room partition (rooms by least cell, cells row-major)",
    "Codec/Comb.v, CombWf.v, CombBasics.v (model of problem_serializer.py and its lemmas) are property C15's files, imported unchanged",
]
ASSUMPTIONS = [
    "problem values: int, str (Latin-1), None, list, tuple; bool/float and other objects are outside the model",
    "yajilin clues are '..', '??' or an arrow character followed by the canonical decimal text of 0..4095 (int() accepts more spellings, "
    "e.g. '^ 7' or '^+7'; they encode like the canonical one and decode to it)",
    "round trip is stated up to the canonical form the decoders produce: rooms ordered by least cell with cells row-major (heyawake "
    "clues carried with their rooms), compass clues in row-major order of their cells",
    "clue values are within what the text format can carry (0..4095; compass/aquarium legacy encoders: -1 = blank); larger values make "
    "the encoders raise and produce no URL",
    "decoding of arbitrary / malformed text is property C17's subject; here malformed inputs are only part of the correspondence stream",
    "the codec functions are functions of the VALUE of their arguments: they leave the caller's objects unchanged, give the same result when "
    "called again on the same objects, and hand out results that share no mutable state with a later call (checked as histories)",
    "container forms checked are those the unchanged code accepts (arguments it only iterates / indexes); a one-shot iterable passed to "
    "util.encode_array without dim= is outside (the dimension probe consumes it); list-of-list requirements of Grid/Rooms are kept",
]

ERR = {1: "IndexError", 2: "KeyError", 3: "AssertionError", 4: "TypeError", 5: "ValueError",
       6: "RecursionError", 7: "NotImplementedError", 8: "Other"}

# puzz.link / pzv names and which cspuz functions implement the two directions (independent of the translator)
NAMES = {
    "nurikabe": "nurikabe", "masyu": "masyu", "slitherlink": "slither", "sudoku": "sudoku", "nurimisaki": "nurimisaki",
    "yajilin": "yajilin", "heyawake": "heyawake", "lits": "lits", "norinori": "norinori", "compass": "compass",
    "star_battle": "starbattle", "aquarium": "aquarium",
}
GRID_MODULES = ["nurikabe", "masyu", "slitherlink", "sudoku", "nurimisaki", "yajilin"]
PREFIXES = ["https://puzz.link/p?", "http://pzv.jp/p.html?"]


def mod(name):
    return importlib.import_module("cspuz.puzzle." + name)


def key_of(*parts):
    s = ":".join(str(p) for p in parts)
    return s if len(s) <= 100 else s[:70] + "#" + hashlib.md5(s.encode()).hexdigest()[:10]


def short(x, n=400):
    r = repr(x)
    return r if len(r) <= n else r[:n] + "...(%d chars)" % len(r)


# ---------------------------------------------------------------- model replies

def parse_model(r, kind):
    t = r.split()
    if not t or t[0] == "EXN":
        return ("model-exn", r)
    if t[0] == "E":
        return ("err", ERR[int(t[1])])
    if t[0] == "N":
        return ("ok", None)
    if kind == "str":
        return ("ok", G.unhx(t[1]))
    v, _ = G.parse_pv(t, 1)
    return ("ok", v)


def strict_eq(a, b):
    if type(a) is not type(b):
        return False
    if isinstance(a, (list, tuple)):
        return len(a) == len(b) and all(strict_eq(x, y) for x, y in zip(a, b))
    return a == b


def pv_ok(v):
    try:
        G.pv_tok(v)
        return True
    except TypeError:
        return False


def latin1(s):
    return all(ord(c) < 256 for c in s)


def norm_err(r):
    """implementation outcome -> the model's error enum"""
    if r[0] == "err" and r[1] == "ZeroDivisionError":
        return ("err", "Other")
    return r


def corr(ctx, kind, inp, mo, io):
    io = norm_err(io)
    if mo[0] == "ok" and io[0] == "ok" and not strict_eq(mo[1], io[1]):
        # same value up to list/tuple/int-vs-bool distinctions is still a mismatch: report as is
        ctx.corr(kind, inp, ("ok", short(mo[1])), ("ok", short(io[1])))
    elif mo[0] == "ok" and io[0] == "ok":
        ctx.corr(kind, inp, "same", "same")
    else:
        ctx.corr(kind, inp, mo if mo[0] != "ok" else ("ok", short(mo[1])), io if io[0] != "ok" else ("ok", short(io[1])))


def corr_reuse(ctx, kind, inp, mo, io2, unchanged):
    """history part of the tie: the model is a pure function, so the SECOND call on the same argument objects must
    give what the model gives, and the call must leave its arguments as they were"""
    corr(ctx, kind + ":2nd-call-same-objects", inp, mo, io2)
    if not unchanged:
        ctx.corr(kind + ":arguments", inp, "arguments unchanged by the call", "arguments mutated by the call")


# ---------------------------------------------------------------- independent helpers of the search

def canon_rooms(rooms):
    return sorted([sorted(r) for r in rooms], key=lambda r: r[0])


def rooms_from_borders(h, w, vflags, hflags):
    """independent flood fill: vflags[y*(w-1)+x] between (y,x),(y,x+1); hflags[y*w+x] between (y,x),(y+1,x)"""
    seen = [[False] * w for _ in range(h)]
    rooms = []
    for y0 in range(h):
        for x0 in range(w):
            if seen[y0][x0]:
                continue
            seen[y0][x0] = True
            todo, room = [(y0, x0)], []
            while todo:
                y, x = todo.pop()
                room.append((y, x))
                nb = []
                if x + 1 < w and not vflags[y * (w - 1) + x]:
                    nb.append((y, x + 1))
                if x > 0 and not vflags[y * (w - 1) + x - 1]:
                    nb.append((y, x - 1))
                if y + 1 < h and not hflags[y * w + x]:
                    nb.append((y + 1, x))
                if y > 0 and not hflags[(y - 1) * w + x]:
                    nb.append((y - 1, x))
                for (a, b) in nb:
                    if not seen[a][b]:
                        seen[a][b] = True
                        todo.append((a, b))
            rooms.append(sorted(room))
    return rooms


def borders_of_ids(h, w, ids):
    v = [1 if ids[y][x] != ids[y][x + 1] else 0 for y in range(h) for x in range(w - 1)]
    hz = [1 if ids[y][x] != ids[y + 1][x] else 0 for y in range(h - 1) for x in range(w)]
    return v, hz


def split_url(url, name, w, h, extra_fields=0):
    """URL shape by plain string operations (no regular expression): known prefix, then
    name/width/height[/extra...]/body.  Returns (body, None) or (None, reason)."""
    for pre in PREFIXES:
        if url.startswith(pre):
            rest = url[len(pre):]
            break
    else:
        return None, "URL does not start with a puzz.link / pzv prefix"
    parts = rest.split("/", 3 + extra_fields)
    if len(parts) != 4 + extra_fields:
        return None, "URL has fewer than %d '/'-separated fields after the prefix" % (4 + extra_fields)
    if parts[0] != name:
        return None, "puzzle name %r, expected %r" % (parts[0], name)
    if parts[1] != str(w) or parts[2] != str(h):
        return None, "size fields %s/%s, expected width/height = %d/%d" % (parts[1], parts[2], w, h)
    return parts[3:], None


class Viol:
    """at most two violations per (module, check, category) class"""

    def __init__(self, ctx):
        self.ctx, self.seen = ctx, {}

    def __call__(self, module, check, category, what, detail):
        k = key_of(module, check, category)
        self.seen[k] = self.seen.get(k, 0) + 1
        if self.seen[k] <= 1:
            d = dict(detail)
            d.update({"module": module, "check": check, "category": category})
            self.ctx.violation(k, what, d)


# ---------------------------------------------------------------- translate

def translate(ctx):
    tr = T.translate_all()
    ctx._c16_tr = tr
    T.write_gen(tr)


def get_tr(ctx):
    tr = getattr(ctx, "_c16_tr", None)
    if tr is None:
        tr = T.translate_all()
        ctx._c16_tr = tr
    return tr


# ---------------------------------------------------------------- case streams (shared by tie and search)

def cases_grid(ctx, module):
    out = getattr(ctx, "_c16_cases", {}).get(module)
    if out is None:
        out = list(P.grid_problems(ctx.rng, module, ctx.thorough)) + list(P.grid_problems_hard(ctx.rng, module, ctx.thorough))
        out = [H.fresh(t) for t in out]
        ctx.__dict__.setdefault("_c16_cases", {})[module] = out
    return out


def cases_rooms(ctx, tag):
    store = ctx.__dict__.setdefault("_c16_cases", {})
    if tag not in store:
        out = []
        for (h, w, rooms) in list(P.room_partitions(ctx.rng, ctx.thorough)) + list(P.big_side_partitions(ctx.rng, ctx.thorough)):
            out.append((h, w, G.shuffled_rooms(ctx.rng, rooms) if ctx.rng.random() < 0.7 else [list(r) for r in rooms]))
        store[tag] = [H.fresh(t) for t in out]
    return store[tag]


def cases_compass(ctx):
    store = ctx.__dict__.setdefault("_c16_cases", {})
    if "compass" not in store:
        out = []
        for (h, w, pos) in list(P.compass_problems(ctx.rng, ctx.thorough)) + list(P.compass_run_problems(ctx.rng, ctx.thorough)) \
                + list(P.compass_oob_problems(ctx.rng)):
            if ctx.rng.random() < 0.3:
                pos = list(pos)
                ctx.rng.shuffle(pos)
            out.append((h, w, pos))
        store["compass"] = [H.fresh(t) for t in out]
    return store["compass"]


def cases_aquarium(ctx):
    store = ctx.__dict__.setdefault("_c16_cases", {})
    if "aquarium" not in store:
        store["aquarium"] = [H.fresh(t) for t in list(P.aquarium_problems(ctx.rng, ctx.thorough))
                             + list(P.aquarium_run_problems(ctx.rng, ctx.thorough)) + list(P.aquarium_oob_problems(ctx.rng))]
    return store["aquarium"]


def cases_heyawake(ctx):
    store = ctx.__dict__.setdefault("_c16_cases", {})
    if "heyawake" not in store:
        out = []
        for (h, w, rooms) in cases_rooms(ctx, "heyawake-rooms"):
            out.append((h, w, rooms, P.heyawake_clues(ctx.rng, rooms)))
        for (h, w, rooms, clues) in list(P.heyawake_run_cases(ctx.rng, ctx.thorough)) + list(P.heyawake_oob_cases(ctx.rng)):
            if ctx.rng.random() < 0.6:                     # the caller may list the rooms in any order
                order = list(range(len(rooms)))
                ctx.rng.shuffle(order)
                rooms, clues = [rooms[i] for i in order], [clues[i] for i in order]
            out.append((h, w, rooms, clues))
        store["heyawake"] = [H.fresh(t) for t in out]
    return store["heyawake"]


def cases_rect(ctx):
    """heyawake problems in the rectangular representation: (h, w, [(y0, x0, y1, x1, clue)])"""
    store = ctx.__dict__.setdefault("_c16_cases", {})
    if "rect" not in store:
        rng, out = ctx.rng, []
        for _ in range(150 if ctx.thorough else 40):
            h, w = rng.choice([(rng.randint(1, 8), rng.randint(1, 8)), (rng.randint(1, 8), rng.randint(1, 8)), (1, 40), (37, 2), (6, 7)])
            rect = [(y0, x0, y1, x1, rng.choice([-1, -1, 0, 1, 2, 5, 15, 16, 255, 256, 4095]))
                    for (y0, x0, y1, x1) in P.rect_partition(rng, 0, 0, h, w)]
            rng.shuffle(rect)
            out.append((h, w, rect))
        store["rect"] = [H.fresh(t) for t in out]
    return store["rect"]


def cases_arrays(ctx):
    store = ctx.__dict__.setdefault("_c16_cases", {})
    if "arrays" not in store:
        store["arrays"] = [H.fresh(t) for t in P.legacy_arrays(ctx.rng, ctx.thorough)]
    return store["arrays"]


def call2(fn, *args):
    """fn(*args) twice on the SAME argument objects -> (first outcome, second outcome, arguments unchanged?)"""
    before = H.snapshot(args)
    io1 = vlib.guarded(lambda: fn(*args))
    io2 = vlib.guarded(lambda: fn(*args))
    return io1, io2, H.same(before, args)


def malformed_grid(rng, module, g):
    """ill-shaped variants of a grid problem"""
    h, w = len(g), len(g[0])
    out = [[], [[]], [list(r) for r in g] + [[]], [r[:-1] for r in g], [list(r) + [r[0]] for r in g], [tuple(r) for r in g]]
    bad = {"yajilin": ["", "x3", "^", "^x", 5, None, "^-1", "^4096", "^ 7", "??1"]}.get(
        module, [-2, -7, 5, 36, 4096, 10 ** 6, "3", None, (1,), "."])
    for b in bad:
        gg = [list(r) for r in g]
        gg[rng.randrange(h)][rng.randrange(w)] = b
        out.append(gg)
    if h > 1:
        gg = [list(r) for r in g]
        gg[-1] = gg[-1][:-1]
        out.append(gg)
        out.append(g[:-1] + [g[-1] + g[-1]])
    return out


# ---------------------------------------------------------------- correspondence

def correspond(ctx):
    m = ctx.model("C16")
    ctx._c16_model = m
    tr = get_tr(ctx)
    rng = ctx.rng
    n_mal = 0

    # ---- 1. combinator-based modules: serialize_<p>
    produced = {}
    for module in T.MODULES:
        d = tr[module]
        tt, cu, nm = T.term_tok(d["term"]), d["custom"], G.hx(d["ser"]["name"])
        pm = mod(module)
        ser_fn = getattr(pm, d["ser_fn"])
        reqs, impls, inps = [], [], []

        def add(req, io, inp, io2=None, unchanged=True):
            reqs.append(req)
            impls.append((io, io2, unchanged))
            inps.append(inp)

        def add2(req, inp, *args):
            """two calls on one private copy of the arguments (the shared case objects stay as generated)"""
            io, io2, unch = call2(ser_fn, *H.fresh(args))
            add(req, io, inp, io2, unch)
            return io

        if d["ser"]["size"] == "problem":
            stream = [(h, w, g, "valid") for (h, w, g) in cases_grid(ctx, module)]
            for (h, w, g) in rng.sample(cases_grid(ctx, module), 12 if not ctx.thorough else 40):
                stream += [(h, w, b, "malformed") for b in malformed_grid(rng, module, g)]
            for (h, w, g, tag) in stream:
                if not pv_ok(g):
                    continue
                io = add2("SERP %d %s %s %s" % (cu, tt, nm, G.pv_tok(g)), (module, tag, short(g, 200)), g)
                if tag == "valid" and io[0] == "ok":
                    produced.setdefault(module, []).append((h, w, g, io[1]))
        elif d["ser"]["size"] == "args":
            for (h, w, rooms) in cases_rooms(ctx, module):
                io = add2("SERS %d %s %s %d %d %s" % (cu, tt, nm, h, w, G.pv_tok(rooms)), (module, "valid", h, w, short(rooms, 200)), h, w, rooms)
                if io[0] == "ok":
                    produced.setdefault(module, []).append((h, w, rooms, io[1]))
                if rng.random() < 0.25:
                    bad = rng.choice([(w, h, rooms), (h + 1, w, rooms), (h, w, rooms[:-1]), (h, w, rooms + [[(0, 0)]]),
                                      (h, w, [list(r) for r in rooms] + [[]]), (h, w, [r + [(h, 0)] for r in rooms]),
                                      (h, w, [tuple(r) for r in rooms]), (0, w, []), (h, w, [[(y, x, 0) for (y, x) in r] for r in rooms])])
                    io = vlib.guarded(lambda: ser_fn(*bad))
                    add("SERS %d %s %s %d %d %s" % (cu, tt, nm, bad[0], bad[1], G.pv_tok(bad[2])), io,
                        (module, "malformed", bad[0], bad[1], short(bad[2], 200)))
        else:                                              # heyawake: (rooms, clues) or the rectangular representation
            for (h, w, rooms, clues) in cases_heyawake(ctx):
                io = add2("SERS %d %s %s %d %d %s" % (cu, tt, nm, h, w, G.pv_tok((rooms, clues))),
                          (module, "valid", h, w, short((rooms, clues), 200)), h, w, rooms, clues)
                if io[0] == "ok":
                    produced.setdefault(module, []).append((h, w, (rooms, clues), io[1]))
                # the same problem handed over as tuples / one-shot iterables / in another room order: the model sees the lists
                fname, ff = rng.choice(H.forms_pairs(*H.fresh((rooms, clues))))
                add("SERS %d %s %s %d %d %s" % (cu, tt, nm, h, w, G.pv_tok((rooms, clues))), vlib.guarded(lambda: ser_fn(h, w, *ff())),
                    (module, "form:" + fname, h, w, short((rooms, clues), 200)))
                if rng.random() < 0.2:
                    bad = rng.choice([(w, h, rooms, clues), (h, w, rooms, clues[:-1]), (h, w, rooms, clues + [1]),
                                      (h, w, rooms[:-1], clues[:-1]), (h, w, rooms, [4096 for _ in clues]),
                                      (h, w, rooms, [-2 for _ in clues]), (h, w, [], [])])
                    io = vlib.guarded(lambda: ser_fn(*bad))
                    if io == ("err", "TypeError") and (len(bad[2]) == 0):
                        continue                           # list(map(list, zip(*[]))) unpacking: outside the model
                    add("SERS %d %s %s %d %d %s" % (cu, tt, nm, bad[0], bad[1], G.pv_tok((bad[2], bad[3]))), io,
                        (module, "malformed", bad[0], bad[1], short(bad[2:], 200)))
            for _ in range(150 if ctx.thorough else 40):
                h, w = rng.randint(1, 8), rng.randint(1, 8)
                rect = [(y0, x0, y1, x1, rng.choice([-1, -1, 0, 1, 2, 5, 15, 16, 255, 256])) for (y0, x0, y1, x1) in P.rect_partition(rng, 0, 0, h, w)]
                rng.shuffle(rect)
                mo = parse_model(m.call("RECT " + G.pv_tok(rect)), "pv")
                io = vlib.guarded(lambda: tuple(pm.convert_from_rectangular_repr(rect)))
                corr(ctx, "convert_from_rectangular_repr", (h, w, short(rect, 200)), mo, io)
                if mo[0] == "ok":
                    add2("SERS %d %s %s %d %d %s" % (cu, tt, nm, h, w, G.pv_tok(mo[1])), (module, "rect", h, w, short(rect, 200)), h, w, rect)
                    fname, ff = rng.choice(H.forms_rect(H.fresh(rect)))
                    add("SERS %d %s %s %d %d %s" % (cu, tt, nm, h, w, G.pv_tok(mo[1])), vlib.guarded(lambda: ser_fn(h, w, ff())),
                        (module, "rect-form:" + fname, h, w, short(rect, 200)))
                    if fname != "reversed":                # (that form lists the rectangles in another order: same URL, other lists)
                        io = vlib.guarded(lambda: tuple(pm.convert_from_rectangular_repr(ff())))
                        corr(ctx, "convert_from_rectangular_repr", (h, w, "form:" + fname, short(rect, 200)), mo, io)
        outs = m.batch(reqs)
        for o, (io, io2, unch), inp in zip(outs, impls, inps):
            mo = parse_model(o, "str")
            corr(ctx, "serialize_" + module, inp, mo, io)
            if io2 is not None:
                corr_reuse(ctx, "serialize_" + module, inp, mo, io2, unch)
            n_mal += inp[1] == "malformed"

    # ---- 2. combinator-based modules: deserialize_<p> on produced URLs and their variants
    for module in T.MODULES:
        d = tr[module]
        tt, cu = T.term_tok(d["term"]), d["custom"]
        de_fn = getattr(mod(module), d["de_fn"])
        al = d["de"]["allowed"]
        al_tok = "A" if al is None else ("O " + G.hx(al) if isinstance(al, str) else "L %d %s" % (len(al), " ".join(G.hx(a) for a in al)))
        flags = "%d %d" % (int(d["de"]["allow_failure"]), int(d["de"]["return_size"]))
        urls = []
        items = produced.get(module, [])
        others = [n for n in ("mashu", "masyu", "lits", "nurikabe", "Sudoku", "x") if n != d["ser"]["name"]][:3]
        for i, (h, w, pb, url) in enumerate(items):
            urls.append((url, "valid"))
            if i % (3 if ctx.thorough else 9) == 0:
                body = url.split("/", 6)[-1] if url.count("/") >= 6 else ""
                for v in P.url_variants(rng, url, d["ser"]["name"], h, w, body, others):
                    urls.append((v, "variant"))
        seen, reqs, impls, inps = set(), [], [], []
        for (u, tag) in urls:
            if u in seen or not latin1(u):
                continue
            seen.add(u)
            reqs.append("DES %d %s %s %s %s" % (cu, tt, G.hx(u), al_tok, flags))
            io = vlib.guarded(lambda: de_fn(u))
            first = H.snapshot(io)
            if io[0] == "ok":
                H.scramble(io[1])                          # the caller edits the decoded problem, then decodes the URL again
            impls.append((first, vlib.guarded(lambda: de_fn(u))))
            inps.append((module, tag, short(u, 200)))
        # every combination of the optional arguments of deserialize_problem_as_url (given / omitted / positional)
        import cspuz.problem_serializer as ps_
        comb = getattr(mod(module), d["comb_name"])
        name = d["ser"]["name"]
        pool = [u for (u, tag) in urls if latin1(u)]
        for _ in range((60 if ctx.thorough else 16) if pool else 0):
            u = rng.choice(pool)
            alv = rng.choice(["omit", None, name, [name], [others[0], name], others[0], [], [others[0]], [name, name]])
            af, rs = rng.choice(["omit", False, True]), rng.choice(["omit", False, True])
            kw = {}
            if alv != "omit":
                kw["allowed_puzzles"] = H.fresh(alv)
            if af != "omit":
                kw["allow_failure"] = af
            if rs != "omit":
                kw["return_size"] = rs
            if len(kw) == 3 and rng.random() < 0.5:
                f = lambda: ps_.deserialize_problem_as_url(comb, u, kw["allowed_puzzles"], kw["allow_failure"], kw["return_size"])  # noqa
            else:
                f = lambda: ps_.deserialize_problem_as_url(comb, u, **kw)  # noqa
            a = None if alv == "omit" else alv
            a_tok = "A" if a is None else ("O " + G.hx(a) if isinstance(a, str) else ("L %d %s" % (len(a), " ".join(G.hx(x) for x in a))).strip())
            reqs.append("DES %d %s %s %s %d %d" % (cu, tt, G.hx(u), a_tok, int(af is True), int(rs is True)))
            io = vlib.guarded(f)
            impls.append((io, None))
            inps.append((module, "options", short(u, 120), repr(alv), repr(af), repr(rs)))
        outs = m.batch(reqs)
        for o, (io, io2), inp in zip(outs, impls, inps):
            mo = parse_model(o, "pv")
            corr(ctx, "deserialize_" + module, inp, mo, io)
            if io2 is not None:
                corr(ctx, "deserialize_" + module + ":2nd-call-after-editing-1st-result", inp, mo, io2)
            n_mal += inp[1] == "variant"

    # ---- 3. compass
    cm = mod("compass")
    reqs, impls, inps, curls = [], [], [], []
    for (h, w, pos) in cases_compass(ctx):
        io, io2, unch = call2(cm.to_puzz_link_url, *H.fresh((h, w, pos)))
        reqs.append("CTO %d %d %s" % (h, w, G.pv_tok(pos)))
        impls.append((io, io2, unch))
        inps.append(("valid", h, w, short(pos, 200)))
        if io[0] == "ok":
            curls.append((h, w, io[1]))
        fname, ff = rng.choice(H.forms_compass(H.fresh(pos)))  # tuples / one-shot iterables: the model sees the list
        reqs.append("CTO %d %d %s" % (h, w, G.pv_tok(pos)))
        impls.append((vlib.guarded(lambda: cm.to_puzz_link_url(h, w, ff())), None, True))
        inps.append(("form:" + fname, h, w, short(pos, 200)))
        if rng.random() < 0.15 and pos:
            bad = rng.choice([(w, h, pos), (h, w, pos + [pos[0]]), (h, w, [(h, 0, 1, 1, 1, 1)]), (h, w, [(0, -1, 1, 2, 3, 4)]),
                              (h, w, [(-1, 0, 4096, 2, 3, 4)]), (0, 0, pos[:1]), (h, w, [(0, 0, -2, 0, 16, 5000)])])
            reqs.append("CTO %d %d %s" % (bad[0], bad[1], G.pv_tok(bad[2])))
            impls.append((vlib.guarded(lambda: cm.to_puzz_link_url(*bad)), None, True))
            inps.append(("malformed", bad[0], bad[1], short(bad[2], 200)))
    for o, (io, io2, unch), inp in zip(m.batch(reqs), impls, inps):
        mo = parse_model(o, "str")
        corr(ctx, "compass.to_puzz_link_url", inp, mo, io)
        if io2 is not None:
            corr_reuse(ctx, "compass.to_puzz_link_url", inp, mo, io2, unch)
        n_mal += inp[0] == "malformed"
    purls = []
    for i, (h, w, u) in enumerate(curls):
        purls.append(u)
        if i % (2 if ctx.thorough else 6) == 0:
            body = u.split("/")[-1]
            purls += [u[:-1], u + "g", u + "-1", u + ".", "compass/%d/%d/%s" % (w, h, body), "%d/%s" % (h, body), body,
                      "https://puzz.link/p?compass/%d/0/%s" % (w, body), "https://puzz.link/p?compass/0/%d/%s" % (h, body),
                      "https://puzz.link/p?compass/x/%d/%s" % (h, body), "https://puzz.link/p?compass/%d/%d/%s" % (-w, h, body),
                      P.mutate_text(rng, u), "https://puzz.link/p?compass/3/3/" + P.mutate_text(rng, body), u.replace("/p?", "/p.html?")]
    purls = [u for u in dict.fromkeys(purls) if latin1(u)]
    for u, o in zip(purls, m.batch(["CPARSE " + G.hx(u) for u in purls])):
        io = vlib.guarded(lambda: cm.parse_puzz_link_url(u))
        first = H.snapshot(io)
        if io[0] == "ok":
            H.scramble(io[1])
        mo = parse_model(o, "pv")
        corr(ctx, "compass.parse_puzz_link_url", short(u, 200), mo, first)
        corr(ctx, "compass.parse_puzz_link_url:2nd-call-after-editing-1st-result", short(u, 200), mo, vlib.guarded(lambda: cm.parse_puzz_link_url(u)))

    # ---- 4. star battle, aquarium, util helpers
    sb, aq, ut = mod("star_battle"), mod("aquarium"), importlib.import_module("cspuz.puzzle.util")
    reqs, impls, inps, kinds = [], [], [], []

    def hist(req, kind, rk, inp, fn, *args):
        """two calls on one private copy of the arguments; the second result and the argument check follow the first in the lists"""
        io, io2, unch = call2(fn, *H.fresh(args))
        for (k2, o2) in [(kind, io), (kind + ":2nd-call-same-objects", io2)]:
            reqs.append(req)
            impls.append(o2)
            inps.append(inp)
            kinds.append((k2, rk))
        if not unch:
            ctx.corr(kind + ":arguments", inp, "arguments unchanged by the call", "arguments mutated by the call")

    def one(req, kind, rk, inp, io):
        reqs.append(req)
        impls.append(io)
        inps.append(inp)
        kinds.append((kind, rk))

    for (h, w, rooms) in cases_rooms(ctx, "star"):
        ids = P.block_id_of(h, w, rooms)
        fname, ff = rng.choice(H.forms_ids(ids))
        if h == w:
            k = rng.choice([1, 1, 2, 3, 10, 300])
            hist("STAR %d %d %s" % (h, k, G.pv_tok(ids)), "star_battle.problem_to_pzv_url", "str", (h, k, short(ids, 200)),
                 sb.problem_to_pzv_url, h, k, ids)
            one("STAR %d %d %s" % (h, k, G.pv_tok(ids)), "star_battle.problem_to_pzv_url", "str", (h, k, "form:" + fname, short(ids, 200)),
                vlib.guarded(lambda: sb.problem_to_pzv_url(h, k, ff())))
        hist("SEG %d %d %s" % (h, w, G.pv_tok(ids)), "util.encode_grid_segmentation", "str", (h, w, short(ids, 200)),
             ut.encode_grid_segmentation, h, w, ids)
        one("SEG %d %d %s" % (h, w, G.pv_tok(ids)), "util.encode_grid_segmentation", "str", (h, w, "form:" + fname, short(ids, 200)),
            vlib.guarded(lambda: ut.encode_grid_segmentation(h, w, ff())))
        if rng.random() < 0.2:                             # size arguments that do not fit the grid
            hh, ww = rng.choice([(w, h), (h + 1, w), (h, w + 1), (h - 1, w), (0, w), (h, 0)])
            reqs.append("SEG %d %d %s" % (hh, ww, G.pv_tok(ids)))
            impls.append(vlib.guarded(lambda: ut.encode_grid_segmentation(hh, ww, ids)))
            inps.append((hh, ww, short(ids, 200)))
            kinds.append(("util.encode_grid_segmentation", "str"))
            n_mal += 1
        blocks = G.shuffled_rooms(rng, rooms)
        hist("B2B %d %d %s" % (h, w, G.pv_tok(blocks)), "util.blocks_to_block_id", "pv", (h, w, short(blocks, 200)),
             ut.blocks_to_block_id, h, w, blocks)
        one("B2B %d %d %s" % (h, w, G.pv_tok(blocks)), "util.blocks_to_block_id", "pv", (h, w, "form:generators", short(blocks, 200)),
            vlib.guarded(lambda: ut.blocks_to_block_id(h, w, (H.gen(b) for b in blocks))))
        if rng.random() < 0.2:
            bb = rng.choice([[[(y - h, x - w) for (y, x) in r] for r in blocks], [[(y + 1, x) for (y, x) in r] for r in blocks],
                             blocks[:-1], blocks + [[(0, 0)]], [[(y, x + 1) for (y, x) in r] for r in blocks]])
            reqs.append("B2B %d %d %s" % (h, w, G.pv_tok(bb)))
            impls.append(vlib.guarded(lambda: ut.blocks_to_block_id(h, w, bb)))
            inps.append((h, w, short(bb, 200)))
            kinds.append(("util.blocks_to_block_id", "pv"))
            n_mal += 1
    for (h, w, blocks, rows, cols) in cases_aquarium(ctx):
        hist("AQ %d %d %s %s %s" % (h, w, G.pv_tok(blocks), G.pv_tok(rows), G.pv_tok(cols)), "aquarium.problem_to_url", "str",
             (h, w, short((blocks, rows, cols), 200)), aq.problem_to_url, h, w, blocks, rows, cols)
        fname, ff = rng.choice(H.forms_aquarium(*H.fresh((blocks, rows, cols))))
        one("AQ %d %d %s %s %s" % (h, w, G.pv_tok(blocks), G.pv_tok(rows), G.pv_tok(cols)), "aquarium.problem_to_url", "str",
            (h, w, "form:" + fname, short((blocks, rows, cols), 200)), vlib.guarded(lambda: aq.problem_to_url(h, w, *ff())))
        if rng.random() < 0.15:
            bad = rng.choice([(w, h, blocks, rows, cols), (h, w, blocks, [4096] + rows[1:], cols), (h, w, blocks[:-1], rows, cols),
                              (h, w, blocks, [-2] + rows[1:], cols), (h, w, blocks, rows + [3], cols)])
            reqs.append("AQ %d %d %s %s %s" % (bad[0], bad[1], G.pv_tok(bad[2]), G.pv_tok(bad[3]), G.pv_tok(bad[4])))
            impls.append(vlib.guarded(lambda: aq.problem_to_url(*bad)))
            inps.append((bad[0], bad[1], short(bad[2:], 200)))
            kinds.append(("aquarium.problem_to_url", "str"))
            n_mal += 1
    # encode_array / _encode_int_or_str on mixed arrays
    pool = [None, -1, 0, 1, 9, 10, 15, 16, 17, 255, 256, 4095, 4096, -2, ".", "ab", "", (1, "."), (16, 256), [3, "x"], (), (None,), [[1]]]
    for _ in range(1500 if ctx.thorough else 400):
        empty = rng.choice([None, None, -1, 0, ".", (1, ".")])
        marker = rng.choice(["g", "g", "g", "a", "z", "0", "k", "gh", "", "G", "zz"])
        dim = rng.choice([None, None, 1, 2, 0, 3])
        n = rng.choice([0, 1, 2, 5, 19, 20, 21, 22, 26, 27, 36, 37, 41, 60])
        dens = rng.choice([0.0, 0.05, 0.3, 1.0])
        flat = [(rng.choice(pool) if rng.random() < dens else empty) for _ in range(n)]
        if rng.random() < 0.5 and n:
            wdt = rng.choice([1, 2, 5, n])
            arr = [flat[i:i + wdt] for i in range(0, n, wdt)]
            if rng.random() < 0.1:
                arr.append(7)
        else:
            arr = flat
        req = "EA %s %s %s %s" % ("-" if dim is None else str(dim), G.hx(marker), G.pv_tok(empty), G.pv_tok(arr))
        inp = (short(arr, 200), marker, repr(empty), dim)
        arr, empty, marker = H.fresh((arr, empty, marker))     # the empty value is EQUAL to the empty cells, not the same object
        hist(req, "util.encode_array", "str", inp, lambda a, mk, e, dm: ut.encode_array(a, single_empty_marker=mk, empty=e, dim=dm),
             arr, marker, empty, dim)
        style = rng.choice(["positional", "defaults-omitted", "one-shot", "tuple"])
        if style == "positional":
            one(req, "util.encode_array", "str", inp + (style,), vlib.guarded(lambda: ut.encode_array(arr, marker, empty, dim)))
        elif style == "defaults-omitted":                      # an argument equal to its documented default is left out
            kw = {}
            if marker != "g":
                kw["single_empty_marker"] = marker
            if empty is not None:
                kw["empty"] = empty
            if dim is not None:
                kw["dim"] = dim
            one(req, "util.encode_array", "str", inp + (style,), vlib.guarded(lambda: ut.encode_array(arr, **kw)))
        elif style == "one-shot" and dim in (1, 2):            # with dim given the array is iterated once
            one_shot = rng.choice([lambda: iter(arr), lambda: H.gen(arr), lambda: map(lambda v: v, arr)])
            one(req, "util.encode_array", "str", inp + (style,),
                vlib.guarded(lambda: ut.encode_array(one_shot(), single_empty_marker=marker, empty=empty, dim=dim)))
        elif style == "tuple":
            one(req, "util.encode_array", "str", inp + (style,),
                vlib.guarded(lambda: ut.encode_array(tuple(arr), single_empty_marker=marker, empty=empty, dim=dim)))
    for v in pool + list(range(-3, 20)) + [254, 257, 4094, 5000, 10 ** 12]:
        if isinstance(v, list) and v and isinstance(v[0], list):
            continue
        reqs.append("EIS " + G.pv_tok(v))
        impls.append(vlib.guarded(lambda: ut._encode_int_or_str(v)))
        inps.append(repr(v))
        kinds.append(("util._encode_int_or_str", "str"))
    for o, io, inp, (kind, rk) in zip(m.batch(reqs), impls, inps, kinds):
        corr(ctx, kind, inp, parse_model(o, rk), io)

    # ---- 5. the URL regular expression and the f-string
    import cspuz.problem_serializer as ps
    reg = ps._DESERIALIZE_URL_REG
    texts = []
    for module, items in produced.items():
        for (h, w, pb, url) in items[:: (4 if ctx.thorough else 12)]:
            texts.append(url)
            texts += [P.mutate_text(rng, url) for _ in range(3)]
    hosts = ["puzz.link", "pzv.jp", "a", "x.y:80", "", "a b", "h\nst", "?", "p?", "s"]
    names = ["nurikabe", "a", "", "a?b", "p?q", "x y", "\n", "0", "a.b", "s//"]
    nums = ["0", "7", "10", "007", "", "x", "1 ", "-1", "+3", "\xb2", "1_0", "12345678901234567890"]
    bodies = ["", "abc", "a/b/c", "a\nb", "\n", "??", " "]
    for _ in range(3000 if ctx.thorough else 800):
        t = (rng.choice(["http", "https", "httpss", "ftp", "Http", "http ", ""]) + rng.choice(["://", "://", ":/", ":///"]) + rng.choice(hosts)
             + rng.choice(["/p", "/p", "/p.html", "/p.htm", "/q", "p", "/p.html.html", "/P"]) + rng.choice(["?", "?", "", "??", "#"])
             + rng.choice(names) + rng.choice(["/", "/", ""]) + rng.choice(nums) + rng.choice(["/", "/", "", "//"]) + rng.choice(nums)
             + rng.choice(["/", "/", ""]) + rng.choice(bodies))
        texts.append(t)
    texts = [t for t in dict.fromkeys(texts) if latin1(t)]
    for t, o in zip(texts, m.batch(["PARSEURL " + G.hx(t) for t in texts])):
        def f():
            mm = reg.match(t)
            return None if mm is None else (mm[1], int(mm[2]), int(mm[3]), mm[4])
        corr(ctx, "regex", short(t, 200), parse_model(o, "pv"), vlib.guarded(f))
    reqs, impls, inps = [], [], []
    for _ in range(200 if ctx.thorough else 60):
        pre, nm, body = rng.choice(PREFIXES + ["", "x"]), rng.choice(names), rng.choice(bodies)
        h, w = rng.choice([0, 1, 9, 10, 99, 100, 10 ** 20, -3]), rng.choice([0, 1, 9, 10, 255, 12345, -1])
        if not latin1(pre + nm + body):
            continue
        reqs.append("MAKEURL %s %s %d %d %s" % (G.hx(pre), G.hx(nm), h, w, G.hx(body)))
        impls.append(vlib.guarded(lambda: ps.serialize_problem_as_url(ps.FixStr(body), nm, h, w, None, prefix=pre)))
        inps.append((pre, nm, h, w, body))
    for o, io, inp in zip(m.batch(reqs), impls, inps):
        corr(ctx, "url-fstring", inp, parse_model(o, "str"), io)
    ctx.count("malformed-cases", n_mal)


# ---------------------------------------------------------------- search (the property on the real code)

def categories(values):
    c = []
    vs = [v for v in values if isinstance(v, int)]
    if any(v >= 4096 for v in vs):
        c.append("value>=4096")
    elif any(v >= 256 for v in vs):
        c.append("value>=256")
    elif any(v >= 16 for v in vs):
        c.append("value>=16")
    return c


def size_category(h, w):
    return (["non-square"] if h != w else []) + (["side>=36"] if max(h, w) >= 36 else [])


def grid_category(module, h, w, g):
    c = size_category(h, w)
    flat = [v for r in g for v in r]
    if module == "yajilin":
        if "??" in flat:
            c.append("??")
        c += categories([int(v[1:]) for v in flat if v not in ("..", "??")])
    else:
        c += categories(flat)
    return "+".join(c) or "plain"


def pz(m, line, kind="pv"):
    if m is None:
        return ("no-model", None)
    return parse_model(m.call(line), kind)


def encode_history(viol, module, cat, det, what, fn, *args):
    """fn(*args) twice on the SAME argument objects.  Returns (first outcome, copy of the arguments taken BEFORE the first call).
    Violations: the call changes the objects it is given; the second call gives another result than the first."""
    before = H.snapshot(args)
    r1 = vlib.guarded(lambda: fn(*args))
    if not H.same(before, args):
        viol(module, "args-mutated:" + what, cat,
             "%s changes the problem objects it is given: after the call they describe another problem" % what,
             dict(det, arguments_before=short(before), arguments_after=short(args), first_result=short(r1)))
    r2 = vlib.guarded(lambda: fn(*args))
    if r2 != r1:
        viol(module, "reuse:" + what, cat, "%s called a second time on the same objects gives another result" % what,
             dict(det, first=short(r1), second=short(r2)))
    return r1, before


def decode_history(viol, module, cat, det, what, fn, url, first):
    """first = ("ok", value) as just returned by fn(url).  The value must not contain one list object twice, and after the caller
    has edited it in place, decoding the same URL again must give the original value again (no cache is aliased)."""
    if first[0] != "ok" or first[1] is None:
        return
    keep = H.snapshot(first[1])
    if H.aliased(first[1]):
        viol(module, "decode-alias:" + what, cat, "%s returns a problem in which one list object occurs twice (editing a cell edits another)" % what,
             dict(det, decoded=short(keep)))
    H.scramble(first[1])
    again = vlib.guarded(lambda: fn(url))
    if not (again[0] == "ok" and H.same(again[1], keep)):
        viol(module, "decode-reuse:" + what, cat, "%s gives another result for the same URL after the first result was edited in place" % what,
             dict(det, first=short(keep), second=short(again)))


def check_forms(ctx, viol, module, cat, det, what, forms, call, expect):
    """the same problem in other container forms (tuples, generators, iterators, other listing order) must give the same text"""
    for (fname, make) in forms:
        ctx.prop_case("form:" + module, (fname, det.get("url", ""), det.get("h"), det.get("w")))
        r = vlib.guarded(lambda: call(make()))
        if r != ("ok", expect):
            viol(module, "form:" + fname, cat, "%s gives another result when the same problem is passed as %s" % (what, fname),
                 dict(det, form=fname, list_form_result=expect, observed=short(r)))


def legacy_cells(module, g):
    if module == "nurikabe":
        return [[None if v == 0 else ("." if v == -1 else v) for v in r] for r in g], None
    if module == "sudoku":
        return g, 0                                          # the very same object goes to both encoder families
    return [["." if v == 0 else v for v in r] for r in g], -1


def search_grid(ctx, m, viol, module):
    pm = mod(module)
    ser_fn, de_fn = getattr(pm, "serialize_" + module), getattr(pm, "deserialize_" + module)
    ut = importlib.import_module("cspuz.puzzle.util")
    for (h, w, g) in cases_grid(ctx, module):
        fmt_ok = P.in_format(module, g)
        cat = grid_category(module, h, w, g) + ("" if fmt_ok else "+out-of-format")
        det = {"h": h, "w": w, "problem": repr(g)}
        ctx.prop_case("roundtrip:" + module, (h, w, repr(g)))
        r, (g0,) = encode_history(viol, module, cat, det, "serialize_" + module, ser_fn, g)
        if r[0] != "ok":
            if fmt_ok:
                viol(module, "encode", cat, "serialize_%s raises on a problem of the module's format" % module, dict(det, observed=repr(r)))
            else:
                ctx.count("search:encoder-rejects-out-of-format-problem")
            continue
        # (a URL produced for an out-of-format problem must still satisfy everything below)
        url = r[1]
        det["url"] = url
        d = vlib.guarded(lambda: de_fn(url))
        if not (d[0] == "ok" and strict_eq(d[1], g0)):
            viol(module, "roundtrip", cat, "deserialize(serialize(problem)) != problem", dict(det, observed=short(d), expected=short(g0)))
        else:
            decode_history(viol, module, cat, det, "deserialize_" + module, de_fn, url, d)
        parts, why = split_url(url, NAMES[module], w, h)
        if parts is None:
            viol(module, "shape", cat, "URL is not <prefix><name>/<width>/<height>/<body>: " + why, det)
            continue
        body = parts[0]
        ctx.prop_case("pzpr:" + module, (h, w, body))
        p = pz(m, "PZ %s %d %d %s" % (module, h, w, G.hx(body)))
        if p[0] != "no-model" and not (p[0] == "ok" and strict_eq(p[1], g0)):
            viol(module, "pzpr", cat, "the independent pzpr decoder does not read the body back as the problem",
                 dict(det, body=body, pzpr_reads=short(p), expected=short(g0)))
        check_forms(ctx, viol, module, cat, det, "serialize_" + module, H.forms_grid(g0), ser_fn, url)
        # legacy encoder on the same data, in both call orders, each encoder twice on the same objects
        if module in ("nurikabe", "sudoku", "nurimisaki") and fmt_ok:
            ctx.prop_case("legacy-eq:" + module, (h, w, body))
            data, empty = legacy_cells(module, g)
            le, _ = encode_history(viol, module, cat, det, "util.encode_array", lambda a: ut.encode_array(a, empty=empty), data)
            if le != ("ok", body):
                viol(module, "legacy-eq", cat, "util.encode_array and the combinator codec give different text for the same cells",
                     dict(det, body=body, encode_array=short(le)))
            r3 = vlib.guarded(lambda: ser_fn(g))
            if r3 != ("ok", url):
                viol(module, "encode-after-legacy", cat, "serialize_%s on the same object after util.encode_array gives another result" % module,
                     dict(det, after_legacy=short(r3)))
            g2 = H.fresh(g0)                                 # new objects: legacy helper FIRST, then the combinator codec
            data2, _ = legacy_cells(module, g2)
            le2 = vlib.guarded(lambda: ut.encode_array(data2, empty=empty, dim=2))
            r4 = vlib.guarded(lambda: ser_fn(g2))
            if le == ("ok", body) and (le2 != ("ok", body) or r4 != ("ok", url) or not H.same(g2, g0)):
                viol(module, "legacy-first", cat, "util.encode_array(dim=2) first, serialize_%s second on the same grid: texts differ or the grid changed" % module,
                     dict(det, body=body, encode_array=short(le2), serialize_after=short(r4), grid_after=short(g2)))


def heyawake_solution(pm, h, w, rooms, clues):
    r = pm.solve_heyawake(h, w, rooms, clues)
    return (r[0], [[r[1][y, x].sol for x in range(w)] for y in range(h)] if r[0] else None)


def search_rooms(ctx, m, viol, module):
    pm = mod(module)
    ser_fn, de_fn = getattr(pm, "serialize_" + module), getattr(pm, "deserialize_" + module)
    ut = importlib.import_module("cspuz.puzzle.util")
    sb = mod("star_battle")
    stream = cases_heyawake(ctx) if module == "heyawake" else [(h, w, r, None) for (h, w, r) in cases_rooms(ctx, module)]
    n_solved = 0
    for (h, w, rooms, clues) in stream:
        fmt_ok = clues is None or all(-1 <= c <= 4095 for c in clues)
        cat = "+".join(size_category(h, w) + (["1xN"] if min(h, w) == 1 else []) + categories(clues or [])
                       + ([] if fmt_ok else ["out-of-format"])) or "plain"
        det = {"h": h, "w": w, "rooms": repr(rooms), "clues": repr(clues)}
        # everything expected is computed BEFORE the encoder sees the objects
        order = sorted(range(len(rooms)), key=lambda i: min(rooms[i]))
        crooms = [sorted(rooms[i]) for i in order]
        ids = P.block_id_of(h, w, rooms)
        ev, eh = borders_of_ids(h, w, ids)
        cell_clue = None if clues is None else {c: clues[i] for i, r_ in enumerate(rooms) for c in r_}
        sol0 = None
        if module == "heyawake" and fmt_ok and h * w <= 16 and n_solved < (200 if ctx.thorough else 60):
            n_solved += 1
            sol0 = vlib.guarded(lambda: heyawake_solution(pm, h, w, *H.snapshot((rooms, clues))))
        ctx.prop_case("roundtrip:" + module, (h, w, repr(rooms), repr(clues)))
        if module == "heyawake":
            cclues = [clues[i] for i in order]
            r, before = encode_history(viol, module, cat, det, "serialize_heyawake", ser_fn, h, w, rooms, clues)
            want = (h, w, (crooms, cclues))
        else:
            r, _ = encode_history(viol, module, cat, det, "serialize_" + module, ser_fn, h, w, rooms)
            want = (h, w, crooms)
        # encode, then use the same objects for something else
        if vlib.guarded(lambda: ut.blocks_to_block_id(h, w, rooms)) != ("ok", ids) or \
                (clues is not None and {c: clues[i] for i, r_ in enumerate(rooms) for c in r_} != cell_clue):
            viol(module, "problem-after-encode", cat, "after serialize_%s the caller's objects describe another problem (cell -> room / clue map differs)" % module,
                 dict(det, rooms_after=short(rooms), clues_after=short(clues)))
        if sol0 is not None:
            ctx.prop_case("solve-after-encode:" + module, (h, w, repr(rooms), repr(clues)))
            sol1 = vlib.guarded(lambda: heyawake_solution(pm, h, w, rooms, clues))
            if sol1 != sol0:
                viol(module, "solve-after-encode", cat, "solve_heyawake on the same objects gives another answer after serialize_heyawake than on a copy taken before",
                     dict(det, before=short(sol0), after=short(sol1)))
        if r[0] != "ok":
            if fmt_ok:
                viol(module, "encode", cat, "serialize_%s raises on a partition into connected rooms" % module, dict(det, observed=repr(r)))
            else:
                ctx.count("search:encoder-rejects-out-of-format-problem")
            continue
        url = r[1]
        det["url"] = url
        d = vlib.guarded(lambda: de_fn(url))
        if not (d[0] == "ok" and strict_eq(d[1], want)):
            viol(module, "roundtrip", cat, "deserialize(serialize(problem)) != (height, width, canonical problem)",
                 dict(det, observed=short(d), expected=short(want)))
        else:
            decode_history(viol, module, cat, det, "deserialize_" + module, de_fn, url, d)
        parts, why = split_url(url, NAMES[module], w, h)
        if parts is None:
            viol(module, "shape", cat, "URL is not <prefix><name>/<width>/<height>/<body>: " + why, det)
            continue
        body = parts[0]
        ctx.prop_case("pzpr:" + module, (h, w, body))
        p = pz(m, "PZB %d %d %s" % (h, w, G.hx(body)))
        if p[0] != "no-model":
            ok = p[0] == "ok" and p[1] is not None and list(p[1][0]) == ev and list(p[1][1]) == eh
            if ok:
                ok = rooms_from_borders(h, w, ev, eh) == crooms
            rest = p[1][2] if ok else None
            if ok and module == "heyawake":
                q = pz(m, "PZN %d %s" % (len(crooms), G.hx(rest)))
                ok = q[0] == "ok" and q[1] is not None and list(q[1]) == cclues
                p = (p, q)
            elif ok:
                ok = rest == ""
            if not ok:
                viol(module, "pzpr", cat, "the independent pzpr decoder (decodeBorder / decodeRoomNumber16) does not read the body back as the problem",
                     dict(det, body=body, pzpr_reads=short(p), expected_borders=short((ev, eh))))
        if module == "heyawake":
            check_forms(ctx, viol, module, cat, det, "serialize_heyawake", H.forms_pairs(before[2], before[3]), lambda rc: ser_fn(h, w, *rc), url)
        # legacy encoders on the same data (same objects as the combinator codec has just seen)
        ctx.prop_case("legacy-eq:" + module, (h, w, body))
        le, _ = encode_history(viol, module, cat, det, "legacy encoders",
                               lambda rs, cl: ut.encode_grid_segmentation(h, w, ut.blocks_to_block_id(h, w, rs))
                               + (ut.encode_array([cl[i] for i in order], empty=-1) if module == "heyawake" else ""), rooms, clues)
        if le != ("ok", body):
            viol(module, "legacy-eq", cat, "encode_grid_segmentation (+ encode_array) and the combinator codec give different text",
                 dict(det, body=body, legacy=short(le)))
        if module == "lits" and h == w:
            # star battle (legacy encoder, one direction only) on the same partition
            k = 1 + (len(rooms) % 3)
            ctx.prop_case("star_battle", (h, k, repr(ids)))
            r, _ = encode_history(viol, "star_battle", cat, det, "problem_to_pzv_url", sb.problem_to_pzv_url, h, k, ids)
            sdet = {"n": h, "k": k, "blocks": repr(ids), "rooms": repr(rooms), "observed": short(r)}
            if r[0] != "ok":
                viol("star_battle", "encode", cat, "problem_to_pzv_url raises", sdet)
                continue
            parts, why = split_url(r[1], NAMES["star_battle"], h, h, extra_fields=1)
            if parts is None:
                viol("star_battle", "shape", cat, "URL is not <prefix>starbattle/<n>/<n>/<stars>/<body>: " + why, sdet)
                continue
            if parts[0] != str(k):
                viol("star_battle", "shape", cat, "star count field differs", sdet)
            p = pz(m, "PZB %d %d %s" % (h, h, G.hx(parts[1])))
            if p[0] != "no-model" and not (p[0] == "ok" and p[1] is not None and list(p[1][0]) == ev and list(p[1][1]) == eh and p[1][2] == ""):
                viol("star_battle", "pzpr", cat, "decodeBorder does not read the body back as the blocks", dict(sdet, pzpr_reads=short(p)))
            if parts[1] != body:
                viol("star_battle", "legacy-eq", cat, "encode_grid_segmentation and Rooms() give different text for the same partition",
                     dict(sdet, rooms_text=body))
            check_forms(ctx, viol, "star_battle", cat, dict(sdet, url=r[1], h=h, w=h), "problem_to_pzv_url", H.forms_ids(ids),
                        lambda b: sb.problem_to_pzv_url(h, k, b), r[1])


def search_rect(ctx, m, viol):
    """heyawake in the rectangular representation: same URL as the (rooms, clues) form built independently here"""
    pm = mod("heyawake")
    for (h, w, rect) in cases_rect(ctx):
        cat = "+".join(size_category(h, w) + categories([t[4] for t in rect])) or "plain"
        det = {"h": h, "w": w, "rect": repr(rect)}
        ctx.prop_case("roundtrip:heyawake-rect", (h, w, repr(rect)))
        rooms = [[(y, x) for y in range(y0, y1) for x in range(x0, x1)] for (y0, x0, y1, x1, _) in rect]
        clues = [t[4] for t in rect]
        order = sorted(range(len(rooms)), key=lambda i: min(rooms[i]))
        want = (h, w, ([sorted(rooms[i]) for i in order], [clues[i] for i in order]))
        r, _ = encode_history(viol, "heyawake-rect", cat, det, "serialize_heyawake(rectangles)", pm.serialize_heyawake, h, w, rect)
        if r[0] != "ok":
            viol("heyawake-rect", "encode", cat, "serialize_heyawake raises on a partition into rectangles", dict(det, observed=repr(r)))
            continue
        det["url"] = r[1]
        d = vlib.guarded(lambda: pm.deserialize_heyawake(r[1]))
        if not (d[0] == "ok" and strict_eq(d[1], want)):
            viol("heyawake-rect", "roundtrip", cat, "deserialize(serialize(rectangles)) != (height, width, canonical rooms and clues)",
                 dict(det, observed=short(d), expected=short(want)))
        r2 = vlib.guarded(lambda: pm.serialize_heyawake(h, w, rooms, clues))
        if r2 != r:
            viol("heyawake-rect", "repr-eq", cat, "the rectangular and the (rooms, clues) representation of one problem give different URLs",
                 dict(det, rooms_clues_url=short(r2)))
        check_forms(ctx, viol, "heyawake-rect", cat, det, "serialize_heyawake(rectangles)", H.forms_rect(rect),
                    lambda q: pm.serialize_heyawake(h, w, q), r[1])


def search_compass(ctx, m, viol):
    cm = mod("compass")
    for (h, w, pos) in cases_compass(ctx):
        vals = [v for c in pos for v in c[2:]]
        fmt_ok = all(-1 <= v <= 4095 for v in vals)
        cat = "+".join(size_category(h, w) + categories(vals) + ([] if fmt_ok else ["out-of-format"])) or "plain"
        det = {"h": h, "w": w, "clues": repr(pos)}
        ctx.prop_case("roundtrip:compass", (h, w, repr(pos)))
        r, (_, _, pos0) = encode_history(viol, "compass", cat, det, "to_puzz_link_url", cm.to_puzz_link_url, h, w, pos)
        if r[0] != "ok":
            if fmt_ok:
                viol("compass", "encode", cat, "to_puzz_link_url raises on clues inside the board with values in 0..4095", dict(det, observed=repr(r)))
            else:
                ctx.count("search:encoder-rejects-out-of-format-problem")
            continue
        url = r[1]
        det["url"] = url
        want = (h, w, sorted(pos0))
        d = vlib.guarded(lambda: cm.parse_puzz_link_url(url))
        if not (d[0] == "ok" and strict_eq(d[1], want)):
            viol("compass", "roundtrip", cat, "parse_puzz_link_url(to_puzz_link_url(h, w, clues)) != (h, w, clues in row-major order)",
                 dict(det, observed=short(d), expected=short(want)))
        else:
            decode_history(viol, "compass", cat, det, "parse_puzz_link_url", cm.parse_puzz_link_url, url, d)
        parts, why = split_url(url, NAMES["compass"], w, h)
        if parts is None:
            viol("compass", "shape", cat, "URL is not <prefix>compass/<width>/<height>/<body>: " + why, det)
            continue
        ctx.prop_case("pzpr:compass", (h, w, parts[0]))
        p = pz(m, "PZC %d %d %s" % (h, w, G.hx(parts[0])))
        exp = [(y, x, u, dn, l, rr) for (y, x, u, l, dn, rr) in sorted(pos0)]
        if p[0] != "no-model" and not (p[0] == "ok" and p[1] is not None and list(p[1]) == exp):
            viol("compass", "pzpr", cat, "the independent pzpr decoder does not read the body back as the clues",
                 dict(det, body=parts[0], pzpr_reads=short(p), expected=short(exp)))
        check_forms(ctx, viol, "compass", cat, det, "to_puzz_link_url", H.forms_compass(pos0), lambda q: cm.to_puzz_link_url(h, w, q), url)


def search_aquarium(ctx, m, viol):
    aq = mod("aquarium")
    import cspuz.problem_serializer as ps
    seqc = lambda n: ps.Seq(ps.OneOf(ps.Spaces(-1, "g"), ps.HexInt()), n)  # noqa
    for (h, w, blocks, rows, cols) in cases_aquarium(ctx):
        fmt_ok = all(-1 <= v <= 4095 for v in rows + cols)
        cat = "+".join(size_category(h, w) + categories(rows + cols) + ([] if fmt_ok else ["out-of-format"])) or "plain"
        det = {"h": h, "w": w, "blocks": repr(blocks), "rows": repr(rows), "cols": repr(cols)}
        ctx.prop_case("aquarium", (h, w, repr(blocks), repr(rows), repr(cols)))
        ids = P.block_id_of(h, w, blocks)
        r, (_, _, blocks0, rows0, cols0) = encode_history(viol, "aquarium", cat, det, "problem_to_url", aq.problem_to_url, h, w, blocks, rows, cols)
        if r[0] != "ok":
            if fmt_ok:
                viol("aquarium", "encode", cat, "problem_to_url raises", dict(det, observed=repr(r)))
            else:
                ctx.count("search:encoder-rejects-out-of-format-problem")
            continue
        det["url"] = r[1]
        parts, why = split_url(r[1], NAMES["aquarium"], w, h)
        if parts is None:
            viol("aquarium", "shape", cat, "URL is not <prefix>aquarium/<width>/<height>/<body>: " + why, det)
            continue
        body = parts[0]
        ev, eh = borders_of_ids(h, w, ids)
        p = pz(m, "PZAQ %d %d %s" % (h, w, G.hx(body)))
        if p[0] != "no-model" and not (p[0] == "ok" and p[1] is not None and list(p[1][0]) == ev and list(p[1][1]) == eh
                                       and list(p[1][2]) == cols0 + rows0):
            viol("aquarium", "pzpr", cat, "decodeBorder / decodeNumber16ExCell do not read the body back as the problem",
                 dict(det, body=body, pzpr_reads=short(p), expected=short((ev, eh, cols0 + rows0))))
        check_forms(ctx, viol, "aquarium", cat, det, "problem_to_url", H.forms_aquarium(blocks0, rows0, cols0),
                    lambda q: aq.problem_to_url(h, w, *q), r[1])
        # combinator codecs on the same data
        ctx.prop_case("legacy-eq:aquarium", (h, w, body))
        conn = rooms_from_borders(h, w, ev, eh)
        if sorted(sorted(b) for b in blocks0) == sorted(conn):
            ce = vlib.guarded(lambda: ps.serialize_problem(ps.Rooms(), blocks, height=h, width=w) + "/"
                              + ps.serialize_problem(seqc(h + w), cols + rows, height=h, width=w))
            if ce != ("ok", body):
                viol("aquarium", "legacy-eq", cat, "legacy encoders and Rooms()/Seq(OneOf(Spaces(-1,'g'),HexInt())) give different text",
                     dict(det, body=body, combinators=short(ce)))


def search_arrays(ctx, m, viol):
    """util.encode_array on 2-D / 1-D arrays of numbers against Grid / Seq(OneOf(Spaces(empty, marker), HexInt())):
    identical text, whichever family is called first, however often, however the array is handed over"""
    ut = importlib.import_module("cspuz.puzzle.util")
    import cspuz.problem_serializer as ps
    for (rows, empty, marker) in cases_arrays(ctx):
        h, w = len(rows), len(rows[0])
        flat0 = [v for r in rows for v in r]
        run = max([len(x) for x in "".join("e" if v == empty else "c" for v in flat0).split("c")] + [0])
        cat = "+".join((["2-D"] if h > 1 else ["one-row"]) + (["run>20"] if run > 20 else []) + (["marker-" + marker] if marker != "g" else [])
                       + (["empty=%r" % (empty,)] if empty != -1 else []))
        det = {"rows": repr(rows), "empty": repr(empty), "marker": marker}
        ctx.prop_case("legacy-eq:arrays", (repr(rows), repr(empty), marker))
        leaf = ps.OneOf(ps.Spaces(empty, marker), ps.HexInt())
        ce = vlib.guarded(lambda: ps.serialize_problem(ps.Grid(leaf), H.fresh(rows), height=h, width=w))
        if ce[0] != "ok":
            viol("encode_array", "combinator", cat, "Grid(OneOf(Spaces, HexInt)) does not serialize an array of numbers 0..4095 and empties", dict(det, observed=short(ce)))
            continue
        text = ce[1]
        det["text"] = text
        call = lambda a: ut.encode_array(a, single_empty_marker=marker, empty=empty)  # noqa
        le, (rows0,) = encode_history(viol, "encode_array", cat, det, "util.encode_array", call, rows)
        if le != ("ok", text):
            viol("encode_array", "legacy-eq", cat, "util.encode_array and Grid(OneOf(Spaces(empty, marker), HexInt())) give different text for the same array",
                 dict(det, combinator=text, encode_array=short(le)))
        ce2 = vlib.guarded(lambda: ps.serialize_problem(ps.Grid(leaf), rows, height=h, width=w))      # combinator AFTER legacy, same object
        if ce2 != ("ok", text):
            viol("encode_array", "combinator-after-legacy", cat, "the combinator codec gives another text (or fails) on the array object util.encode_array has processed",
                 dict(det, combinator_first=text, combinator_after=short(ce2), rows_after=short(rows)))
        forms = [("dim=2", lambda: ut.encode_array(H.fresh(rows0), marker, empty, 2)),
                 ("dim=2 twice on one object", lambda: (lambda a: (ut.encode_array(a, marker, empty, 2), ut.encode_array(a, marker, empty, 2))[1])(H.fresh(rows0))),
                 ("generator of rows, dim=2", lambda: ut.encode_array(H.gen(H.fresh(rows0)), single_empty_marker=marker, empty=empty, dim=2)),
                 ("tuple of rows", lambda: ut.encode_array(tuple(H.fresh(rows0)), single_empty_marker=marker, empty=empty)),
                 ("flat list", lambda: ut.encode_array(H.fresh(flat0), single_empty_marker=marker, empty=empty)),
                 ("flat iterator, dim=1", lambda: ut.encode_array(iter(H.fresh(flat0)), single_empty_marker=marker, empty=empty, dim=1)),
                 ("flat tuple, dim=1", lambda: ut.encode_array(tuple(H.fresh(flat0)), single_empty_marker=marker, empty=empty, dim=1))]
        if marker == "g":
            forms.append(("marker omitted", lambda: ut.encode_array(H.fresh(rows0), empty=empty)))
        if empty is None:
            forms.append(("empty omitted", lambda: ut.encode_array(H.fresh(rows0), single_empty_marker=marker)))
        for (fname, f) in (forms if le == ("ok", text) else []):   # (a form is compared only when the plain call is right)
            ctx.prop_case("form:encode_array", (fname, repr(rows), repr(empty), marker))
            r = vlib.guarded(f)
            if r != ("ok", text):
                viol("encode_array", "form:" + fname, cat, "util.encode_array gives another text for the same cells passed as: " + fname,
                     dict(det, form=fname, observed=short(r)))
        if marker >= "g":                                    # unambiguous with hex digits: the combinator decoder reads the legacy text back
            d = vlib.guarded(lambda: ps.deserialize_problem(ps.Grid(leaf), text, height=h, width=w))
            if not (d[0] == "ok" and strict_eq(d[1], rows0)):
                viol("encode_array", "roundtrip", cat, "Grid(OneOf(Spaces, HexInt)) does not decode the text back to the array",
                     dict(det, observed=short(d)))


def search(ctx):
    m = getattr(ctx, "_c16_model", None)
    if m is None:
        try:
            m = ctx.model("C16")
        except Exception:
            m = None
            ctx.note("C16 runner unavailable: pzpr agreement is not searched on this run")
    viol = Viol(ctx)
    for module in GRID_MODULES:
        search_grid(ctx, m, viol, module)
    for module in ("lits", "norinori", "heyawake"):
        search_rooms(ctx, m, viol, module)
    search_rect(ctx, m, viol)
    search_compass(ctx, m, viol)
    search_aquarium(ctx, m, viol)
    search_arrays(ctx, m, viol)


def replay(ctx, rp):
    print(rp)
    v = rp.get("violation", {}).get("detail", {})
    if not v or "module" not in v:
        return 0
    module = v["module"]
    h, w = v.get("h", v.get("n")), v.get("w", v.get("n"))
    store = ctx.__dict__.setdefault("_c16_cases", {})
    lit = lambda s: eval(s, {})  # noqa  (reprs of ints/strs/lists/tuples written by this harness)
    if module in GRID_MODULES:
        store[module] = [(h, w, lit(v["problem"]))]
    elif module in ("lits", "norinori"):
        store[module] = [(h, w, lit(v["rooms"]))]
    elif module == "heyawake":
        store["heyawake"] = [(h, w, lit(v["rooms"]), lit(v["clues"]))]
    elif module == "compass":
        store["compass"] = [(h, w, lit(v["clues"]))]
    elif module == "aquarium":
        store["aquarium"] = [(h, w, lit(v["blocks"]), lit(v["rows"]), lit(v["cols"]))]
    elif module == "heyawake-rect":
        store["rect"] = [(h, w, lit(v["rect"]))]
    elif module == "encode_array":
        store["arrays"] = [(lit(v["rows"]), lit(v["empty"]), v["marker"])]
    elif module == "star_battle" and "rooms" in v:
        store["lits"] = [(h, w, lit(v["rooms"]))]
    else:
        return 0
    try:
        m = ctx.model("C16")
    except Exception:
        m = None
    viol = Viol(ctx)
    if module in GRID_MODULES:
        search_grid(ctx, m, viol, module)
    elif module in ("lits", "norinori", "heyawake"):
        search_rooms(ctx, m, viol, module)
    elif module == "compass":
        search_compass(ctx, m, viol)
    elif module == "heyawake-rect":
        search_rect(ctx, m, viol)
    elif module == "encode_array":
        search_arrays(ctx, m, viol)
    elif module == "star_battle":
        search_rooms(ctx, m, viol, "lits")
    else:
        search_aquarium(ctx, m, viol)
    print("violations on replay:", ctx.violations)
    return 1 if ctx.violations else 0
