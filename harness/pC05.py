"""C05 — division_connected holds exactly for labelings whose classes are connected."""
import copy
import itertools
import operator

import exprio
import graphcap
import vlib

PROPS = "Props/C05.v"
RULE = ("tie P: the program really posted by cspuz.graph._division_connected / division_connected (recording = the "
        "plain Solver; declarations, keys and constraints in posting order) must equal the program of the extracted "
        "Coq model post_division / division_connected on the same (graph, labels, num_regions, roots, "
        "allow_empty_group, use_graph_primitive, prior solver state); errors compared by class.  search: for every "
        "labeling, satisfiability of the really posted program (z3 through an independent tree->z3 converter; "
        "GRAPH_ACTIVE_VERTICES_CONNECTED nodes evaluated by their specification on every z3 model of the rest) "
        "vs an independent Python oracle (classes connected, labels used, roots).  A case is non-trivial when it "
        "is a distinct (function, graph, options, label form, roots) tuple / a distinct (graph, options, labeling).  "
        "Input forms: the model always sees the materialised roots list, the real code gets it as list / tuple / "
        "user sequence / one-shot iterator (generator, map, iter, reversed, zip), grid entries as tuple / list / "
        "one-shot; edges in both stored orientations; every keyword given / omitted / taken from the config; the "
        "same objects used twice (second program tied against the model on the state left by the first call) and "
        "arguments compared with a deep copy taken before the call (kind 'args-unchanged').")
TRUSTED = [
    "meaning of Op.GRAPH_ACTIVE_VERTICES_CONNECTED is *defined* as connectivity of the active vertices (Graph/Division.v avc_sem = connected_b on the decoded operands); the external solver implementing it is trusted",
    "Core/Expr.v eval as the ordinary meaning of the expression trees (cross-checked on every sampled z3 model: kind 'eval-vs-z3model')",
    "graph-theoretic definitions reach/connected of Graph/GraphModel.v (validated against an independent Python flood fill: kind 'spec-vs-oracle')",
    "harness tree->z3 converter of pC05.py (search only)",
]
ASSUMPTIONS = [
    "graph endpoints lie in [0, num_vertices) (Graph.add_edge raises otherwise or wraps negative ids)",
    "label entries are IntExprLike (IntExpr / IntVar / int, not bool); roots entries are None, int (not bool) or tuples of ints",
    "num_regions is a non-negative int; grid roots (y, x) lie inside the grid (division_connected does not check that)",
    "division is a Sequence as annotated (indexable and re-iterable: list, tuple, IntArray1D/2D, user sequence); a one-shot "
    "iterator as *division* is outside the domain (the code indexes it: TypeError as soon as an edge, a root or the "
    "primitive route touches it).  roots, in contrast, may be any iterable walked once (compass.py passes a map object)",
]

ERR = {1: "IndexError", 2: "KeyError", 3: "AssertionError", 4: "TypeError", 5: "ValueError",
       6: "RecursionError", 7: "NotImplementedError", 8: "Other"}


# ---------------------------------------------------------------- building a call

def build_labels(s, recipe):
    """declare the caller's variables on solver s following `recipe`; returns the
    list of label entries (IntExprLike)."""
    out = []
    for it in recipe:
        k = it[0]
        if k == "pre":            # unrelated earlier declarations / constraints of the caller
            bs = [s.bool_var() for _ in range(it[1])]
            if len(bs) >= 2:
                s.ensure(bs[0] | ~bs[1])
        elif k == "var":
            out.append(s.int_var(it[1], it[2]))
        elif k == "int":
            out.append(it[1])
        elif k == "plus":
            out.append(s.int_var(it[1], it[2]) + it[3])
        elif k == "rplus":
            out.append(it[3] + s.int_var(it[1], it[2]))
        elif k == "sub":
            a = s.int_var(it[1], it[2])
            b = s.int_var(it[1], it[2])
            out.append(a - b)
        elif k == "cond":
            out.append(s.bool_var().cond(it[1], it[2]))
        elif k == "neg":
            out.append(-s.int_var(it[1], it[2]))
        else:
            raise RuntimeError("recipe " + repr(it))
    return out


def gen_recipe(rng, n_labels, R, form):
    hi = max(R - 1, 0)
    rec = []
    if rng.random() < 0.3:
        rec.append(("pre", rng.randint(1, 3)))
    for v in range(n_labels):
        if form == "vars":
            rec.append(("var", 0, hi))
        elif form == "wide":
            rec.append(("var", -1, R))
        elif form == "ints":
            rec.append(("int", rng.randint(0, hi) if rng.random() < 0.85 else rng.choice([-1, R, R + 1])))
        elif form == "mixed":
            if rng.random() < 0.5:
                rec.append(("var", 0, hi))
            else:
                rec.append(("int", rng.randint(0, hi)))
        else:  # exprs
            c = rng.randrange(7)
            if c == 0:
                rec.append(("var", 0, hi))
            elif c == 1:
                rec.append(("int", rng.randint(0, hi)))
            elif c == 2:
                rec.append(("plus", -1, hi, rng.randint(0, 1)))
            elif c == 3:
                rec.append(("rplus", 0, hi, rng.randint(-1, 1)))
            elif c == 4:
                rec.append(("sub", 0, hi))
            elif c == 5:
                rec.append(("cond", rng.randint(0, hi), rng.randint(0, hi)))
            else:
                rec.append(("neg", -hi, 0))
    return rec


def gen_roots(rng, n, R, malformed=False):
    """roots for the explicit-graph form"""
    c = rng.random()
    if c < 0.35:
        return None
    ln = R
    if rng.random() < 0.25:
        ln = rng.choice([0, max(R - 1, 0), R + 1])
    out = []
    for _ in range(ln):
        c = rng.random()
        if c < 0.35 or n == 0:
            out.append(None)
        elif c < 0.8:
            out.append(rng.randrange(n))
        elif c < 0.9:
            out.append(-1 - rng.randrange(n))
        elif malformed:
            out.append(rng.choice([n, -n - 1, n + 3, (0, 0), (0,), ()]))
        else:
            out.append(rng.randrange(n))
    return out


def gen_grid_roots(rng, h, w, R, malformed=False):
    c = rng.random()
    if c < 0.3:
        return None
    ln = R if rng.random() < 0.75 else rng.choice([0, max(R - 1, 0), R + 1])
    out = []
    for _ in range(ln):
        c = rng.random()
        if c < 0.3:
            out.append(None)
        elif c < 0.9 or not malformed:
            out.append((rng.randrange(h), rng.randrange(w)))
        else:
            out.append(rng.choice([0, h * w - 1, (0, 0, 0), (0,), (h, w), (-1, 0), (0, -1), (h - 1, w)]))
    return out


def roots_tok(roots):
    if roots is None:
        return "N"
    t = ["R", str(len(roots))]
    for r in roots:
        if r is None:
            t.append("_")
        elif isinstance(r, tuple):
            t.append("t %d %s" % (len(r), " ".join(str(x) for x in r)))
        else:
            t.append("i %d" % r)
    return " ".join(t)


def parse_reply(r):
    if r.startswith("OK "):
        return ("ok", r[3:])
    if r.startswith("E "):
        return ("err", ERR[int(r.split()[1])])
    raise RuntimeError("bad model reply " + r[:200])


class PlainSeq:
    """a user-defined sequence: only __getitem__ / __len__ (iterated through the old protocol)"""

    def __init__(self, items):
        self._items = list(items)

    def __getitem__(self, i):
        return self._items[i]

    def __len__(self):
        return len(self._items)


def mk_division(labels, kind, h=None, w=None):
    from cspuz.array import IntArray1D, IntArray2D
    if kind == "L":
        return list(labels)
    if kind == "T":
        return tuple(labels)
    if kind == "S":
        return PlainSeq(labels)
    if kind == "A":
        return IntArray1D(labels)
    return IntArray2D(labels, (h, w))


# forms in which the caller may hand over `roots` (the model / the oracle always see the plain list)
ROOT_FORMS = ("list", "tuple", "seq", "gen", "map", "iter", "reversed", "zip")
ONE_SHOT = ("gen", "map", "iter", "reversed", "zip")
ENTRY_FORMS = ("tuple", "list", "iter", "gen")


def wrap_entry(r, eform):
    if not isinstance(r, tuple) or eform == "tuple":
        return r
    if eform == "list":
        return list(r)
    if eform == "iter":
        return iter(r)
    return (c for c in r)


def wrap_roots(roots, rform="list", eform="tuple"):
    """the same roots, as the container / one-shot iterable named by rform; (y, x) entries as eform"""
    if roots is None:
        return None
    items = [wrap_entry(r, eform) for r in roots]
    if rform == "list":
        return items
    if rform == "tuple":
        return tuple(items)
    if rform == "seq":
        return PlainSeq(items)
    if rform == "gen":
        return (r for r in items)
    if rform == "map":
        return map(lambda r: r, items)
    if rform == "iter":
        return iter(items)
    if rform == "reversed":
        return reversed(items[::-1])
    if rform == "zip":
        return map(operator.itemgetter(0), zip(items, itertools.count()))
    raise RuntimeError("roots form " + rform)


def pick_forms(rng, roots, reusable=False):
    """(rform, eform) for a roots value; reusable: the object is used for two calls (no one-shot pieces)"""
    if roots is None:
        return "list", "tuple"
    if reusable:
        return rng.choice(["list", "list", "tuple", "seq"]), rng.choice(["tuple", "tuple", "list"])
    rform = "list" if rng.random() < 0.35 else rng.choice(ROOT_FORMS[1:])
    eform = "tuple" if rng.random() < 0.75 else rng.choice(ENTRY_FORMS[1:])
    return rform, eform


def orient(rng, es, mode=None):
    """the same multigraph with edges stored as (larger, smaller) / mixed"""
    if mode is None:
        mode = rng.choice(["asc", "desc", "mixed", "mixed"])
    if mode == "keep":
        return list(es)
    if mode == "asc":
        return [(min(a, b), max(a, b)) for a, b in es]
    if mode == "desc":
        return [(max(a, b), min(a, b)) for a, b in es]
    return [(b, a) if rng.random() < 0.5 else (a, b) for a, b in es]


def graph_snapshot(g):
    return (g.num_vertices, list(g.edges), [list(x) for x in g.incident_edges])


def plain(x):
    """comparable deep copy of an argument: containers by structure, ints by type and value, any other
    object (expressions, one-shot iterators) by identity"""
    if isinstance(x, PlainSeq):
        return ["seq"] + [plain(y) for y in x._items]
    if isinstance(x, (list, tuple)):
        return [type(x).__name__] + [plain(y) for y in x]
    if x is None or isinstance(x, int):
        return (type(x).__name__, x)
    if isinstance(getattr(x, "data", None), list):
        return ["arr", getattr(x, "shape", None)] + [plain(y) for y in x.data]
    return ("obj", id(x))


class cfg_primitive:
    """temporarily set cspuz.configuration.config.use_graph_primitive"""

    def __init__(self, val):
        self.val = val

    def __enter__(self):
        from cspuz.configuration import config
        self.config = config
        self.old = config.use_graph_primitive
        config.use_graph_primitive = self.val

    def __exit__(self, *a):
        self.config.use_graph_primitive = self.old


P_CALL_FORMS = ("kw", "kw", "kw-anti", "cfg", "none", "pos", "omit")
W_CALL_FORMS = ("kw", "kw", "gkw", "omit")


def invoke(case, s, div, g, roots):
    """the real call, spelled the way case['cf'] says (every keyword given / omitted / positional / from config)"""
    from cspuz.graph import _division_connected, division_connected
    R, aeg, prim = case["R"], case["aeg"], case["prim"]
    cf = case.get("cf") or ("cfg" if case.get("via_config") else "kw")
    if case["fn"] == "P":
        if cf == "kw":
            _division_connected(s, div, R, g, roots=roots, allow_empty_group=aeg, use_graph_primitive=prim)
        elif cf == "kw-anti":       # an explicit argument wins over the configuration
            with cfg_primitive(not prim):
                _division_connected(s, div, R, g, roots=roots, allow_empty_group=aeg, use_graph_primitive=prim)
        elif cf == "cfg":
            with cfg_primitive(prim):
                _division_connected(s, div, R, g, roots=roots, allow_empty_group=aeg)
        elif cf == "none":
            with cfg_primitive(prim):
                _division_connected(s, div, R, g, roots=roots, allow_empty_group=aeg, use_graph_primitive=None)
        elif cf == "pos":
            with cfg_primitive(not prim):
                _division_connected(s, div, R, g, roots, aeg, prim)
        elif cf == "omit":
            kw = {}
            if roots is not None:
                kw["roots"] = roots
            if aeg:
                kw["allow_empty_group"] = True
            with cfg_primitive(not prim):
                _division_connected(solver=s, division=div, num_regions=R, graph=g, use_graph_primitive=prim, **kw)
        else:
            raise RuntimeError("call form " + cf)
        return
    with cfg_primitive(prim):
        if cf == "kw":
            if g is None:
                division_connected(s, div, R, roots=roots, allow_empty_group=aeg)
            else:
                division_connected(s, div, R, g, roots=roots, allow_empty_group=aeg)
        elif cf == "gkw":
            division_connected(s, div, num_regions=R, graph=g, roots=roots, allow_empty_group=aeg)
        elif cf == "omit":
            kw = {}
            if roots is not None:
                kw["roots"] = roots
            if aeg:
                kw["allow_empty_group"] = True
            if g is not None:
                kw["graph"] = g
            division_connected(solver=s, division=div, num_regions=R, **kw)
        else:
            raise RuntimeError("call form " + cf)


def run_case(case):
    """real call(s) on a fresh Solver.  Returns a dict: before / ltxt (the model's inputs), out (outcome of the
    call), args_ok (division, roots, graph unchanged by the call), and for case['twice'] also state1 / out2: the
    same call repeated on the same Solver, Graph and containers."""
    from cspuz import Solver
    s = Solver()
    labels = build_labels(s, case["recipe"])
    before = exprio.show_state(s)
    ltxt = exprio.show_list(labels)
    g = None if case["n"] is None else graphcap.mk_graph(case["n"], case["edges"])
    div = mk_division(labels, case["kind"], case.get("h"), case.get("w"))
    rform, eform = case.get("rform", "list"), case.get("eform", "tuple")
    roots = wrap_roots(case["roots"], rform, eform)
    snap = (plain(div), plain(roots), None if g is None else graph_snapshot(g), plain(labels))

    def call():
        invoke(case, s, div, g, roots)
        return exprio.show_state(s)
    res = {"before": before, "ltxt": ltxt, "solver": s, "labels": labels}
    res["out"] = vlib.guarded(call)
    res["args_ok"] = snap == (plain(div), plain(roots), None if g is None else graph_snapshot(g), plain(labels))
    if case.get("twice") and res["out"][0] == "ok":
        res["state1"] = res["out"][1]
        if rform in ONE_SHOT or eform in ("iter", "gen"):
            roots = wrap_roots(case["roots"], rform, eform)     # a one-shot object cannot be used again
        res["out2"] = vlib.guarded(call)
        res["args_ok"] = res["args_ok"] and snap[2:] == (None if g is None else graph_snapshot(g), plain(labels))
    return res


def build_request(case, before, ltxt):
    return req_private(case, before, ltxt) if case["fn"] == "P" else req_wrapper(case, before, ltxt)


def req_private(case, before, ltxt):
    return "P %d %d %d %s %s %s %s %s" % (
        case["prim"], case["aeg"], case["R"], "A" if case["kind"] == "A" else "L",
        graphcap.graph_tok(case["n"], case["edges"]), ltxt, roots_tok(case["roots"]), before)


def req_wrapper(case, before, ltxt):
    if case["kind"] == "G":
        d = "G %d %d %s" % (case["h"], case["w"], ltxt)
    else:
        d = "%s %s" % ("A" if case["kind"] == "A" else "L", ltxt)
    g = "N" if case["n"] is None else "G " + graphcap.graph_tok(case["n"], case["edges"])
    return "W %d %d %d %s %s %s %s" % (case["prim"], case["aeg"], case["R"], d, g, roots_tok(case["roots"]), before)


def case_key(case):
    return (case["fn"], case.get("n"), tuple(case.get("edges") or ()), case.get("h"), case.get("w"), case["kind"],
            case["R"], case["aeg"], case["prim"], case.get("via_config", False),
            repr(case["roots"]), repr(case["recipe"]), case.get("rform", "list"), case.get("eform", "tuple"),
            case.get("cf"), bool(case.get("twice")))


# ---------------------------------------------------------------- correspondence cases

FORMS = ["vars", "vars", "ints", "mixed", "exprs", "wide"]


def gen_corr_cases_raw(ctx):
    rng = ctx.rng
    # (1) exhaustive small multigraphs x num_regions x allow_empty_group x encodings x roots forms
    graphs = list(graphcap.all_multigraphs(4, 4))
    graphs += [(n, es) for (n, es) in graphcap.all_multigraphs(3, 3, loops=True) if any(a == b for a, b in es)]
    for (n, es) in graphs:
        for R in (1, 2, 3):
            for aeg in (False, True):
                for prim in (False, True):
                    if not ctx.thorough and n == 4 and len(es) >= 3 and rng.random() < 0.5:
                        continue
                    form = rng.choice(FORMS)
                    kind = rng.choice(["A", "A", "L", "T", "S"])
                    yield {"fn": "P", "n": n, "edges": es, "R": R, "aeg": aeg, "prim": prim, "kind": kind,
                           "via_config": rng.random() < 0.2, "roots": gen_roots(rng, n, R),
                           "recipe": gen_recipe(rng, n, R, form), "src": "exh"}
    # (2) random larger multigraphs (loops and parallel edges included)
    for _ in range(600 if ctx.thorough else 150):
        n, es = graphcap.random_multigraph(rng, 9, loops=rng.random() < 0.3)
        R = rng.choice([1, 2, 3, 4, 5])
        yield {"fn": "P", "n": n, "edges": es, "R": R, "aeg": rng.random() < 0.5, "prim": rng.random() < 0.5,
               "kind": rng.choice(["A", "L", "T", "S"]), "via_config": rng.random() < 0.2,
               "roots": gen_roots(rng, n, R), "recipe": gen_recipe(rng, n, R, rng.choice(FORMS)), "src": "rand"}
    # (3) public wrapper: grids
    for (h, w) in graphcap.grid_shapes(16 if ctx.thorough else 12):
        for R in (1, 2, 3):
            for prim in (False, True):
                yield {"fn": "W", "n": None, "edges": None, "h": h, "w": w, "kind": "G", "R": R,
                       "aeg": rng.random() < 0.5, "prim": prim, "roots": gen_grid_roots(rng, h, w, R),
                       "recipe": gen_recipe(rng, h * w, R, rng.choice(FORMS)), "src": "grid"}
    # (4) public wrapper: explicit graphs
    for _ in range(120 if ctx.thorough else 40):
        n, es = graphcap.random_multigraph(rng, 6)
        R = rng.choice([1, 2, 3])
        yield {"fn": "W", "n": n, "edges": es, "kind": rng.choice(["A", "L", "T", "S"]), "R": R,
               "aeg": rng.random() < 0.5, "prim": rng.random() < 0.5, "roots": gen_roots(rng, n, R),
               "recipe": gen_recipe(rng, n, R, rng.choice(FORMS)), "src": "wrap-graph"}
    # (5) malformed stream: wrong lengths, 0 vertices, num_regions 0, bad roots, wrong argument combinations
    for _ in range(400 if ctx.thorough else 120):
        c = rng.randrange(8)
        if c == 0:      # labels shorter / longer than the graph
            n, es = graphcap.random_multigraph(rng, 5)
            nl = max(0, n + rng.choice([-2, -1, 1, 2]))
            R = rng.choice([1, 2, 3])
            yield {"fn": "P", "n": n, "edges": es, "R": R, "aeg": rng.random() < 0.5, "prim": rng.random() < 0.5,
                   "kind": rng.choice(["A", "L"]), "roots": gen_roots(rng, min(n, nl), R),
                   "recipe": gen_recipe(rng, nl, R, "vars"), "src": "mal-len"}
        elif c == 1:    # no vertices
            R = rng.choice([0, 1, 2])
            yield {"fn": "P", "n": 0, "edges": [], "R": R, "aeg": rng.random() < 0.5, "prim": rng.random() < 0.5,
                   "kind": rng.choice(["A", "L"]), "roots": rng.choice([None, [], [None], [0]]),
                   "recipe": [], "src": "mal-n0"}
        elif c == 2:    # num_regions = 0
            n, es = graphcap.random_multigraph(rng, 4)
            yield {"fn": "P", "n": n, "edges": es, "R": 0, "aeg": rng.random() < 0.5, "prim": rng.random() < 0.5,
                   "kind": rng.choice(["A", "L"]), "roots": rng.choice([None, [], [0], [None, 0]]),
                   "recipe": gen_recipe(rng, n, 1, "vars"), "src": "mal-R0"}
        elif c in (3, 4):    # bad roots entries (explicit graph)
            n, es = graphcap.random_multigraph(rng, 5)
            R = rng.choice([1, 2, 3])
            yield {"fn": "P", "n": n, "edges": es, "R": R, "aeg": rng.random() < 0.5, "prim": rng.random() < 0.5,
                   "kind": rng.choice(["A", "L"]), "roots": gen_roots(rng, n, R, malformed=True) or [n],
                   "recipe": gen_recipe(rng, n, R, rng.choice(FORMS)), "src": "mal-roots"}
        elif c == 5:    # bad roots entries (grid)
            h, w = rng.choice(list(graphcap.grid_shapes(9)))
            R = rng.choice([1, 2, 3])
            yield {"fn": "W", "n": None, "edges": None, "h": h, "w": w, "kind": "G", "R": R,
                   "aeg": rng.random() < 0.5, "prim": rng.random() < 0.5,
                   "roots": gen_grid_roots(rng, h, w, R, malformed=True) or [0],
                   "recipe": gen_recipe(rng, h * w, R, "vars"), "src": "mal-gridroots"}
        elif c == 6:    # graph omitted for a sequence
            n = rng.randint(1, 4)
            yield {"fn": "W", "n": None, "edges": None, "kind": rng.choice(["A", "L"]), "R": 1, "aeg": False,
                   "prim": rng.random() < 0.5, "roots": None, "recipe": gen_recipe(rng, n, 1, "vars"),
                   "src": "mal-nograph"}
        else:           # graph given together with an IntArray2D
            h, w = rng.choice(list(graphcap.grid_shapes(6)))
            yield {"fn": "W", "n": h * w, "edges": graphcap.grid_edges(h, w), "h": h, "w": w, "kind": "G", "R": 2,
                   "aeg": False, "prim": rng.random() < 0.5, "roots": None,
                   "recipe": gen_recipe(rng, h * w, 2, "vars"), "src": "mal-2dgraph"}


def structured_graphs(rng, thorough=False):
    """(name, n, edges) of structured graphs just beyond the exhaustive scope; every edge list in a random
    stored orientation (cycles closed by a reversed edge, parallel edges, a loop)"""
    out = []
    for n in (7, 8, 9, 10) + ((12, 16) if thorough else ()):
        out.append(("path%d" % n, n, [(i, i + 1) for i in range(n - 1)]))
        out.append(("cycle%d" % n, n, [(i, i + 1) for i in range(n - 1)] + [(n - 1, 0)]))
    out.append(("2cycles8", 8, [(0, 1), (1, 2), (2, 3), (3, 0), (4, 5), (5, 6), (6, 7), (7, 4)]))
    out.append(("wheel7", 7, [(0, i) for i in range(1, 7)] + [(i, i % 6 + 1) for i in range(1, 7)]))
    out.append(("star9", 9, [(0, i) for i in range(1, 9)]))
    for k in (5, 6, 7):
        out.append(("K%d" % k, k, [(a, b) for a in range(k) for b in range(a + 1, k)]))
    out.append(("prism8", 8, [(i, (i + 1) % 4) for i in range(4)] + [(4 + i, 4 + (i + 1) % 4) for i in range(4)]
                + [(i, i + 4) for i in range(4)]))
    out.append(("comb10", 10, [(i, i + 1) for i in range(4)] + [(i, i + 5) for i in range(5)]))
    out.append(("multipath7", 7, [(i, i + 1) for i in range(6)] + [(2, 3), (3, 2), (5, 5)]))
    return [(nm, n, orient(rng, es)) for nm, n, es in out]


def gen_corr_cases(ctx):
    """every raw case, decorated with the input forms of the hardening classes: container / one-shot form of
    roots, spelling of the call, a second call on the same objects; plus structured larger graphs"""
    rng = ctx.rng

    def decorate(case):
        grid = case["fn"] == "W" and case["n"] is None and case["kind"] == "G"
        twice = rng.random() < 0.15
        rform, eform = pick_forms(rng, case["roots"], reusable=twice and rng.random() < 0.5)
        case["rform"] = rform
        case["eform"] = eform if grid else "tuple"
        if not case.get("via_config"):
            case["cf"] = rng.choice(P_CALL_FORMS if case["fn"] == "P" else W_CALL_FORMS)
        case["twice"] = twice
        return case
    for case in gen_corr_cases_raw(ctx):
        yield decorate(case)
    # (6) every roots form x both functions x both routes on a fixed board / graph (the forms are never left to chance)
    for rform in ROOT_FORMS:
        for eform in ENTRY_FORMS:
            for prim in (False, True):
                h, w = rng.choice([(2, 3), (3, 2), (1, 4), (3, 3)])
                R = rng.choice([2, 3])
                roots = [(rng.randrange(h), rng.randrange(w)) if k == 0 or rng.random() < 0.6 else None
                         for k in range(R)]
                yield {"fn": "W", "n": None, "edges": None, "h": h, "w": w, "kind": "G", "R": R,
                       "aeg": rng.random() < 0.5, "prim": prim, "roots": roots, "rform": rform, "eform": eform,
                       "cf": rng.choice(W_CALL_FORMS), "recipe": gen_recipe(rng, h * w, R, "vars"),
                       "src": "forms-grid"}
        for fn in ("P", "W"):
            for prim in (False, True):
                n, es = graphcap.random_multigraph(rng, 6)
                R = rng.choice([2, 3])
                roots = [rng.randrange(n) if k == 0 or rng.random() < 0.6 else None for k in range(R)]
                yield {"fn": fn, "n": n, "edges": es, "kind": rng.choice(["A", "L", "T", "S"]), "R": R,
                       "aeg": rng.random() < 0.5, "prim": prim, "roots": roots, "rform": rform, "eform": "tuple",
                       "cf": rng.choice(P_CALL_FORMS if fn == "P" else W_CALL_FORMS),
                       "recipe": gen_recipe(rng, n, R, rng.choice(FORMS)), "src": "forms-graph"}
    # (7) structured graphs beyond the exhaustive scope, many regions, both routes
    for (nm, n, es) in structured_graphs(rng, ctx.thorough):
        for R in sorted({1, 2, n // 2, n - 1, n, n + 1}):
            if R < 1:
                continue
            yield decorate({"fn": rng.choice(["P", "P", "W"]), "n": n, "edges": es,
                            "kind": rng.choice(["A", "L", "T", "S"]), "R": R, "aeg": rng.random() < 0.6,
                            "prim": rng.random() < 0.4, "roots": gen_roots(rng, n, R),
                            "recipe": gen_recipe(rng, n, R, rng.choice(FORMS)), "src": "structured"})
    # (8) larger boards through the public wrapper (1xN, Nx1, 2x7, 4x5, 5x5, 7x7), many regions
    for (h, w) in [(1, 7), (1, 10), (9, 1), (2, 7), (7, 2), (4, 5), (5, 4), (5, 5), (7, 7)]:
        for R in sorted({2, (h * w) // 2, h * w - 1, h * w}):
            if h * w >= 25 and R > 3 and not ctx.thorough and rng.random() < 0.5:
                continue
            yield decorate({"fn": "W", "n": None, "edges": None, "h": h, "w": w, "kind": "G", "R": R,
                            "aeg": rng.random() < 0.6, "prim": rng.random() < 0.4,
                            "roots": gen_grid_roots(rng, h, w, R),
                            "recipe": gen_recipe(rng, h * w, R, "vars"), "src": "boards"})


def correspond(ctx):
    m = ctx.model("C05")
    cases, reqs, impl = [], [], []
    for case in gen_corr_cases(ctx):
        r = run_case(case)
        reqs.append(build_request(case, r["before"], r["ltxt"]))
        cases.append(case)
        impl.append(r["out"])
        ctx.count("roots-form:" + ("none" if case["roots"] is None else case.get("rform", "list")))
        ctx.count("entry-form:" + case.get("eform", "tuple"))
        ctx.count("call-form:" + (case.get("cf") or "cfg"))
        ctx.count("division-kind:" + case["kind"])
        ctx.corr("args-unchanged", case_key(case), True, r["args_ok"])
        if "out2" in r:
            # the same call once more on the same Solver / Graph / containers: the model continues from the
            # state the first call really left
            c2 = dict(case)
            c2["src"] = "second-call"
            c2["second"] = True
            reqs.append(build_request(case, r["state1"], r["ltxt"]))
            cases.append(c2)
            impl.append(r["out2"])
    outs = m.batch(reqs)
    for case, o, io in zip(cases, outs, impl):
        mo = parse_reply(o)
        ctx.count("src:" + case["src"])
        ctx.count("route:" + ("primitive" if case["prim"] else "aux"))
        ctx.count("outcome:" + (io[0] if io[0] == "ok" else io[1]))
        ctx.corr("program:" + case["fn"] + (":second-call" if case.get("second") else ""), case_key(case), mo, io)
    # the grid graph itself (also part of C04's tie; cheap)
    for (h, w) in graphcap.grid_shapes(12):
        from cspuz.graph import _grid_graph
        g = _grid_graph(h, w)
        io = "%d %s" % (g.num_vertices, " ".join("%d %d" % e for e in g.edges))
        ctx.corr("grid_graph", (h, w), m.call("GG %d %d" % (h, w)).strip(), io.strip())


# ---------------------------------------------------------------- search

def oracle(n, edges, R, labels, roots, aeg):
    """the property's right-hand side, in plain Python (independent of cspuz and of the Coq model)"""
    for k in range(R):
        act = [labels[v] == k for v in range(n)]
        if not graphcap.is_connected(n, edges, act):
            return False
        if not aeg and not any(act):
            return False
    if roots is not None:
        for k, r in enumerate(roots):
            if r is not None and labels[r] != k:
                return False
    return True


def to_z3(e, zv, z3):
    from cspuz.expr import BoolVar, IntVar, Op
    if isinstance(e, bool):
        return z3.BoolVal(e)
    if isinstance(e, int):
        return z3.IntVal(e)
    if isinstance(e, (BoolVar, IntVar)):
        return zv[e.id]
    a = [to_z3(x, zv, z3) for x in e.operands]
    o = e.op
    if o in (Op.BOOL_CONSTANT, Op.INT_CONSTANT):
        return a[0]
    if o == Op.NEG:
        return -a[0]
    if o == Op.ADD:
        return z3.Sum(a)
    if o == Op.SUB:
        r = a[0]
        for x in a[1:]:
            r = r - x
        return r
    if o == Op.EQ:
        return a[0] == a[1]
    if o == Op.NE:
        return a[0] != a[1]
    if o == Op.LE:
        return a[0] <= a[1]
    if o == Op.LT:
        return a[0] < a[1]
    if o == Op.GE:
        return a[0] >= a[1]
    if o == Op.GT:
        return a[0] > a[1]
    if o == Op.NOT:
        return z3.Not(a[0])
    if o == Op.AND:
        return z3.And(a) if a else z3.BoolVal(True)
    if o == Op.OR:
        return z3.Or(a) if a else z3.BoolVal(False)
    if o == Op.IFF:
        return a[0] == a[1]
    if o == Op.XOR:
        return z3.Xor(a[0], a[1])
    if o == Op.IMP:
        return z3.Implies(a[0], a[1])
    if o == Op.IF:
        return z3.If(a[0], a[1], a[2])
    if o == Op.ALLDIFF:
        return z3.Distinct(a) if len(a) > 1 else z3.BoolVal(True)
    raise ValueError("operator %s inside a constraint" % o)


class Session:
    """z3 problem of a really posted program; GRAPH_ACTIVE_VERTICES_CONNECTED
    constraints (top level) are kept aside and evaluated by their specification."""

    def __init__(self, solver):
        import z3
        from cspuz.expr import BoolVar, Expr, Op
        self.z3 = z3
        self.solver = solver
        self.zv = {}
        for v in solver.variables:
            self.zv[v.id] = z3.Bool("b%d" % v.id) if isinstance(v, BoolVar) else z3.Int("i%d" % v.id)
        self.zs = z3.Solver()
        self.avc = []
        for v in solver.variables:
            if not isinstance(v, BoolVar):
                self.zs.add(v.lo <= self.zv[v.id], self.zv[v.id] <= v.hi)
        for c in solver.constraints:
            if isinstance(c, Expr) and c.op == Op.GRAPH_ACTIVE_VERTICES_CONNECTED:
                self.avc.append(c)
            else:
                self.zs.add(to_z3(c, self.zv, z3))

    def _model(self):
        from cspuz.expr import BoolVar
        m = self.zs.model()
        out = {}
        for v in self.solver.variables:
            val = m.eval(self.zv[v.id], model_completion=True)
            out[v.id] = self.z3.is_true(val) if isinstance(v, BoolVar) else val.as_long()
        return out

    def _avc_ok(self, model):
        from cspuz.expr import BoolVar
        for c in self.avc:
            ops = c.operands
            n, m = ops[0], ops[1]
            acts = ops[2:2 + n]
            flat = ops[2 + n:]
            if len(acts) != n or len(flat) != 2 * m:
                raise ValueError("operand layout of GRAPH_ACTIVE_VERTICES_CONNECTED")
            act = []
            for a in acts:
                if isinstance(a, bool):
                    act.append(a)
                elif isinstance(a, BoolVar):
                    act.append(model[a.id])
                else:
                    raise ValueError("non-variable operand of GRAPH_ACTIVE_VERTICES_CONNECTED")
            edges = [(flat[2 * i], flat[2 * i + 1]) for i in range(m)]
            if not graphcap.is_connected(n, edges, act):
                return False
        return True

    def check(self, fixed, want_model=False, cap=4096):
        """satisfiable with the given (var, value) pairs fixed?"""
        z3 = self.z3
        from cspuz.expr import BoolVar
        self.zs.push()
        try:
            for v, val in fixed:
                zv = self.zv[v.id]
                self.zs.add((zv if val else z3.Not(zv)) if isinstance(v, BoolVar) else zv == val)
            if not self.avc:
                r = self.zs.check() == z3.sat
                return (r, self._model() if r else None) if want_model else r
            # enumerate the models of the rest (projected on the boolean variables the graph nodes mention)
            ids = sorted({a.id for c in self.avc for a in c.operands if isinstance(a, BoolVar)})
            for _ in range(cap):
                if self.zs.check() != z3.sat:
                    return (False, None) if want_model else False
                model = self._model()
                if self._avc_ok(model):
                    return (True, model) if want_model else True
                if not ids:
                    return (False, None) if want_model else False
                self.zs.add(z3.Or([self.zv[i] != z3.BoolVal(model[i]) for i in ids]))
            raise RuntimeError("model enumeration cap reached")
        finally:
            self.zs.pop()


def env_tok(solver, model):
    return " ".join(str(int(model[v.id])) for v in solver.variables)


def pick_hist(rng, n_edges):
    c = rng.random()
    if c < 0.6:
        return "none"
    if c < 0.75:
        return "warm"
    if c < 0.9 or n_edges == 0:
        return "double"
    return "grow"


def graph_scenario(rng, n, es, R, aeg, prim, roots, kinds=("A", "L", "T", "S"), orientation=None):
    """a call on an explicit graph, with the input forms drawn at random: stored edge orientation, container of
    division, form of roots, function (private / public wrapper), spelling of the call, history"""
    es = orient(rng, es, orientation)
    hist = pick_hist(rng, len(es))
    rform, eform = pick_forms(rng, roots, reusable=hist != "none" and rng.random() < 0.5)
    fn = "P" if rng.random() < 0.75 else "W"
    return {"fn": fn, "n": n, "edges": es, "shape": None, "R": R, "aeg": aeg, "prim": prim, "roots": roots,
            "kind": rng.choice(kinds), "rform": rform, "eform": "tuple",
            "cf": rng.choice(P_CALL_FORMS if fn == "P" else W_CALL_FORMS), "hist": hist,
            "grow_k": rng.randrange(len(es)) if es else 0}


def grid_scenario(rng, h, w, R, aeg, prim, roots):
    hist = rng.choice(["none", "none", "none", "warm", "double"])
    rform, eform = pick_forms(rng, roots, reusable=hist != "none" and rng.random() < 0.5)
    return {"fn": "W", "n": h * w, "edges": graphcap.grid_edges(h, w), "shape": [h, w], "R": R, "aeg": aeg,
            "prim": prim, "roots": roots, "kind": "G", "rform": rform, "eform": eform,
            "cf": rng.choice(["kw", "kw", "omit"]), "hist": hist, "grow_k": 0}


def post_scenario(sc):
    """run the scenario against the real code; returns (solver, label variables in vertex order)"""
    from cspuz import Solver
    n, R, es = sc["n"], sc["R"], [tuple(e) for e in sc["edges"]]
    grid = sc.get("shape") is not None
    hist = sc.get("hist", "none")
    rform, eform = sc.get("rform", "list"), sc.get("eform", "tuple")
    roots = sc["roots"]
    if roots is not None:
        roots = [tuple(r) if isinstance(r, list) else r for r in roots]
    case = {"fn": sc["fn"], "R": R, "aeg": sc["aeg"], "prim": sc["prim"], "cf": sc.get("cf", "kw")}

    def fresh(solver):
        if grid:
            d = solver.int_array(tuple(sc["shape"]), 0, R - 1)
            return d, list(d.data)
        d = solver.int_array(n, 0, R - 1)
        return (d if sc["kind"] == "A" else mk_division(list(d), sc["kind"])), list(d)
    reusable = rform not in ONE_SHOT and eform not in ("iter", "gen")
    k = sc.get("grow_k", 0)
    g = None if grid else graphcap.mk_graph(n, es[:k] if hist == "grow" else es)
    ro = wrap_roots(roots, rform, eform)
    if hist in ("warm", "grow"):
        # an earlier call on another Solver with the same Graph / roots objects (grow: the graph then gets more edges)
        s0 = Solver()
        div0, _ = fresh(s0)
        invoke(case, s0, div0, g, ro)
        if hist == "grow":
            for e in es[k:]:
                g.add_edge(*e)
        if not reusable:
            ro = wrap_roots(roots, rform, eform)
    s = Solver()
    div, dvars = fresh(s)
    invoke(case, s, div, g, ro)
    if hist == "double":
        # the same constraint posted twice on the same Solver: still exactly the specification
        if not reusable:
            ro = wrap_roots(roots, rform, eform)
        invoke(case, s, div, g, ro)
    return s, dvars


def oracle_roots(sc):
    roots = sc["roots"]
    if roots is None:
        return None
    if sc.get("shape") is not None:
        w = sc["shape"][1]
        return [None if a is None else a[0] * w + a[1] for a in roots]
    return resolve_roots(roots, sc["n"])


def search_scopes(ctx):
    """scenarios whose every labeling is decided"""
    rng = ctx.rng
    deep = ctx.thorough or getattr(ctx, "deep", False)
    graphs = list(graphcap.all_multigraphs(4, 4))
    graphs += [(n, es) for (n, es) in graphcap.all_multigraphs(3, 2, loops=True) if any(a == b for a, b in es)]
    for (n, es) in graphs:
        for R in (1, 2, 3):
            for aeg in (False, True):
                for prim in (False, True):
                    if not deep:
                        p = 1.0 if n <= 3 else (0.5 if R <= 2 else 0.17)
                        if rng.random() > p:
                            continue
                    roots = None
                    if rng.random() < 0.35:
                        roots = [rng.choice([None, rng.randrange(n), -1 - rng.randrange(n)])
                                 for _ in range(rng.choice([R, R, R, max(R - 1, 0), R + 1]))]
                    yield graph_scenario(rng, n, es, R, aeg, prim, roots)
    # every stored orientation of the small connected shapes where orientation could matter most (paths, triangle,
    # star, 4-cycle), auxiliary route
    shapes = [(3, [(0, 1), (1, 2)]), (3, [(0, 1), (1, 2), (0, 2)]), (4, [(0, 1), (1, 2), (2, 3)]),
              (4, [(0, 1), (0, 2), (0, 3)]), (4, [(0, 1), (1, 2), (2, 3), (0, 3)]), (3, [(0, 1), (0, 1), (1, 2)])]
    for (n, es) in shapes:
        for flips in itertools.product([False, True], repeat=len(es)):
            if not any(flips):
                continue
            if not deep and rng.random() < 0.5:
                continue
            es2 = [(b, a) if f else (a, b) for (a, b), f in zip(es, flips)]
            R = rng.choice([2, 2, 3])
            roots = None if rng.random() < 0.6 else [rng.choice([None, rng.randrange(n)]) for _ in range(R)]
            sc = graph_scenario(rng, n, es2, R, rng.random() < 0.5, False, roots, orientation="keep")
            yield sc
    # 5 (thorough: also 6) vertices: simple graphs, sampled
    big = []
    for nn in ((5, 6) if ctx.thorough else (5,)):
        pairs = [(a, b) for a in range(nn) for b in range(a + 1, nn)]
        for _ in range(400 if deep else 36):
            es = [p for p in pairs if rng.random() < rng.choice([0.25, 0.4, 0.6])]
            if rng.random() < 0.2 and es:
                es.append(rng.choice(es))      # a parallel edge
            big.append((nn, es))
    for (n, es) in big:
        R = rng.choice([1, 2, 2, 3, 3])
        roots = None
        if rng.random() < 0.35:
            roots = [rng.choice([None, rng.randrange(n)]) for _ in range(R)]
        yield graph_scenario(rng, n, es, R, rng.random() < 0.5, rng.random() < 0.4, roots)


def resolve_roots(roots, n):
    if roots is None:
        return None
    return [None if r is None else (r + n if r < 0 else r) for r in roots]


def viol_key(tag, n, es, R, aeg, prim, roots, kind, labels, sc=None):
    k = "%s:n%d:e%s:R%d:aeg%d:prim%d:%s:roots%s:l%s" % (
        tag, n, "".join("%d%d" % tuple(e) for e in es), R, aeg, prim, kind,
        "-" if roots is None else ",".join("_" if r is None else str(r).replace(" ", "") for r in roots),
        "".join(str(x) for x in labels))
    if sc is not None:
        k += ":%s:%s:%s:%s:%s" % (sc["fn"], sc.get("rform", "list"), sc.get("eform", "tuple"), sc.get("cf", "kw"),
                                  sc.get("hist", "none"))
    return k


# ---- targeted labelings for instances beyond the exhaustive scope

def runs_along(order, cuts, labs, n):
    """label the vertices of `order` run by run: run r (between consecutive cut positions) gets labs[r]"""
    lab = [0] * n
    r = 0
    for pos, v in enumerate(order):
        while r < len(cuts) and pos >= cuts[r]:
            r += 1
        lab[v] = labs[r % len(labs)]
    return lab


def targeted_labelings(rng, n, R, orders, extra=(), n_random=3):
    """a small set of labelings of n vertices with labels < R built from the vertex orders given (contiguous
    runs along a path-like order are connected classes; alternations are not)"""
    out = []
    for k in sorted({0, R - 1}):
        out.append([k] * n)                                       # one long class, the other labels unused
    for order in orders:
        for j in sorted({2, 3, R // 2, R - 1, R}):
            if 2 <= j <= min(R, n):
                cuts = [(i * n) // j for i in range(1, j)]
                out.append(runs_along(order, cuts, list(range(j)), n))          # j equal runs, labels 0..j-1
                out.append(runs_along(order, cuts, list(range(R - j, R)), n))   # the same with the top labels
        if R >= 2:
            out.append(runs_along(order, list(range(1, n)), [0, 1], n))         # alternating
            if n >= 3:
                out.append(runs_along(order, [1, n - 1], [0, 1, 0], n))         # both ends against the middle
                out.append(runs_along(order, [n // 3, n - n // 3], [0, 1, 0], n))
                out.append(runs_along(order, [1], [R - 1, 0], n))               # a singleton and a long rest
        if R >= n:
            out.append(runs_along(order, list(range(1, n)), list(range(n)), n))  # singletons
        for _ in range(n_random):
            j = rng.randint(1, min(R, n))
            cuts = sorted(rng.sample(range(1, n), j - 1)) if n > 1 else []
            labs = rng.sample(range(R), j)
            out.append(runs_along(order, cuts, labs, n))
    for lab in extra:
        out.append(list(lab))
    for _ in range(n_random):
        out.append([rng.randrange(R) for _ in range(n)])
    seen, res = set(), []
    for lab in out:
        t = tuple(lab)
        if len(t) == n and all(0 <= x < R for x in t) and t not in seen:
            seen.add(t)
            res.append(t)
    return res


def board_orders(h, w):
    row = [y * w + x for y in range(h) for x in range(w)]
    snake = [y * w + (x if y % 2 == 0 else w - 1 - x) for y in range(h) for x in range(w)]
    col_snake = [(y if x % 2 == 0 else h - 1 - y) * w + x for x in range(w) for y in range(h)]
    # inward spiral visiting every cell
    seen, spiral = set(), []
    y, x, dy, dx = 0, 0, 0, 1
    for _ in range(h * w):
        spiral.append(y * w + x)
        seen.add((y, x))
        ny, nx = y + dy, x + dx
        if not (0 <= ny < h and 0 <= nx < w) or (ny, nx) in seen:
            dy, dx = dx, -dy
            ny, nx = y + dy, x + dx
        y, x = ny, nx
    return {"row": row, "snake": snake, "colsnake": col_snake, "spiral": spiral}


def board_patterns(h, w, R):
    """named labelings of an h x w board: thin spiral corridor, serpentine with walls, staircase diagonal, X, plus"""
    pats = []
    # thin spiral corridor (label 0) leaving a one-cell wall (label 1)
    cor, seen = [], set()
    y, x, dy, dx = 0, 0, 0, 1
    while True:
        cor.append((y, x))
        seen.add((y, x))
        moved = False
        for _ in range(2):
            ny, nx = y + dy, x + dx
            ay, ax = ny + dy, nx + dx
            ok = 0 <= ny < h and 0 <= nx < w and (ny, nx) not in seen
            if ok and (ay, ax) in seen:
                ok = False
            if ok:
                # the new cell must not touch the corridor sideways
                for (sy, sx) in ((ny + dx, nx - dy), (ny - dx, nx + dy)):
                    if (sy, sx) in seen and (sy, sx) != (y, x):
                        ok = False
            if ok:
                y, x = ny, nx
                moved = True
                break
            dy, dx = dx, -dy
        if not moved:
            break
    if R >= 2:
        lab = [1] * (h * w)
        for (cy, cx) in cor:
            lab[cy * w + cx] = 0
        pats.append(("spiral-corridor", lab))
        pats.append(("spiral-corridor-top", [R - 1 if v == 0 else 0 for v in lab]))
        # the corridor cut in the middle: a disconnected class
        lab2 = list(lab)
        cy, cx = cor[len(cor) // 2]
        lab2[cy * w + cx] = 1
        pats.append(("spiral-corridor-cut", lab2))
    # serpentine: even rows label 0, odd rows a wall except the alternating end cell; every wall its own label
    lab = [0] * (h * w)
    walls = 0
    for y in range(1, h, 2):
        walls += 1
        gap = w - 1 if (y // 2) % 2 == 0 else 0
        for x in range(w):
            if x != gap:
                lab[y * w + x] = walls
    if walls + 1 <= R and w >= 2:
        pats.append(("serpentine", lab))
        pats.append(("serpentine-one-wall-label", [min(v, 1) for v in lab]))
    # staircase diagonal (label 0), the two sides labels 1 and 2 (or both 1: disconnected)
    if h >= 2 and w >= 2:
        st = set()
        for i in range(min(h, w)):
            st.add((i, i))
            if i + 1 < w:
                st.add((i, i + 1))
        lab3 = [0 if (y, x) in st else (1 if x > y else 2) for y in range(h) for x in range(w)]
        if R >= 3:
            pats.append(("staircase-3", lab3))
        if R >= 2:
            pats.append(("staircase-2", [min(v, 1) for v in lab3]))
    # X (two diagonals: never orthogonally connected) and plus (middle row and column, four quadrants)
    if R >= 2 and h >= 3 and w >= 3:
        pats.append(("X", [0 if (x == y or x + y == w - 1) else 1 for y in range(h) for x in range(w)]))
        my, mx = h // 2, w // 2
        quad = [0 if (y == my or x == mx) else 1 + (2 if y > my else 0) + (1 if x > mx else 0)
                for y in range(h) for x in range(w)]
        if R >= 5:
            pats.append(("plus-5", quad))
        pats.append(("plus-2", [min(v, 1) for v in quad]))
    return pats


def adapt_to_roots(labelings, roots_o, R):
    """the labelings plus, for each, the one with two label names swapped so that the first listed root carries
    its label (keeps satisfiable cases in the mix when a root is pinned)"""
    pins = [(k, v) for k, v in enumerate(roots_o or []) if v is not None and k < R]
    if not pins:
        return labelings
    k, v = pins[0]
    out, seen = list(labelings), set(labelings)
    for lab in labelings:
        a = lab[v]
        t = tuple(k if x == a else a if x == k else x for x in lab)
        if t not in seen:
            seen.add(t)
            out.append(t)
    return out


def big_scenarios(ctx):
    """(scenario, labelings) beyond the exhaustive scope: structured graphs with 7-10 vertices and boards up to
    7x7, few or many regions, allow_empty_group on/off, roots at the far end of long classes"""
    rng = ctx.rng
    deep = ctx.thorough or getattr(ctx, "deep", False)
    for (nm, n, es) in structured_graphs(rng, ctx.thorough):
        order = list(range(n))
        confs = [(rng.choice([2, 3]), rng.random() < 0.5), (rng.choice([n - 2, n - 1, n]), True),
                 (rng.choice([n // 2, n, n + 1]), rng.random() < 0.75)]
        if not deep:
            confs = rng.sample(confs, 2)
        for (R, aeg) in confs:
            R = max(R, 1)
            roots = None
            c = rng.random()
            if c < 0.3:
                roots = [rng.choice([0, n - 1, -1])] + [None] * (R - 1)       # the root at an end of the order
            elif c < 0.5:
                roots = [None] * (R - 1) + [rng.randrange(n)]
            elif c < 0.6:
                roots = [rng.choice([None, rng.randrange(n)]) for _ in range(R)]
            prim = rng.random() < 0.25
            sc = graph_scenario(rng, n, es, R, aeg, prim, roots, orientation="keep")
            sc["name"] = nm
            yield sc, adapt_to_roots(targeted_labelings(rng, n, R, [order], n_random=2), oracle_roots(sc), R)
    boards = [(1, 6), (1, 8), (1, 10), (7, 1), (2, 7), (7, 2), (4, 5), (5, 4), (5, 5), (3, 7)]
    boards += [(7, 7)] if not ctx.thorough else [(7, 7), (6, 7), (1, 16), (8, 8)]
    for (h, w) in boards:
        n = h * w
        orders = board_orders(h, w)
        confs = [(rng.choice([2, 3]), rng.random() < 0.5), (rng.choice([n - 1, n]), True),
                 (rng.choice([5, max(n // 2, 2)]), rng.random() < 0.7)]
        if not deep and n >= 20:
            confs = rng.sample(confs, 2)
        for (R, aeg) in confs:
            roots = None
            c = rng.random()
            far = [(0, 0), (h - 1, w - 1), (h - 1, 0), (0, w - 1), (h // 2, w // 2)]
            if c < 0.35:
                roots = [rng.choice(far)] + [None] * (R - 1)
            elif c < 0.55:
                roots = [None] * (R - 1) + [rng.choice(far)]
            elif c < 0.65:
                roots = [rng.choice([None, (rng.randrange(h), rng.randrange(w))]) for _ in range(R)]
            prim = rng.random() < 0.25
            sc = grid_scenario(rng, h, w, R, aeg, prim, roots)
            sc["name"] = "board%dx%d" % (h, w)
            use = [orders[k] for k in rng.sample(sorted(orders), 2 if n >= 20 and not deep else 3)]
            pats = [lab for (_, lab) in board_patterns(h, w, R)]
            yield sc, adapt_to_roots(targeted_labelings(rng, n, R, use, extra=pats, n_random=1 if n >= 20 else 2),
                                     oracle_roots(sc), R)


def search(ctx):
    from cspuz import Solver
    from cspuz.graph import _division_connected
    m = None
    try:
        m = ctx.model("C05")
    except Exception:
        ctx.note("extracted model unavailable during search: specification not cross-checked")
    spec_reqs, spec_expect = [], []
    ev_reqs, ev_meta = [], []
    rng = ctx.rng
    try:
        known_keys = {k["key"] for k in vlib.load_known("C05")[0]}
    except Exception:
        known_keys = set()

    def enough():
        """the list of failing inputs is full (vlib keeps 40), or - quick tier - five new concrete failing inputs
        are already in hand (that many are reported): nothing more to learn from searching on"""
        if len(ctx.violations) >= 40:
            return True
        return not ctx.thorough and sum(1 for v in ctx.violations if v["key"] not in known_keys) >= 5

    def decide(tag, sc, labelings=None):
        n, es, R, aeg, prim, kind = sc["n"], sc["edges"], sc["R"], sc["aeg"], sc["prim"], sc["kind"]
        if enough():
            return
        r = vlib.guarded(post_scenario, sc)
        ctx.count("search-route:" + ("primitive" if prim else "aux"))
        ctx.count("search-roots-form:" + ("none" if sc["roots"] is None else sc["rform"]))
        ctx.count("search-history:" + sc["hist"])
        ctx.count("search-orientation:" + ("none" if not es else "asc" if all(a <= b for a, b in es) else
                                           "desc" if all(a >= b for a, b in es) else "mixed"))
        if r[0] == "err":
            ctx.violation(viol_key("raise-" + tag, n, es, R, aeg, prim, sc["roots"], kind, (), sc),
                          "division_connected / _division_connected raised on a well-formed call",
                          {"scenario": sc, "error": r[1], "call": tag})
            return
        s, dvars = r[1]
        roots_o = oracle_roots(sc)
        sess = Session(s)
        sample = rng.random() < 0.25
        exhaustive = labelings is None
        for lab in (itertools.product(range(R), repeat=n) if exhaustive else labelings):
            fixed = list(zip(dvars, lab))
            want = sample and rng.random() < (0.05 if exhaustive else 0.3)
            if want:
                obs, model = sess.check(fixed, want_model=True)
            else:
                obs, model = sess.check(fixed), None
            exp = oracle(n, es, R, lab, roots_o, aeg)
            ctx.prop_case(tag, (n, tuple(es), R, aeg, prim, kind, repr(sc["roots"]), sc["fn"], sc["rform"],
                                sc["eform"], sc["cf"], sc["hist"], lab))
            ctx.count("search-expected:" + tag + (":sat" if exp else ":unsat"))
            if obs != exp:
                d = {"graph": {"n": n, "edges": es}, "num_regions": R, "allow_empty_group": aeg,
                     "use_graph_primitive": prim, "division_kind": kind, "roots": sc["roots"],
                     "roots_form": sc["rform"], "entry_form": sc["eform"], "history": sc["hist"],
                     "labels": list(lab), "expected_satisfiable": exp, "observed_satisfiable": obs, "call": tag,
                     "scenario": sc}
                if sc.get("shape"):
                    d["shape"] = sc["shape"]
                ctx.violation(viol_key(tag, n, es, R, aeg, prim, sc["roots"], kind, lab, sc),
                              "satisfiability of the posted constraints differs from 'every class connected, "
                              "labels used, roots labelled'", d)
            if model is not None and m is not None:
                ev_reqs.append("EV %s A %s" % (exprio.show_state(s), env_tok(s, model)))
                ev_meta.append((tag, n, tuple(es), R, lab))
            if m is not None and rng.random() < 0.1:
                spec_reqs.append("S %d %d %s %s %s" % (R, aeg, graphcap.graph_tok(n, es),
                                                       roots_tok(roots_o), " ".join(str(x) for x in lab)))
                spec_expect.append((exp, (n, tuple(es), R, aeg, repr(roots_o), lab)))

    # sizes beyond the exhaustive scope, targeted labelings
    for sc, labelings in big_scenarios(ctx):
        decide("big-grid" if sc.get("shape") else "big-graph", sc, labelings)

    # every labeling of the small scopes
    for sc in search_scopes(ctx):
        decide("graph", sc)

    # constant (Python int) labels: one program per labeling
    for _ in range(300 if ctx.thorough else 60):
        n, es = graphcap.random_multigraph(rng, 5, loops=rng.random() < 0.2)
        R = rng.choice([1, 2, 3])
        aeg = rng.random() < 0.5
        prim = rng.random() < 0.5
        lab = [rng.randrange(R) for _ in range(n)]
        s = Solver()
        free = s.int_array(n, 0, R - 1)
        labels = [lab[v] if rng.random() < 0.6 else free[v] for v in range(n)]
        kind = rng.choice(["L", "T", "S", "A"])
        g = graphcap.mk_graph(n, es)
        r = vlib.guarded(lambda: _division_connected(s, mk_division(labels, kind), R, g, allow_empty_group=aeg,
                                                     use_graph_primitive=prim))
        if r[0] == "err":
            ctx.violation(viol_key("raise-const", n, es, R, aeg, prim, None, kind, lab),
                          "_division_connected raised on a well-formed call with int labels",
                          {"graph": {"n": n, "edges": es}, "num_regions": R, "labels": lab, "error": r[1]})
            continue
        sess = Session(s)
        obs = sess.check([(free[v], lab[v]) for v in range(n)])
        exp = oracle(n, es, R, lab, None, aeg)
        ctx.prop_case("graph-constlabels", (n, tuple(es), R, aeg, prim, kind, tuple(lab)))
        if obs != exp:
            ctx.violation(viol_key("const", n, es, R, aeg, prim, None, kind, lab),
                          "satisfiability with Python-int labels differs from the specification",
                          {"graph": {"n": n, "edges": es}, "num_regions": R, "allow_empty_group": aeg,
                           "use_graph_primitive": prim, "labels": lab, "mixed_labels": [repr(type(x).__name__) for x in labels],
                           "expected_satisfiable": exp, "observed_satisfiable": obs})

    # inferred grids through the public wrapper, roots as (y, x) in every container / one-shot form
    cells = 6 if ctx.thorough else 5
    shapes = list(graphcap.grid_shapes(cells))
    shapes += [(h, w) for (h, w) in [(1, 6), (6, 1), (2, 3), (3, 2), (1, 7)] if (h, w) not in shapes]
    for (h, w) in shapes:
        for R in (1, 2, 3):
            if h * w >= 5 and R == 3 and not ctx.thorough and (h * w >= 6 or rng.random() < 0.5):
                continue
            for prim in (False, True):
                aeg = rng.random() < 0.5
                roots = None
                if rng.random() < 0.6:
                    roots = [rng.choice([None, (rng.randrange(h), rng.randrange(w))]) for _ in range(R)]
                decide("grid", grid_scenario(rng, h, w, R, aeg, prim, roots))
    # the roots forms, each at least once with a root below the first row of a non-square board
    for rform in ROOT_FORMS:
        for eform in (ENTRY_FORMS if ctx.thorough or getattr(ctx, "deep", False) else ("tuple", rng.choice(ENTRY_FORMS[1:]))):
            h, w = rng.choice([(2, 3), (3, 2), (2, 2), (1, 4)])
            R = 2
            roots = [None, (h - 1, rng.randrange(w))] if rng.random() < 0.5 else [(h - 1, rng.randrange(w)), None]
            sc = grid_scenario(rng, h, w, R, rng.random() < 0.5, rng.random() < 0.3, roots)
            sc["rform"], sc["eform"], sc["hist"] = rform, eform, rng.choice(["none", "none", "double"])
            decide("grid", sc)
            n, es = rng.choice([(4, [(1, 0), (2, 1), (3, 2)]), (4, [(0, 1), (2, 1), (2, 3), (3, 0)]), (3, [(0, 1), (2, 1)])])
            sc = graph_scenario(rng, n, es, 2, rng.random() < 0.5, rng.random() < 0.3,
                                rng.choice([[None, n - 1], [0, None], [n - 1, 0]]), orientation="keep")
            sc["rform"] = rform
            if sc["hist"] != "none":
                sc["hist"] = "double"
            decide("graph", sc)

    # cross-checks of the trusted pieces (recorded as correspondence, never as violations)
    if m is not None and spec_reqs:
        for o, (exp, inp) in zip(m.batch(spec_reqs), spec_expect):
            ctx.corr("spec-vs-oracle", inp, o.strip() == "1", exp)
    if m is not None and ev_reqs:
        for o, meta in zip(m.batch(ev_reqs), ev_meta):
            ctx.corr("eval-vs-z3model", meta, o.strip(), "1 1")


def replay(ctx, rp):
    from cspuz import Solver
    from cspuz.graph import _division_connected, division_connected
    print(rp)
    v = rp.get("violation", {}).get("detail", {})
    if v.get("scenario") and "labels" in v:
        sc = v["scenario"]
        s, dvars = post_scenario(sc)
        obs = Session(s).check(list(zip(dvars, v["labels"])))
        exp = oracle(sc["n"], [tuple(e) for e in sc["edges"]], sc["R"], v["labels"], oracle_roots(sc), sc["aeg"])
        print("posted program satisfiable:", obs, " specification:", exp)
        return 1 if obs != exp else 0
    if v.get("scenario"):
        r = vlib.guarded(post_scenario, v["scenario"])
        print("call on a well-formed input:", r[0], r[1] if r[0] == "err" else "")
        return 1 if r[0] == "err" else 0
    if not v or "labels" not in v:
        return 0
    R, aeg, prim = v["num_regions"], v["allow_empty_group"], v["use_graph_primitive"]
    lab = v["labels"]
    s = Solver()
    if v.get("call") == "grid":
        h, w = v["shape"]
        d = s.int_array((h, w), 0, R - 1)
        roots = None if v["roots"] is None else [None if a is None else tuple(a) for a in v["roots"]]
        with cfg_primitive(prim):
            division_connected(s, d, R, roots=roots, allow_empty_group=aeg)
        n, es, dv = h * w, graphcap.grid_edges(h, w), list(d.data)
        ro = None if roots is None else [None if a is None else a[0] * w + a[1] for a in roots]
    else:
        n, es = v["graph"]["n"], [tuple(e) for e in v["graph"]["edges"]]
        d = s.int_array(n, 0, R - 1)
        roots = v.get("roots")
        _division_connected(s, d if v.get("division_kind") == "A" else list(d), R, graphcap.mk_graph(n, es),
                            roots=roots, allow_empty_group=aeg, use_graph_primitive=prim)
        dv, ro = list(d), resolve_roots(roots, n)
    obs = Session(s).check(list(zip(dv, lab)))
    exp = oracle(n, es, R, lab, ro, aeg)
    print("posted program satisfiable:", obs, " specification:", exp)
    return 1 if obs != exp else 0
