(* C11 Tier 1 - composition with property C04, acyclic = True, for a solver that declares a boolean grid, calls
   graph.active_vertices_connected(solver, grid, acyclic=True) (auxiliary-variable encoding, model
   Graph/Avc.v::post_avc on the grid graph with acyclic = true: n ranks and n root flags, ids n .. 3n-1) and
   afterwards declares FURTHER variables [more] (ids from 3n) and posts constraints [extra] over the grid variables
   and the later ones (cspuz/puzzle/nurimaze.py).  The acyclic counterpart of Puzzle/ViewCompose.v:
     tcompose_model    : an assignment is a model of the final state exactly when the ranks are in range, the
                         certificate checker of C04 accepts, the later variables are in their domains and the
                         later constraints hold
     tcompose_sound    : ... and then the grid pattern induces a tree (or is empty)
     tcompose_complete : for a tree pattern the variables n .. 3n-1 of any assignment can be overwritten
                         (ViewCompose.splice_avc: every other variable keeps its value) so that the first two hold
   Uses C04's closed theorems avc_eval / avc_cert (cert_sound, cert_complete). *)
From Coq Require Import ZArith List Bool Arith Lia.
From Cspuz Require Import Lib.PyErr Core.Expr Core.Program Graph.GraphModel Graph.ReachProofs
     Graph.Avc Graph.AvcCert Graph.AvcSem Graph.AvcProofs
     Puzzle.PuzzleBase Puzzle.SatAbs Puzzle.ModelBase Puzzle.ModelLemmas Puzzle.CreekProofs Puzzle.ViewCompose.
Import ListNotations.
Local Open Scope nat_scope.

(* the certificate checker looks at its three functions on the vertices of the graph only *)
Lemma cert_avc_ext_below_gen g acyclic act1 act2 rank1 rank2 root1 root2 :
  wf_graph g = true ->
  (forall v, v < nv g -> act1 v = act2 v) -> (forall v, v < nv g -> rank1 v = rank2 v) ->
  (forall v, v < nv g -> root1 v = root2 v) ->
  cert_avc g acyclic act1 rank1 root1 = cert_avc g acyclic act2 rank2 root2.
Proof.
  intros Hwf Ha Hr Ho. unfold cert_avc. f_equal.
  - apply ModelLemmas.forallb_ext_in. intros i Hi. apply in_seq in Hi.
    assert (Hl : lower_cnt g act1 rank1 i = lower_cnt g act2 rank2 i).
    { unfold lower_cnt. f_equal. apply map_ext_in. intros [j k] Hjk.
      destruct (incident_lt g i j k Hwf Hjk) as [_ Hj]. cbn [fst].
      rewrite (Hr j), (Ha j), (Hr i) by lia. reflexivity. }
    unfold vertex_ok. rewrite (Ha i), (Ho i), Hl by lia. f_equal.
    destruct acyclic; [|reflexivity].
    apply ModelLemmas.forallb_ext_in. intros [j k] Hjk. apply filter_In in Hjk. destruct Hjk as [Hjk _].
    destruct (incident_lt g i j k Hwf Hjk) as [_ Hj]. cbn [fst]. rewrite (Hr j), (Hr i) by lia. reflexivity.
  - f_equal. f_equal. apply map_ext_in. intros j Hj. apply in_seq in Hj. rewrite (Ho j) by lia. reflexivity.
Qed.

Section TCompose.
  Variables h w : nat.
  Notation n := (h * w).
  Notation acts := (map BVar (seq 0 (h * w))).
  Notation g := (grid_graph h w).
  Variables (st0 st1 st : state) (more : list vdecl) (extra : list expr).
  Hypothesis Hv0 : vars st0 = repeat DBool n.
  Hypothesis Hc0 : Program.cons st0 = [].
  Hypothesis Hp : post_avc st0 acts g true false = Ok st1.
  Hypothesis Hvars : vars st = vars st1 ++ more.
  Hypothesis Hcons : Program.cons st = Program.cons st1 ++ extra.

  Definition tranks_ok (en : env) : Prop := forall j, j < n -> (0 <= ei en (n + j) <= Z.of_nat n - 1)%Z.
  Definition tcert_ok (en : env) : Prop :=
    cert_avc g true (pattern en acts) (fun j => ei en (n + j)) (fun j => eb en (n + n + j)) = true.

  Lemma tcompose_nonempty : 1 <= n.
  Proof. exact (post_avc_nonempty _ _ _ _ _ Hp). Qed.

  Lemma tcompose_vars : vars st1 = repeat DBool n ++ repeat (DInt 0 (Z.of_nat n - 1)) n ++ repeat DBool n.
  Proof. destruct (AvcSem.avc_eval _ _ _ _ _ Hp) as [Hv _]. rewrite Hv, Hv0. reflexivity. Qed.

  Lemma tcompose_next : next_id st1 = 3 * n.
  Proof. unfold next_id. rewrite tcompose_vars, !app_length, !repeat_length. lia. Qed.

  Lemma tcompose_model en :
    model_of gsem_avc en st <->
    (tranks_ok en /\ tcert_ok en /\ in_bounds_from en (3 * n) more = true /\
     forallb (holds gsem_avc en) extra = true).
  Proof.
    destruct (AvcSem.avc_eval _ _ _ _ _ Hp) as [Hv [_ [cs [Hc Hev]]]].
    assert (Hn0 : next_id st0 = n) by (unfold next_id; rewrite Hv0; apply repeat_length).
    change (nv g) with n in *. rewrite Hn0 in Hev.
    unfold model_of, in_bounds, satisfies. rewrite Hvars, Hcons, Hv, Hc, Hc0, Hv0. cbn [app].
    rewrite !in_bounds_from_app, !forallb_app, !in_bounds_from_bools. cbn [andb].
    rewrite !app_length, !repeat_length. cbn [Nat.add].
    replace (n + (n + n)) with (3 * n) by lia.
    rewrite (Hev en (acts_def n en)). rewrite !andb_true_iff, in_bounds_from_ints.
    unfold tranks_ok, tcert_ok. tauto.
  Qed.

  Lemma tpattern_low en v : v < n -> pattern en acts v = eb en v.
  Proof. intros H. rewrite pattern_acts. destruct (Nat.ltb_spec v n); [reflexivity|lia]. Qed.

  (* a model makes the grid pattern a tree *)
  Lemma tcompose_sound en : tranks_ok en -> tcert_ok en -> tree g (pattern en acts).
  Proof.
    intros Hr Hce.
    apply (cert_sound g true (pattern en acts) (fun j => ei en (n + j)) (fun j => eb en (n + n + j)) (grid_wf h w));
      [|exact Hce].
    intros j Hj. apply Hr. exact Hj.
  Qed.

  (* a tree pattern can be certified without touching any other variable *)
  Lemma tcompose_complete en0 :
    tree g (pattern en0 acts) ->
    exists rank root, let en := splice_avc n en0 rank root in tranks_ok en /\ tcert_ok en.
  Proof.
    intros Hcn.
    destruct (cert_complete g true (pattern en0 acts) (grid_wf h w) tcompose_nonempty Hcn) as [Hr Hce].
    exists (avc_rank g (pattern en0 acts)), (avc_root g (pattern en0 acts)). cbv zeta. split.
    - intros j Hj. rewrite splice_rank by exact Hj. apply Hr. exact Hj.
    - unfold tcert_ok. etransitivity; [|exact Hce]. apply cert_avc_ext_below_gen; [apply grid_wf| | |]; change (nv g) with n; intros v Hv.
      + rewrite !tpattern_low by exact Hv. apply splice_eb_low. exact Hv.
      + apply splice_rank. exact Hv.
      + apply splice_root. exact Hv.
  Qed.
End TCompose.
