(* C11: the program of solve_simpleloop is well formed on every board; composition with C02 (solve_reports). *)
From Coq Require Import ZArith List Bool Arith Lia.
From Cspuz Require Import Lib.PyErr Core.Expr Core.Program Graph.GraphModel Graph.Cycle
     Backend.Z3 Backend.Z3Oracle Backend.Z3SolveProofs Backend.SolveLoop Backend.SolveZ3Proofs
     Puzzle.PuzzleBase Puzzle.ModelBase Puzzle.ModelLemmas Puzzle.SatAbs Puzzle.SolveCompose Puzzle.WfLemmas
     Puzzle.CycleFrameBase Puzzle.CycleCompose Puzzle.Rules_simpleloop Puzzle.Simpleloop Puzzle.SimpleloopProofs.
Import ListNotations.
Local Open Scope nat_scope.

Section S.
  (* h, w: dimensions of the frame (height - 1, width - 1); the frame variables, then is_passed *)
  Variables h w : nat.
  Let N := frame_n h w + S h * S w.
  Let vs := repeat DBool N.

  Lemma ok_sl_passed k : k < S h * S w -> ok vs true (nth k (frame_passed h w) PyNone) = true.
  Proof. intros Hk. rewrite sl_nth_passed by exact Hk. apply ok_bvar_repeat. unfold N. lia. Qed.

  Lemma sl_cells_ok blocked pyz pxz :
    forallb (ok vs true) (flat_map (sl_cell (S w) (S w) (frame_passed h w) blocked pyz pxz) (cells (S h) (S w))) = true.
  Proof.
    rewrite forallb_flat_map. apply forallb_cells. intros y x Hy Hx. unfold sl_cell.
    destruct (sl_is_pivot _ _ _); [reflexivity|]. cbn [forallb]. rewrite ok_iff, ok_pybool, !andb_true_r.
    apply ok_sl_passed. apply cidx_lt; assumption.
  Qed.
End S.

Lemma sl_index_lt size k r : sl_index size k = Some r -> r < size.
Proof.
  unfold sl_index. set (p := if (k <? 0)%Z then _ else _).
  destruct (_ && _)%bool eqn:E; [|discriminate]. intros H. inversion H; subst r.
  apply andb_true_iff in E. destruct E as [E1 E2]. apply Z.leb_le in E1. apply Z.ltb_lt in E2. lia.
Qed.

Lemma simpleloop_model_shape pb st : solve_simpleloop_model pb = Ok st ->
  (wf_state st /\ wf_keys st) /\
  1 <= dim pb 0 /\ 1 <= dim pb 1 /\
  exists r, keys st = repeat true (frame_n (dim pb 0 - 1) (dim pb 1 - 1)) ++ r.
Proof.
  unfold solve_simpleloop_model. cbv zeta.
  assert (D0 : dim pb 0 = Z.to_nat (getz (sec pb 0) 0)) by reflexivity.
  assert (D1 : dim pb 1 = Z.to_nat (getz (sec pb 0) 1)) by reflexivity.
  destruct (_ && _)%bool; [discriminate|].
  destruct (_ || _)%bool eqn:Eg; [discriminate|].
  apply orb_false_iff in Eg. destruct Eg as [G0 G1]. apply Z.leb_gt in G0, G1.
  destruct (dim pb 0) as [|h] eqn:Eh; [lia|]. destruct (dim pb 1) as [|w] eqn:Ew; [lia|].
  replace (S h - 1) with h by lia. replace (S w - 1) with w by lia.
  destruct (frame_cycle_ok h w) as [st1 [rest [Hc _]]]. rewrite Hc.
  destruct (Nat.ltb _ _); [discriminate|].
  destruct (sl_index (S h) _) as [ry|] eqn:Ey; [|discriminate].
  destruct (sl_index (S w) _) as [rx|] eqn:Ex; [|discriminate].
  apply sl_index_lt in Ey. apply sl_index_lt in Ex.
  intros H. inversion H; subst st; clear H.
  destruct (frame_cycle_wf _ _ _ _ Hc) as [WK [_ [[r Hk] Hv]]].
  split; [|split; [lia|split; [lia|exists r; exact Hk]]].
  eapply wf_ensure_prefix; [exact WK|rewrite Hv, app_assoc, <- repeat_app; reflexivity|].
  rewrite forallb_app. apply andb_true_intro. split; [apply sl_cells_ok|].
  cbn [forallb]. rewrite ok_iff, ok_pybool, !andb_true_r. apply ok_sl_passed. nia.
Qed.

Lemma simpleloop_model_wf pb st : solve_simpleloop_model pb = Ok st -> wf_state st /\ wf_keys st.
Proof. intros H. exact (proj1 (simpleloop_model_shape pb st H)). Qed.

Theorem simpleloop_solve_reports : forall oracle, oracle_sound_on oracle -> oracle_complete_on oracle ->
  forall h w py px blocked st,
  solve_simpleloop_model [[Z.of_nat h; Z.of_nat w; Z.of_nat py; Z.of_nat px]; blocked] = Ok st ->
  solve_reports oracle st (seq 0 (h * (w - 1) + (h - 1) * w))
    (rules_simpleloop [[Z.of_nat h; Z.of_nat w; Z.of_nat py; Z.of_nat px]; blocked]).
Proof.
  intros oracle Os Oc h w py px blocked st Hst.
  apply (solve_reports_intro oracle no_graph); try assumption.
  - exact (simpleloop_model_wf _ _ Hst).
  - destruct (simpleloop_model_shape _ _ Hst) as [_ [Hh [Hw [r Hk]]]].
    destruct (sl_dims h w py px [blocked]) as [E0 [E1 _]]. rewrite E0 in Hh, Hk. rewrite E1 in Hw, Hk.
    rewrite Hk.
    replace (h * (w - 1) + (h - 1) * w) with (frame_n (h - 1) (w - 1))
      by (unfold frame_n; replace (S (h - 1)) with h by lia; replace (S (w - 1)) with w by lia; reflexivity).
    intros i. apply keys_prefix.
  - intros ans. exact (simpleloop_exact h w py px blocked st ans Hst).
Qed.
