(* C11: the program of solve_yinyang is well formed on every board; composition with C02 (solve_reports). *)
From Coq Require Import ZArith List Bool Arith Lia.
From Cspuz Require Import Lib.PyErr Core.Expr Core.Program Graph.GraphModel Graph.CycleLemmas Graph.Avc
     Backend.Z3 Backend.Z3Oracle Backend.Z3SolveProofs Backend.SolveLoop Backend.SolveZ3Proofs
     Puzzle.PuzzleBase Puzzle.ModelBase Puzzle.ModelLemmas Puzzle.SatAbs Puzzle.SolveCompose Puzzle.WfLemmas
     Graph.AvcProofs Puzzle.AvcCompose Puzzle.Rules_yinyang Puzzle.Yinyang Puzzle.YinyangProofs.
Import ListNotations.
Local Open Scope nat_scope.

Section Y.
  Variables h w : nat.
  Hypothesis Hh : 1 <= h.
  Hypothesis Hw : 1 <= w.
  Let vs := repeat DBool (h * w).

  Lemma ok_yy_v y x : y < h -> x < w -> ok vs true (yy_v w (y, x)) = true.
  Proof. intros Hy Hx. unfold yy_v. apply ok_cell; assumption. Qed.
  Lemma ok_yy_nv y x : y < h -> x < w -> ok vs true (yy_nv w (y, x)) = true.
  Proof. intros Hy Hx. unfold yy_nv. rewrite ok_not. apply ok_yy_v; assumption. Qed.

  Lemma ok_yy_or4 a b c d : ok vs true a = true -> ok vs true b = true -> ok vs true c = true -> ok vs true d = true ->
    ok vs true (yy_or4 a b c d) = true.
  Proof. intros Ha Hb Hc Hd. unfold yy_or4. autorewrite with okdb. rewrite Ha, Hb, Hc, Hd. reflexivity. Qed.
  Lemma ok_yy_nand4 a b c d : ok vs true a = true -> ok vs true b = true -> ok vs true c = true -> ok vs true d = true ->
    ok vs true (yy_nand4 a b c d) = true.
  Proof. intros Ha Hb Hc Hd. unfold yy_nand4. autorewrite with okdb. rewrite Ha, Hb, Hc, Hd. reflexivity. Qed.

  Lemma yy_circ_in c : In c (yy_circ h w) -> fst c < h /\ snd c < w.
  Proof.
    unfold yy_circ. intros H.
    repeat (apply in_app_or in H; destruct H as [H|H]);
      apply in_map_iff in H; destruct H as [v [<- Hv]]; rewrite <- ?in_rev in Hv; apply in_seq in Hv; simpl; lia.
  Qed.

  Lemma yy_cyc_pairs_in {A} (l : list A) p : In p (yy_cyc_pairs l) -> In (fst p) l /\ In (snd p) l.
  Proof.
    destruct l as [|a r]; [intros []|]. unfold yy_cyc_pairs. destruct p as [p q]. intros H. split.
    - exact (in_combine_l _ _ _ _ H).
    - apply in_combine_r in H. apply in_app_or in H. destruct H as [H|[<-|[]]]; [right; exact H|left; reflexivity].
  Qed.

  Lemma ok_yy_count_true es : (forall e, In e es -> ok vs true e = true) -> ok vs false (yy_count_true es) = true.
  Proof.
    intros H. unfold yy_count_true. destruct es as [|e r] eqn:E; [reflexivity|]. rewrite <- E in *.
    rewrite ok_add_map by (subst; discriminate). apply forallb_In. intros x Hx. rewrite ok_cond. apply H. exact Hx.
  Qed.

  Lemma ok_yy_border : ok vs true (yy_border h w) = true.
  Proof.
    unfold yy_border. rewrite ok_le, ok_pyint, andb_true_r. apply ok_yy_count_true.
    intros e He. apply in_map_iff in He. destruct He as [[[y1 x1] [y2 x2]] [<- Hp]].
    apply yy_cyc_pairs_in in Hp. destruct Hp as [H1 H2]. apply yy_circ_in in H1, H2. cbn [fst snd] in *.
    rewrite ok_xor, !ok_yy_v by lia. reflexivity.
  Qed.

  Lemma yinyang_constraints_ok grid : forallb (ok vs true) (yinyang_constraints h w grid) = true.
  Proof.
    unfold yinyang_constraints. rewrite !forallb_app, !forallb_map, forallb_flat_map.
    change (forallb (ok vs true) [yy_border h w]) with (ok vs true (yy_border h w) && true).
    rewrite ok_yy_border. cbn [andb].
    repeat (apply andb_true_intro; split).
    - apply forallb_cells. intros y x Hy Hx. apply ok_yy_or4; apply ok_yy_v; lia.
    - apply forallb_cells. intros y x Hy Hx. apply ok_yy_nand4; apply ok_yy_v; lia.
    - apply forallb_cells. intros y x Hy Hx. apply ok_yy_nand4; first [apply ok_yy_v | apply ok_yy_nv]; lia.
    - apply forallb_cells. intros y x Hy Hx. apply ok_yy_nand4; first [apply ok_yy_v | apply ok_yy_nv]; lia.
    - apply forallb_cells. intros y x Hy Hx. unfold yy_clue. cbn [fst snd].
      destruct (_ =? 1)%Z; [cbn [forallb]; rewrite ok_yy_nv by assumption; reflexivity|].
      destruct (_ =? 2)%Z; [cbn [forallb]; rewrite ok_yy_v by assumption; reflexivity|reflexivity].
  Qed.
End Y.

Lemma yinyang_model_shape pb st : solve_yinyang_model pb = Ok st ->
  (wf_state st /\ wf_keys st) /\ exists r, keys st = repeat true (dim pb 0 * dim pb 1) ++ r.
Proof.
  unfold solve_yinyang_model. cbv zeta. set (h := dim pb 0). set (w := dim pb 1).
  destruct (post_avc (bool_grid_state (h * w) []) _ _ false false) as [st1|] eqn:E1; [|discriminate].
  destruct (post_avc st1 _ _ false false) as [st2|] eqn:E2; [|discriminate].
  destruct (Nat.ltb _ _); [discriminate|].
  intros H. inversion H; subst st; clear H.
  pose proof (post_avc_nonempty _ _ _ _ _ E1) as Hn. change (nv (grid_graph h w)) with (h * w) in Hn.
  destruct (post_avc_wf _ _ _ _ _ E1) as [[W1 K1] [V1 Ky1]].
  { reflexivity. } { unfold wf_keys; simpl. rewrite !repeat_length. reflexivity. }
  { simpl. apply ok_grid_vars. }
  destruct (post_avc_wf _ _ _ _ _ E2 W1 K1) as [WK2 [V2 Ky2]].
  { rewrite V1. apply forallb_ok_more. simpl. rewrite forallb_map. apply forallb_seq. intros i Hi.
    rewrite ok_not. apply ok_bvar_repeat. lia. }
  split.
  - eapply wf_ensure_prefix; [exact WK2| |apply yinyang_constraints_ok; nia].
    rewrite V2, V1. simpl vars. rewrite <- app_assoc. reflexivity.
  - eexists. simpl. rewrite Ky2, Ky1. simpl keys. rewrite <- app_assoc. reflexivity.
Qed.

Lemma yinyang_model_wf pb st : solve_yinyang_model pb = Ok st -> wf_state st /\ wf_keys st.
Proof. intros H. exact (proj1 (yinyang_model_shape pb st H)). Qed.

Theorem yinyang_solve_reports : forall oracle, oracle_sound_on oracle -> oracle_complete_on oracle ->
  forall h w grid st,
  solve_yinyang_model [[Z.of_nat h; Z.of_nat w]; grid] = Ok st ->
  solve_reports oracle st (seq 0 (h * w)) (rules_yinyang [[Z.of_nat h; Z.of_nat w]; grid]).
Proof.
  intros oracle Os Oc h w grid st Hst.
  apply (solve_reports_intro oracle gsem_avc); try assumption.
  - exact (yinyang_model_wf _ _ Hst).
  - destruct (yinyang_model_shape _ _ Hst) as [_ [r Hk]]. rewrite dim2_0, dim2_1 in Hk. rewrite Hk.
    intros i. apply keys_prefix.
  - intros ans. exact (yinyang_exact h w grid st ans Hst).
Qed.
