Require Extraction.
Require Import ExtrOcamlBasic.
From Coq Require Import ZArith List.
Require Import Cspuz.Graph.Cycle Cspuz.Graph.GraphModel Cspuz.Core.Build Cspuz.Core.Program Cspuz.Core.Expr Cspuz.Lib.PyErr .
Extraction "model.ml" Z.add Nat.add pyerr_code post_cycle post_path
  active_edges_single_cycle active_edges_single_path
  single_cycle_b single_path_b visited run_program line_graph from_grid_frame.
