(* C01, part 1: every well-typed tree converts (no exception, no None), and the
   z3 meaning of the result equals the ordinary meaning of the tree under every
   assignment.  The proof goes operator by operator through the table generated
   from cspuz/backend/z3.py (Gen/Z3Table.v): an edited branch changes the term
   the per-operator lemma has to match. *)
From Coq Require Import ZArith List Bool Lia.
From Cspuz Require Import Lib.PyErr Core.Expr Core.Program Backend.Z3Call Gen.Z3Table Backend.Z3 Backend.ExprFacts.
Import ListNotations.
Open Scope Z_scope.

Lemma mapR_mapM {A B} (f : A -> res B) l : mapR f l = mapM f l.
Proof. induction l; simpl; [reflexivity|rewrite IHl; reflexivity]. Qed.

(* the bounds Z3Backend.solve posts are what z3py builds from the two comparisons *)
Lemma bounds_as_posted i lo hi :
  py_bin PLe (PyI lo) (ZT (ZIntConst i)) = Ok (ZT (ZGe (ZIntConst i) (ZIntVal lo))) /\
  py_bin PLe (ZT (ZIntConst i)) (PyI hi) = Ok (ZT (ZLe (ZIntConst i) (ZIntVal hi))).
Proof. split; reflexivity. Qed.

(* ---- shape of a conversion result for a tree of a given type ------------- *)
Definition lit_kind (b : bool) (r : zres) : Prop :=
  match r with PyB _ => b = true | PyI _ => b = false | PyN => False | ZT _ => True end.

Definition denotes (e : expr) (r : zres) : Prop :=
  forall en, zres_eval en r = eval no_graph en e.

Lemma mapR_Forall2 {A B} (f : A -> res B) (Q : A -> B -> Prop) l :
  (forall a, In a l -> exists r, f a = Ok r /\ Q a r) ->
  exists rs, mapR f l = Ok rs /\ Forall2 Q l rs.
Proof.
  induction l as [|a l IH]; intros H.
  - exists []; split; [reflexivity|constructor].
  - destruct (H a (or_introl eq_refl)) as [r [E q]].
    destruct IH as [rs [Es F]]; [intros x Hx; apply H; right; exact Hx|].
    exists (r :: rs); simpl; rewrite E; simpl; rewrite Es; simpl; split; [reflexivity|constructor; assumption].
Qed.

(* ---- Python / z3py binary operators on integer-valued operands ----------- *)
Definition pybin_is_bool (b : pybin) : bool :=
  match b with PAdd | PSub => false | _ => true end.
Definition pybin_sem (b : pybin) (x y : Z) : value :=
  match b with
  | PAdd => VI (x + y) | PSub => VI (x - y)
  | PEq => VB (x =? y) | PNe => VB (negb (x =? y))
  | PLe => VB (x <=? y) | PLt => VB (x <? y) | PGe => VB (y <=? x) | PGt => VB (y <? x)
  end.

Ltac fin :=
  simpl; repeat rewrite ?orb_false_r, ?andb_true_r; try reflexivity;
  try (rewrite Z.eqb_sym; reflexivity).

Lemma py_bin_ints b ra rc :
  lit_kind false ra -> lit_kind false rc ->
  exists r, py_bin b ra rc = Ok r /\ lit_kind (pybin_is_bool b) r /\
    forall en x y, zres_eval en ra = Some (VI x) -> zres_eval en rc = Some (VI y) ->
                   zres_eval en r = Some (pybin_sem b x y).
Proof.
  intros Ka Kc.
  destruct ra as [?|a| |ta]; simpl in Ka; try discriminate; try contradiction;
  destruct rc as [?|c| |tc]; simpl in Kc; try discriminate; try contradiction;
  destruct b; (eexists; split; [reflexivity|split; [try reflexivity; exact I|]]);
  intros en x y H1 H2; simpl in H1, H2;
  try (injection H1 as <-); try (injection H2 as <-); simpl; rewrite ?H1, ?H2; fin.
Qed.

Lemma py_bin_bools_eq ra rc :
  lit_kind true ra -> lit_kind true rc ->
  exists r, py_bin PEq ra rc = Ok r /\ lit_kind true r /\
    forall en x y, zres_eval en ra = Some (VB x) -> zres_eval en rc = Some (VB y) ->
                   zres_eval en r = Some (VB (Bool.eqb x y)).
Proof.
  intros Ka Kc.
  destruct ra as [a|?| |ta]; simpl in Ka; try discriminate; try contradiction;
  destruct rc as [c|?| |tc]; simpl in Kc; try discriminate; try contradiction;
  (eexists; split; [reflexivity|split; [try reflexivity; exact I|]]);
  intros en x y H1 H2; simpl in H1, H2;
  try (injection H1 as <-); try (injection H2 as <-); simpl; rewrite ?H1, ?H2; simpl;
  try reflexivity.
  - destruct a, c; reflexivity.
  - destruct y, a; reflexivity.
Qed.

Lemma py_neg_int ra :
  lit_kind false ra ->
  exists r, py_neg ra = Ok r /\ lit_kind false r /\
    forall en x, zres_eval en ra = Some (VI x) -> zres_eval en r = Some (VI (- x)).
Proof.
  intros Ka. destruct ra as [?|a| |ta]; simpl in Ka; try discriminate; try contradiction;
  (eexists; split; [reflexivity|split; [try reflexivity; exact I|]]);
  intros en x H1; simpl in *; try (injection H1 as <-); rewrite ?H1; reflexivity.
Qed.

(* ---- lifting operands into z3 -------------------------------------------- *)
Lemma lift_ok b r : lit_kind b r -> exists t, lift r = Ok t /\ forall en, zeval en t = zres_eval en r.
Proof.
  destruct r; simpl; intros K; try contradiction; eexists; split; try reflexivity; intros; reflexivity.
Qed.

Lemma mapM_lift_ok b rs :
  Forall (lit_kind b) rs ->
  exists ts, mapM lift rs = Ok ts /\ forall en, map (zeval en) ts = map (zres_eval en) rs.
Proof.
  induction 1 as [|r rs K _ [ts [E H]]].
  - exists []; split; [reflexivity|intros; reflexivity].
  - destruct (lift_ok _ _ K) as [t [Et Ht]].
    exists (t :: ts); simpl; rewrite Et; simpl; rewrite E; simpl; split; [reflexivity|].
    intros en; rewrite Ht, H; reflexivity.
Qed.

(* ---- the n-ary loops ------------------------------------------------------ *)
Lemma fold_left_add xs : forall x0, fold_left Z.add xs x0 = x0 + zsum xs.
Proof. induction xs as [|x xs IH]; intros x0; simpl; [lia|rewrite IH; unfold zsum; simpl; lia]. Qed.
Lemma fold_left_sub xs : forall x0, fold_left Z.sub xs x0 = x0 - zsum xs.
Proof. induction xs as [|x xs IH]; intros x0; simpl; [lia|rewrite IH; unfold zsum; simpl; lia]. Qed.

Lemma foldl_ints (b : pybin) (op : Z -> Z -> Z) :
  (forall x y, pybin_sem b x y = VI (op x y)) -> pybin_is_bool b = false ->
  forall rest r0, lit_kind false r0 -> Forall (lit_kind false) rest ->
  exists r, foldl_res (py_bin b) r0 rest = Ok r /\ lit_kind false r /\
    forall en x0 xs, zres_eval en r0 = Some (VI x0) ->
      map (zres_eval en) rest = map Some (map VI xs) ->
      zres_eval en r = Some (VI (fold_left op xs x0)).
Proof.
  intros Hsem Hk. induction rest as [|r1 rest IH]; intros r0 K0 KR.
  - exists r0; split; [reflexivity|split; [assumption|]].
    intros en x0 xs H0 Hm. destruct xs; simpl in Hm; try discriminate. simpl; exact H0.
  - inversion KR as [|? ? K1 KR']; subst.
    destruct (py_bin_ints b r0 r1 K0 K1) as [r01 [E [K01 S01]]]. rewrite Hk in K01.
    destruct (IH r01 K01 KR') as [r [Er [Kr Sr]]].
    exists r; simpl; rewrite E; split; [exact Er|split; [exact Kr|]].
    intros en x0 xs H0 Hm. destruct xs as [|x1 xs]; simpl in Hm; try discriminate.
    injection Hm as H1 Hm. simpl. apply Sr; [|exact Hm].
    rewrite (S01 en x0 x1 H0 H1), Hsem; reflexivity.
Qed.

(* ---- evaluation of operand lists ----------------------------------------- *)
Lemma denote_ints (args : list expr) rs en :
  Forall2 (fun a r => lit_kind false r /\ denotes a r) args rs ->
  forallb (wt false) args = true ->
  exists xs, map (eval no_graph en) args = map Some (map VI xs) /\
             map (zres_eval en) rs = map Some (map VI xs) /\ length xs = length args.
Proof.
  intros F W. induction F as [|a r args rs [K D] _ IH].
  - exists []; repeat split; reflexivity.
  - simpl in W; apply andb_prop in W; destruct W as [Wa W].
    destruct (IH W) as [xs [E1 [E2 L]]]. destruct (wt_eval_int a en Wa) as [x Ex].
    exists (x :: xs); simpl; rewrite E1, E2, L, (D en), Ex; repeat split; reflexivity.
Qed.

Lemma denote_bools (args : list expr) rs en :
  Forall2 (fun a r => lit_kind true r /\ denotes a r) args rs ->
  forallb (wt true) args = true ->
  exists xs, map (eval no_graph en) args = map Some (map VB xs) /\
             map (zres_eval en) rs = map Some (map VB xs) /\ length xs = length args.
Proof.
  intros F W. induction F as [|a r args rs [K D] _ IH].
  - exists []; repeat split; reflexivity.
  - simpl in W; apply andb_prop in W; destruct W as [Wa W].
    destruct (IH W) as [xs [E1 [E2 L]]]. destruct (wt_eval_bool a en Wa) as [x Ex].
    exists (x :: xs); simpl; rewrite E1, E2, L, (D en), Ex; repeat split; reflexivity.
Qed.

Lemma Forall2_kinds {b} {args : list expr} {rs} :
  Forall2 (fun a r => lit_kind b r /\ denotes a r) args rs -> Forall (lit_kind b) rs.
Proof. induction 1 as [|? ? ? ? [K _]]; constructor; assumption. Qed.

(* ---- conversion of a node ------------------------------------------------- *)
Lemma conv_bnode vs o args :
  conv vs (BNode o args) = bind (mapR (conv vs) args) (fun ops => run (z3_table o) ops).
Proof. reflexivity. Qed.
Lemma conv_inode vs o args :
  conv vs (INode o args) = bind (mapR (conv vs) args) (fun ops => run (z3_table o) ops).
Proof. reflexivity. Qed.

Local Arguments py_bin : simpl never.
Local Arguments py_neg : simpl never.
Local Arguments foldl_res : simpl never.
Local Arguments z_not : simpl never.
Local Arguments z_and : simpl never.
Local Arguments z_or : simpl never.
Local Arguments z_xor : simpl never.
Local Arguments z_if : simpl never.
Local Arguments z_distinct : simpl never.

(* integer comparison (and any binary Python operator on two integer operands) *)
Lemma bin_int_node vs (o : op) (b : pybin) a c ra rc :
  z3_table o = XBin b (XArg 0) (XArg 1) ->
  (forall x y, eval_bop no_graph o [Some (VI x); Some (VI y)] = Some (pybin_sem b x y)) ->
  mapR (conv vs) [a; c] = Ok [ra; rc] ->
  lit_kind false ra -> lit_kind false rc -> denotes a ra -> denotes c rc ->
  wt false a = true -> wt false c = true ->
  exists r, conv vs (BNode o [a; c]) = Ok r /\ lit_kind (pybin_is_bool b) r /\ denotes (BNode o [a; c]) r.
Proof.
  intros T Hev E Ka Kc Da Dc Wa Wc.
  destruct (py_bin_ints b ra rc Ka Kc) as [r [Er [Kr Sr]]].
  exists r; rewrite conv_bnode, E, T; simpl; rewrite Er; split; [reflexivity|split; [exact Kr|]].
  intros en. destruct (wt_eval_int a en Wa) as [x Ex]; destruct (wt_eval_int c en Wc) as [y Ey].
  rewrite (Sr en x y); [|rewrite (Da en); exact Ex|rewrite (Dc en); exact Ey].
  simpl; rewrite Ex, Ey; symmetry; apply Hev.
Qed.

Lemma iff_node vs a c ra rc :
  z3_table IFF = XBin PEq (XArg 0) (XArg 1) ->
  mapR (conv vs) [a; c] = Ok [ra; rc] ->
  lit_kind true ra -> lit_kind true rc -> denotes a ra -> denotes c rc ->
  wt true a = true -> wt true c = true ->
  exists r, conv vs (BNode IFF [a; c]) = Ok r /\ lit_kind true r /\ denotes (BNode IFF [a; c]) r.
Proof.
  intros T E Ka Kc Da Dc Wa Wc.
  destruct (py_bin_bools_eq ra rc Ka Kc) as [r [Er [Kr Sr]]].
  exists r; rewrite conv_bnode, E, T; simpl; rewrite Er; split; [reflexivity|split; [exact Kr|]].
  intros en. destruct (wt_eval_bool a en Wa) as [x Ex]; destruct (wt_eval_bool c en Wc) as [y Ey].
  rewrite (Sr en x y); [|rewrite (Da en); exact Ex|rewrite (Dc en); exact Ey].
  simpl; rewrite Ex, Ey; reflexivity.
Qed.

Lemma xor_node vs a c ra rc :
  z3_table XOR = XXor (XArg 0) (XArg 1) ->
  mapR (conv vs) [a; c] = Ok [ra; rc] ->
  lit_kind true ra -> lit_kind true rc -> denotes a ra -> denotes c rc ->
  wt true a = true -> wt true c = true ->
  exists r, conv vs (BNode XOR [a; c]) = Ok r /\ lit_kind true r /\ denotes (BNode XOR [a; c]) r.
Proof.
  intros T E Ka Kc Da Dc Wa Wc.
  destruct (lift_ok _ _ Ka) as [ta [Ea Ha]]; destruct (lift_ok _ _ Kc) as [tc [Ec Hc]].
  exists (ZT (ZXor ta tc)); rewrite conv_bnode, E, T; simpl; unfold z_xor; rewrite Ea, Ec; simpl.
  split; [reflexivity|split; [exact I|]].
  intros en. destruct (wt_eval_bool a en Wa) as [x Ex]; destruct (wt_eval_bool c en Wc) as [y Ey].
  simpl; rewrite Ha, Hc, (Da en), (Dc en), Ex, Ey; reflexivity.
Qed.

Lemma imp_node vs a c ra rc :
  z3_table IMP = XOr2 (XNot (XArg 0)) (XArg 1) ->
  mapR (conv vs) [a; c] = Ok [ra; rc] ->
  lit_kind true ra -> lit_kind true rc -> denotes a ra -> denotes c rc ->
  wt true a = true -> wt true c = true ->
  exists r, conv vs (BNode IMP [a; c]) = Ok r /\ lit_kind true r /\ denotes (BNode IMP [a; c]) r.
Proof.
  intros T E Ka Kc Da Dc Wa Wc.
  destruct (lift_ok _ _ Ka) as [ta [Ea Ha]]; destruct (lift_ok _ _ Kc) as [tc [Ec Hc]].
  exists (ZT (ZOr [ZNot ta; tc])); rewrite conv_bnode, E, T; simpl; unfold z_not; rewrite Ea; simpl.
  unfold z_or; simpl; rewrite Ec; simpl.
  split; [reflexivity|split; [exact I|]].
  intros en. destruct (wt_eval_bool a en Wa) as [x Ex]; destruct (wt_eval_bool c en Wc) as [y Ey].
  simpl; rewrite Ha, Hc, (Da en), (Dc en), Ex, Ey; simpl. destruct x, y; reflexivity.
Qed.

Lemma not_node vs a ra :
  z3_table NOT = XNot (XArg 0) ->
  mapR (conv vs) [a] = Ok [ra] -> lit_kind true ra -> denotes a ra -> wt true a = true ->
  exists r, conv vs (BNode NOT [a]) = Ok r /\ lit_kind true r /\ denotes (BNode NOT [a]) r.
Proof.
  intros T E Ka Da Wa.
  destruct (lift_ok _ _ Ka) as [ta [Ea Ha]].
  exists (ZT (ZNot ta)); rewrite conv_bnode, E, T; simpl; unfold z_not; rewrite Ea; simpl.
  split; [reflexivity|split; [exact I|]].
  intros en. destruct (wt_eval_bool a en Wa) as [x Ex].
  simpl; rewrite Ha, (Da en), Ex; reflexivity.
Qed.

Lemma neg_node vs a ra :
  z3_table NEG = XNeg (XArg 0) ->
  mapR (conv vs) [a] = Ok [ra] -> lit_kind false ra -> denotes a ra -> wt false a = true ->
  exists r, conv vs (INode NEG [a]) = Ok r /\ lit_kind false r /\ denotes (INode NEG [a]) r.
Proof.
  intros T E Ka Da Wa.
  destruct (py_neg_int ra Ka) as [r [Er [Kr Sr]]].
  exists r; rewrite conv_inode, E, T; simpl; rewrite Er; split; [reflexivity|split; [exact Kr|]].
  intros en. destruct (wt_eval_int a en Wa) as [x Ex].
  rewrite (Sr en x); [|rewrite (Da en); exact Ex]. simpl; rewrite Ex; reflexivity.
Qed.

Lemma if_node vs c t f rc rt rf :
  z3_table IF = XIf (XArg 0) (XArg 1) (XArg 2) ->
  mapR (conv vs) [c; t; f] = Ok [rc; rt; rf] ->
  lit_kind true rc -> lit_kind false rt -> lit_kind false rf ->
  denotes c rc -> denotes t rt -> denotes f rf ->
  wt true c = true -> wt false t = true -> wt false f = true ->
  exists r, conv vs (INode IF [c; t; f]) = Ok r /\ lit_kind false r /\ denotes (INode IF [c; t; f]) r.
Proof.
  intros T E Kc Kt Kf Dc Dt Df Wc Wt Wf.
  destruct (lift_ok _ _ Kc) as [tc [Ec Hc]]; destruct (lift_ok _ _ Kt) as [tt [Et Ht]];
    destruct (lift_ok _ _ Kf) as [tf [Ef Hf]].
  exists (ZT (ZIte tc tt tf)); rewrite conv_inode, E, T; simpl; unfold z_if; rewrite Ec, Et, Ef; simpl.
  split; [reflexivity|split; [exact I|]].
  intros en. destruct (wt_eval_bool c en Wc) as [x Ex]; destruct (wt_eval_int t en Wt) as [y Ey];
    destruct (wt_eval_int f en Wf) as [z Ez].
  simpl; rewrite Hc, Ht, Hf, (Dc en), (Dt en), (Df en), Ex, Ey, Ez; reflexivity.
Qed.

(* n-ary And / Or *)
Lemma and_node vs args rs :
  z3_table AND = XAndArgs ->
  mapR (conv vs) args = Ok rs ->
  Forall2 (fun a r => lit_kind true r /\ denotes a r) args rs -> forallb (wt true) args = true ->
  exists r, conv vs (BNode AND args) = Ok r /\ lit_kind true r /\ denotes (BNode AND args) r.
Proof.
  intros T E F W.
  destruct (mapM_lift_ok true rs (Forall2_kinds F)) as [ts [Et Ht]].
  exists (ZT (ZAnd ts)); rewrite conv_bnode, E, T; simpl; unfold z_and; rewrite Et; simpl.
  split; [reflexivity|split; [exact I|]].
  intros en. destruct (denote_bools args rs en F W) as [xs [E1 [E2 _]]].
  simpl; rewrite Ht, E2, E1. unfold eval_bop; rewrite all_some_map_some; reflexivity.
Qed.

Lemma or_node vs args rs :
  z3_table OR = XOrArgs ->
  mapR (conv vs) args = Ok rs ->
  Forall2 (fun a r => lit_kind true r /\ denotes a r) args rs -> forallb (wt true) args = true ->
  exists r, conv vs (BNode OR args) = Ok r /\ lit_kind true r /\ denotes (BNode OR args) r.
Proof.
  intros T E F W.
  destruct (mapM_lift_ok true rs (Forall2_kinds F)) as [ts [Et Ht]].
  exists (ZT (ZOr ts)); rewrite conv_bnode, E, T; simpl; unfold z_or; rewrite Et; simpl.
  split; [reflexivity|split; [exact I|]].
  intros en. destruct (denote_bools args rs en F W) as [xs [E1 [E2 _]]].
  simpl; rewrite Ht, E2, E1. unfold eval_bop; rewrite all_some_map_some; reflexivity.
Qed.

(* the n-ary + / - loops *)
Lemma fold_node vs (o : op) (b : pybin) (opz : Z -> Z -> Z) args rs :
  z3_table o = XFoldL b ->
  (forall x y, pybin_sem b x y = VI (opz x y)) -> pybin_is_bool b = false ->
  (forall x xs, eval_iop o (map Some (map VI (x :: xs))) = Some (VI (fold_left opz xs x))) ->
  mapR (conv vs) args = Ok rs ->
  Forall2 (fun a r => lit_kind false r /\ denotes a r) args rs -> forallb (wt false) args = true ->
  negb (Nat.eqb (length args) 0) = true ->
  exists r, conv vs (INode o args) = Ok r /\ lit_kind false r /\ denotes (INode o args) r.
Proof.
  intros T Hsem Hk Hev E F W L.
  destruct args as [|a0 args]; [discriminate|].
  inversion F as [|? r0 ? rest [K0 D0] F']; subst.
  destruct (foldl_ints b opz Hsem Hk rest r0 K0 (Forall2_kinds F')) as [r [Er [Kr Sr]]].
  exists r; rewrite conv_inode, E, T; simpl; rewrite Er; split; [reflexivity|split; [exact Kr|]].
  intros en. destruct (denote_ints (a0 :: args) (r0 :: rest) en F W) as [xs [E1 [E2 Lx]]].
  destruct xs as [|x0 xs]; [discriminate|]. simpl in E1, E2.
  injection E2 as E20 E2r. injection E1 as E10 E1r.
  rewrite (Sr en x0 xs E20 E2r).
  simpl eval. rewrite E10, E1r. symmetry. apply (Hev x0 xs).
Qed.

Lemma all_pynum_ints rs xs en :
  forallb is_pyint rs = true -> Forall (lit_kind false) rs ->
  map (zres_eval en) rs = map Some (map VI xs) -> all_pynum rs = Some xs.
Proof.
  revert xs; induction rs as [|r rs IH]; intros xs P K Hm.
  - destruct xs; simpl in Hm; try discriminate; reflexivity.
  - destruct xs as [|x xs]; simpl in Hm; try discriminate. injection Hm as H1 Hm.
    simpl in P; apply andb_prop in P; destruct P as [P1 P]. inversion K as [|? ? K1 K']; subst.
    simpl. destruct r; simpl in K1, P1, H1; try discriminate; try contradiction.
    injection H1 as ->. rewrite (IH xs P K' Hm); reflexivity.
Qed.

Lemma not_all_py_has_zt rs :
  Forall (lit_kind false) rs -> forallb is_pyint rs = false -> existsb is_zt rs = true.
Proof.
  induction 1 as [|r rs K _ IH]; simpl; intros H; [discriminate|].
  destruct r; simpl in *; try contradiction; try discriminate; auto.
Qed.

Lemma alldiff_node vs args rs :
  z3_table ALLDIFF = XAllPyInt XPyDistinct XDistinctArgs ->
  mapR (conv vs) args = Ok rs ->
  Forall2 (fun a r => lit_kind false r /\ denotes a r) args rs -> forallb (wt false) args = true ->
  exists r, conv vs (BNode ALLDIFF args) = Ok r /\ lit_kind true r /\ denotes (BNode ALLDIFF args) r.
Proof.
  intros T E F W.
  assert (Hev : forall en xs, map (eval no_graph en) args = map Some (map VI xs) ->
                eval no_graph en (BNode ALLDIFF args) = Some (VB (distinct xs))).
  { intros en xs E1. simpl. rewrite E1. unfold eval_bop. rewrite all_some_map_some, as_ints_VI. reflexivity. }
  destruct (forallb is_pyint rs) eqn:P.
  - (* no z3 term among the operands: computed by Python *)
    destruct (denote_ints args rs {| eb := fun _ => false; ei := fun _ => 0 |} F W) as [xs0 [_ [E20 _]]].
    pose proof (all_pynum_ints rs xs0 _ P (Forall2_kinds F) E20) as AP.
    exists (PyB (distinct xs0)); rewrite conv_bnode, E, T; simpl; rewrite P; simpl; rewrite AP.
    split; [reflexivity|split; [reflexivity|]].
    intros en. destruct (denote_ints args rs en F W) as [xs [E1 [E2 _]]].
    pose proof (all_pynum_ints rs xs _ P (Forall2_kinds F) E2) as AP'. rewrite AP in AP'; injection AP' as ->.
    rewrite (Hev en xs E1); reflexivity.
  - destruct (mapM_lift_ok false rs (Forall2_kinds F)) as [ts [Et Ht]].
    exists (ZT (ZDistinct ts)); rewrite conv_bnode, E, T; simpl; rewrite P; simpl.
    unfold z_distinct; rewrite (not_all_py_has_zt rs (Forall2_kinds F) P), Et; simpl.
    split; [reflexivity|split; [exact I|]].
    intros en. destruct (denote_ints args rs en F W) as [xs [E1 [E2 _]]].
    rewrite (Hev en xs E1). simpl. rewrite Ht, E2, all_some_map_some.
    unfold vdistinct; rewrite as_ints_VI; reflexivity.
Qed.

(* ---- the conversion theorem ---------------------------------------------- *)
Lemma args_conv vs bt args :
  Forall (fun e => forall b, wt b e = true -> refs_ok vs e = true ->
                   exists r, conv vs e = Ok r /\ lit_kind b r /\ denotes e r) args ->
  forallb (wt bt) args = true -> forallb (refs_ok vs) args = true ->
  exists rs, mapR (conv vs) args = Ok rs /\ Forall2 (fun a r => lit_kind bt r /\ denotes a r) args rs.
Proof.
  intros IH W R. apply mapR_Forall2. intros a Ia.
  rewrite Forall_forall in IH. rewrite forallb_forall in W, R.
  destruct (IH a Ia bt (W a Ia) (R a Ia)) as [r [E [K D]]]. exists r; auto.
Qed.

Ltac two_args F a c ra rc Ka Da Kc Dc :=
  inversion F as [|a ra ? ? [Ka Da] F2]; subst;
  inversion F2 as [|c rc ? ? [Kc Dc] F3]; subst; inversion F3; subst.

Theorem conv_sem vs : forall e b, wt b e = true -> refs_ok vs e = true ->
  exists r, conv vs e = Ok r /\ lit_kind b r /\ denotes e r.
Proof.
  induction e as [c|z| |i|i lo hi|o args IH|o args IH] using expr_nested_ind; intros b W R; simpl in W, R.
  - subst b; exists (PyB c); repeat split.
  - destruct b; try discriminate; exists (PyI z); repeat split.
  - discriminate.
  - subst b. destruct (nth_error vs i) as [[|]|] eqn:N; try discriminate.
    exists (ZT (ZBoolConst i)); simpl; rewrite N; repeat split.
  - destruct b; try discriminate. destruct (nth_error vs i) as [[|]|] eqn:N; try discriminate.
    exists (ZT (ZIntConst i)); simpl; rewrite N; repeat split.
  - destruct b; try discriminate; simpl in W.
    destruct o; try discriminate.
    + (* BOOL_CONSTANT *)
      destruct args as [|[c| | | | | |] [|]]; try discriminate.
      exists (PyB c); repeat split.
    + (* EQ *) apply andb_prop in W; destruct W as [L W]; destruct (length2 _ L) as [a [c ->]].
      destruct (args_conv vs false _ IH W R) as [rs [E F]]. two_args F a' c' ra rc Ka Da Kc Dc.
      simpl in W; apply andb_prop in W; destruct W as [Wa W]; apply andb_prop in W; destruct W as [Wc _].
      exact (bin_int_node vs EQ PEq _ _ ra rc eq_refl (fun x y => eq_refl) E Ka Kc Da Dc Wa Wc).
    + (* NE *) apply andb_prop in W; destruct W as [L W]; destruct (length2 _ L) as [a [c ->]].
      destruct (args_conv vs false _ IH W R) as [rs [E F]]. two_args F a' c' ra rc Ka Da Kc Dc.
      simpl in W; apply andb_prop in W; destruct W as [Wa W]; apply andb_prop in W; destruct W as [Wc _].
      exact (bin_int_node vs NE PNe _ _ ra rc eq_refl (fun x y => eq_refl) E Ka Kc Da Dc Wa Wc).
    + (* LE *) apply andb_prop in W; destruct W as [L W]; destruct (length2 _ L) as [a [c ->]].
      destruct (args_conv vs false _ IH W R) as [rs [E F]]. two_args F a' c' ra rc Ka Da Kc Dc.
      simpl in W; apply andb_prop in W; destruct W as [Wa W]; apply andb_prop in W; destruct W as [Wc _].
      exact (bin_int_node vs LE PLe _ _ ra rc eq_refl (fun x y => eq_refl) E Ka Kc Da Dc Wa Wc).
    + (* LT *) apply andb_prop in W; destruct W as [L W]; destruct (length2 _ L) as [a [c ->]].
      destruct (args_conv vs false _ IH W R) as [rs [E F]]. two_args F a' c' ra rc Ka Da Kc Dc.
      simpl in W; apply andb_prop in W; destruct W as [Wa W]; apply andb_prop in W; destruct W as [Wc _].
      exact (bin_int_node vs LT PLt _ _ ra rc eq_refl (fun x y => eq_refl) E Ka Kc Da Dc Wa Wc).
    + (* GE *) apply andb_prop in W; destruct W as [L W]; destruct (length2 _ L) as [a [c ->]].
      destruct (args_conv vs false _ IH W R) as [rs [E F]]. two_args F a' c' ra rc Ka Da Kc Dc.
      simpl in W; apply andb_prop in W; destruct W as [Wa W]; apply andb_prop in W; destruct W as [Wc _].
      exact (bin_int_node vs GE PGe _ _ ra rc eq_refl (fun x y => eq_refl) E Ka Kc Da Dc Wa Wc).
    + (* GT *) apply andb_prop in W; destruct W as [L W]; destruct (length2 _ L) as [a [c ->]].
      destruct (args_conv vs false _ IH W R) as [rs [E F]]. two_args F a' c' ra rc Ka Da Kc Dc.
      simpl in W; apply andb_prop in W; destruct W as [Wa W]; apply andb_prop in W; destruct W as [Wc _].
      exact (bin_int_node vs GT PGt _ _ ra rc eq_refl (fun x y => eq_refl) E Ka Kc Da Dc Wa Wc).
    + (* NOT *) apply andb_prop in W; destruct W as [L W]; destruct (length1 _ L) as [a ->].
      destruct (args_conv vs true _ IH W R) as [rs [E F]].
      inversion F as [|a' ra ? ? [Ka Da] F2]; subst; inversion F2; subst.
      simpl in W; apply andb_prop in W; destruct W as [Wa _].
      exact (not_node vs _ ra eq_refl E Ka Da Wa).
    + (* AND *) destruct (args_conv vs true _ IH W R) as [rs [E F]].
      exact (and_node vs args rs eq_refl E F W).
    + (* OR *) destruct (args_conv vs true _ IH W R) as [rs [E F]].
      exact (or_node vs args rs eq_refl E F W).
    + (* IFF *) apply andb_prop in W; destruct W as [L W]; destruct (length2 _ L) as [a [c ->]].
      destruct (args_conv vs true _ IH W R) as [rs [E F]]. two_args F a' c' ra rc Ka Da Kc Dc.
      simpl in W; apply andb_prop in W; destruct W as [Wa W]; apply andb_prop in W; destruct W as [Wc _].
      exact (iff_node vs _ _ ra rc eq_refl E Ka Kc Da Dc Wa Wc).
    + (* XOR *) apply andb_prop in W; destruct W as [L W]; destruct (length2 _ L) as [a [c ->]].
      destruct (args_conv vs true _ IH W R) as [rs [E F]]. two_args F a' c' ra rc Ka Da Kc Dc.
      simpl in W; apply andb_prop in W; destruct W as [Wa W]; apply andb_prop in W; destruct W as [Wc _].
      exact (xor_node vs _ _ ra rc eq_refl E Ka Kc Da Dc Wa Wc).
    + (* IMP *) apply andb_prop in W; destruct W as [L W]; destruct (length2 _ L) as [a [c ->]].
      destruct (args_conv vs true _ IH W R) as [rs [E F]]. two_args F a' c' ra rc Ka Da Kc Dc.
      simpl in W; apply andb_prop in W; destruct W as [Wa W]; apply andb_prop in W; destruct W as [Wc _].
      exact (imp_node vs _ _ ra rc eq_refl E Ka Kc Da Dc Wa Wc).
    + (* ALLDIFF *) destruct (args_conv vs false _ IH W R) as [rs [E F]].
      exact (alldiff_node vs args rs eq_refl E F W).
  - destruct b; try discriminate; simpl in W.
    destruct o; try discriminate.
    + (* INT_CONSTANT *)
      destruct args as [|[c|z| | | | |] [|]]; try discriminate.
      exists (PyI z); repeat split.
    + (* NEG *) apply andb_prop in W; destruct W as [L W]; destruct (length1 _ L) as [a ->].
      destruct (args_conv vs false _ IH W R) as [rs [E F]].
      inversion F as [|a' ra ? ? [Ka Da] F2]; subst; inversion F2; subst.
      simpl in W; apply andb_prop in W; destruct W as [Wa _].
      exact (neg_node vs _ ra eq_refl E Ka Da Wa).
    + (* ADD *) apply andb_prop in W; destruct W as [L W].
      destruct (args_conv vs false _ IH W R) as [rs [E F]].
      refine (fold_node vs ADD PAdd Z.add args rs eq_refl (fun x y => eq_refl) eq_refl _ E F W L).
      intros x xs. unfold eval_iop. rewrite all_some_map_some. simpl. rewrite as_ints_VI. simpl.
      rewrite fold_left_add. reflexivity.
    + (* SUB *) apply andb_prop in W; destruct W as [L W].
      destruct (args_conv vs false _ IH W R) as [rs [E F]].
      refine (fold_node vs SUB PSub Z.sub args rs eq_refl (fun x y => eq_refl) eq_refl _ E F W L).
      intros x xs. unfold eval_iop. rewrite all_some_map_some, as_ints_VI. simpl.
      rewrite fold_left_sub. reflexivity.
    + (* IF *) destruct args as [|c [|t [|f [|]]]]; try discriminate.
      apply andb_prop in W; destruct W as [W Wf]; apply andb_prop in W; destruct W as [Wc Wt].
      simpl in R. apply andb_prop in R; destruct R as [Rc R]; apply andb_prop in R; destruct R as [Rt R];
        apply andb_prop in R; destruct R as [Rf _].
      inversion IH as [|? ? IHc IH2]; subst; inversion IH2 as [|? ? IHt IH3]; subst;
        inversion IH3 as [|? ? IHf _]; subst.
      destruct (IHc true Wc Rc) as [rc [Ec [Kc Dc]]]; destruct (IHt false Wt Rt) as [rt [Et [Kt Dt]]];
        destruct (IHf false Wf Rf) as [rf [Ef [Kf Df]]].
      refine (if_node vs c t f rc rt rf eq_refl _ Kc Kt Kf Dc Dt Df Wc Wt Wf).
      simpl; rewrite Ec; simpl; rewrite Et; simpl; rewrite Ef; reflexivity.
Qed.
