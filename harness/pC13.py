"""C13 — array indexing and slicing follow Python nested-list semantics."""
import itertools

import vlib

PROPS = "Props/C13.v"
RULE = ("correspondence: every (shape, key) case is run through cspuz's IntArray2D/BoolArray2D/IntArray1D "
        "__getitem__/flatten/reshape and through the extracted Coq model (getitem2/getitem1/reshape); "
        "search: the same keys on real Python lists of lists (axis-checked) vs the implementation, and the Coq "
        "specification spec_getitem2 vs real Python lists.  A case is non-trivial when it is a distinct "
        "(kind, shape, key) triple; keys are int indices in [-len-2, len+1], slices with bounds in "
        "[-B, B] + None and steps in [-S, S] + None (0 included), pairs of those, and coordinate lists.")
TRUSTED = [
    "CPython slice.indices / range / list indexing semantics as transcribed in Array/Slice.v (slice_indices, py_range, py_index); validated on every run against the real interpreter (kind 'spec-vs-pylist')",
    "reading of the property: an integer index on an axis raises IndexError exactly when it is out of range for that axis (also when the other axis selects nothing)",
]
ASSUMPTIONS = [
    "array elements are opaque; the model is polymorphic in the element type",
    "keys are ints / slices of ints-or-None / pairs / lists of int pairs (other key types raise TypeError in Python and are outside the model)",
]

ERR = {1: "IndexError", 2: "KeyError", 3: "AssertionError", 4: "TypeError", 5: "ValueError",
       6: "RecursionError", 7: "NotImplementedError", 8: "Other"}


def parse_reply(r):
    t = r.split()
    if t[0] == "E":
        return ("err", ERR[int(t[1])])
    if t[0] == "S":
        return ("ok", ("S", int(t[1])))
    if t[0] == "1":
        return ("ok", ("1", tuple(int(x) for x in t[1:])))
    if t[0] == "2":
        i = t.index(":")
        return ("ok", ("2", int(t[1]), int(t[2]), tuple(int(x) for x in t[i + 1:])))
    raise RuntimeError("bad model reply " + r)


def key_tok(k):
    if isinstance(k, int):
        return "i %d" % k
    f = lambda v: "_" if v is None else str(v)  # noqa
    return "s %s %s %s" % (f(k.start), f(k.stop), f(k.step))


def key2_tok(k):
    if isinstance(k, list):
        return "L " + " ".join("%d %d" % p for p in k)
    if isinstance(k, tuple):
        return "2 %s %s" % (key_tok(k[0]), key_tok(k[1]))
    return "1 " + key_tok(k)


def key_repr(k):
    if isinstance(k, tuple):
        return [key_repr(k[0]), key_repr(k[1])]
    if isinstance(k, slice):
        return "slice(%r,%r,%r)" % (k.start, k.stop, k.step)
    return k


def mk_array(h, w, kind):
    from cspuz.array import BoolArray2D, IntArray2D
    from cspuz.expr import BoolVar, IntVar
    if kind == "int":
        data = [IntVar(i, 0, 1) for i in range(h * w)]
        return IntArray2D(data, (h, w)), data
    data = [BoolVar(i) for i in range(h * w)]
    return BoolArray2D(data, (h, w)), data


def norm_impl(r, idx):
    from cspuz.array import Array1D, Array2D
    if isinstance(r, Array2D):
        return ("2", r.shape[0], r.shape[1], tuple(idx[id(e)] for e in r.data))
    if isinstance(r, Array1D):
        return ("1", tuple(idx[id(e)] for e in r.data))
    return ("S", idx[id(r)])


def impl_get(arr, idx, k):
    def f():
        r = arr[k]
        # the class of the result must follow the class of the array
        from cspuz.array import Array1D, Array2D
        if isinstance(r, (Array1D, Array2D)):
            want = type(arr).__name__.replace("2D", "")
            assert type(r).__name__.startswith(want), "result class %s" % type(r).__name__
        return norm_impl(r, idx)
    return vlib.guarded(f)


def pylist_get(h, w, k):
    """the reference: the same index on a real Python list of lists."""
    rows = [[y * w + x for x in range(w)] for y in range(h)]

    def axis_check(n, i):
        if isinstance(i, int) and not (-n <= i < n):
            raise IndexError

    def f():
        if isinstance(k, list):
            out = []
            for (y, x) in k:
                axis_check(h, y)
                axis_check(w, x)
                out.append(rows[y][x])
            return ("1", tuple(out))
        ky, kx = k if isinstance(k, tuple) else (k, slice(None))
        if isinstance(ky, slice):
            range(*ky.indices(h))
        axis_check(h, ky)
        if isinstance(kx, slice):
            range(*kx.indices(w))
        axis_check(w, kx)
        if isinstance(ky, int) and isinstance(kx, int):
            return ("S", rows[ky][kx])
        if isinstance(ky, int):
            return ("1", tuple(rows[ky][kx]))
        if isinstance(kx, int):
            return ("1", tuple(r[kx] for r in rows[ky]))
        sel = [r[kx] for r in rows[ky]]
        ww = len(range(*kx.indices(w)))
        return ("2", len(sel), ww, tuple(v for r in sel for v in r))
    return vlib.guarded(f)


def axis_keys(n, B, S, rng, cap):
    ints = list(range(-n - 2, n + 2))
    bounds = [None] + list(range(-B, B + 1))
    steps = [None] + list(range(-S, S + 1))
    sl = [slice(a, b, c) for a in bounds for b in bounds for c in steps]
    if cap and len(sl) > cap:
        sl = rng.sample(sl, cap)
    return ints, sl


def gen_cases(ctx):
    rng = ctx.rng
    if ctx.thorough:
        shapes = [(h, w) for h in range(0, 5) for w in range(0, 5)] + [(1, 6), (6, 1), (2, 7), (7, 2)]
        B, S, cap, other = 9, 4, None, 10
    else:
        shapes = [(h, w) for h in range(0, 4) for w in range(0, 4)] + [(1, 5), (5, 1), (2, 5), (3, 4)]
        B, S, cap, other = 7, 3, 500, 6
    for (h, w) in shapes:
        yi, ys = axis_keys(h, B, S, rng, cap)
        xi, xs = axis_keys(w, B, S, rng, cap)
        rep_y = yi + rng.sample(ys, min(other, len(ys))) + [slice(None), slice(None, None, -1), slice(B, None, -1), slice(None, -B - 1, -1)]
        rep_x = xi + rng.sample(xs, min(other, len(xs))) + [slice(None), slice(None, None, -1), slice(B, None, -1), slice(None, -B - 1, -1)]
        for ky in yi + ys:
            for kx in rep_x:
                yield h, w, (ky, kx)
        for kx in xs:
            for ky in rep_y:
                yield h, w, (ky, kx)
        for ky in yi + ys:
            yield h, w, ky
        for _ in range(20 if not ctx.thorough else 100):
            n = rng.randint(0, 5)
            yield h, w, [(rng.randint(-h - 1, h), rng.randint(-w - 1, w)) for _ in range(n)]


def correspond(ctx):
    m = ctx.model("C13")
    arrays = {}
    reqs, cases = [], []
    for (h, w, k) in gen_cases(ctx):
        kind = "int" if (h + w) % 2 == 0 else "bool"
        if (h, w) not in arrays:
            arr, data = mk_array(h, w, kind)
            arrays[(h, w)] = (arr, {id(e): i for i, e in enumerate(data)})
        reqs.append("G2 %d %d %s" % (h, w, key2_tok(k)))
        reqs.append("P2 %d %d %s" % (h, w, key2_tok(k)))
        cases.append((h, w, k))
    outs = m.batch(reqs)
    ctx._c13 = []
    for i, (h, w, k) in enumerate(cases):
        arr, idx = arrays[(h, w)]
        mo = parse_reply(outs[2 * i])
        so = parse_reply(outs[2 * i + 1])
        io = impl_get(arr, idx, k)
        kk = ("L", tuple(k)) if isinstance(k, list) else key_repr(k)
        ctx.corr("getitem2", (h, w, repr(kk)), mo, io)
        ctx._c13.append((h, w, k, so, io))
    # 1-D arrays, flatten, reshape
    from cspuz.array import IntArray1D, BoolArray1D
    from cspuz.expr import IntVar, BoolVar
    reqs, cases = [], []
    for n in range(0, 7 if ctx.thorough else 6):
        ints, sl = axis_keys(n, 7, 3, ctx.rng, None if ctx.thorough else 600)
        for k in ints + sl:
            reqs.append("G1 %d %s" % (n, key_tok(k)))
            cases.append((n, k))
    outs = m.batch(reqs)
    for (n, k), o in zip(cases, outs):
        data = [IntVar(i, 0, 1) for i in range(n)] if n % 2 else [BoolVar(i) for i in range(n)]
        arr = IntArray1D(data) if n % 2 else BoolArray1D(data)
        idx = {id(e): i for i, e in enumerate(data)}
        io = impl_get(arr, idx, k)
        ctx.corr("getitem1", (n, repr(key_repr(k))), parse_reply(o), io)
    reqs, cases = [], []
    for n in range(0, 13):
        for h in range(0, 5):
            for w in range(0, 5):
                reqs.append("RS %d %d %d" % (n, h, w))
                cases.append((n, h, w))
    outs = m.batch(reqs)
    for (n, h, w), o in zip(cases, outs):
        data = [IntVar(i, 0, 1) for i in range(n)]
        idx = {id(e): i for i, e in enumerate(data)}
        a1 = IntArray1D(data)
        io = vlib.guarded(lambda: norm_impl(a1.reshape((h, w)), idx))
        ctx.corr("reshape1", (n, h, w), parse_reply(o), io)
        if n == h * w:
            from cspuz.array import IntArray2D
            a2 = IntArray2D(data, (h, w))
            for (h2, w2) in [(w, h), (1, n), (n, 1), (h, w + 1)]:
                o2 = m.call("RS %d %d %d" % (n, h2, w2))
                io = vlib.guarded(lambda: norm_impl(a2.reshape((h2, w2)), idx))
                ctx.corr("reshape2", (n, h, w, h2, w2), parse_reply(o2), io)
            io = vlib.guarded(lambda: norm_impl(a2.flatten(), idx))
            ctx.corr("flatten", (h, w), ("ok", ("1", tuple(range(n)))), io)


def search(ctx):
    """the property itself: implementation vs real Python lists of lists; also the
    Coq specification vs real Python lists (validation of the trusted spec)."""
    for (h, w, k, so, io) in getattr(ctx, "_c13", []):
        po = pylist_get(h, w, k)
        kk = ("L", tuple(k)) if isinstance(k, list) else key_repr(k)
        ctx.prop_case("impl-vs-pylist", (h, w, repr(kk)))
        if so != po:
            ctx.mismatches.append({"kind": "spec-vs-pylist", "input": [h, w, repr(kk)], "model": so, "impl": po})
        if io != po:
            ctx.violation("getitem:%dx%d:%r" % (h, w, kk), "a[key] differs from the nested-list result",
                          {"shape": [h, w], "key": repr(kk), "python_lists": po, "cspuz": io})
    if not getattr(ctx, "_c13", None):
        # correspondence could not run (model build broken): run the oracle directly
        for (h, w, k) in gen_cases(ctx):
            arr, data = mk_array(h, w, "int")
            idx = {id(e): i for i, e in enumerate(data)}
            io = impl_get(arr, idx, k)
            po = pylist_get(h, w, k)
            kk = ("L", tuple(k)) if isinstance(k, list) else key_repr(k)
            ctx.prop_case("impl-vs-pylist", (h, w, repr(kk)))
            if io != po:
                ctx.violation("getitem:%dx%d:%r" % (h, w, kk), "a[key] differs from the nested-list result",
                              {"shape": [h, w], "key": repr(kk), "python_lists": po, "cspuz": io})


def replay(ctx, rp):
    v = rp.get("violation", {}).get("detail", {})
    print(rp)
    if not v:
        return 0
    h, w = v["shape"]
    k = eval(v["key"], {"slice": slice})  # keys are reprs of ints/slices/tuples written by this harness
    if isinstance(k, tuple) and k and k[0] == "L":
        k = list(k[1])
    elif isinstance(k, list):
        k = tuple(eval(x, {"slice": slice}) if isinstance(x, str) else x for x in k)
    arr, data = mk_array(h, w, "int")
    idx = {id(e): i for i, e in enumerate(data)}
    io, po = impl_get(arr, idx, k), pylist_get(h, w, k)
    print("cspuz:", io, " python lists:", po)
    return 1 if io != po else 0
