(* Non-vacuity of the C18 theorems: on a 3x3 board with 2..4 blocks of size
   1..5, initial() (for the draws ex_draws) returns a value from which a
   split, then a move, then a merge are proposed by [candidates]. *)
From Coq Require Import ZArith List Bool Arith.
From Cspuz Require Import Lib.PyErr Generator.Segmentation.
Import ListNotations.
Open Scope Z_scope.

Definition ex_cfg : config := make_config 3 3 (Some 2) (Some 4) None (Some 5) false.
Definition ex_draws : list nat := [4;5;8;0;7;3;0;2;1;5;7;3;6;8;1;3;0;3;6;4;2;6;2;1;2;7;2;2;0;0;3;3;2;2;4;5;3;8;3;2;3;6;4;0;5;6;2;2;4;1;5;4;0;5;1;4;5;4;7;5;2;7;7;2;0;4;0;5;6;0;8;6;5;6;0;7;0;2;3;1;3;7;5;8;5;8;4;7;1;5;4;0;6;1;3;5;8;5;2;5;4;8;1;4;5;4;2;1;2;4;7;2;0;1;8;6;0;3;5;4;7;6;2;0;0;7;5;3;2;2;6;1;2;6;5;2;0;6;4;2;7;2;8;7;7;5;7;4;4;7]%nat.
Definition ex_draws1 : list nat := [6;2;1;6;8;2;7;5;2;1;7;4;8;8;8;5;1;5;0;4;5;8;4;7;4;4;5;2;0;7;8;4;5;4;7;4;8;5;5;4;5;6;5;2;7;5;5;8;2;8;2;3;5;7;4;1;6;2;8;6]%nat.

Definition ex_b0 : blocks :=
  [[(0, 2); (1, 2); (2, 2)]; [(1, 0); (1, 1); (2, 0); (2, 1)]; [(0, 0); (0, 1)]].
(* split block 1 into its two columns *)
Definition ex_u1 : update := ([1%nat], [[(1, 0); (2, 0)]; [(1, 1); (2, 1)]]).
(* move the cell (1,1) from block 3 to block 0 *)
Definition ex_u2 : update := ([3%nat; 0%nat], [[(2, 1)]; [(0, 2); (1, 2); (2, 2); (1, 1)]]).
(* merge blocks 1 and 2 *)
Definition ex_u3 : update := ([1%nat; 2%nat], [[(1, 0); (2, 0); (2, 1)]]).
Definition ex_steps : list (list nat * update) := [(ex_draws1, ex_u1); ([], ex_u2); ([], ex_u3)].
Definition ex_final : blocks :=
  [[(0, 0); (0, 1)]; [(0, 2); (1, 2); (2, 2); (1, 1)]; [(1, 0); (2, 0); (2, 1)]].

Ltac in_list := repeat (first [left; reflexivity | right]).

Lemma ex_initial : exists rest, initial ex_cfg None ex_draws 10 = Ok (ex_b0, rest).
Proof. eexists. vm_compute. reflexivity. Qed.

Lemma ex_walk : valid_walk ex_cfg ex_b0 ex_steps.
Proof.
  simpl. repeat split.
  - eexists; eexists; split; [vm_compute; reflexivity | in_list].
  - eexists; eexists; split; [vm_compute; reflexivity | in_list].
  - eexists; eexists; split; [vm_compute; reflexivity | in_list].
Qed.

Lemma ex_last : last (walk_values ex_b0 (map snd ex_steps)) [] = ex_final.
Proof. vm_compute. reflexivity. Qed.
