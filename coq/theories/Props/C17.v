(* C17 — decoding arbitrary text never crashes and only yields re-encodable problems.

   [safe r]: r is a result (None or a value) or the exception ValueError — never IndexError,
   KeyError, AssertionError, TypeError, RecursionError, nor a loop that does not end (which the
   model reports as OtherError).  The decoders are Codec/Comb.v's [de] / [de_at], Codec/Puzzles.v's
   [deserialize_problem_cu] / [deserialize_url_cu] / [run_de] and Codec/Yajilin.v's
   YajilinClue; the nine puzzle terms and wrapper options come from Gen/Codecs.v, regenerated
   from cspuz/puzzle/*.py on every run.  Side conditions ([dec_ok], [single], [customs_ok],
   [env_nonneg]) are defined in Codec/TotalModel.v.                                          *)
From Coq Require Import ZArith List Ascii Bool.
From Cspuz Require Import Lib.PyErr Codec.Comb Codec.CombWf Codec.Yajilin Codec.Puzzles
  Codec.TotalModel Codec.TotalLeaf Codec.TotalRooms Codec.Total Gen.Codecs.
Import ListNotations.
Local Open Scope Z_scope.

(* Combinator.deserialize of every term satisfying the side conditions, on EVERY text *)
Theorem de_total : forall e c, dec_ok c = true -> customs_ok (cust e) c -> env_nonneg e ->
  forall s, safe (de e c s).
Proof. exact de_total_lemma. Qed.
Print Assumptions de_total.

(* ... at every offset; the reported number of characters read stays within the text *)
Theorem de_at_total : forall e c, dec_ok c = true -> customs_ok (cust e) c -> env_nonneg e ->
  forall data idx, safe (de_at e c data idx) /\
    forall k l, de_at e c data idx = Ok (Some (k, l)) -> (idx + k <= Nat.max idx (length data))%nat.
Proof. exact de_at_total_lemma. Qed.
Print Assumptions de_at_total.

(* the side condition on Seq / Grid bases is needed: C15's wf alone admits a loop that never ends *)
Theorem wf_alone_not_enough :
  wf (Seq (FixStr []) 3) = true /\ de (mk_env 1 1) (Seq (FixStr []) 3) [] = Err OtherError.
Proof. split; vm_compute; reflexivity. Qed.
Print Assumptions wf_alone_not_enough.

(* the Rooms decoder on any board size (also 0 or negative) and any text *)
Theorem rooms_de_total : forall e skip allow s, safe (de e (Rooms skip allow) s).
Proof. intros e skip allow s. destruct (rooms_good e skip allow s) as [H _]. exact H. Qed.
Print Assumptions rooms_de_total.

(* yajilin.YajilinClue behaves like a library combinator *)
Theorem yajilin_clue_total : custom_total yajilin_custom.
Proof. exact yajilin_custom_total. Qed.
Print Assumptions yajilin_clue_total.

(* deserialize_problem: its own assertion (exactly one item) never fails for a single-item term *)
Theorem problem_total : forall cu c h w, dec_ok c = true -> single c = true -> customs_ok cu c -> 0 <= h * w ->
  forall s, safe (deserialize_problem_cu cu c s h w).
Proof. exact problem_total_lemma. Qed.
Print Assumptions problem_total.

(* deserialize_problem_as_url with any options, on EVERY text (URL or not, any declared sizes) *)
Theorem url_de_total : forall cu c al af rs, dec_ok c = true -> single c = true -> customs_ok cu c ->
  forall url, safe (deserialize_url_cu cu c url al af rs).
Proof. exact url_total_lemma. Qed.
Print Assumptions url_de_total.

(* every deserialize_<p> of the puzzle modules, with the term and options read from the source *)
Theorem codecs_total : forall url,
  safe (run_de no_custom deserialize_nurikabe_w url) /\
  safe (run_de no_custom deserialize_masyu_w url) /\
  safe (run_de no_custom deserialize_slitherlink_w url) /\
  safe (run_de no_custom deserialize_sudoku_w url) /\
  safe (run_de no_custom deserialize_nurimisaki_w url) /\
  safe (run_de yajilin_custom deserialize_yajilin_w url) /\
  safe (run_de no_custom deserialize_heyawake_w url) /\
  safe (run_de no_custom deserialize_lits_w url) /\
  safe (run_de no_custom deserialize_norinori_w url).
Proof.
  intros url. unfold run_de.
  repeat split; apply url_total_lemma; try reflexivity;
    solve [right; reflexivity | left; exact yajilin_custom_total].
Qed.
Print Assumptions codecs_total.

(* a decoded Grid has exactly the board's rows and columns *)
Theorem de_dims_grid : forall e c1 s k p, 0 <= height e -> 0 <= width e ->
  de e (Grid c1 None) s = Ok (Some (k, [p])) -> grid_shape (height e) (width e) p.
Proof. exact grid_dims_lemma. Qed.
Print Assumptions de_dims_grid.

(* URL level: the returned sizes are the declared ones (third / second field, in this order)
   and a Grid codec's problem has exactly these dimensions *)
Theorem url_de_dims : forall cu c1 al af rs url name wd hd body v,
  url_match url = Some (name, wd, hd, body) ->
  deserialize_url_cu cu (Grid c1 None) url al af rs = Ok (Some v) ->
  exists w h p, py_int wd 10 = Ok w /\ py_int hd 10 = Ok h /\ grid_shape h w p /\
                v = (if rs then VTup [VInt h; VInt w; p] else p).
Proof. exact url_dims_lemma. Qed.
Print Assumptions url_de_dims.
