(* C11 Tier 1 - magnets: for every board shape, plate layout and clue vector, the program
   posted by solve_magnets (model Magnets.v) admits exactly the grids obeying Rules_magnets. *)
From Coq Require Import ZArith List Bool Arith Lia.
From Cspuz Require Import Lib.PyErr Core.Expr Core.Program Puzzle.PuzzleBase Puzzle.SatAbs
     Puzzle.ModelBase Puzzle.ModelLemmas Puzzle.PutteriaProofs Puzzle.Rules_magnets Puzzle.Magnets.
Import ListNotations.
Local Open Scope nat_scope.

Lemma holds_mag_nand en i j :
  holds no_graph en (mag_nand i j) = negb (eb en i) || negb (eb en j).
Proof. unfold holds, mag_nand. simpl. destruct (eb en i), (eb en j); reflexivity. Qed.

Lemma holds_mag_plate en h w a b :
  holds no_graph en (mag_plate h w a b) =
  Bool.eqb (eb en (mag_p w a)) (eb en (mag_m h w b)) && Bool.eqb (eb en (mag_m h w a)) (eb en (mag_p w b)).
Proof.
  unfold holds, mag_plate. simpl.
  destruct (eb en (mag_p w a)), (eb en (mag_m h w b)), (eb en (mag_m h w a)), (eb en (mag_p w b)); reflexivity.
Qed.

Lemma holds_mag_clue en c ids :
  forallb (holds no_graph en) (mag_clue c ids) = clue_ok c (count (eb en) ids).
Proof.
  unfold mag_clue, clue_ok. destruct (0 <=? c)%Z eqn:E.
  - simpl. rewrite holds_ct_eq, andb_true_r.
    replace (c <? 0)%Z with false by (symmetry; apply Z.ltb_ge; apply Z.leb_le; exact E). reflexivity.
  - simpl. replace (c <? 0)%Z with true by (symmetry; apply Z.ltb_lt; apply Z.leb_gt; exact E). reflexivity.
Qed.

(* without a rim flag, both halves of every plate are cells of the board *)
Lemma plates_inside h w tr td a b :
  mag_rim_flag h w tr td = false -> In (a, b) (plates h w tr td) ->
  (fst a < h /\ snd a < w) /\ (fst b < h /\ snd b < w).
Proof.
  intros Hrim Hin. unfold plates in Hin. apply in_flat_map in Hin. destruct Hin as [[y x] [Hc Hin]].
  assert (Hno : ((negb (at2 tr w y x =? 0)%Z && Nat.eqb (S x) w) ||
                 (negb (at2 td w y x =? 0)%Z && Nat.eqb (S y) h)) = false).
  { destruct ((negb (at2 tr w y x =? 0)%Z && Nat.eqb (S x) w) ||
              (negb (at2 td w y x =? 0)%Z && Nat.eqb (S y) h)) eqn:E; [|reflexivity].
    exfalso. unfold mag_rim_flag in Hrim.
    assert (Hex : existsb (fun '(y, x) => (negb (at2 tr w y x =? 0)%Z && Nat.eqb (S x) w) ||
                                          (negb (at2 td w y x =? 0)%Z && Nat.eqb (S y) h)) (cells h w) = true).
    { apply existsb_exists. exists (y, x). split; assumption. }
    congruence. }
  apply cells_in in Hc. destruct Hc as [Hy Hx].
  apply orb_false_iff in Hno. destruct Hno as [Hr Hd].
  apply in_app_iff in Hin. destruct Hin as [Hin|Hin].
  - destruct (at2 tr w y x =? 0)%Z; simpl in Hin; [contradiction|].
    destruct Hin as [Hin|[]]. inversion Hin; subst a b. cbn [fst snd]. cbn [negb andb] in Hr.
    apply Nat.eqb_neq in Hr. lia.
  - destruct (at2 td w y x =? 0)%Z; simpl in Hin; [contradiction|].
    destruct Hin as [Hin|[]]. inversion Hin; subst a b. cbn [fst snd]. cbn [negb andb] in Hd.
    apply Nat.eqb_neq in Hd. lia.
Qed.

(* boolean assembly of the conjuncts; the plate conjunct only agrees once no cell is + and - at once *)
Lemma mag_assemble (e p a1 a2 r c A B C1 C2 C3 C4 R Cc : bool) :
  e = A -> (e = true -> p = B) -> a1 = C3 && C1 -> a2 = C4 && C2 -> r = R -> c = Cc ->
  true && true && e && p && a1 && a2 && r && c = A && (B && (C1 && (C2 && (C3 && (C4 && (R && Cc)))))).
Proof.
  intros He Hp H1 H2 Hr Hc. subst a1 a2 r c. destruct e.
  - rewrite (Hp eq_refl). subst A. destruct B, C1, C2, C3, C4, R, Cc; reflexivity.
  - subst A. reflexivity.
Qed.

Section Core.
  Variables (h w : nat) (tr td rp rm cp cm : list Z) (en : env).
  Let n := h * w.
  Let ans := map (fun i => b2z (eb en i)) (seq 0 (2 * (h * w))).
  Let plus := fun '(y, x) => isb (getz ans (y * w + x)).
  Let minus := fun '(y, x) => isb (getz ans (h * w + (y * w + x))).

  Lemma mag_plus_eq y x : y < h -> x < w -> plus (y, x) = eb en (mag_p w (y, x)).
  Proof.
    intros Hy Hx. unfold plus, ans, mag_p, cidx. simpl.
    rewrite getz_map_seq by nia. apply b2z_isb.
  Qed.
  Lemma mag_minus_eq y x : y < h -> x < w -> minus (y, x) = eb en (mag_m h w (y, x)).
  Proof.
    intros Hy Hx. unfold minus, ans, mag_m, cidx. simpl.
    rewrite getz_map_seq by nia. apply b2z_isb.
  Qed.

  Lemma mag_count_row (f : nat * nat -> bool) (g : nat * nat -> nat) y :
    y < h -> (forall x, x < w -> f (y, x) = eb en (g (y, x))) ->
    count f (map (fun x => (y, x)) (seq 0 w)) = count (eb en) (map g (mag_row w y)).
  Proof.
    intros Hy H. unfold mag_row. rewrite !count_map. apply count_ext_in.
    intros x Hx. apply in_seq in Hx. apply H. lia.
  Qed.
  Lemma mag_count_col (f : nat * nat -> bool) (g : nat * nat -> nat) x :
    x < w -> (forall y, y < h -> f (y, x) = eb en (g (y, x))) ->
    count f (map (fun y => (y, x)) (seq 0 h)) = count (eb en) (map g (mag_col h x)).
  Proof.
    intros Hx H. unfold mag_col. rewrite !count_map. apply count_ext_in.
    intros y Hy. apply in_seq in Hy. apply H. lia.
  Qed.

  Lemma magnets_core :
    mag_rim_flag h w tr td = false ->
    rules_magnets [[Z.of_nat h; Z.of_nat w]; tr; td; rp; rm; cp; cm] ans =
    satisfies no_graph en (bool_grid_state (2 * (h * w)) (magnets_constraints h w tr td rp rm cp cm)).
  Proof.
    intros Hrim. unfold rules_magnets.
    replace (dim [[Z.of_nat h; Z.of_nat w]; tr; td; rp; rm; cp; cm] 0) with h
      by (unfold dim, zn, getz, sec; simpl; rewrite Nat2Z.id; reflexivity).
    replace (dim [[Z.of_nat h; Z.of_nat w]; tr; td; rp; rm; cp; cm] 1) with w
      by (unfold dim, zn, getz, sec; simpl; rewrite Nat2Z.id; reflexivity).
    change (sec [[Z.of_nat h; Z.of_nat w]; tr; td; rp; rm; cp; cm] 1) with tr.
    change (sec [[Z.of_nat h; Z.of_nat w]; tr; td; rp; rm; cp; cm] 2) with td.
    change (sec [[Z.of_nat h; Z.of_nat w]; tr; td; rp; rm; cp; cm] 3) with rp.
    change (sec [[Z.of_nat h; Z.of_nat w]; tr; td; rp; rm; cp; cm] 4) with rm.
    change (sec [[Z.of_nat h; Z.of_nat w]; tr; td; rp; rm; cp; cm] 5) with cp.
    change (sec [[Z.of_nat h; Z.of_nat w]; tr; td; rp; rm; cp; cm] 6) with cm.
    replace (Nat.eqb (length ans) (2 * (h * w))) with true
      by (unfold ans; rewrite map_length, seq_length; symmetry; apply Nat.eqb_refl).
    replace (forallb is01 ans) with true
      by (unfold ans; rewrite forallb_map; symmetry; apply forallb_forall; intros; apply is01_b2z).
    fold plus. fold minus.
    unfold satisfies, bool_grid_state, magnets_constraints. cbn [Program.cons].
    rewrite !forallb_app.
    apply mag_assemble.
    - (* at most one pole per cell *)
      rewrite forallb_map. apply forallb_ext_in. intros [y x] Hc. apply cells_in in Hc. destruct Hc as [Hy Hx].
      transitivity (negb (plus (y, x) && minus (y, x))); [reflexivity|].
      rewrite holds_mag_nand, (mag_plus_eq y x Hy Hx), (mag_minus_eq y x Hy Hx).
      apply negb_andb.
    - (* plates *)
      intros Hex. rewrite forallb_map. apply forallb_ext_in. intros [[y x] [y' x']] Hp.
      destruct (plates_inside _ _ _ _ _ _ Hrim Hp) as [[Hy Hx] [Hy' Hx']]. simpl in Hy, Hx, Hy', Hx'.
      rewrite holds_mag_plate.
      rewrite forallb_forall in Hex.
      assert (Ha : negb (plus (y, x) && minus (y, x)) = true)
        by exact (Hex (y, x) (proj2 (cells_in h w y x) (conj Hy Hx))).
      assert (Hb : negb (plus (y', x') && minus (y', x')) = true)
        by exact (Hex (y', x') (proj2 (cells_in h w y' x') (conj Hy' Hx'))).
      transitivity ((plus (y, x) && minus (y', x')) || (minus (y, x) && plus (y', x')) ||
                    ((negb (plus (y, x)) && negb (minus (y, x))) &&
                     (negb (plus (y', x')) && negb (minus (y', x'))))); [reflexivity|].
      rewrite (mag_plus_eq y x Hy Hx), (mag_minus_eq y x Hy Hx) in *.
      rewrite (mag_plus_eq y' x' Hy' Hx'), (mag_minus_eq y' x' Hy' Hx') in *.
      destruct (eb en (mag_p w (y, x))), (eb en (mag_m h w (y, x))),
               (eb en (mag_p w (y', x'))), (eb en (mag_m h w (y', x'))); simpl in *; congruence.
    - (* equal poles: + *)
      etransitivity; [exact (adjacent_equiv h w plus)|]. f_equal; rewrite forallb_map; apply forallb_ext_in;
        intros [y x] Hc; apply cells_in in Hc; destruct Hc as [Hy Hx]; rewrite holds_mag_nand.
      + rewrite (mag_plus_eq y x), (mag_plus_eq y (S x)) by lia. reflexivity.
      + rewrite (mag_plus_eq y x), (mag_plus_eq (S y) x) by lia. reflexivity.
    - (* equal poles: - *)
      etransitivity; [exact (adjacent_equiv h w minus)|]. f_equal; rewrite forallb_map; apply forallb_ext_in;
        intros [y x] Hc; apply cells_in in Hc; destruct Hc as [Hy Hx]; rewrite holds_mag_nand.
      + rewrite (mag_minus_eq y x), (mag_minus_eq y (S x)) by lia. reflexivity.
      + rewrite (mag_minus_eq y x), (mag_minus_eq (S y) x) by lia. reflexivity.
    - (* row clues *)
      rewrite forallb_flat_map. apply forallb_ext_in. intros y Hy. apply in_seq in Hy.
      rewrite forallb_app, !holds_mag_clue. f_equal; f_equal.
      + apply mag_count_row; [lia|]. intros x Hx. apply mag_plus_eq; lia.
      + apply mag_count_row; [lia|]. intros x Hx. apply mag_minus_eq; lia.
    - (* column clues *)
      rewrite forallb_flat_map. apply forallb_ext_in. intros x Hx. apply in_seq in Hx.
      rewrite forallb_app, !holds_mag_clue. f_equal; f_equal.
      + apply mag_count_col; [lia|]. intros y Hy. apply mag_plus_eq; lia.
      + apply mag_count_col; [lia|]. intros y Hy. apply mag_minus_eq; lia.
  Qed.
End Core.

Lemma magnets_dims h w tr td rp rm cp cm :
  dim [[Z.of_nat h; Z.of_nat w]; tr; td; rp; rm; cp; cm] 0 = h /\
  dim [[Z.of_nat h; Z.of_nat w]; tr; td; rp; rm; cp; cm] 1 = w.
Proof. split; unfold dim, zn, getz, sec; simpl; rewrite Nat2Z.id; reflexivity. Qed.

(* what the model computes on a problem in the encoding of Rules_magnets.v *)
Lemma magnets_model_ok h w tr td rp rm cp cm st :
  solve_magnets_model [[Z.of_nat h; Z.of_nat w]; tr; td; rp; rm; cp; cm] = Ok st ->
  mag_rim_flag h w tr td = false /\
  st = bool_grid_state (2 * (h * w)) (magnets_constraints h w tr td rp rm cp cm).
Proof.
  unfold solve_magnets_model.
  destruct (magnets_dims h w tr td rp rm cp cm) as [-> ->].
  change (sec [[Z.of_nat h; Z.of_nat w]; tr; td; rp; rm; cp; cm] 1) with tr.
  change (sec [[Z.of_nat h; Z.of_nat w]; tr; td; rp; rm; cp; cm] 2) with td.
  change (sec [[Z.of_nat h; Z.of_nat w]; tr; td; rp; rm; cp; cm] 3) with rp.
  change (sec [[Z.of_nat h; Z.of_nat w]; tr; td; rp; rm; cp; cm] 4) with rm.
  change (sec [[Z.of_nat h; Z.of_nat w]; tr; td; rp; rm; cp; cm] 5) with cp.
  change (sec [[Z.of_nat h; Z.of_nat w]; tr; td; rp; rm; cp; cm] 6) with cm.
  destruct (mag_rim_flag h w tr td).
  - rewrite !orb_true_r. discriminate.
  - destruct (_ || _); [discriminate|]. intros H. inversion H. split; reflexivity.
Qed.

Theorem magnets_exact h w tr td rp rm cp cm st ans :
  solve_magnets_model [[Z.of_nat h; Z.of_nat w]; tr; td; rp; rm; cp; cm] = Ok st ->
  ((exists en, model_of no_graph en st /\ reads st en (seq 0 (2 * (h * w))) = ans)
   <-> rules_magnets [[Z.of_nat h; Z.of_nat w]; tr; td; rp; rm; cp; cm] ans = true).
Proof.
  intros H. apply magnets_model_ok in H. destruct H as [Hrim ->].
  apply bool_grid_exact.
  - intros en. apply magnets_core. exact Hrim.
  - intros a Ha. unfold rules_magnets in Ha.
    destruct (magnets_dims h w tr td rp rm cp cm) as [E0 E1]. rewrite E0, E1 in Ha.
    repeat (apply andb_true_iff in Ha; destruct Ha as [Ha ?]).
    apply Nat.eqb_eq in Ha. split; assumption.
Qed.

(* the model is defined exactly on the problems solve_magnets accepts: both flag lists cover the board, the
   clue lists cover the rows / columns, no flag names a partner cell outside the board *)
Theorem magnets_model_defined h w tr td rp rm cp cm :
  h * w <= length tr -> h * w <= length td ->
  h <= length rp -> h <= length rm -> w <= length cp -> w <= length cm ->
  mag_rim_flag h w tr td = false ->
  exists st, solve_magnets_model [[Z.of_nat h; Z.of_nat w]; tr; td; rp; rm; cp; cm] = Ok st.
Proof.
  intros H1 H2 H3 H4 H5 H6 Hrim. unfold solve_magnets_model.
  destruct (magnets_dims h w tr td rp rm cp cm) as [-> ->].
  change (sec [[Z.of_nat h; Z.of_nat w]; tr; td; rp; rm; cp; cm] 1) with tr.
  change (sec [[Z.of_nat h; Z.of_nat w]; tr; td; rp; rm; cp; cm] 2) with td.
  change (sec [[Z.of_nat h; Z.of_nat w]; tr; td; rp; rm; cp; cm] 3) with rp.
  change (sec [[Z.of_nat h; Z.of_nat w]; tr; td; rp; rm; cp; cm] 4) with rm.
  change (sec [[Z.of_nat h; Z.of_nat w]; tr; td; rp; rm; cp; cm] 5) with cp.
  change (sec [[Z.of_nat h; Z.of_nat w]; tr; td; rp; rm; cp; cm] 6) with cm.
  rewrite Hrim.
  replace (Nat.ltb (length tr) (h * w)) with false by (symmetry; apply Nat.ltb_ge; assumption).
  replace (Nat.ltb (length td) (h * w)) with false by (symmetry; apply Nat.ltb_ge; assumption).
  replace (Nat.ltb (length rp) h) with false by (symmetry; apply Nat.ltb_ge; assumption).
  replace (Nat.ltb (length rm) h) with false by (symmetry; apply Nat.ltb_ge; assumption).
  replace (Nat.ltb (length cp) w) with false by (symmetry; apply Nat.ltb_ge; assumption).
  replace (Nat.ltb (length cm) w) with false by (symmetry; apply Nat.ltb_ge; assumption).
  simpl. eexists. reflexivity.
Qed.

(* the hypotheses are satisfiable: a 2 x 2 board of two horizontal plates, one clue (one + in row 0);
   the model is defined and the grid "+ - / - +" obeys the rules *)
Example magnets_example :
  let pb := [[2; 2]; [1; 0; 1; 0]; [0; 0; 0; 0]; [1; -1]; [-1; -1]; [-1; -1]; [-1; -1]]%Z in
  (exists st, solve_magnets_model pb = Ok st) /\
  rules_magnets pb [1; 0; 0; 1; 0; 1; 1; 0]%Z = true /\
  rules_magnets pb [1; 0; 1; 0; 0; 1; 0; 1]%Z = false.
Proof. split; [eexists; reflexivity|split; reflexivity]. Qed.
