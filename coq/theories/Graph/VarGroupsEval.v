(* C07, level E -> level S: shape of the program posted by post_vargroups and the
   evaluation of its constraints as the boolean certificate. *)
From Coq Require Import ZArith List Bool Arith Lia.
From Cspuz Require Import Lib.PyErr Core.Expr Core.Program Core.Build
  Graph.GraphModel Graph.ReachProofs Graph.VarGroups Graph.VarGroupsSound.
Import ListNotations.
Open Scope nat_scope.

(* ------------------------------------------------------------------------ *)
(* variable allocation                                                       *)

Definition ivars (k n : nat) (lo hi : Z) : list expr := map (fun i => IVar (k + i) lo hi) (seq 0 n).
Definition bvars (k n : nat) : list expr := map (fun i => BVar (k + i)) (seq 0 n).

Definition add_decls (st : state) (ds : list vdecl) : state :=
  {| vars := vars st ++ ds; keys := keys st ++ repeat false (length ds); cons := cons st |}.

Lemma add_decls_nil st : add_decls st [] = st.
Proof. destruct st; unfold add_decls; simpl. rewrite !app_nil_r. reflexivity. Qed.

Lemma add_decls_app st d1 d2 : add_decls (add_decls st d1) d2 = add_decls st (d1 ++ d2).
Proof.
  unfold add_decls; simpl. rewrite <- !app_assoc, app_length, repeat_app. reflexivity.
Qed.

Lemma next_id_add_decls st ds : next_id (add_decls st ds) = next_id st + length ds.
Proof. unfold next_id, add_decls; simpl. apply app_length. Qed.

Lemma int_vars_spec n : forall st lo hi,
  int_vars st n lo hi = (add_decls st (repeat (DInt lo hi) n), ivars (next_id st) n lo hi).
Proof.
  induction n as [|n IH]; intros st lo hi; simpl.
  - rewrite add_decls_nil. reflexivity.
  - rewrite IH. f_equal.
    + change (repeat (DInt lo hi) n) with (repeat (DInt lo hi) n).
      replace {| vars := vars st ++ [DInt lo hi]; keys := keys st ++ [false]; cons := cons st |}
        with (add_decls st [DInt lo hi]) by reflexivity.
      rewrite add_decls_app. reflexivity.
    + unfold ivars. simpl. rewrite Nat.add_0_r. f_equal.
      rewrite <- seq_shift, map_map. apply map_ext. intros i. unfold next_id; simpl.
      rewrite app_length. simpl. f_equal. lia.
Qed.

Lemma bool_vars_spec n : forall st,
  bool_vars st n = (add_decls st (repeat DBool n), bvars (next_id st) n).
Proof.
  induction n as [|n IH]; intros st; simpl.
  - rewrite add_decls_nil. reflexivity.
  - rewrite IH. f_equal.
    + replace {| vars := vars st ++ [DBool]; keys := keys st ++ [false]; cons := cons st |}
        with (add_decls st [DBool]) by reflexivity.
      rewrite add_decls_app. reflexivity.
    + unfold bvars. simpl. rewrite Nat.add_0_r. f_equal.
      rewrite <- seq_shift, map_map. apply map_ext. intros i. unfold next_id; simpl.
      rewrite app_length. simpl. f_equal. lia.
Qed.

Lemma nth_map_seq {A} (f : nat -> A) n i d : i < n -> nth i (map f (seq 0 n)) d = f i.
Proof.
  intros Hi. rewrite (nth_indep _ d (f 0)) by (rewrite map_length, seq_length; exact Hi).
  rewrite map_nth, seq_nth by exact Hi. reflexivity.
Qed.

Lemma at_ivars k n lo hi i : i < n -> at_ (ivars k n lo hi) i = IVar (k + i) lo hi.
Proof. exact (nth_map_seq (fun i => IVar (k + i) lo hi) n i PyNone). Qed.
Lemma at_bvars k n i : i < n -> at_ (bvars k n) i = BVar (k + i).
Proof. exact (nth_map_seq (fun i => BVar (k + i)) n i PyNone). Qed.

(* ------------------------------------------------------------------------ *)
(* evaluation of the node shapes the helper builds                           *)

Section EvalShapes.
  Variable gsem : op -> list (option value) -> option bool.
  Variable en : env.
  Notation ev := (eval gsem en).
  Notation hd_ := (holds gsem en).

  Lemma holds_of_eval e b : ev e = Some (VB b) -> hd_ e = b.
  Proof. unfold holds. intros ->. destruct b; reflexivity. Qed.

  Lemma ev_cmp o a b x y :
    ev a = Some (VI x) -> ev b = Some (VI y) ->
    ev (BNode o [a; b]) =
    match o with
    | EQ => Some (VB (x =? y)%Z) | NE => Some (VB (negb (x =? y)%Z))
    | LE => Some (VB (x <=? y)%Z) | LT => Some (VB (x <? y)%Z)
    | GE => Some (VB (y <=? x)%Z) | GT => Some (VB (y <? x)%Z)
    | _ => ev (BNode o [a; b])
    end.
  Proof. intros Ha Hb. destruct o; try reflexivity; simpl; rewrite Ha, Hb; reflexivity. Qed.

  Lemma ev_i_eq a b x y : ev a = Some (VI x) -> ev b = Some (VI y) -> ev (i_eq a b) = Some (VB (x =? y)%Z).
  Proof. intros Ha Hb. unfold i_eq. rewrite (ev_cmp EQ a b x y Ha Hb). reflexivity. Qed.
  Lemma ev_i_ne a b x y : ev a = Some (VI x) -> ev b = Some (VI y) -> ev (i_ne a b) = Some (VB (negb (x =? y)%Z)).
  Proof. intros Ha Hb. unfold i_ne. rewrite (ev_cmp NE a b x y Ha Hb). reflexivity. Qed.
  Lemma ev_i_lt a b x y : ev a = Some (VI x) -> ev b = Some (VI y) -> ev (i_lt a b) = Some (VB (x <? y)%Z).
  Proof. intros Ha Hb. unfold i_lt. rewrite (ev_cmp LT a b x y Ha Hb). reflexivity. Qed.
  Lemma ev_i_gt a b x y : ev a = Some (VI x) -> ev b = Some (VI y) -> ev (i_gt a b) = Some (VB (y <? x)%Z).
  Proof. intros Ha Hb. unfold i_gt. rewrite (ev_cmp GT a b x y Ha Hb). reflexivity. Qed.
  Lemma ev_i_le a b x y : ev a = Some (VI x) -> ev b = Some (VI y) -> ev (i_le a b) = Some (VB (x <=? y)%Z).
  Proof. intros Ha Hb. unfold i_le. rewrite (ev_cmp LE a b x y Ha Hb). reflexivity. Qed.

  Lemma ev_b_and a b x y : ev a = Some (VB x) -> ev b = Some (VB y) -> ev (b_and a b) = Some (VB (x && y)).
  Proof. intros Ha Hb. unfold b_and. simpl. rewrite Ha, Hb. simpl. rewrite andb_true_r. reflexivity. Qed.
  Lemma ev_b_imp a b x y : ev a = Some (VB x) -> ev b = Some (VB y) -> ev (b_imp a b) = Some (VB (implb x y)).
  Proof. intros Ha Hb. unfold b_imp. simpl. rewrite Ha, Hb. reflexivity. Qed.
  Lemma ev_b_iff a b x y : ev a = Some (VB x) -> ev b = Some (VB y) -> ev (b_iff a b) = Some (VB (Bool.eqb x y)).
  Proof. intros Ha Hb. unfold b_iff. simpl. rewrite Ha, Hb. reflexivity. Qed.
  Lemma ev_i_cond c t f x y z :
    ev c = Some (VB x) -> ev t = Some (VI y) -> ev f = Some (VI z) ->
    ev (i_cond c t f) = Some (VI (if x then y else z)).
  Proof. intros Hc Ht Hf. unfold i_cond. simpl. rewrite Hc, Ht, Hf. reflexivity. Qed.
  Lemma ev_i_add a b x y : ev a = Some (VI x) -> ev b = Some (VI y) -> ev (i_add a b) = Some (VI (x + y)%Z).
  Proof. intros Ha Hb. unfold i_add. simpl. rewrite Ha, Hb. unfold eval_iop. simpl. unfold zsum. simpl. f_equal. f_equal. lia. Qed.

  Lemma all_some_map_Some {A B} (h : A -> B) (l : list A) :
    all_some (map (fun x => Some (h x)) l) = Some (map h l).
  Proof. induction l as [|a l IH]; simpl; [reflexivity|]. rewrite IH. reflexivity. Qed.

  Lemma as_ints_map_VI {A} (h : A -> Z) (l : list A) : as_ints (map (fun x => VI (h x)) l) = Some (map h l).
  Proof. induction l as [|a l IH]; simpl; [reflexivity|]. rewrite IH. reflexivity. Qed.

  Lemma zsum_indicator {A} (p : A -> bool) (l : list A) :
    zsum (map (fun x => if p x then 1%Z else 0%Z) l) = bcount p l.
  Proof.
    unfold bcount, zn. induction l as [|a l IH]; simpl; [reflexivity|].
    unfold zsum in *. simpl. rewrite IH. destruct (p a); simpl length; lia.
  Qed.

  Lemma ev_add_list {A} (args : list expr) (h : A -> Z) (l0 : list A) :
    args <> [] -> map ev args = map (fun x => Some (VI (h x))) l0 ->
    ev (INode ADD args) = Some (VI (zsum (map h l0))).
  Proof.
    intros Hne Hm. cbn [eval]. rewrite Hm. unfold eval_iop.
    rewrite (all_some_map_Some (fun x => VI (h x)) l0).
    destruct l0 as [|a0 r0]; [destruct args; [congruence|discriminate]|].
    cbn [map]. change (VI (h a0) :: map (fun x => VI (h x)) r0) with (map (fun x => VI (h x)) (a0 :: r0)).
    rewrite (as_ints_map_VI h (a0 :: r0)). reflexivity.
  Qed.

  (* constraints.count_true over nodes that evaluate to booleans *)
  Lemma ev_count_true {A} (mk : A -> expr) (p : A -> bool) (l : list A) :
    (forall x, In x l -> ev (mk x) = Some (VB (p x))) ->
    ev (count_true_nodes (map mk l)) = Some (VI (bcount p l)).
  Proof.
    intros H. destruct l as [|a r]; [reflexivity|].
    assert (Hc : count_true_nodes (map mk (a :: r)) =
                 INode ADD (map (fun x => i_cond x (PyInt 1) (PyInt 0)) (map mk (a :: r)))) by reflexivity.
    rewrite Hc. rewrite <- zsum_indicator.
    apply ev_add_list; [discriminate|].
    rewrite !map_map. apply map_ext_in. intros x Hx.
    apply ev_i_cond; [apply H; exact Hx|reflexivity|reflexivity].
  Qed.
End EvalShapes.
