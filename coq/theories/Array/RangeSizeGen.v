(* C13 tie T: the function translated from cspuz/array.py::_range_size on every run (Gen/PyIntArray.v) is the model's
   range_size (Array/Slice.v), for all integers. *)
From Coq Require Import ZArith Bool Lia.
From Cspuz Require Import Lib.PyErr Array.Slice Gen.PyIntArray.
Open Scope Z_scope.

Lemma range_size_py_eq : forall start stop step, range_size_py start stop step = range_size start stop step.
Proof.
  intros start stop step. unfold range_size_py, range_size.
  destruct (Z.eqb step 0) eqn:E0; [reflexivity|].
  destruct (Z.ltb 0 step) eqn:E1; reflexivity.
Qed.
