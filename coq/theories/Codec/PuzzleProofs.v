(* Proofs about the per-puzzle URL functions (Codec/Puzzles.v):
   - the URL level reduces to the body level (regular expression + name check + int());
   - the body level of a Grid term is C15's round-trip theorem (Codec/CombRoundTrip.all_terms). *)
From Coq Require Import ZArith List Ascii Bool NArith Lia.
From Cspuz Require Import Lib.PyErr Codec.Comb Codec.CombWf Codec.CombBasics Codec.CombLeaf Codec.CombRoundTrip
  Codec.Legacy Codec.Url Codec.UrlProofs Codec.Puzzles.
Import ListNotations.
Local Open Scope Z_scope.

(* ------------------------------------------------------------------ URL level *)
(* the two wrappers of a module fit together: same term, a name the regular expression can
   read, and the decoder accepts the name the encoder writes *)
Definition wrappers_consistent (sw : ser_wrapper) (dw : de_wrapper) : Prop :=
  sw_comb sw = dw_comb dw /\ valid_name (sw_puzzle sw) /\ allowed_ok (dw_allowed dw) (sw_puzzle sw) = true.

Definition sized (dw : de_wrapper) (h w : Z) (p : pv) : pv :=
  if dw_return_size dw then VTup [VInt h; VInt w; p] else p.

Lemma deserialize_url_make cu c p nm h w body al af rs r :
  valid_prefix p -> valid_name nm -> valid_body body -> 0 <= h -> 0 <= w ->
  allowed_ok al nm = true ->
  deserialize_problem_cu cu c body h w = Ok r ->
  deserialize_url_cu cu c (make_url p nm h w body) al af rs =
  Ok (match r with None => None | Some pb => Some (if rs then VTup [VInt h; VInt w; pb] else pb) end).
Proof.
  intros Hp Hn Hb Hh Hw Hal Hde. unfold deserialize_url_cu.
  rewrite (url_match_make p nm h w body Hp Hn Hb Hh Hw).
  destruct (str_nat_digits w Hw) as (_ & _ & Ew). destruct (str_nat_digits h Hh) as (_ & _ & Eh).
  rewrite Ew, Eh. simpl. rewrite Hal. simpl. rewrite Hde. simpl. destruct r; reflexivity.
Qed.

(* if the body round-trips, so does the URL, with the dimensions *)
Theorem url_level_roundtrip cu sw dw h w pb pb' body :
  wrappers_consistent sw dw -> 0 <= h -> 0 <= w ->
  serialize_problem_cu cu (sw_comb sw) pb h w = Ok body -> valid_body body ->
  deserialize_problem_cu cu (sw_comb sw) body h w = Ok (Some pb') ->
  run_ser_sized cu sw h w pb = Ok (make_url default_prefix (sw_puzzle sw) h w body) /\
  run_de cu dw (make_url default_prefix (sw_puzzle sw) h w body) = Ok (Some (sized dw h w pb')).
Proof.
  intros (Hc & Hn & Hal) Hh Hw Hser Hb Hde. split.
  - unfold run_ser_sized, serialize_url_cu. rewrite Hser. reflexivity.
  - unfold run_de. rewrite <- Hc.
    rewrite (deserialize_url_make cu (sw_comb sw) default_prefix (sw_puzzle sw) h w body _ _ _ (Some pb')
               default_prefix_valid Hn Hb Hh Hw Hal Hde).
    reflexivity.
Qed.

(* serialize_<p>(problem) takes the size from the problem *)
Lemma run_ser_problem_sized cu sw rows r0 rest :
  rows = VList r0 :: rest ->
  run_ser_problem cu sw (VList rows) =
  run_ser_sized cu sw (Z.of_nat (length rows)) (Z.of_nat (length r0)) (VList rows).
Proof. intros ->. reflexivity. Qed.

(* ------------------------------------------------------------------ body level for Grid terms (from C15) *)
Lemma cu_env_no_custom h w : cu_env no_custom h w = mk_env h w.
Proof. reflexivity. Qed.

Theorem grid_body_roundtrip c1 hw h w pb body :
  wf (Grid c1 hw) = true -> rooms_free c1 = true -> 1 <= h -> 1 <= w ->
  accepts (mk_env h w) (Grid c1 hw) [pb] 0 ->
  serialize_problem_cu no_custom (Grid c1 hw) pb h w = Ok body ->
  deserialize_problem_cu no_custom (Grid c1 hw) body h w = Ok (Some pb).
Proof.
  intros Hwf Hrf Hh Hw Hacc Hser.
  assert (Henv : env_ok (mk_env h w)) by (split; simpl; lia).
  destruct (all_terms (mk_env h w) Henv (Grid c1 hw) (or_intror Hrf) Hwf) as (Hrt & _).
  unfold serialize_problem_cu in Hser. rewrite cu_env_no_custom in Hser.
  destruct (ser (mk_env h w) (Grid c1 hw) (VList [pb]) 0) as [[[k s]|]|] eqn:Es; try discriminate.
  inversion Hser; subst s. clear Hser.
  assert (Hk : k = 1%nat).
  { simpl in Es. unfold grid_ser in Es. simpl in Es. destruct pb; try discriminate.
    destruct (grid_dims (mk_env h w) hw) as [gh gw].
    destruct (grid_flatten l (Z.to_nat gh) 0); try discriminate.
    apply seq_ser_inv in Es as (_ & _ & _ & _ & Hk & _). exact Hk. }
  subst k.
  destruct (Hrt [pb] 0%nat 1%nat body [] Es Hacc I) as (items & Hde & Hf & Hle & Hex).
  rewrite app_nil_r in Hde.
  assert (Hlen : length items = 1%nat) by (apply Hex; exact I).
  destruct items as [|p0 [|p1 items']]; try discriminate. simpl in Hf. inversion Hf; subst p0.
  unfold deserialize_problem_cu. rewrite cu_env_no_custom, Hde. reflexivity.
Qed.

(* a problem in the shape serialize_<p> expects: h rows of w cells *)
Definition grid_shape (h w : Z) (pb : pv) (rows : list (list pv)) : Prop :=
  pb = VList (map VList rows) /\ Z.of_nat (length rows) = h /\
  Forall (fun r => Z.of_nat (length r) = w) rows.

Definition is_leaf (c : comb) : bool :=
  match c with
  | FixStr _ | Dict _ _ | Spaces _ _ | DecInt | HexInt | IntSpaces _ _ _ | MultiDigit _ _ => true
  | _ => false
  end.

Lemma accepts_leaf e c data p : is_leaf c = true -> accepts e c data p.
Proof. destruct c; simpl; intros H; try discriminate; exact I. Qed.

Lemma accepts_oneof_leaves e l data p : forallb is_leaf l = true -> accepts e (OneOf l) data p.
Proof.
  rewrite accepts_oneof. induction l as [|c l IH]; simpl; intros H; [exact I|].
  apply andb_true_iff in H as [Hc Hl].
  destruct (ser e c (VList data) p) as [[?|]|]; try (apply accepts_leaf; exact Hc).
  apply IH. exact Hl.
Qed.

(* cell combinators of the bundled puzzles: a leaf, or a OneOf of leaves *)
Definition cell_comb (c : comb) : bool :=
  match c with OneOf l => forallb is_leaf l | _ => is_leaf c end.

Lemma accepts_cell e c data p : cell_comb c = true -> accepts e c data p.
Proof.
  destruct c; simpl; intros H; try discriminate; try exact I.
  apply accepts_oneof_leaves. exact H.
Qed.

Lemma accepts_grid_cells h w c1 pb rows :
  cell_comb c1 = true -> grid_shape h w pb rows -> accepts (mk_env h w) (Grid c1 None) [pb] 0.
Proof.
  intros Hc (Hpb & Hh & Hw). simpl. exists rows. subst pb. repeat split; auto.
  intros p. apply accepts_cell. exact Hc.
Qed.

(* the five bundled cell-grid codecs at once: any Grid(<cell combinator>) term that is
   well-formed round-trips every h x w problem it can serialize, through the URL *)
Theorem grid_url_roundtrip sw dw c1 h w pb rows body :
  sw_comb sw = Grid c1 None -> wf (Grid c1 None) = true -> rooms_free c1 = true -> cell_comb c1 = true ->
  wrappers_consistent sw dw -> dw_return_size dw = false ->
  1 <= h -> 1 <= w -> grid_shape h w pb rows ->
  serialize_problem_cu no_custom (sw_comb sw) pb h w = Ok body -> valid_body body ->
  run_ser_problem no_custom sw pb = Ok (make_url default_prefix (sw_puzzle sw) h w body) /\
  run_de no_custom dw (make_url default_prefix (sw_puzzle sw) h w body) = Ok (Some pb).
Proof.
  intros Hc Hwf Hrf Hcell Hcons Hrs Hh Hw Hshape Hser Hb.
  assert (Hde : deserialize_problem_cu no_custom (sw_comb sw) body h w = Ok (Some pb)).
  { rewrite Hc in *. apply grid_body_roundtrip; auto. eapply accepts_grid_cells; eauto. }
  destruct (url_level_roundtrip no_custom sw dw h w pb pb body Hcons) as [H1 H2]; auto; try lia.
  split.
  - destruct Hshape as (Hpb & Hlen & Hrows).
    destruct rows as [|r0 rows']; [simpl in Hlen; lia|].
    assert (Hw0 : Z.of_nat (length r0) = w) by (inversion Hrows; assumption).
    rewrite Hpb in H1 |- *. simpl map in H1 |- *.
    erewrite run_ser_problem_sized by reflexivity.
    simpl length in Hlen |- *. rewrite map_length. rewrite Hlen, Hw0. exact H1.
  - rewrite H2. unfold sized. rewrite Hrs. reflexivity.
Qed.
