(* The reference tokenizer / parser of Backend/SugarReply.v reads back text that
   is built the way the printer builds it (string level, not token level). *)
From Coq Require Import ZArith List Bool String Ascii Lia.
From Cspuz Require Import Backend.SugarText Backend.SugarTextProofs Backend.SugarReply.
Import ListNotations.
Open Scope string_scope.

Definition atomc (c : ascii) : bool :=
  negb (is_blank c) && negb (Ascii.eqb c "(") && negb (Ascii.eqb c ")").
Definition is_atom (a : string) : Prop := all_chars atomc a = true /\ a <> "".
Definition delim_start (s : string) : bool :=
  match s with "" => true | String c _ => negb (atomc c) end.

Lemma tokc_atomc c : tokc c = true -> atomc c = true.
Proof. by_char c. Qed.

Lemma lex_atom_run a : forall cur rest,
  all_chars atomc a = true -> lex cur (a ++ rest) = lex (cur ++ a) rest.
Proof.
  induction a as [|c a IH]; intros cur rest H; simpl.
  - rewrite app_nil_r_s. reflexivity.
  - simpl in H. apply andb_true_iff in H as [Hc Ha].
    unfold atomc in Hc. apply andb_true_iff in Hc as [Hc H3]. apply andb_true_iff in Hc as [H1 H2].
    apply negb_true_iff in H1, H2, H3. rewrite H1, H2, H3.
    rewrite (IH _ _ Ha). rewrite app_assoc_s. reflexivity.
Qed.

Lemma lex_delim cur rest : delim_start rest = true -> lex cur rest = emit_atom cur (lex "" rest).
Proof.
  destruct rest as [|c r]; simpl; intros H.
  - destruct cur; reflexivity.
  - unfold atomc in H. apply negb_true_iff in H.
    destruct (is_blank c); [reflexivity|].
    destruct (Ascii.eqb c "("); [reflexivity|].
    destruct (Ascii.eqb c ")"); [reflexivity|]. discriminate.
Qed.

Lemma lex_atom a rest : is_atom a -> delim_start rest = true -> lex "" (a ++ rest) = TAtom a :: lex "" rest.
Proof.
  intros [Ha Hne] Hd. rewrite lex_atom_run by assumption. simpl.
  rewrite lex_delim by assumption. destruct a; [congruence|reflexivity].
Qed.

Lemma lex_blank c r : is_blank c = true -> lex "" (String c r) = lex "" r.
Proof. intros H; simpl; rewrite H; reflexivity. Qed.

(* [s] is read as exactly the expression [x], whatever surrounds it *)
Definition reads_as (s : string) (x : sexp) : Prop :=
  forall stack cur rest, delim_start rest = true ->
    parse_stack stack cur (lex "" (s ++ rest)) = parse_stack stack (x :: cur) (lex "" rest).

Lemma reads_atom a : is_atom a -> reads_as a (SAtom a).
Proof. intros Ha stack cur rest Hd. rewrite lex_atom by assumption. reflexivity. Qed.

Lemma reads_seq d parts xs :
  is_blank d = true -> Forall2 reads_as parts xs ->
  forall stack cur rest, delim_start rest = true ->
    parse_stack stack cur (lex "" (join (String d "") parts ++ rest))
    = parse_stack stack (rev xs ++ cur) (lex "" rest).
Proof.
  intros Hb H; induction H as [|p x ps xs' Hp Hps IH]; intros stack cur rest Hd.
  - reflexivity.
  - simpl join. destruct ps as [|q r].
    + inversion Hps; subst. simpl. apply Hp; assumption.
    + rewrite !app_assoc_s. simpl append.
      rewrite Hp by (simpl; unfold atomc; rewrite Hb; reflexivity).
      rewrite lex_blank by assumption.
      rewrite IH by assumption. simpl rev. rewrite <- app_assoc. reflexivity.
Qed.

Lemma lex_lp r : lex "" (String "(" r) = TLP :: lex "" r.
Proof. reflexivity. Qed.
Lemma lex_rp r : lex "" (String ")" r) = TRP :: lex "" r.
Proof. reflexivity. Qed.
Lemma parse_lp st cur r : parse_stack st cur (TLP :: r) = parse_stack (cur :: st) [] r.
Proof. reflexivity. Qed.
Lemma parse_rp st top cur r : parse_stack (top :: st) cur (TRP :: r) = parse_stack st (SList (rev cur) :: top) r.
Proof. reflexivity. Qed.
Lemma parse_at st cur a r : parse_stack st cur (TAtom a :: r) = parse_stack st (SAtom a :: cur) r.
Proof. reflexivity. Qed.

Lemma reads_node name parts xs :
  is_atom name -> Forall2 reads_as parts xs ->
  reads_as ("(" ++ name ++ " " ++ join " " parts ++ ")") (SList (SAtom name :: xs)).
Proof.
  intros Hn Hp stack cur rest Hd.
  rewrite !app_assoc_s. simpl append.
  rewrite lex_lp, parse_lp.
  rewrite lex_atom by (auto; reflexivity).
  rewrite parse_at, lex_blank by reflexivity.
  rewrite (reads_seq " "%char parts xs eq_refl Hp) by reflexivity.
  rewrite lex_rp, parse_rp. rewrite rev_app_distr, rev_involutive. reflexivity.
Qed.

Lemma reads_parse s x : reads_as s x -> sx_parse s = Some x.
Proof.
  intros H. unfold sx_parse, sx_parse_all.
  specialize (H [] [] "" eq_refl). rewrite app_nil_r_s in H. rewrite H. reflexivity.
Qed.

Lemma reads_file lines xs :
  Forall2 reads_as lines xs -> sx_parse_all (join s_nl lines) = Some xs.
Proof.
  intros H. unfold sx_parse_all.
  pose proof (reads_seq ch_nl lines xs eq_refl H [] [] "" eq_refl) as E.
  rewrite app_nil_r_s in E. unfold s_nl. rewrite E. simpl. rewrite app_nil_r, rev_involutive. reflexivity.
Qed.
