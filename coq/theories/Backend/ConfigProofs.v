(* C20 — the decision-table statements (parameterised by the tables) and their proofs for the
   tables the property prescribes ([expected_tables]).  Backend/ConfigGenProofs.v proves that the
   tables generated from /repo are these tables and transfers every statement. *)
From Coq Require Import String Ascii List Bool Arith.
From Cspuz Require Import Lib.PyErr Backend.Config.
Import ListNotations.
Local Open Scope string_scope.
Local Open Scope res_scope.

(* ------------------------------------------------------------------ the prescribed tables *)

(* configuration / dispatch part: prescribed by the property; graph part: a parameter *)
Definition with_graph (gs : list site) (gc : list callrec) (ge : list emitrec) (gr : list raiserec) : tables := {|
  t_backends := [("sugar", "sugar_like.SugarBackend"); ("sugar_extended", "sugar_like.SugarExtendedBackend");
                 ("z3", "z3.Z3Backend"); ("csugar", "sugar_like.CSugarBackend");
                 ("enigma_csp", "sugar_like.EnigmaCSPBackend"); ("cspuz_core", "sugar_like.CspuzCoreBackend")];
  t_detect := [("cspuz_core", "cspuz_core"); ("enigma_csp", "enigma_csp"); ("pycsugar", "csugar"); ("z3", "z3")];
  t_detect_fallback := "sugar";
  t_env_backend := "CSPUZ_DEFAULT_BACKEND";
  t_backend_default := "auto";
  t_auto := "auto";
  t_env_path := "CSPUZ_BACKEND_PATH";
  t_env_prim := "CSPUZ_USE_GRAPH_PRIMITIVE";
  t_env_div := "CSPUZ_USE_GRAPH_DIVISION_PRIMITIVE";
  t_prim_on := ["csugar"; "enigma_csp"; "cspuz_core"];
  t_div_on := ["enigma_csp"; "cspuz_core"];
  t_on_str := "True";
  t_off_str := "False";
  t_true := ["true"; "1"];
  t_false := ["false"; "0"];
  t_entries := [("sugar_like.SugarBackend", EntrySubprocess "sugar");
                ("sugar_like.SugarExtendedBackend", EntrySubprocess "sugar");
                ("z3.Z3Backend", EntryModule "z3");
                ("sugar_like.CSugarBackend", EntryModule "pycsugar");
                ("sugar_like.EnigmaCSPBackend", EntryModule "enigma_csp");
                ("sugar_like.CspuzCoreBackend", EntryModule "cspuz_core")];
  t_sites := gs;
  t_calls := gc;
  t_emits := ge;
  t_raises := gr
|}.

(* the decision structure of graph.py as it is today (used for the fallback of the translator;
   the graph theorems are proved about the generated tables themselves, by computation) *)
Definition expected_sites : list site := [mk_site "_active_vertices_connected" FlagPrim true;
              mk_site "_division_connected" FlagPrim false;
              mk_site "_division_connected_variable_groups_with_borders" FlagDiv false;
              mk_site "_active_edges_single_cycle" FlagPrim false;
              mk_site "_active_edges_single_path" FlagPrim false].
Definition expected_calls : list callrec := [mk_call "active_vertices_connected" BrTop VAny "_active_vertices_connected" ArgPass AcyPass true false;
              mk_call "active_vertices_not_adjacent_and_not_segmenting" BrTop VInferred "active_vertices_connected" ArgOmitted (AcyConst false) false true;
              mk_call "active_vertices_not_adjacent_and_not_segmenting" BrTop VExplicit "active_vertices_connected" ArgOmitted (AcyConst false) true false;
              mk_call "_division_connected" BrPrim VAny "_active_vertices_connected" (ArgConst true) (AcyConst false) true false;
              mk_call "division_connected" BrTop VInferred "_division_connected" ArgOmitted (AcyConst false) true false;
              mk_call "division_connected" BrTop VExplicit "_division_connected" ArgOmitted (AcyConst false) true false;
              mk_call "division_connected_variable_groups_with_borders" BrTop VInferred "_division_connected_variable_groups_with_borders" ArgPass (AcyConst false) true false;
              mk_call "division_connected_variable_groups_with_borders" BrTop VExplicit "_division_connected_variable_groups_with_borders" ArgPass (AcyConst false) true false;
              mk_call "_active_edges_single_cycle" BrPrim VAny "_active_vertices_connected" (ArgConst true) (AcyConst false) true false;
              mk_call "active_edges_single_cycle" BrTop VInferred "_active_edges_single_cycle" ArgPass (AcyConst false) true false;
              mk_call "active_edges_single_cycle" BrTop VExplicit "_active_edges_single_cycle" ArgPass (AcyConst false) true false;
              mk_call "_active_edges_single_path" BrPrim VAny "_active_vertices_connected" (ArgConst true) (AcyConst false) true false;
              mk_call "active_edges_single_path" BrTop VInferred "_active_edges_single_path" ArgPass (AcyConst false) true false;
              mk_call "active_edges_single_path" BrTop VExplicit "_active_edges_single_path" ArgPass (AcyConst false) true false;
              mk_call "active_edges_connected_crossable" BrTop VAny "active_vertices_connected" ArgPass (AcyConst false) true false;
              mk_call "active_edges_single_cycle_crossable" BrTop VAny "active_edges_connected_crossable" ArgPass (AcyConst false) false false].
Definition expected_emits : list emitrec := [mk_emit "_active_vertices_connected" BrPrim OpAVC;
              mk_emit "_division_connected_variable_groups_with_borders" BrPrim OpDIV].
Definition expected_raises : list raiserec := [mk_raise "_active_edges_single_path" BrElse "RuntimeError"].

Definition expected_tables : tables :=
  with_graph expected_sites expected_calls expected_emits expected_raises.


(* ------------------------------------------------------------------ specification vocabulary *)

(* all spellings of a lower-case word that differ only in the case of its letters *)
Definition upper_ascii (a : ascii) : ascii :=
  let n := nat_of_ascii a in
  if Nat.leb 97 n && Nat.leb n 122 then ascii_of_nat (n - 32) else a.

Definition char_variants (a : ascii) : list ascii :=
  if Ascii.eqb (upper_ascii a) a then [a] else [a; upper_ascii a].

Fixpoint case_variants (t : string) : list string :=
  match t with
  | EmptyString => [EmptyString]
  | String a r => flat_map (fun x => map (fun c => String c x) (char_variants a)) (case_variants r)
  end.

Definition true_spellings : list string := "1" :: case_variants "true".
Definition false_spellings : list string := "0" :: case_variants "false".

(* the boolean a textual setting denotes; anything else is rejected *)
Definition strict_bool (s : string) : res bool :=
  if mem s true_spellings then Ok true
  else if mem s false_spellings then Ok false
  else Err ValueError.

(* an explicit argument wins over the configuration flag *)
Definition want (arg : option bool) (flag : bool) : bool :=
  match arg with Some b => b | None => flag end.

Definition auto_order (avail : string -> bool) : string :=
  if avail "cspuz_core" then "cspuz_core"
  else if avail "enigma_csp" then "enigma_csp"
  else if avail "pycsugar" then "csugar"
  else if avail "z3" then "z3"
  else "sugar".

Definition configured_backend (env : string -> option string) (avail : string -> bool) : string :=
  match env "CSPUZ_DEFAULT_BACKEND" with
  | None => auto_order avail
  | Some s => if s =? "auto" then auto_order avail else s
  end.

Definition known_backends : list (string * string) :=
  [("sugar", "sugar_like.SugarBackend"); ("sugar_extended", "sugar_like.SugarExtendedBackend");
   ("z3", "z3.Z3Backend"); ("csugar", "sugar_like.CSugarBackend");
   ("enigma_csp", "sugar_like.EnigmaCSPBackend"); ("cspuz_core", "sugar_like.CspuzCoreBackend")].

Definition sugar_argv0 (cfg : config) : string :=
  match backend_path cfg with
  | Some p => if p =? "" then "sugar" else p
  | None => "sugar"
  end.

(* ------------------------------------------------------------------ statements *)

Definition detect_order_stmt (T : tables) : Prop :=
  forall avail, detect_backend T avail = auto_order avail.

Definition strtobool_strict_stmt (T : tables) : Prop :=
  forall s, strtobool T s = strict_bool s.

Definition config_of_env_stmt (T : tables) : Prop :=
  forall env avail,
    config_of_env T true env avail =
    (let db := configured_backend env avail in
     let* p := match env "CSPUZ_USE_GRAPH_PRIMITIVE" with
               | Some s => strict_bool s
               | None => Ok (mem db ["csugar"; "enigma_csp"; "cspuz_core"])
               end in
     let* d := match env "CSPUZ_USE_GRAPH_DIVISION_PRIMITIVE" with
               | Some s => strict_bool s
               | None => Ok (mem db ["enigma_csp"; "cspuz_core"])
               end in
     Ok (mk_config db (env "CSPUZ_BACKEND_PATH") p d)).

Definition config_no_env_stmt (T : tables) : Prop :=
  forall env avail,
    config_of_env T false env avail =
    Ok (mk_config (auto_order avail) None
                  (mem (auto_order avail) ["csugar"; "enigma_csp"; "cspuz_core"])
                  (mem (auto_order avail) ["enigma_csp"; "cspuz_core"])).

Definition default_backend_env_stmt (T : tables) : Prop :=
  forall env avail cfg, config_of_env T true env avail = Ok cfg ->
    default_backend cfg = configured_backend env avail.

Definition primitive_default_stmt (T : tables) : Prop :=
  forall env avail cfg, config_of_env T true env avail = Ok cfg ->
    (env "CSPUZ_USE_GRAPH_PRIMITIVE" = None ->
       use_graph_primitive cfg = mem (default_backend cfg) ["csugar"; "enigma_csp"; "cspuz_core"]) /\
    (env "CSPUZ_USE_GRAPH_DIVISION_PRIMITIVE" = None ->
       use_graph_division_primitive cfg = mem (default_backend cfg) ["enigma_csp"; "cspuz_core"]).

Definition env_override_strict_stmt (T : tables) : Prop :=
  forall env avail,
    (forall s, env "CSPUZ_USE_GRAPH_PRIMITIVE" = Some s ->
       match config_of_env T true env avail with
       | Ok cfg => strict_bool s = Ok (use_graph_primitive cfg)
       | Err e => e = ValueError /\
                  (strict_bool s = Err ValueError \/
                   exists s', env "CSPUZ_USE_GRAPH_DIVISION_PRIMITIVE" = Some s' /\ strict_bool s' = Err ValueError)
       end) /\
    (forall s, env "CSPUZ_USE_GRAPH_DIVISION_PRIMITIVE" = Some s ->
       match config_of_env T true env avail with
       | Ok cfg => strict_bool s = Ok (use_graph_division_primitive cfg)
       | Err e => e = ValueError /\
                  (strict_bool s = Err ValueError \/
                   exists s', env "CSPUZ_USE_GRAPH_PRIMITIVE" = Some s' /\ strict_bool s' = Err ValueError)
       end) /\
    (* and nothing else makes the construction fail *)
    (env "CSPUZ_USE_GRAPH_PRIMITIVE" = None -> env "CSPUZ_USE_GRAPH_DIVISION_PRIMITIVE" = None ->
       exists cfg, config_of_env T true env avail = Ok cfg).

Definition unknown_backend_rejected_stmt (T : tables) : Prop :=
  forall name,
    (forall cls, backend_by_name T name = Ok cls <-> In (name, cls) known_backends) /\
    (~ In name (map fst known_backends) -> backend_by_name T name = Err ValueError).

Definition call_argument_wins_stmt (T : tables) : Prop :=
  forall cfg,
    (forall name, get_backend T (BName name) cfg = rmap ClsNamed (backend_by_name T name)) /\
    (forall id, get_backend T (BClass id) cfg = Ok (ClsUser id)) /\
    get_backend T BNone cfg = rmap ClsNamed (backend_by_name T (default_backend cfg)).

Definition solve_receiver_stmt (T : tables) : Prop :=
  forall cfg,
    solve_receiver T (BName "sugar") cfg = Ok (ClsNamed "sugar_like.SugarBackend", CallSubprocess (sugar_argv0 cfg)) /\
    solve_receiver T (BName "sugar_extended") cfg = Ok (ClsNamed "sugar_like.SugarExtendedBackend", CallSubprocess (sugar_argv0 cfg)) /\
    solve_receiver T (BName "z3") cfg = Ok (ClsNamed "z3.Z3Backend", CallModule "z3") /\
    solve_receiver T (BName "csugar") cfg = Ok (ClsNamed "sugar_like.CSugarBackend", CallModule "pycsugar") /\
    solve_receiver T (BName "enigma_csp") cfg = Ok (ClsNamed "sugar_like.EnigmaCSPBackend", CallModule "enigma_csp") /\
    solve_receiver T (BName "cspuz_core") cfg = Ok (ClsNamed "sugar_like.CspuzCoreBackend", CallModule "cspuz_core") /\
    (forall id, solve_receiver T (BClass id) cfg = Ok (ClsUser id, CallUser id)) /\
    (forall name, ~ In name (map fst known_backends) -> solve_receiver T (BName name) cfg = Err ValueError) /\
    solve_receiver T BNone cfg = solve_receiver T (BName (default_backend cfg)) cfg.

(* auto-detection never selects a backend whose module cannot be imported *)
Definition auto_detected_importable_stmt (T : tables) : Prop :=
  forall env avail cfg,
    config_of_env T true env avail = Ok cfg ->
    (env "CSPUZ_DEFAULT_BACKEND" = None \/ env "CSPUZ_DEFAULT_BACKEND" = Some "auto") ->
    (exists cls m, solve_receiver T BNone cfg = Ok (cls, CallModule m) /\ avail m = true) \/
    (avail "cspuz_core" = false /\ avail "enigma_csp" = false /\ avail "pycsugar" = false /\ avail "z3" = false /\
     solve_receiver T BNone cfg = Ok (ClsNamed "sugar_like.SugarBackend", CallSubprocess (sugar_argv0 cfg))).

(* graph helpers: the native operators a call posts *)
Definition primitive_decision_stmt (T : tables) : Prop :=
  forall cfg arg acyclic explicit dd,
    let p := use_graph_primitive cfg in
    let d := use_graph_division_primitive cfg in
    emits T "active_vertices_connected" cfg arg acyclic explicit dd
      = Ok (if want arg p && negb acyclic then [OpAVC] else []) /\
    emits T "active_edges_single_cycle" cfg arg acyclic explicit dd
      = Ok (if want arg p then [OpAVC] else []) /\
    emits T "active_edges_single_path" cfg arg acyclic explicit dd
      = (if want arg p then Ok [OpAVC] else Err OtherError) /\
    emits T "active_edges_connected_crossable" cfg arg acyclic explicit dd
      = Ok (if want arg p then [OpAVC] else []) /\
    emits T "active_edges_single_cycle_crossable" cfg arg acyclic explicit dd
      = Ok (if want arg p then [OpAVC] else []) /\
    emits T "division_connected_variable_groups_with_borders" cfg arg acyclic explicit dd
      = Ok (if want arg d then [OpDIV] else []) /\
    (* helpers without a use_graph_primitive parameter: the configuration alone decides *)
    emits T "division_connected" cfg None acyclic explicit dd
      = Ok (if p then [OpAVC] else []) /\
    emits T "active_vertices_not_adjacent_and_not_segmenting" cfg None acyclic true dd
      = Ok (if p then [OpAVC] else []) /\
    (* no decision and no native operator at all *)
    (* on a 2-D array: single-row / single-column boards go through active_vertices_connected,
       larger boards use the diagonal-chain encoding, which has no decision (documented TODO) *)
    emits T "active_vertices_not_adjacent_and_not_segmenting" cfg None acyclic false true
      = Ok (if p then [OpAVC] else []) /\
    emits T "active_vertices_not_adjacent_and_not_segmenting" cfg None acyclic false false = Ok [] /\
    emits T "division_connected_variable_groups" cfg arg acyclic explicit dd = Ok [] /\
    emits T "active_edges_acyclic" cfg arg acyclic explicit dd = Ok [] /\
    emits T "active_vertices_not_adjacent" cfg arg acyclic explicit dd = Ok [].

Definition acyclic_never_primitive_stmt (T : tables) : Prop :=
  forall cfg arg explicit dd,
    emits T "active_vertices_connected" cfg arg true explicit dd = Ok [] /\
    emits T "_active_vertices_connected" cfg arg true explicit dd = Ok [] /\
    resolve_primitive T "_active_vertices_connected" cfg arg true = Some false /\
    (* and acyclic=True is never manufactured by another helper *)
    (forall c, In c (t_calls T) -> c_acy c = AcyPass \/ c_acy c = AcyConst false).

Definition site_decisions_stmt (T : tables) : Prop :=
  forall cfg arg acyclic,
    resolve_primitive T "_active_vertices_connected" cfg arg acyclic
      = Some (want arg (use_graph_primitive cfg) && negb acyclic) /\
    resolve_primitive T "_division_connected" cfg arg acyclic = Some (want arg (use_graph_primitive cfg)) /\
    resolve_primitive T "_active_edges_single_cycle" cfg arg acyclic = Some (want arg (use_graph_primitive cfg)) /\
    resolve_primitive T "_active_edges_single_path" cfg arg acyclic = Some (want arg (use_graph_primitive cfg)) /\
    resolve_primitive T "_division_connected_variable_groups_with_borders" cfg arg acyclic
      = Some (want arg (use_graph_division_primitive cfg)) /\
    map s_fn (t_sites T) = ["_active_vertices_connected"; "_division_connected";
                            "_division_connected_variable_groups_with_borders";
                            "_active_edges_single_cycle"; "_active_edges_single_path"] /\
    map (fun e => (e_fn e, e_op e)) (t_emits T)
      = [("_active_vertices_connected", OpAVC); ("_division_connected_variable_groups_with_borders", OpDIV)].

(* ------------------------------------------------------------------ proofs: strings *)

Section ConfigPart.
Variables (gs : list site) (gc : list callrec) (ge : list emitrec) (gr : list raiserec).
Notation E := (with_graph gs gc ge gr).

Definition needed_chars : list ascii :=
  ["t"; "r"; "u"; "e"; "f"; "a"; "l"; "s"; "1"; "0"]%char.

Lemma char_variants_spec :
  Forall (fun a => forall c, Ascii.eqb (lower_ascii c) a = existsb (Ascii.eqb c) (char_variants a)) needed_chars.
Proof.
  repeat constructor; intros c;
    destruct c as [[|] [|] [|] [|] [|] [|] [|] [|]]; reflexivity.
Qed.

Fixpoint chars_of (s : string) : list ascii :=
  match s with EmptyString => [] | String c r => c :: chars_of r end.

Lemma mem_map_cons (vs : list ascii) c s x :
  existsb (String.eqb (String c s)) (map (fun c0 => String c0 x) vs)
  = existsb (Ascii.eqb c) vs && (s =? x).
Proof.
  induction vs as [|y ys IHy]; [reflexivity|].
  cbn [map existsb]. rewrite IHy. cbn [String.eqb].
  destruct (Ascii.eqb c y); [|reflexivity].
  destruct (s =? x); [reflexivity|]. rewrite andb_false_r. reflexivity.
Qed.

Lemma mem_flat_map_cons_gen (vs : list ascii) (l : list string) c s :
  mem (String c s) (flat_map (fun x => map (fun c0 => String c0 x) vs) l)
  = existsb (Ascii.eqb c) vs && mem s l.
Proof.
  unfold mem. induction l as [|x l IH].
  - cbn [flat_map existsb]. rewrite andb_false_r; reflexivity.
  - cbn [flat_map]. rewrite existsb_app, IH, mem_map_cons. cbn [existsb].
    destruct (existsb (Ascii.eqb c) vs); reflexivity.
Qed.

Lemma mem_flat_map_cons a (l : list string) c s :
  mem (String c s) (flat_map (fun x => map (fun c0 => String c0 x) (char_variants a)) l)
  = existsb (Ascii.eqb c) (char_variants a) && mem s l.
Proof. apply mem_flat_map_cons_gen. Qed.

Lemma mem_empty_map (vs : list ascii) x :
  existsb (String.eqb "") (map (fun c0 => String c0 x) vs) = false.
Proof. induction vs as [|y ys IHy]; [reflexivity|]. cbn [map existsb]. rewrite IHy. reflexivity. Qed.

Lemma mem_empty_flat_map_gen (vs : list ascii) (l : list string) :
  mem "" (flat_map (fun x => map (fun c0 => String c0 x) vs) l) = false.
Proof.
  unfold mem. induction l as [|x l IH]; [reflexivity|].
  cbn [flat_map]. rewrite existsb_app, IH, orb_false_r. apply mem_empty_map.
Qed.

Lemma mem_empty_flat_map a (l : list string) :
  mem "" (flat_map (fun x => map (fun c0 => String c0 x) (char_variants a)) l) = false.
Proof. apply mem_empty_flat_map_gen. Qed.

Lemma lower_eqb_variants t :
  Forall (fun a => In a needed_chars) (chars_of t) ->
  forall s, (lower s =? t) = mem s (case_variants t).
Proof.
  induction t as [|a t IH]; simpl; intros Hn s.
  - destruct s; reflexivity.
  - inversion Hn as [|? ? Ha Ht]; subst.
    destruct s as [|c s]; simpl.
    + rewrite mem_empty_flat_map; reflexivity.
    + rewrite mem_flat_map_cons, <- (IH Ht s).
      pose proof char_variants_spec as CV. rewrite Forall_forall in CV.
      rewrite <- (CV a Ha c).
      destruct (Ascii.eqb (lower_ascii c) a); reflexivity.
Qed.

Lemma strtobool_strict_E : strtobool_strict_stmt E.
Proof.
  intros s. unfold strtobool, strict_bool, true_spellings, false_spellings. simpl t_true; simpl t_false.
  assert (Ht : (lower s =? "true") = mem s (case_variants "true"))
    by (apply lower_eqb_variants; repeat constructor; simpl; tauto).
  assert (Hf : (lower s =? "false") = mem s (case_variants "false"))
    by (apply lower_eqb_variants; repeat constructor; simpl; tauto).
  assert (H1 : (lower s =? "1") = (s =? "1")).
  { rewrite (lower_eqb_variants "1") by (repeat constructor; simpl; tauto).
    unfold mem; simpl. rewrite orb_false_r; reflexivity. }
  assert (H0 : (lower s =? "0") = (s =? "0")).
  { rewrite (lower_eqb_variants "0") by (repeat constructor; simpl; tauto).
    unfold mem; simpl. rewrite orb_false_r; reflexivity. }
  assert (Mt : mem (lower s) ["true"; "1"] = mem s ("1" :: case_variants "true")).
  { unfold mem at 1. simpl existsb. rewrite Ht, H1, orb_false_r.
    change (mem s ("1" :: case_variants "true")) with ((s =? "1") || mem s (case_variants "true")).
    apply orb_comm. }
  assert (Mf : mem (lower s) ["false"; "0"] = mem s ("0" :: case_variants "false")).
  { unfold mem at 1. simpl existsb. rewrite Hf, H0, orb_false_r.
    change (mem s ("0" :: case_variants "false")) with ((s =? "0") || mem s (case_variants "false")).
    apply orb_comm. }
  rewrite Mt, Mf. reflexivity.
Qed.

(* ------------------------------------------------------------------ proofs: configuration *)

Lemma detect_order_E : detect_order_stmt E.
Proof. intros avail. reflexivity. Qed.

Lemma strict_True : strict_bool "True" = Ok true.
Proof. reflexivity. Qed.
Lemma strict_False : strict_bool "False" = Ok false.
Proof. reflexivity. Qed.

Lemma config_of_env_E : config_of_env_stmt E.
Proof.
  intros env avail. unfold config_of_env, get_default, or_default, configured_backend.
  simpl t_env_backend; simpl t_backend_default; simpl t_auto; simpl t_env_path; simpl t_env_prim;
    simpl t_env_div; simpl t_prim_on; simpl t_div_on; simpl t_on_str; simpl t_off_str.
  rewrite (detect_order_E avail).
  set (db := match env "CSPUZ_DEFAULT_BACKEND" with
             | Some s => if s =? "auto" then auto_order avail else s
             | None => auto_order avail end).
  assert (Hdb : (if match env "CSPUZ_DEFAULT_BACKEND" with Some s => s | None => "auto" end =? "auto"
                 then auto_order avail
                 else match env "CSPUZ_DEFAULT_BACKEND" with Some s => s | None => "auto" end) = db).
  { unfold db. destruct (env "CSPUZ_DEFAULT_BACKEND") as [s|]; reflexivity. }
  rewrite Hdb.
  destruct (env "CSPUZ_USE_GRAPH_PRIMITIVE") as [sp|];
    destruct (env "CSPUZ_USE_GRAPH_DIVISION_PRIMITIVE") as [sd|];
    rewrite ?strtobool_strict_E;
    destruct (mem db ["csugar"; "enigma_csp"; "cspuz_core"]);
    destruct (mem db ["enigma_csp"; "cspuz_core"]);
    rewrite ?strict_True, ?strict_False; reflexivity.
Qed.

Lemma config_no_env_E : config_no_env_stmt E.
Proof.
  intros env avail. unfold config_of_env, get_default, or_default.
  simpl t_backend_default; simpl t_auto; simpl t_prim_on; simpl t_div_on; simpl t_on_str; simpl t_off_str.
  change ("auto" =? "auto") with true. cbv iota.
  rewrite (detect_order_E avail).
  destruct (mem (auto_order avail) ["csugar"; "enigma_csp"; "cspuz_core"]);
    destruct (mem (auto_order avail) ["enigma_csp"; "cspuz_core"]);
    rewrite ?strtobool_strict_E, ?strict_True, ?strict_False; reflexivity.
Qed.

Lemma default_backend_env_E : default_backend_env_stmt E.
Proof.
  intros env avail cfg. rewrite config_of_env_E. cbv zeta.
  destruct (match env "CSPUZ_USE_GRAPH_PRIMITIVE" with Some s => strict_bool s | None => _ end); simpl; [|discriminate].
  destruct (match env "CSPUZ_USE_GRAPH_DIVISION_PRIMITIVE" with Some s => strict_bool s | None => _ end); simpl; [|discriminate].
  intros H; inversion H; reflexivity.
Qed.

Lemma primitive_default_E : primitive_default_stmt E.
Proof.
  intros env avail cfg. rewrite config_of_env_E. cbv zeta. intros H. split; intros Hn; rewrite Hn in H.
  - simpl in H.
    destruct (match env "CSPUZ_USE_GRAPH_DIVISION_PRIMITIVE" with Some s => strict_bool s | None => _ end); simpl in H; [|discriminate].
    inversion H; reflexivity.
  - destruct (match env "CSPUZ_USE_GRAPH_PRIMITIVE" with Some s => strict_bool s | None => _ end); simpl in H; [|discriminate].
    inversion H; reflexivity.
Qed.

Lemma strict_bool_err s e : strict_bool s = Err e -> e = ValueError.
Proof.
  unfold strict_bool. destruct (mem s true_spellings); [discriminate|].
  destruct (mem s false_spellings); [discriminate|]. intros H; inversion H; reflexivity.
Qed.

Lemma env_override_strict_E : env_override_strict_stmt E.
Proof.
  intros env avail. rewrite config_of_env_E. cbv zeta. repeat split.
  - intros s Hs. rewrite Hs.
    destruct (strict_bool s) as [b|e] eqn:Eb; simpl.
    + destruct (env "CSPUZ_USE_GRAPH_DIVISION_PRIMITIVE") as [s'|]; simpl.
      * destruct (strict_bool s') as [b'|e'] eqn:Eb'; simpl; [reflexivity|].
        split; [eapply strict_bool_err; eauto|].
        right. exists s'. split; [reflexivity|]. rewrite Eb'. f_equal. eapply strict_bool_err; eauto.
      * reflexivity.
    + split; [eapply strict_bool_err; eauto|]. left. f_equal. eapply strict_bool_err; eauto.
  - intros s Hs. rewrite Hs.
    destruct (env "CSPUZ_USE_GRAPH_PRIMITIVE") as [s'|]; simpl.
    + destruct (strict_bool s') as [b'|e'] eqn:Eb'; simpl.
      * destruct (strict_bool s) as [b|e] eqn:Eb; simpl; [reflexivity|].
        split; [eapply strict_bool_err; eauto|]. left. f_equal. eapply strict_bool_err; eauto.
      * split; [eapply strict_bool_err; eauto|].
        right. exists s'. split; [reflexivity|]. rewrite Eb'. f_equal. eapply strict_bool_err; eauto.
    + destruct (strict_bool s) as [b|e] eqn:Eb; simpl; [reflexivity|].
      split; [eapply strict_bool_err; eauto|]. left. f_equal. eapply strict_bool_err; eauto.
  - intros H1 H2. rewrite H1, H2. simpl. eexists; reflexivity.
Qed.

(* ------------------------------------------------------------------ proofs: backend dispatch *)

Lemma backend_by_name_cases name :
  backend_by_name E name =
  if name =? "sugar" then Ok "sugar_like.SugarBackend"
  else if name =? "sugar_extended" then Ok "sugar_like.SugarExtendedBackend"
  else if name =? "z3" then Ok "z3.Z3Backend"
  else if name =? "csugar" then Ok "sugar_like.CSugarBackend"
  else if name =? "enigma_csp" then Ok "sugar_like.EnigmaCSPBackend"
  else if name =? "cspuz_core" then Ok "sugar_like.CspuzCoreBackend"
  else Err ValueError.
Proof.
  unfold backend_by_name. simpl.
  repeat match goal with |- context [?a =? ?b] => destruct (a =? b); [reflexivity|] end.
  reflexivity.
Qed.

Lemma unknown_backend_rejected_E : unknown_backend_rejected_stmt E.
Proof.
  intros name. split.
  - intros cls. rewrite backend_by_name_cases. unfold known_backends.
    repeat match goal with
           | |- context [name =? ?b] => destruct (String.eqb_spec name b) as [->|?]
           end;
      (split; [intros H; inversion H; subst; simpl; tauto|]);
      simpl; intros H;
      repeat match goal with
             | H : _ \/ _ |- _ => destruct H as [H|H]
             | H : (_, _) = (_, _) |- _ => inversion H; clear H; subst
             | H : False |- _ => destruct H
             end; try reflexivity; try congruence; try discriminate.
  - simpl. intros Hn. rewrite backend_by_name_cases.
    repeat match goal with
           | |- context [name =? ?b] => destruct (String.eqb_spec name b) as [->|?]; [exfalso; apply Hn; tauto|]
           end.
    reflexivity.
Qed.

Lemma call_argument_wins_E : call_argument_wins_stmt E.
Proof. intros cfg. repeat split. Qed.

Lemma solve_receiver_E : solve_receiver_stmt E.
Proof.
  intros cfg. repeat split.
  - intros name Hn. unfold solve_receiver, get_backend.
    rewrite (proj2 (unknown_backend_rejected_E name) Hn). reflexivity.
Qed.

Lemma auto_detected_importable_E : auto_detected_importable_stmt E.
Proof.
  intros env avail cfg Hc Hauto.
  pose proof (default_backend_env_E env avail cfg Hc) as Hdb.
  assert (Hd : default_backend cfg = auto_order avail).
  { rewrite Hdb. unfold configured_backend. destruct Hauto as [-> | ->]; reflexivity. }
  destruct cfg as [db bp p d]. simpl in Hd. subst db. unfold auto_order.
  destruct (avail "cspuz_core") eqn:A1.
  { left. exists (ClsNamed "sugar_like.CspuzCoreBackend"), "cspuz_core". split; [reflexivity|exact A1]. }
  destruct (avail "enigma_csp") eqn:A2.
  { left. exists (ClsNamed "sugar_like.EnigmaCSPBackend"), "enigma_csp". split; [reflexivity|exact A2]. }
  destruct (avail "pycsugar") eqn:A3.
  { left. exists (ClsNamed "sugar_like.CSugarBackend"), "pycsugar". split; [reflexivity|exact A3]. }
  destruct (avail "z3") eqn:A4.
  { left. exists (ClsNamed "z3.Z3Backend"), "z3". split; [reflexivity|exact A4]. }
  right. repeat split.
Qed.

End ConfigPart.

(* ------------------------------------------------------------------ sanity examples *)

Example true_spellings_length : length true_spellings = 17. Proof. reflexivity. Qed.
Example false_spellings_length : length false_spellings = 33. Proof. reflexivity. Qed.
Example case_variants_true :
  case_variants "true" =
  ["true"; "True"; "tRue"; "TRue"; "trUe"; "TrUe"; "tRUe"; "TRUe";
   "truE"; "TruE"; "tRuE"; "TRuE"; "trUE"; "TrUE"; "tRUE"; "TRUE"].
Proof. reflexivity. Qed.
Example strict_yes : strict_bool "yes" = Err ValueError. Proof. reflexivity. Qed.
Example strict_empty : strict_bool "" = Err ValueError. Proof. reflexivity. Qed.
Example strict_padded : strict_bool " true" = Err ValueError. Proof. reflexivity. Qed.
