Require Extraction.
Require Import ExtrOcamlBasic.
From Coq Require Import ZArith List.
(* fully qualified names (and a blank before the final period): harness/vlib.py::build_runner
   finds the model files to hash / build by scanning for "Cspuz.<Module>" *)
Require Import Cspuz.Lib.PyErr Cspuz.Core.Expr Cspuz.Core.Program Cspuz.Core.Build Cspuz.Gen.Z3Table Cspuz.Backend.Z3 Cspuz.Backend.Z3Oracle Cspuz.Backend.Z3Check Cspuz.Gen.Z3SolveTable Cspuz.Backend.Z3Verdict .
Extraction "model.ml" Z.add Nat.add pyerr_code conv find_answer bf_oracle spec_models sol_is_model
  eval no_graph env_of_sol trace sess0 count_true fold_or fold_and alldifferent wt refs_ok find_answer3 lift_oracle gives_up solve_returns_false_on.
