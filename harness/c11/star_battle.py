"""C11 plug-in: star_battle (solve_star_battle(n, blocks, k)); blocks = n x n grid of region ids 0..n-1."""
import c11lib as L

NAME = "star_battle"
MODULE = "cspuz.puzzle.star_battle"
FUNC = "solve_star_battle"
TIER1 = ("StarBattle", "solve_star_battle_model")


def call(mod, pb):
    return mod.solve_star_battle(pb["n"], pb["blocks"], pb["k"])


def ncand(pb):
    return 2 ** (pb['n'] * pb['n'])


def encode(pb):
    return [[pb["n"], pb["k"]], L.flat(pb["blocks"])]


def _parts(n):
    return [L.region_ids(n, n, p) for p in L.region_partitions(n, n) if len(p) == n]


def families(tier, rng):
    th = tier == "thorough"
    for n in (1, 2, 3):
        ps = _parts(n)
        for b in (ps if th else L.sample(rng, ps, 30)):
            for k in (0, 1, 2):
                yield {"n": n, "k": k, "blocks": b}
    import c11.norinori as nn
    for n in (4,):
        for p in nn._random_parts(rng, n, n, 2000):
            if len(p) == n:
                yield {"n": n, "k": 1, "blocks": L.region_ids(n, n, p)}
                if not th and rng.random() < 0.9:
                    continue


def tier2(tier, rng):
    th = tier == "thorough"
    for n in (1, 2, 3):
        for b in L.sample(rng, _parts(n), 20 if th else 4):
            for k in (1, 2):
                yield {"n": n, "k": k, "blocks": b}


def tier1_problems(tier, rng):
    """program-capture tie: all region layouts of the tiniest boards, random larger ones, k = 0..3"""
    th = tier == "thorough"
    import c11.norinori as nn
    yield {"n": 0, "k": 1, "blocks": []}
    for n in (1, 2, 3):
        for b in L.sample(rng, _parts(n), 40 if th else 10):
            for k in (0, 1, 2):
                yield {"n": n, "k": k, "blocks": b}
    for n in (4, 5, 6, 8, 10):
        got = 0
        for p in nn._random_parts(rng, n, n, 400):
            if len(p) == n:
                yield {"n": n, "k": rng.choice([1, 2, 3]), "blocks": L.region_ids(n, n, p)}
                got += 1
                if got >= (10 if th else 3):
                    break
