(* C11 Tier 1 - shakashaka, part 5: when the local patterns hold everywhere, every white area is an upright
   rectangle of empty cells or a rectangle of whole diagonal squares. *)
From Coq Require Import ZArith List Bool Arith Lia.
From Cspuz Require Import Puzzle.PuzzleBase Puzzle.ShakashakaSem Puzzle.ShakashakaGeo Puzzle.ShakashakaAxis
     Puzzle.ShakashakaDiag.
Import ListNotations.
Local Open Scope Z_scope.

Lemma search_Z (P : Z -> Prop) (dec : forall z, P z \/ ~ P z) lo n :
  (exists z, lo <= z < lo + Z.of_nat n /\ P z) \/ (forall z, lo <= z < lo + Z.of_nat n -> ~ P z).
Proof.
  induction n as [|n IH].
  - right. intros z Hz. lia.
  - destruct IH as [[z [Hz Pz]]|No].
    + left. exists z. split; [lia|exact Pz].
    + destruct (dec (lo + Z.of_nat n)) as [Y|N].
      * left. exists (lo + Z.of_nat n). split; [lia|exact Y].
      * right. intros z Hz. destruct (Z.eq_dec z (lo + Z.of_nat n)) as [->|Ne]; [exact N|apply No; lia].
Qed.
Lemma search_nat (P : nat -> Prop) (dec : forall z, P z \/ ~ P z) n :
  (exists z, (z < n)%nat /\ P z) \/ (forall z, (z < n)%nat -> ~ P z).
Proof.
  induction n as [|n IH].
  - right. intros z Hz. lia.
  - destruct IH as [[z [Hz Pz]]|No].
    + left. exists z. split; [lia|exact Pz].
    + destruct (dec n) as [Y|N].
      * left. exists n. split; [lia|exact Y].
      * right. intros z Hz. destruct (Nat.eq_dec z n) as [->|Ne]; [exact N|apply No; lia].
Qed.

Section Sound.
  Variable cst : Z -> Z -> nat.
  Variables Hb Wb : Z.
  Hypothesis cst_le : forall y x, (cst y x <= 5)%nat.
  Hypothesis cst_out : forall y x, ~ (0 <= y < Hb /\ 0 <= x < Wb) -> cst y x = 5%nat.
  Hypothesis HL : Lok cst.
  Variable s0 : quarter.
  Hypothesis s0_white : white cst s0.
  Notation C := (qreach cst s0).
  Hypothesis Cdec : forall t, C t \/ ~ C t.

  Lemma sealed_search :
    (exists t, C t /\ wqt cst (partner t) = false) \/ (forall t, C t -> wqt cst (partner t) = true).
  Proof.
    set (Q := fun t : quarter => C t /\ wqt cst (partner t) = false).
    assert (Qdec : forall t, Q t \/ ~ Q t).
    { intros t. unfold Q. destruct (Cdec t) as [Y|N]; [|right; tauto].
      destruct (wqt cst (partner t)); [right; intros [_ H]; discriminate|left; tauto]. }
    assert (D1 : forall y x, (exists q, (q < 4)%nat /\ Q (y, x, q)) \/ ~ (exists q, (q < 4)%nat /\ Q (y, x, q))).
    { intros y x. destruct (search_nat (fun q => Q (y, x, q)) (fun q => Qdec (y, x, q)) 4) as [Y|N]; [left; exact Y|].
      right. intros [q [Hq Hy]]. apply (N q Hq Hy). }
    assert (D2 : forall y, (exists x, 0 <= x < 0 + Z.of_nat (Z.to_nat Wb) /\ exists q, (q < 4)%nat /\ Q (y, x, q)) \/
                           ~ (exists x, 0 <= x < 0 + Z.of_nat (Z.to_nat Wb) /\ exists q, (q < 4)%nat /\ Q (y, x, q))).
    { intros y. destruct (search_Z (fun x => exists q, (q < 4)%nat /\ Q (y, x, q)) (D1 y) 0 (Z.to_nat Wb)) as [Y|N]; [left; exact Y|].
      right. intros [x [Hx Hy]]. apply (N x Hx Hy). }
    destruct (search_Z _ D2 0 (Z.to_nat Hb)) as [[y [Hy [x [Hx [q [Hq HQ]]]]]]|N].
    - left. exists (y, x, q). exact HQ.
    - right. intros t Ht. destruct (wqt cst (partner t)) eqn:E; [reflexivity|exfalso].
      destruct t as [[y x] q]. pose proof (qreach_end _ _ _ Ht) as W.
      destruct (white_board cst Hb Wb cst_out y x q W) as [By Bx]. destruct W as [Hq _].
      apply (N y ltac:(lia)). exists x. split; [lia|]. exists q. split; [exact Hq|]. split; assumption.
  Qed.

  Theorem sound_rect : RectA (qreach cst s0) \/ RectD (qreach cst s0).
  Proof.
    destruct sealed_search as [[t [Ht Hp]]|No].
    - left. apply (axis_rect cst Hb Wb cst_le cst_out HL s0 t Ht). split; [apply (qreach_end _ _ _ Ht)|exact Hp].
    - right. apply (diag_rect cst Hb Wb cst_le cst_out HL s0 s0_white Cdec No).
  Qed.
End Sound.
