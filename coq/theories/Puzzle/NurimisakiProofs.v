(* C11 Tier 1 - nurimisaki (after fix f977eba): for every board shape and every layout of circles and
   numbers, the program posted by solve_nurimisaki (model Nurimisaki.v: the connectivity helper of property
   C04, the 2x2 constraints, the cape constraints) has a model reading as [ans] exactly when [ans] obeys
   Rules_nurimisaki. *)
From Coq Require Import ZArith List Bool Arith Lia.
From Cspuz Require Import Lib.PyErr Core.Expr Core.Program Graph.GraphModel Graph.Avc
     Puzzle.PuzzleBase Puzzle.SatAbs Puzzle.ModelBase Puzzle.ModelLemmas Puzzle.AkariLemmas Puzzle.Akari
     Puzzle.CreekProofs Puzzle.AvcCompose Puzzle.Rules_nurimisaki Puzzle.Nurimisaki.
Import ListNotations.
Local Open Scope nat_scope.

Notation b2z := PuzzleBase.b2z.

(* ---- the length of the longest f-prefix is k *)
Definition cand_sem {A} (f : A -> bool) (d : A) (r : list A) (k : nat) : bool :=
  if Nat.eqb k (length r) then forallb f (firstn k r)
  else if Nat.ltb k (length r) then forallb f (firstn k r) && negb (f (nth k r d))
  else false.
Lemma cand_sem_spec {A} (f : A -> bool) d : forall r k,
  cand_sem f d r k = Nat.eqb (length (take_while f r)) k.
Proof.
  induction r as [|a r IH]; intros k.
  - destruct k; reflexivity.
  - destruct k as [|k].
    + unfold cand_sem. simpl. destruct (f a); reflexivity.
    + transitivity (f a && cand_sem f d r k).
      * unfold cand_sem. cbn [length firstn forallb nth]. change (Nat.eqb (S k) (S (length r))) with (Nat.eqb k (length r)).
        change (Nat.ltb (S k) (S (length r))) with (Nat.ltb k (length r)).
        destruct (Nat.eqb k (length r)); [reflexivity|]. destruct (Nat.ltb k (length r)).
        -- rewrite andb_assoc. reflexivity.
        -- rewrite andb_false_r. reflexivity.
      * rewrite IH. simpl. destruct (f a); reflexivity.
Qed.

Lemma take_while_ext_in {A} (f g : A -> bool) l : (forall a, In a l -> f a = g a) -> take_while f l = take_while g l.
Proof.
  induction l as [|a r IH]; intros E; simpl; [reflexivity|].
  rewrite (E a (or_introl eq_refl)), IH by (intros; apply E; right; assumption). reflexivity.
Qed.
Lemma negb_existsb {A} (f : A -> bool) l : negb (existsb f l) = forallb (fun x => negb (f x)) l.
Proof. induction l as [|a r IH]; simpl; [reflexivity|]. rewrite negb_orb, IH. reflexivity. Qed.

Section Sem.
  Variable gsem : op -> list (option value) -> option bool.
  Variable en : env.
  Let hold := holds gsem en.
  Definition isbool (e : expr) : Prop := exists b, eval gsem en e = Some (VB b).

  Lemma isbool_holds e : isbool e -> eval gsem en e = Some (VB (hold e)).
  Proof. intros [b E]. unfold hold, holds. rewrite E. destruct b; reflexivity. Qed.
  Lemma bool_list l : (forall e, In e l -> isbool e) ->
    all_some (map (eval gsem en) l) = Some (map (fun e => VB (hold e)) l).
  Proof.
    induction l as [|a r IH]; intros H; [reflexivity|]. simpl.
    rewrite (isbool_holds a (H a (or_introl eq_refl))), IH by (intros; apply H; right; assumption). reflexivity.
  Qed.
  Lemma as_bools_holds l : as_bools (map (fun e => VB (hold e)) l) = Some (map hold l).
  Proof. induction l as [|a r IH]; simpl; [reflexivity|]. rewrite IH. reflexivity. Qed.
  Lemma eval_and l : (forall e, In e l -> isbool e) -> eval gsem en (BNode AND l) = Some (VB (forallb hold l)).
  Proof.
    intros H. cbn [eval]. unfold eval_bop. rewrite (bool_list l H), as_bools_holds. simpl. f_equal. f_equal.
    clear. induction l as [|a r IH]; simpl; [reflexivity|]. rewrite IH. reflexivity.
  Qed.
  Lemma eval_or l : (forall e, In e l -> isbool e) -> eval gsem en (BNode OR l) = Some (VB (existsb hold l)).
  Proof.
    intros H. cbn [eval]. unfold eval_bop. rewrite (bool_list l H), as_bools_holds. simpl. f_equal. f_equal.
    clear. induction l as [|a r IH]; simpl; [reflexivity|]. rewrite IH. reflexivity.
  Qed.
  Lemma holds_of_eval e b : eval gsem en e = Some (VB b) -> hold e = b.
  Proof. intros E. unfold hold, holds. rewrite E. destruct b; reflexivity. Qed.
  Lemma isbool_var i : isbool (BVar i).
  Proof. eexists. reflexivity. Qed.
  Lemma isbool_not_var i : isbool (BNode NOT [BVar i]).
  Proof. eexists. reflexivity. Qed.
  Lemma hold_var i : hold (BVar i) = eb en i.
  Proof. unfold hold, holds. simpl. destruct (eb en i); reflexivity. Qed.
  Lemma hold_not_var i : hold (BNode NOT [BVar i]) = negb (eb en i).
  Proof. unfold hold, holds. simpl. destruct (eb en i); reflexivity. Qed.
  Lemma hold_fold_or l : (forall e, In e l -> isbool e) -> hold (fold_or_nodes l) = existsb hold l.
  Proof.
    intros H. destruct l as [|a r]; [reflexivity|]. unfold fold_or_nodes. apply holds_of_eval. apply eval_or. exact H.
  Qed.

  Lemma eval_ct_vars_g ids :
    eval gsem en (ct_vars ids) = Some (VI (Z.of_nat (count (eb en) ids))).
  Proof.
    destruct ids as [|i r]; [reflexivity|].
    unfold ct_vars. set (l := i :: r).
    assert (Hne : l <> []) by discriminate. clearbody l.
    cbn [eval]. rewrite map_map.
    rewrite (map_ext _ (fun x => Some (VI (if eb en x then 1 else 0)%Z)))
      by (intros x; simpl; destruct (eb en x); reflexivity).
    rewrite <- (map_map (fun x => (if eb en x then 1 else 0)%Z) (fun z => Some (VI z))).
    rewrite eval_iop_add_ints by (destruct l; [contradiction|discriminate]).
    f_equal. f_equal. clear. unfold count, zsum.
    induction l as [|b r IH]; [reflexivity|]. cbn [map fold_right filter].
    destruct (eb en b); cbn [length]; rewrite IH; lia.
  Qed.

  Variables (h w : nat).
  Let lit (c : nat * nat) : bool := eb en (cidx w c).

  Lemma hold_wv c : hold (wv w c) = lit c.
  Proof. apply hold_var. Qed.

  Lemma hold_block_or y x :
    hold (block_or w y x) = lit (y, x) || lit (S y, x) || lit (y, S x) || lit (S y, S x).
  Proof. unfold hold, holds, block_or, wv, lit. simpl.
    destruct (eb en (cidx w (y, x))), (eb en (cidx w (S y, x))), (eb en (cidx w (y, S x))), (eb en (cidx w (S y, S x))); reflexivity. Qed.
  Lemma hold_block_nand y x :
    hold (block_nand w y x) = negb (lit (y, x) && lit (S y, x) && lit (y, S x) && lit (S y, S x)).
  Proof. unfold hold, holds, block_nand, wv, lit. simpl.
    destruct (eb en (cidx w (y, x))), (eb en (cidx w (S y, x))), (eb en (cidx w (y, S x))), (eb en (cidx w (S y, S x))); reflexivity. Qed.

  Lemma hold_cape_eq ids : hold (BNode EQ [ct_vars ids; PyInt 1]) = Nat.eqb (count (eb en) ids) 1.
  Proof.
    unfold hold, holds. cbn [eval map]. rewrite eval_ct_vars_g. cbn.
    change 1%Z with (Z.of_nat 1). rewrite znat_eqb. destruct (Nat.eqb (count (eb en) ids) 1); reflexivity.
  Qed.
  Lemma hold_not_cape i ids :
    hold (BNode IMP [BVar i; BNode NE [ct_vars ids; PyInt 1]]) = negb (eb en i && Nat.eqb (count (eb en) ids) 1).
  Proof.
    unfold hold, holds. cbn [eval map]. rewrite eval_ct_vars_g. cbn.
    change 1%Z with (Z.of_nat 1). rewrite znat_eqb.
    destruct (eb en i), (Nat.eqb (count (eb en) ids) 1); reflexivity.
  Qed.

  (* one candidate = "exactly k unshaded cells in this direction" *)
  Lemma isbool_candidate y x k d asc e : In e (misaki_candidate h w y x k d asc) -> isbool e.
  Proof.
    unfold misaki_candidate.
    set (r := ray h w y x (fst d) (snd d)). set (near := if asc then firstn k r else rev (firstn k r)).
    assert (Hops : forall e, In e (map (wv w) near) -> isbool e).
    { intros e' He. apply in_map_iff in He. destruct He as [c [<- _]]. apply isbool_var. }
    destruct (Nat.eqb k (length r)).
    - intros [<-|[]]. eexists. apply eval_and. exact Hops.
    - destruct (Nat.ltb k (length r)); [|intros []].
      intros [<-|[]]. eexists. apply eval_and. intros e' He. apply in_app_iff in He.
      destruct He as [He|[<-|[]]]; [apply Hops; exact He|apply isbool_not_var].
  Qed.
  Lemma hold_candidate y x k d asc :
    existsb hold (misaki_candidate h w y x k d asc) = cand_sem lit (0, 0) (ray h w y x (fst d) (snd d)) k.
  Proof.
    unfold misaki_candidate, cand_sem.
    set (r := ray h w y x (fst d) (snd d)). set (near := if asc then firstn k r else rev (firstn k r)).
    assert (Hops : forall e, In e (map (wv w) near) -> isbool e).
    { intros e' He. apply in_map_iff in He. destruct He as [c [<- _]]. apply isbool_var. }
    assert (Hnear : forallb hold (map (wv w) near) = forallb lit (firstn k r)).
    { rewrite forallb_map. rewrite (forallb_ext_in _ lit) by (intros; apply hold_wv).
      unfold near. destruct asc; [reflexivity|apply forallb_rev]. }
    destruct (Nat.eqb k (length r)).
    - cbn [existsb]. rewrite orb_false_r. rewrite (holds_of_eval _ _ (eval_and _ Hops)). exact Hnear.
    - destruct (Nat.ltb k (length r)); [|reflexivity].
      cbn [existsb]. rewrite orb_false_r.
      assert (Hall : forall e, In e (map (wv w) near ++ [BNode NOT [wv w (nth k r (0, 0))]]) -> isbool e).
      { intros e' He. apply in_app_iff in He. destruct He as [He|[<-|[]]]; [apply Hops; exact He|apply isbool_not_var]. }
      rewrite (holds_of_eval _ _ (eval_and _ Hall)). rewrite forallb_app, Hnear. cbn [forallb].
      unfold wv. rewrite hold_not_var, andb_true_r. reflexivity.
  Qed.
End Sem.

Lemma dims2n h w (rest : list (list Z)) :
  dim ([Z.of_nat h; Z.of_nat w] :: rest) 0 = h /\ dim ([Z.of_nat h; Z.of_nat w] :: rest) 1 = w.
Proof. unfold dim, zn, getz, sec; simpl. rewrite !Nat2Z.id. split; reflexivity. Qed.

(* the rules other than shape and connectivity *)
Definition misaki_local (h w : nat) (grid : list Z) (ans : answer) : bool :=
  let white := fun '(y, x) => isb (at2 ans w y x) in
  let dirs := [((-1)%Z, 0%Z); (1%Z, 0%Z); (0%Z, (-1)%Z); (0%Z, 1%Z)] in
  negb (has_2x2 h w (fun y x => white (y, x))) && negb (has_2x2 h w (fun y x => negb (white (y, x)))) &&
  forallb (fun '(y, x) =>
     let c := at2 grid w y x in
     let cape := white (y, x) && Nat.eqb (count white (nbr4 h w y x)) 1 in
     if (c <? 0)%Z then negb cape
     else cape &&
          ((c =? 0)%Z ||
           existsb (fun '(dy, dx) =>
              let run := take_while white (ray h w y x dy dx) in
              negb (Nat.eqb (length run) 0) && (Z.of_nat (S (length run)) =? c)%Z) dirs)) (cells h w).

Lemma rules_nurimisaki_split h w grid ans :
  rules_nurimisaki [[Z.of_nat h; Z.of_nat w]; grid] ans =
  Nat.eqb (length ans) (h * w) && forallb is01 ans && cells_connected h w (fun v => isb (getz ans v)) &&
  misaki_local h w grid ans.
Proof.
  unfold rules_nurimisaki, misaki_local. destruct (dims2n h w [grid]) as [-> ->].
  change (sec [[Z.of_nat h; Z.of_nat w]; grid] 1) with grid.
  rewrite <- !andb_assoc. reflexivity.
Qed.

Lemma misaki_local_core gsem h w grid en :
  misaki_local h w grid (map (fun i => b2z (eb en i)) (seq 0 (h * w))) =
  forallb (holds gsem en) (nurimisaki_constraints h w grid).
Proof.
  unfold misaki_local, nurimisaki_constraints.
  set (ans := map (fun i => b2z (eb en i)) (seq 0 (h * w))).
  set (lit := fun c : nat * nat => eb en (cidx w c)).
  set (white := fun '(y, x) => isb (at2 ans w y x)).
  assert (Hw : forall y x, y < h -> x < w -> white (y, x) = lit (y, x)).
  { intros y x Hy Hx. unfold white, at2, ans, lit. rewrite getz_map_seq by (apply (cidx_lt h w y x); assumption).
    apply b2z_isb. }
  assert (Hw' : forall y x, y < h -> x < w -> isb (at2 ans w y x) = lit (y, x)) by exact Hw.
  rewrite !forallb_app, !forallb_map, forallb_flat_map.
  assert (Hblk : forall y x, In (y, x) (cells (h - 1) (w - 1)) -> S y < h /\ S x < w).
  { intros y x Hc. apply cells_in in Hc. lia. }
  match goal with |- ?a && ?b && ?c = ?b' && (?a' && ?c') =>
    assert (Ha : a = a'); [|assert (Hb : b = b'); [|assert (Hc : c = c');
      [|rewrite Ha, Hb, Hc; destruct a', b', c'; reflexivity]]] end.
  - (* no 2x2 block entirely unshaded *)
    unfold has_2x2. rewrite negb_existsb. apply forallb_ext_in. intros [y x] Hc. destruct (Hblk y x Hc) as [Hy Hx].
    rewrite hold_block_nand. rewrite !Hw' by lia. reflexivity.
  - (* no 2x2 block entirely shaded *)
    unfold has_2x2. rewrite negb_existsb. apply forallb_ext_in. intros [y x] Hc. destruct (Hblk y x Hc) as [Hy Hx].
    rewrite hold_block_or. rewrite !Hw' by lia. rewrite !negb_andb, !negb_involutive. reflexivity.
  - (* capes and numbers *)
    apply forallb_ext_in. intros [y x] Hc. apply cells_in in Hc. destruct Hc as [Hy Hx].
    unfold misaki_cell. rewrite (Hw' y x Hy Hx).
    assert (Hcnt : count white (nbr4 h w y x) = count (eb en) (map (cidx w) (nbr4 h w y x))).
    { rewrite count_map. apply count_ext_in. intros [y' x'] Hn. destruct (nbr4_in h w y x y' x' Hy Hx Hn). apply Hw; assumption. }
    rewrite Hcnt.
    destruct (at2 grid w y x <? 0)%Z eqn:Ec.
    + cbn [forallb]. unfold wv. rewrite hold_not_cape, andb_true_r. reflexivity.
    + cbn [forallb]. unfold wv at 1. rewrite hold_var, hold_cape_eq. fold (lit (y, x)).
      rewrite <- andb_assoc. f_equal. f_equal.
      destruct (at2 grid w y x =? 0)%Z eqn:E0; [reflexivity|]. cbn [forallb orb]. rewrite andb_true_r.
      apply Z.ltb_ge in Ec. apply Z.eqb_neq in E0. set (c := at2 grid w y x) in *.
      rewrite hold_fold_or by (unfold misaki_candidates; destruct (c =? 1)%Z; [intros e []|];
        intros e He; rewrite !in_app_iff in He; destruct He as [He|[He|[He|He]]]; eapply isbool_candidate; exact He).
      unfold misaki_candidates. destruct (Z.eqb_spec c 1) as [E1|E1].
      * (* number 1: no candidate, and no line of length 1 from a cape *)
        cbn [existsb]. rewrite E1.
        repeat match goal with |- context [take_while ?f ?r] => destruct (take_while f r); cbn [length Nat.eqb negb andb orb] end;
          try reflexivity;
          repeat match goal with |- context [(Z.of_nat (S (S ?n)) =? 1)%Z] =>
            replace (Z.of_nat (S (S n)) =? 1)%Z with false by (symmetry; apply Z.eqb_neq; lia) end; reflexivity.
      * set (k := Z.to_nat c - 1).
        assert (Hk : 1 <= k /\ Z.of_nat (S k) = c) by (unfold k; lia).
        rewrite !existsb_app, !hold_candidate. cbn [fst snd existsb]. rewrite orb_false_r, !orb_assoc.
        assert (Hdir : forall dy dx,
                  cand_sem lit (0, 0) (ray h w y x dy dx) k =
                  (negb (Nat.eqb (length (take_while white (ray h w y x dy dx))) 0) &&
                   (Z.of_nat (S (length (take_while white (ray h w y x dy dx)))) =? c)%Z)).
        { intros dy dx. rewrite cand_sem_spec.
          rewrite (take_while_ext_in white lit)
            by (intros [y' x'] Hr; apply ray_in in Hr; simpl in Hr; apply Hw; tauto).
          set (m := length (take_while lit (ray h w y x dy dx))).
          destruct (Nat.eqb_spec m k) as [->|N].
          - destruct Hk as [Hk1 Hk2]. rewrite Hk2, Z.eqb_refl. destruct k; [lia|reflexivity].
          - destruct (Z.eqb_spec (Z.of_nat (S m)) c) as [E|]; [|rewrite andb_false_r; reflexivity].
            exfalso. apply N. lia. }
        rewrite !Hdir. reflexivity.
Qed.

Theorem nurimisaki_exact h w grid st ans :
  solve_nurimisaki_model [[Z.of_nat h; Z.of_nat w]; grid] = Ok st ->
  ((exists en, model_of gsem_avc en st /\ reads st en (seq 0 (h * w)) = ans)
   <-> rules_nurimisaki [[Z.of_nat h; Z.of_nat w]; grid] ans = true).
Proof.
  unfold solve_nurimisaki_model. destruct (dims2n h w [grid]) as [-> ->].
  change (sec [[Z.of_nat h; Z.of_nat w]; grid] 1) with grid.
  destruct (existsb (fun v => (v <? -1)%Z) grid); [discriminate|].
  destruct (post_avc (bool_grid_state (h * w) []) (map BVar (seq 0 (h * w))) (grid_graph h w) false false)
    as [st1|e] eqn:Hp; [|discriminate].
  intros H. inversion H; subst st; clear H.
  rewrite rules_nurimisaki_split.
  apply (avc_grid_compose h w (nurimisaki_constraints h w grid) (misaki_local h w grid) st1 ans Hp).
  intros en. apply misaki_local_core.
Qed.

Example nurimisaki_model_ok :
  exists st, solve_nurimisaki_model [[2; 3]; [2; -1; -1; -1; 0; 3]]%Z = Ok st.
Proof. vm_compute. eexists. reflexivity. Qed.
