"""C11 plug-in: sudoku (solve_sudoku(problem, n))."""
import c11lib as L

NAME = "sudoku"
MODULE = "cspuz.puzzle.sudoku"
FUNC = "solve_sudoku"
MAX_ANSWERS = 400000
T2_PER_FILE = 1
TIER1 = ("Sudoku", "solve_sudoku_model")


def call(mod, pb):
    return mod.solve_sudoku(pb["grid"], n=pb["n"])


def ncand(pb):
    import math
    return math.factorial(pb['n'] ** 2) ** (pb['n'] ** 2)


def encode(pb):
    return [[pb["n"]], L.flat(pb["grid"])]


def _n2_grids(rng, k):
    """4x4 problems: clue sets cut out of valid grids (satisfiable, from empty to full),
    and random clue grids (mostly contradictory or loose), values 0..5 incl. out-of-range givens"""
    base = [[1, 2, 3, 4], [3, 4, 1, 2], [2, 1, 4, 3], [4, 3, 2, 1]]
    out = [[[0] * 4 for _ in range(4)]]
    for _ in range(k):
        perm = [1, 2, 3, 4]
        rng.shuffle(perm)
        g = [[perm[v - 1] for v in row] for row in base]
        if rng.random() < 0.5:
            g = [list(r) for r in zip(*g)]
        keep = rng.choice([0.1, 0.25, 0.4, 0.7, 1.0])
        g = [[v if rng.random() < keep else 0 for v in row] for row in g]
        if rng.random() < 0.4:
            y, x = rng.randrange(4), rng.randrange(4)
            g[y][x] = rng.choice([-1, 0, 1, 2, 3, 4, 5])
        out.append(g)
    return out


def families(tier, rng):
    for v in (-1, 0, 1, 2):
        yield {"n": 1, "grid": [[v]]}
    for g in _n2_grids(rng, 60 if tier == "thorough" else 10):
        yield {"n": 2, "grid": g}


def tier2(tier, rng):
    for v in (-1, 0, 1, 2):
        yield {"n": 1, "grid": [[v]]}
    if tier == "thorough":
        for g in _n2_grids(rng, 3):
            yield {"n": 2, "grid": g}


def tier1_problems(tier, rng):
    """program-capture tie: all sizes the model covers, clue values around every boundary"""
    th = tier == "thorough"
    yield {"n": 0, "grid": []}
    for n in (1, 2, 3, 4) + ((5,) if th else ()):
        size = n * n
        vals = [-1, 0, 0, 0, 1, 2, size - 1, size, size + 1]
        yield {"n": n, "grid": [[0] * size for _ in range(size)]}
        yield {"n": n, "grid": [[((x + y) % size) + 1 for x in range(size)] for y in range(size)]}
        for _ in range((40 if th else 8) if n <= 3 else 3):
            yield {"n": n, "grid": [[rng.choice(vals) for _ in range(size)] for _ in range(size)]}


def _solved(rng, n):
    """a valid n^2 x n^2 grid: the cyclic pattern with rows / columns permuted inside bands / stacks, bands and stacks
    permuted, digits renamed, maybe transposed"""
    N = n * n
    base = [[(n * (y % n) + y // n + x) % N + 1 for x in range(N)] for y in range(N)]

    def order():
        groups = list(range(n))
        rng.shuffle(groups)
        out = []
        for g in groups:
            inner = list(range(n))
            rng.shuffle(inner)
            out += [g * n + i for i in inner]
        return out
    ro, co = order(), order()
    ren = list(range(1, N + 1))
    rng.shuffle(ren)
    g = [[ren[base[r][c] - 1] for c in co] for r in ro]
    if rng.random() < 0.5:
        g = [list(r) for r in zip(*g)]
    return g


def _row_cycles(g, n):
    """(r1, r2, columns): rows in different bands; exchanging the two rows' entries in these columns keeps both rows and
    every column valid (the columns are one cycle of the permutation taking row r1 to row r2) and puts repeated digits
    into boxes; shortest cycles first"""
    N = n * n
    out = []
    for r1 in range(N):
        for r2 in range(r1 + 1, N):
            if r1 // n == r2 // n:
                continue
            where = {g[r1][c]: c for c in range(N)}
            seen = set()
            for c0 in range(N):
                if c0 in seen:
                    continue
                cyc, c = [], c0
                while c not in seen:
                    seen.add(c)
                    cyc.append(c)
                    c = where[g[r2][c]]
                if 2 <= len(cyc) < N:
                    out.append((r1, r2, cyc))
    out.sort(key=lambda t: len(t[2]))
    return out


def big(tier, rng):
    """9x9 (and one 16x16) boards, far beyond the candidate enumeration: a solved grid with a few cells blanked (every
    grid the posted program admits must obey the rules, the solved grid must be admitted); the same grid with two rows of
    different bands exchanged along a short cycle of columns - rows and columns stay valid, boxes get a repeated digit -
    fully given (no grid obeys the
    rules) and with those cells blanked (only the unswapped completion obeys the rules)"""
    th = tier == "thorough"
    for n in ([3] * (6 if th else 2)) + [4]:
        g = _solved(rng, n)
        N = n * n
        flat = [v for row in g for v in row]
        for k in ([2, 5, 9, 14] if th else [3, 9]):
            cells = rng.sample([(y, x) for y in range(N) for x in range(N)], k)
            gb = [list(r) for r in g]
            for (y, x) in cells:
                gb[y][x] = 0
            yield {"n": n, "grid": gb, "planted": [flat]}
        cycs = _row_cycles(g, n)
        short = [t for t in cycs if len(t[2]) <= len(cycs[0][2]) + 1] if cycs else []
        rng.shuffle(short)
        for (r1, r2, cols) in short[:(4 if th else 2)]:
            bad = [list(r) for r in g]
            hole = [list(r) for r in g]
            for c in cols:
                bad[r1][c], bad[r2][c] = g[r2][c], g[r1][c]
                hole[r1][c] = hole[r2][c] = 0
            if all(len({bad[by * n + dy][bx * n + dx] for dy in range(n) for dx in range(n)}) == N
                   for by in range(n) for bx in range(n)):
                continue      # the exchange happened to keep every box valid: not a corruption
            yield {"n": n, "grid": bad}
            yield {"n": n, "grid": hole, "planted": [flat], "n_solutions": 1}
