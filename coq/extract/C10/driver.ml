(* C10 runner: I/O only.
   X <h> <w> <sc> <prim> <state> H <expr list> V <expr list>
        -> post_crossable on the given frame
   F <h> <w> <sc> <prim> <state>
        -> new_frame (BoolGridFrame(solver, h, w)) then post_crossable
   G <H> <W>  -> the auxiliary graph: n : a b a b ...
   reply:  OK <state> P <expr list> Q <expr list>   |   E <code> *)
open Model
open Zutil

let flag s = (s = "1")
let err e = "E " ^ string_of_int (int_of_nat (pyerr_code e))

let show_res = function
  | Err e -> err e
  | Ok (st, (p, q)) ->
      "OK " ^ Exprio.show_state st ^ " P " ^ Exprio.show_expr_list p ^ " Q " ^ Exprio.show_expr_list q

let handle toks = match toks with
  | "X" :: h :: w :: sc :: prim :: rest ->
      let (st, r) = Exprio.parse_state rest in
      (match r with
       | "H" :: r ->
           let (hz, r) = Exprio.parse_expr_list r in
           (match r with
            | "V" :: r ->
                let (vt, _) = Exprio.parse_expr_list r in
                let fr = { fh = nat_of_int (int_of_string h); fw = nat_of_int (int_of_string w); hor = hz; ver = vt } in
                show_res (post_crossable st fr (flag sc) (flag prim))
            | _ -> "EXN expected V")
       | _ -> "EXN expected H")
  | "F" :: h :: w :: sc :: prim :: rest ->
      let (st, _) = Exprio.parse_state rest in
      let (st1, fr) = new_frame st (nat_of_int (int_of_string h)) (nat_of_int (int_of_string w)) in
      show_res (post_crossable st1 fr (flag sc) (flag prim))
  | "G" :: h :: w :: _ ->
      let g = split_graph (nat_of_int (int_of_string h)) (nat_of_int (int_of_string w)) in
      string_of_int (int_of_nat g.nv) ^ " :" ^
      String.concat "" (List.map (fun (a, b) -> " " ^ string_of_int (int_of_nat a) ^ " " ^ string_of_int (int_of_nat b)) g.edges)
  | _ -> "EXN bad request"

let () = main_loop handle
