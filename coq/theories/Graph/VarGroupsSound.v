(* C07, level S, soundness: a certificate (rank / root / active edges / ids) forces
   every class of equal ids to be connected through active edges. *)
From Coq Require Import ZArith List Bool Arith Lia.
From Cspuz Require Import Graph.GraphModel Graph.ReachProofs Graph.VarGroups.
Import ListNotations.
Open Scope nat_scope.

(* ------------------------------------------------------------------------ *)
(* small list facts                                                          *)

Lemma forallb_ext_in {A} (f h : A -> bool) l :
  (forall x, In x l -> f x = h x) -> forallb f l = forallb h l.
Proof.
  induction l as [|a l IH]; simpl; intros H; [reflexivity|].
  rewrite (H a (or_introl eq_refl)), IH; [reflexivity|]. intros x Hx; apply H; right; exact Hx.
Qed.

Lemma filter_ext_in' {A} (f h : A -> bool) l :
  (forall x, In x l -> f x = h x) -> filter f l = filter h l.
Proof.
  induction l as [|a l IH]; simpl; intros H; [reflexivity|].
  rewrite (H a (or_introl eq_refl)), IH; [reflexivity|]. intros x Hx; apply H; right; exact Hx.
Qed.

Lemma in_combine_seq {A} (l : list A) k x :
  In (k, x) (combine (seq 0 (length l)) l) <-> nth_error l k = Some x.
Proof.
  assert (G : forall s, In (k, x) (combine (seq s (length l)) l) <-> (s <= k /\ nth_error l (k - s) = Some x)).
  { induction l as [|a l IH]; intros s; simpl.
    - split; [intros []|]. intros [_ H]. destruct (k - s); discriminate.
    - rewrite IH. split.
      + intros [H|[H1 H2]].
        * inversion H; subst. split; [lia|]. rewrite Nat.sub_diag. reflexivity.
        * split; [lia|]. replace (k - s) with (S (k - S s)) by lia. exact H2.
      + intros [H1 H2]. destruct (Nat.eq_dec s k) as [->|Hne].
        * rewrite Nat.sub_diag in H2. simpl in H2. inversion H2. left; reflexivity.
        * right. split; [lia|]. replace (k - s) with (S (k - S s)) in H2 by lia. exact H2. }
  rewrite G, Nat.sub_0_r. split; [intros [_ H]; exact H|intros H; split; [lia|exact H]].
Qed.

(* ------------------------------------------------------------------------ *)
(* reach: monotone in the edge set, and only depends on vok below nv g      *)

Lemma nbrs_mono g eok eok' v w :
  (forall k, eok k = true -> eok' k = true) -> In w (nbrs g eok v) -> In w (nbrs g eok' v).
Proof.
  intros H. rewrite !nbrs_incident. intros [k [Hk Hi]]. exists k. split; [apply H; exact Hk|exact Hi].
Qed.

Lemma reach_mono_edges g vok eok eok' u v :
  (forall k, eok k = true -> eok' k = true) -> reach g vok eok u v -> reach g vok eok' u v.
Proof.
  intros H R. induction R.
  - apply reach_refl; assumption.
  - eapply reach_step; [eassumption| |assumption]. eapply nbrs_mono; eassumption.
Qed.

Lemma reach_ext_lt g vok vok' eok u v :
  wf_graph g = true -> u < nv g ->
  (forall x, x < nv g -> vok x = vok' x) -> reach g vok eok u v -> reach g vok' eok u v.
Proof.
  intros Hwf Hu H R. induction R as [v Hv|u v w Ruv IH Hn Hw].
  - apply reach_refl. rewrite <- H; assumption.
  - eapply reach_step; [apply IH; exact Hu|exact Hn|].
    rewrite <- H; [exact Hw|]. apply (nbrs_lt g eok v w Hwf Hn).
Qed.

(* ------------------------------------------------------------------------ *)
(* reading the boolean certificate                                           *)

Section Sound.
  Variable g : graph.
  Variable c : vg_cert.
  Hypothesis Hwf : wf_graph g = true.
  Hypothesis Hmain : cert_main g c = true.
  Hypothesis Hrange : cert_ranges g c = true.

  Let n := nv g.

  Lemma cm_rootrank i : i < n -> c_root c i = (c_rank c i =? 0)%Z.
  Proof.
    intros Hi. unfold cert_main in Hmain. apply andb_true_iff in Hmain. destruct Hmain as [H _].
    apply andb_true_iff in H. destruct H as [H _]. rewrite forallb_forall in H.
    specialize (H i). apply eqb_prop. apply H. apply in_seq. unfold n in Hi; lia.
  Qed.

  Lemma cm_vertex i : i < n -> cert_vertex g c i = true.
  Proof.
    intros Hi. unfold cert_main in Hmain. apply andb_true_iff in Hmain. destruct Hmain as [H _].
    apply andb_true_iff in H. destruct H as [_ H]. rewrite forallb_forall in H.
    apply H. apply in_seq. unfold n in Hi; lia.
  Qed.

  Lemma cm_edge k u v :
    nth_error (edges g) k = Some (u, v) -> c_act c k = true -> c_gid c u = c_gid c v.
  Proof.
    intros Hk Ha. unfold cert_main in Hmain. apply andb_true_iff in Hmain. destruct Hmain as [_ H].
    rewrite forallb_forall in H. specialize (H (k, (u, v))).
    assert (Hin : In (k, (u, v)) (combine (seq 0 (length (edges g))) (edges g))) by (apply in_combine_seq; exact Hk).
    specialize (H Hin). simpl in H. rewrite Ha in H. simpl in H. apply Z.eqb_eq; exact H.
  Qed.

  Lemma cm_rank_nonneg i : i < n -> (0 <= c_rank c i)%Z.
  Proof.
    intros Hi. unfold cert_ranges in Hrange. apply andb_true_iff in Hrange. destruct Hrange as [_ H].
    unfold in_range in H. rewrite forallb_forall in H. specialize (H i).
    assert (Hin : In i (seq 0 (nv g))) by (apply in_seq; unfold n in Hi; lia).
    specialize (H Hin). apply andb_true_iff in H. destruct H as [H _]. apply Z.leb_le; exact H.
  Qed.

  Lemma cm_gid_range i : i < n -> (0 <= c_gid c i <= zn n - 1)%Z.
  Proof.
    intros Hi. unfold cert_ranges in Hrange. apply andb_true_iff in Hrange. destruct Hrange as [H _].
    unfold in_range in H. rewrite forallb_forall in H. specialize (H i).
    assert (Hin : In i (seq 0 (nv g))) by (apply in_seq; unfold n in Hi; lia).
    specialize (H Hin). apply andb_true_iff in H. destruct H as [H1 H2].
    apply Z.leb_le in H1. apply Z.leb_le in H2. unfold n. lia.
  Qed.

  (* a non-root vertex has an active edge to a vertex of strictly smaller rank *)
  Lemma cm_parent i :
    i < n -> c_root c i = false ->
    exists j e, In (j, e) (incident g i) /\ c_act c e = true /\ (c_rank c j < c_rank c i)%Z.
  Proof.
    intros Hi Hr. pose proof (cm_vertex i Hi) as H. unfold cert_vertex in H.
    apply andb_true_iff in H. destruct H as [_ H]. rewrite Hr in H.
    apply Z.eqb_eq in H. unfold bcount in H.
    destruct (filter _ (incident g i)) as [|[j e] r] eqn:Hf; [simpl in H; unfold zn in H; simpl in H; lia|].
    assert (Hin : In (j, e) (filter (fun '(j, e) => c_act c e && (c_rank c j <? c_rank c i)%Z) (incident g i)))
      by (rewrite Hf; left; reflexivity).
    apply filter_In in Hin. destruct Hin as [Hin Hp]. apply andb_true_iff in Hp. destruct Hp as [Ha Hl].
    exists j, e. split; [exact Hin|]. split; [exact Ha|]. apply Z.ltb_lt; exact Hl.
  Qed.

  Lemma incident_gid_eq i j e :
    In (j, e) (incident g i) -> c_act c e = true -> c_gid c j = c_gid c i.
  Proof.
    intros Hin Ha. apply incident_spec in Hin. destruct Hin as [H|H].
    - symmetry. eapply cm_edge; eassumption.
    - eapply cm_edge; eassumption.
  Qed.

  Lemma incident_lt i j e : In (j, e) (incident g i) -> i < n /\ j < n.
  Proof.
    intros Hin. apply incident_spec in Hin. destruct Hin as [H|H];
      apply (wf_graph_edge g e _ _ Hwf) in H; unfold n; tauto.
  Qed.

  Definition id_class (z : Z) : nat -> bool := fun w => (c_gid c w =? z)%Z.

  (* every vertex reaches, inside its id class and along active edges, a root
     whose index is the common id *)
  Lemma cert_reach_root :
    forall k i, i < n -> Z.to_nat (c_rank c i) <= k ->
      exists r, r < n /\ c_root c r = true /\ c_gid c i = zn r /\
                reach g (id_class (c_gid c i)) (c_act c) i r.
  Proof.
    induction k as [|k IH]; intros i Hi Hk.
    - (* rank 0: a root *)
      pose proof (cm_rank_nonneg i Hi) as H0.
      assert (Hr : c_root c i = true). { rewrite cm_rootrank by exact Hi. apply Z.eqb_eq. lia. }
      exists i. split; [exact Hi|]. split; [exact Hr|].
      pose proof (cm_vertex i Hi) as H. unfold cert_vertex in H.
      apply andb_true_iff in H. destruct H as [H _]. apply andb_true_iff in H. destruct H as [H _].
      rewrite Hr in H. simpl in H. apply Z.eqb_eq in H. split; [exact H|].
      apply reach_refl. unfold id_class. apply Z.eqb_refl.
    - destruct (c_root c i) eqn:Hr.
      + exists i. split; [exact Hi|]. split; [exact Hr|].
        pose proof (cm_vertex i Hi) as H. unfold cert_vertex in H.
        apply andb_true_iff in H. destruct H as [H _]. apply andb_true_iff in H. destruct H as [H _].
        rewrite Hr in H. simpl in H. apply Z.eqb_eq in H. split; [exact H|].
        apply reach_refl. unfold id_class. apply Z.eqb_refl.
      + destruct (cm_parent i Hi Hr) as [j [e [Hin [Ha Hlt]]]].
        destruct (incident_lt i j e Hin) as [_ Hj].
        pose proof (cm_rank_nonneg j Hj) as Hj0.
        assert (Hjk : Z.to_nat (c_rank c j) <= k) by lia.
        destruct (IH j Hj Hjk) as [r [Hr1 [Hr2 [Hr3 Hr4]]]].
        pose proof (incident_gid_eq i j e Hin Ha) as Hg.
        exists r. split; [exact Hr1|]. split; [exact Hr2|]. split; [congruence|].
        rewrite Hg in Hr4.
        apply reach_step_l with j.
        * unfold id_class. apply Z.eqb_refl.
        * apply nbrs_incident. exists e. split; assumption.
        * exact Hr4.
  Qed.

  (* two vertices with equal ids are joined inside their class by active edges *)
  Lemma cert_class_connected u v :
    u < n -> v < n -> c_gid c u = c_gid c v ->
    reach g (id_class (c_gid c u)) (c_act c) u v.
  Proof.
    intros Hu Hv He.
    destruct (cert_reach_root _ u Hu (Nat.le_refl _)) as [r [_ [_ [Hr Ru]]]].
    destruct (cert_reach_root _ v Hv (Nat.le_refl _)) as [r' [_ [_ [Hr' Rv]]]].
    assert (r = r'). { unfold zn in *. apply Nat2Z.inj. congruence. }
    subst r'. rewrite <- He in Rv.
    apply reach_trans with r; [exact Ru|apply reach_sym; exact Rv].
  Qed.

  (* soundness of the no-size certificate *)
  Theorem cert_sound_nosize blk :
    ids_realise n (c_gid c) blk -> forall v, v < n -> connected g (same_block blk v).
  Proof.
    intros Hids v Hv a b Ha Hb Hva Hvb.
    unfold same_block in Hva, Hvb. apply Nat.eqb_eq in Hva. apply Nat.eqb_eq in Hvb.
    assert (Hab : c_gid c a = c_gid c b).
    { apply Z.eqb_eq. rewrite (Hids a b Ha Hb). unfold same_block. apply Nat.eqb_eq. congruence. }
    pose proof (cert_class_connected a b Ha Hb Hab) as R.
    apply reach_mono_edges with (eok' := all_edges_ok) in R; [|reflexivity].
    eapply reach_ext_lt; [exact Hwf|exact Ha| |exact R].
    intros x Hx. unfold id_class. rewrite Z.eqb_sym. rewrite (Hids a x Ha Hx).
    unfold same_block. rewrite <- Hva. reflexivity.
  Qed.
End Sound.
