"""C02 hardening: *scenarios* = a Solver's whole history written as data.

A scenario is a dict of literals (so that repr / eval round-trips it into a replay file):

  {"decls": ["b" | ("i", lo, hi) ...],          declared variables, in order
   "cands": {i: [v ...]},                        for a WIDE int domain: the few values the variable may
                                                 take; the membership constraint OR(x == v ...) is posted
                                                 right after the declarations, so enumerating the
                                                 candidates is exact although the domain is huge
   "decl_form": "vars" | "arrays",               bool_var / int_var one by one, or runs of equal
                                                 declarations through bool_array / int_array (1-D, 2-D)
   "steps": [("ensure", [surface terms], form, salt)
             ("keys", [variable numbers], form, salt)
             ("solve", backend, how)             backend: "z3" | "native" | "live:<policy>"
                                                 how (z3 only): "class" | "name" | "default"
             ("scramble", salt)]}                overwrite every sol field with another value

`form` says how the Python API receives an iterable argument (input class 1: the model /
the oracle see the materialised list, the real code gets the one-shot object):
  list args tuple array | gen map zip iter reversed chain filter | gen-in-list gen-in-tuple
  nested-gen lazy | calls (one call per element, rotating through the forms above)

Integers handed to cspuz (domain bounds, literals, values a scripted backend writes into
sol) are created at run time (`fresh`), so none of them is a cached / shared object (class 2).
"""
import itertools

import c01gen as G

# narrow domains far from zero: every value is outside CPython's small-int cache (or straddles its edge)
FAR_DOMAINS = [(255, 258), (256, 257), (257, 257), (257, 259), (300, 300), (-7, -4), (-6, -5), (-6, -6),
               (1000, 1002), (-1000, -998), (4095, 4097), (65535, 65537), (5000, 5000),
               (-2 ** 31 - 1, -2 ** 31 + 1), (2 ** 31 - 1, 2 ** 31 + 1), (2 ** 40, 2 ** 40 + 2),
               (-10 ** 9, -10 ** 9 + 1), (10 ** 12 - 1, 10 ** 12)]
WIDE_DOMAINS = [(-1000, 1000), (0, 10 ** 6), (-10 ** 9, -5), (0, 2 ** 40), (-300, 300), (-2 ** 33, 2 ** 33)]

ONE_SHOT = ["gen", "map", "zip", "iter", "reversed", "chain", "filter", "gen-in-list", "gen-in-tuple",
            "nested-gen", "lazy"]
PLAIN = ["list", "args", "tuple", "array"]
ALL_FORMS = PLAIN + ONE_SHOT + ["calls"]
POLICIES = ["first", "last", "random", "fewest", "most"]


def fresh(v):
    """an equal value that is a brand-new object (ints only; bool / None are singletons)."""
    if isinstance(v, bool) or v is None:
        return v
    return int(str(v))


def fresh_term(t):
    if t[0] == "L":
        return ("L", fresh(t[1]))
    if t[0] in ("BV", "IV"):
        return t
    return G.with_children(t, [fresh_term(c) for c in G.children(t)])


# ----------------------------------------------------------------- generator of programs

class Gen2(G.Gen):
    """as c01gen.Gen, but integer literals are also taken near the declared domains
    (bounds, candidate values, differences and sums of them), so that comparisons with
    far / wide variables are not all trivially true or false."""

    def __init__(self, rng, decls, cands=None, **kw):
        G.Gen.__init__(self, rng, decls, **kw)
        pts = []
        for i, d in enumerate(decls):
            if d == "b":
                continue
            if cands and i in cands:
                pts += list(cands[i])
            else:
                pts += [d[1], d[2], (d[1] + d[2]) // 2]
        self.pts = sorted(set(pts))

    def lit_int(self):
        r = self.rng
        if not self.pts or r.random() < 0.4:
            return G.Gen.lit_int(self)
        x = r.random()
        a, b = r.choice(self.pts), r.choice(self.pts)
        if x < 0.55:
            return ("L", a + r.choice([0, 0, 0, 1, -1]))
        if x < 0.75:
            return ("L", a - b)
        if x < 0.9:
            return ("L", a + b)
        return ("L", 2 * a)


def gen_decls2(rng, cls, nmax=4):
    """-> decls, cands.  cls: 'far' | 'wide' | 'small'"""
    n = rng.randint(1, nmax)
    ds, cands = [], {}
    for i in range(n):
        x = rng.random()
        if x < 0.4:
            ds.append("b")
        elif cls == "far" and x < 0.85:
            ds.append(("i",) + rng.choice(FAR_DOMAINS))
        elif cls == "wide" and x < 0.85:
            lo, hi = rng.choice(WIDE_DOMAINS)
            ds.append(("i", lo, hi))
            k = rng.randint(1, 3)
            pool = [lo, hi, lo + 1, hi - 1, (lo + hi) // 2, rng.randint(lo, hi), rng.randint(lo, hi),
                    max(lo, min(hi, 257)), max(lo, min(hi, -6)), max(lo, min(hi, 256)), max(lo, min(hi, 4096))]
            cands[i] = sorted(set(rng.sample(pool, k)))
        else:
            ds.append(("i",) + rng.choice(G.DOMAINS_SMALL))
    return ds, cands


def n_envs2(decls, cands):
    n = 1
    for i, d in enumerate(decls):
        n *= 2 if d == "b" else (len(cands[i]) if i in cands else max(0, d[2] - d[1] + 1))
    return n


def dom_cons(decls, cands):
    """the membership constraints that make the candidate enumeration exact."""
    out = []
    for i in sorted(cands):
        out.append(("node", "B", "OR", [("eq", ("IV", i), ("L", c)) for c in cands[i]]))
    return out


def models2(decls, cands, cons):
    doms = []
    for i, d in enumerate(decls):
        if d == "b":
            doms.append([False, True])
        elif i in cands:
            doms.append([c for c in cands[i] if d[1] <= c <= d[2]])
        else:
            doms.append(list(range(d[1], d[2] + 1)))
    out = []
    for env in itertools.product(*doms):
        if all(bool(G.seval(c, env)) for c in cons):
            out.append(tuple(env))
    return out


def gen_scenario(ctx, rng, cls=None, maxenv=160):
    cls = cls or rng.choice(["far", "far", "far", "wide", "small", "small"])
    while True:
        decls, cands = gen_decls2(rng, cls)
        if n_envs2(decls, cands) <= maxenv:
            break
    g = Gen2(rng, decls, cands, count=ctx.count)
    ctx.count("sc-class:" + cls)

    sofar = list(dom_cons(decls, cands))      # everything posted so far (to keep most histories satisfiable)
    ivars = [i for i, d in enumerate(decls) if d != "b"]

    def one_con():
        x = rng.random()
        if ivars and x < 0.22:
            # pin an integer variable (or the sum of two) to a value of its domain: a far / wide fact
            i = rng.choice(ivars)
            dom = cands[i] if i in cands else list(range(decls[i][1], decls[i][2] + 1))
            if dom:
                v = rng.choice(dom)
                if len(ivars) > 1 and x < 0.07:
                    j = rng.choice([k for k in ivars if k != i])
                    dj = cands[j] if j in cands else list(range(decls[j][1], decls[j][2] + 1))
                    if dj:
                        return ("eq", ("add", ("IV", i), ("IV", j)), ("L", v + rng.choice([dj[0], dj[-1]])))
                return (rng.choice(["eq", "eq", "le", "ge"]), ("IV", i), ("L", v))
        return g.gbool(rng.randint(1, 3))

    def some_cons(lo, hi, unsat_ok=0.1):
        out = []
        for _ in range(rng.randint(lo, hi)):
            for attempt in range(5):
                c = one_con()
                if models2(decls, cands, sofar + [c]) or rng.random() < unsat_ok:
                    break
            sofar.append(c)
            out.append(c)
        return out

    def form():
        x = rng.random()
        f = rng.choice(PLAIN) if x < 0.3 else ("calls" if x < 0.4 else rng.choice(ONE_SHOT))
        return f

    def solve_step():
        x = rng.random()
        if x < 0.55:
            return ("solve", "z3", rng.choice(["class", "class", "name", "default"]))
        if x < 0.7:
            return ("solve", "native", "class")
        return ("solve", "live:" + rng.choice(POLICIES), "class")

    n = len(decls)
    idx = list(range(n))
    rng.shuffle(idx)
    mode = rng.choice(["none", "all", "some", "some", "some", "some"])
    k1 = [] if mode == "none" else (idx if mode == "all" else [i for i in idx if rng.random() < 0.65])
    rest = [i for i in idx if i not in k1]
    steps = []
    # declaration of keys and constraints in either order, possibly split
    a = ("ensure", some_cons(0, 3), form(), rng.randint(0, 7))
    b = ("keys", k1, form(), rng.randint(0, 7))
    steps += [a, b] if rng.random() < 0.5 else [b, a]
    steps.append(solve_step())
    hist = rng.choice(["one", "one", "again", "more-cons", "more-cons", "more-keys", "scramble", "long"])
    ctx.count("sc-history:" + hist)
    if hist == "again":
        steps.append(solve_step())
    elif hist == "more-cons":
        steps += [("ensure", some_cons(1, 2, 0.3), form(), rng.randint(0, 7)), solve_step()]
    elif hist == "more-keys":
        more = [i for i in rest if rng.random() < 0.7] or rest[:1]
        steps += [("keys", more, form(), rng.randint(0, 7)), solve_step()]
    elif hist == "scramble":
        steps += [("scramble", rng.randint(0, 7)), solve_step()]
    elif hist == "long":
        for _ in range(rng.randint(2, 3)):
            x = rng.random()
            if x < 0.45:
                steps.append(("ensure", some_cons(1, 1), form(), rng.randint(0, 7)))
            elif x < 0.7 and rest:
                j = rest.pop()
                steps.append(("keys", [j], form(), rng.randint(0, 7)))
            else:
                steps.append(("scramble", rng.randint(0, 7)))
            steps.append(solve_step())
    return {"decls": decls, "cands": cands, "decl_form": rng.choice(["vars", "vars", "arrays"]), "steps": steps}


# ----------------------------------------------------------------- the public API, in every form

def declare2(solver, decls, form, salt=0):
    """declare the variables; 'arrays' declares runs of equal declarations through
    bool_array / int_array (1-D or 2-D shape) and takes the variables out of the array."""
    vs = []
    if form == "vars":
        for d in decls:
            vs.append(solver.bool_var() if d == "b" else solver.int_var(fresh(d[1]), fresh(d[2])))
        return vs
    i, run = 0, 0
    while i < len(decls):
        j = i
        while j < len(decls) and decls[j] == decls[i]:
            j += 1
        n, d = j - i, decls[i]
        shapes = [n, (n,), (1, n), (n, 1)] + ([(2, n // 2)] if n % 2 == 0 else [])
        shape = shapes[(salt + run) % len(shapes)]
        run += 1
        if d == "b":
            arr = solver.bool_array(shape)
        elif d[1] > d[2]:
            arr = [solver.int_var(fresh(d[1]), fresh(d[2])) for _ in range(n)]     # int_array rejects lo > hi
        else:
            arr = solver.int_array(shape, fresh(d[1]), fresh(d[2]))
        vs += list(arr)
        i = j
    return vs


def _split(xs, salt):
    k = (salt % (len(xs) + 1)) if xs else 0
    return xs[:k], xs[k:]


def pass_iterable(call, xs, form, salt=0, wrap_array=None, thunks=None):
    """call(*arguments) so that the callee receives the elements `xs` in the given form.
    thunks: optional zero-argument functions producing the elements (form 'lazy' evaluates
    them only while the callee iterates)."""
    xs = list(xs)
    if form == "calls":
        sub = PLAIN[:3] + ONE_SHOT
        for j, x in enumerate(xs):
            pass_iterable(call, [x], sub[(salt + j) % len(sub)], salt + j, wrap_array)
        return
    if form == "list":
        return call(list(xs))
    if form == "args":
        return call(*xs)
    if form == "tuple":
        a, b = _split(xs, salt)
        return call(tuple(a), tuple(b)) if salt % 2 else call(tuple(xs))
    if form == "array":
        if wrap_array is None:
            return call([list(xs)])
        return call(*wrap_array(xs))
    if form == "gen":
        return call(x for x in xs)
    if form == "map":
        return call(map(lambda x: x, xs))
    if form == "zip":
        a, b = xs[0::2], xs[1::2]
        tail = xs[2 * len(b):]
        return call(zip(a, b), *tail) if salt % 2 else call(*(tail + [zip(a, b)]))
    if form == "iter":
        return call(iter(xs))
    if form == "reversed":
        return call(reversed(xs))
    if form == "chain":
        a, b = _split(xs, salt)
        return call(itertools.chain(a, iter(b)))
    if form == "filter":
        return call(filter(lambda x: True, xs))
    if form == "gen-in-list":
        a, b = _split(xs, salt)
        return call(list(a) + [(x for x in b)])
    if form == "gen-in-tuple":
        a, b = _split(xs, salt)
        return call((iter(a), (x for x in b)))
    if form == "nested-gen":
        a, b = _split(xs, salt)
        return call((x for x in part) for part in (a, b))
    if form == "lazy":
        if thunks is not None:
            return call(f() for f in thunks)
        return call((lambda y: y)(x) for x in xs)
    raise ValueError("form " + form)


def wrap_key_arrays(ks):
    from cspuz.array import BoolArray1D, BoolArray2D, IntArray1D, IntArray2D
    from cspuz.expr import BoolVar
    bs = [k for k in ks if isinstance(k, BoolVar)]
    is_ = [k for k in ks if not isinstance(k, BoolVar)]
    out = []
    if bs:
        out.append(BoolArray2D(bs, (1, len(bs))) if len(bs) % 2 else BoolArray1D(bs))
    if is_:
        out.append(IntArray2D(is_, (len(is_), 1)) if len(is_) % 2 == 0 else IntArray1D(is_))
    return out


def wrap_cons_arrays(cs):
    from cspuz.array import BoolArray1D
    from cspuz.expr import BoolExpr
    es = [c for c in cs if isinstance(c, BoolExpr)]
    lits = [c for c in cs if not isinstance(c, BoolExpr)]
    return ([BoolArray1D(es)] if es else []) + [lits]


def add_keys(solver, vs, idxs, form, salt=0):
    ks = [vs[i] for i in idxs]
    if not ks:
        if salt % 3 == 0:
            return
        return solver.add_answer_key() if salt % 3 == 1 else solver.add_answer_key(iter([]))
    pass_iterable(solver.add_answer_key, ks, form, salt, wrap_key_arrays)


def post(solver, vs, cons, form, salt=0):
    cons = [fresh_term(c) for c in cons]
    if form == "lazy":
        thunks = [(lambda c=c: G.build(c, vs)) for c in cons]
        return pass_iterable(solver.ensure, [None] * len(cons), form, salt, thunks=thunks)
    pass_iterable(solver.ensure, [G.build(c, vs) for c in cons], form, salt, wrap_cons_arrays)


def scramble(vs, decls, salt):
    """overwrite every sol field with some other value of (mostly) the right type."""
    for j, (v, d) in enumerate(zip(vs, decls)):
        x = (salt + j) % 4
        if d == "b":
            v.sol = [True, False, None, (not v.sol) if isinstance(v.sol, bool) else True][x]
        else:
            cur = v.sol if isinstance(v.sol, int) else d[1]
            v.sol = [fresh(d[1]), fresh(cur + 1), None, fresh(d[2])][x]


# ----------------------------------------------------------------- prefixes of a history

def intended(sc, upto):
    """the surface program and the answer keys the user has declared by step `upto`
    (exclusive) -- what the model / the enumeration are given."""
    cons = list(dom_cons(sc["decls"], sc["cands"]))
    keys = [False] * len(sc["decls"])
    for st in sc["steps"][:upto]:
        if st[0] == "ensure":
            cons += list(st[1])
        elif st[0] == "keys":
            for i in st[1]:
                keys[i] = True
    return cons, keys


def show_steps(sc):
    out = []
    for st in sc["steps"]:
        if st[0] == "ensure":
            out.append("ensure[%s](%s)" % (st[2], ", ".join(G.show_surface(c) for c in st[1])))
        elif st[0] == "keys":
            out.append("add_answer_key[%s](%s)" % (st[2], ", ".join("v%d" % i for i in st[1])))
        elif st[0] == "solve":
            out.append("solve(%s%s)" % (st[1], "" if st[2] == "class" else " by " + st[2]))
        else:
            out.append("scramble-sol")
    return out


def max_width(sc):
    w = 1
    for d in sc["decls"]:
        if d != "b":
            w = max(w, d[2] - d[1] + 1)
    return w
