"""C18 — SegmentationBuilder2D only ever produces valid room partitions."""
import contextlib
import copy
import importlib
import os
import random
import types
from collections import Counter

import vlib
import c18_shapes as SH

PROPS = "Props/C18.v"
RULE = ("correspondence: the same (config, blocks, PRNG draws) is run through the real "
        "SegmentationBuilder2D.__init__/candidates/copy_with_update/initial, split_block and _is_connected "
        "(with the PRNG object the module uses replaced by a replayer of the explicit draws: randint(a,b) = a + d mod (b-a+1), "
        "choice(seq) = canonical(seq)[d mod len]) and through the extracted Coq model (make_config, candidates, apply_update, "
        "initial, split_block, is_connected); whole candidate lists are compared (the merge prefix, which Python builds from a set, "
        "sorted on both sides), incl. the number of draws consumed and the error class.  Inputs: boards 0..5 (thorough 0..6) per side; "
        "bounds None/0/small/tight/infeasible/negative; blocks = independently generated random partitions in random cell order, plus a malformed "
        "stream (missing cells, overlapping blocks, disconnected blocks, duplicate cells, empty blocks); draws plentiful or nearly exhausted.  "
        "search: random walks over updates proposed by the real code (real PRNG behind a call budget), every proposed update applied and the "
        "result checked by an independent invariant checker (Counter of cells, own flood fill, own bound defaulting); purity half (TEST, not a "
        "theorem): deep-copy the value, apply, mutate every list reachable from the result, compare the value with its copy.  A case is "
        "non-trivial when it is a distinct (kind, config, blocks, draws/update) tuple.  "
        "Hardened input classes (harness/c18_shapes.py builds the shapes from first principles): correspondence also over _is_connected on ALL "
        "cell subsets of 3x4 (every excluded cell) and 4x4 (every cell for blocks with holes and in thorough, sampled cells otherwise) and sampled 5x5; "
        "split_block on all subsets of 3x3 x all ordered seed pairs, all subsets of 3x4, all connected subsets of 4x4, carved / ring / catalogue "
        "blocks up to 7x7; candidates / copy_with_update on partitions built around rings with tails, blocks with holes, carved non-convex "
        "blocks of every size >= 16 (or half the board) and snake / spiral / comb / U / C / frame shapes on 3x5 .. 7x7; one builder called on "
        "values A, B, A, A with every returned list scrambled in between (each call = the stateless model); copy_with_update twice on the same "
        "objects with arguments compared to deep copies; bounds, block counts and block sizes above 256 as run-time int objects (1x270, 2x135, "
        "16x17 boards); constructor call forms (all keywords / None omitted / positional / mixed).  Search also: every connected cell set of "
        "3x4 / 4x3 / (holes + sample, thorough: all) 4x4 as a block with the complement's components as the other blocks, the targeted shapes "
        "on 3x5 .. 7x7, >256-block and >256-cell states, each proposed update applied for real when an independent local test of the update "
        "(appended blocks connected, same cells as the excluded blocks, bounds) fails or for a sample, and TEST(purity/history): value unchanged "
        "after candidates() and after scrambling what it returned, same proposals on a second call with the same draws, update unchanged by "
        "apply, same value from applying twice, initial_blocks neither modified nor aliased by initial().")
TRUSTED = [
    "reading of the property: 'proposed updates' = elements of candidates(value); 'applying' = copy_with_update; values = lists of lists of (y, x) tuples; "
    "the bound configuration is the one stored by __init__ (None/0 mean default); allow_unmet_constraints_first=False for the claim about initial()",
    "the PRNG used by segmentation.py (random or srandom) returns randint(a,b) in [a,b] and choice(seq) in seq; modelled as explicit draws",
    "CPython list/tuple/set/dict/deque semantics as transcribed in Generator/Segmentation.v; BFS distances of split_block are modelled level-synchronously (same dict as the queue BFS), "
    "the recursive flood fill of _is_connected as the same level iteration; set iteration order of the merge pairs is not modelled (compared as sorted lists)",
    "purity ('never modifies the value it was applied to') is about Python aliasing: it is argued from the source text of copy_with_update / _copy_with_update (previous only read, kept blocks deep-copied; the text is locked fail-closed by translate() on every run) and TESTED by the harness; it is not a Coq theorem (the model is immutable)",
    "search also reports as violations: candidates() raising on a value that satisfies the invariant, and initial() raising anything but the IndexError of "
    "random.choice([]) (infeasible bounds); initial() runs that exceed a PRNG call budget (bounds that can never be met) are skipped",
]
ASSUMPTIONS = [
    "cells of supplied blocks lie inside the board (negative indices would wrap in Python; not modelled)",
    "block sizes stay below the interpreter recursion limit (_is_connected recurses once per cell; a RecursionError yields no value and is outside the model)",
    "initial(): height >= 1 and width >= 1 when no initial_blocks are given; supplied initial_blocks form a partition into connected blocks",
]

ERRCODE = {1: "IndexError", 2: "KeyError", 3: "AssertionError", 4: "TypeError", 5: "ValueError",
           6: "RecursionError", 7: "NotImplementedError", 8: "Other"}


class DrawsExhausted(Exception):
    pass


class BudgetExceeded(Exception):
    pass


def is_merge(u):
    return len(u[0]) == 2 and len(u[1]) == 1


def canon_list(seq):
    """candidate list with the merge prefix (built from a Python set) in sorted order."""
    k = 0
    while k < len(seq) and is_merge(seq[k]):
        k += 1
    return sorted(seq[:k], key=lambda u: tuple(u[0])) + list(seq[k:])


class Replay:
    """stands in for the `random` / `srandom` module inside segmentation.py"""

    def __init__(self, draws):
        self.draws = list(draws)
        self.pos = 0

    def _next(self):
        if self.pos >= len(self.draws):
            raise DrawsExhausted()
        d = self.draws[self.pos]
        self.pos += 1
        return d

    def randint(self, a, b):
        d = self._next()
        return a + d % (b - a + 1)

    def choice(self, seq):
        if len(seq) == 0:
            raise IndexError("Cannot choose from an empty sequence")
        d = self._next()
        return canon_list(seq)[d % len(seq)]

    def shuffle(self, seq):
        raise NotImplementedError("PRNG call not covered by the model: shuffle")

    def random(self):
        raise NotImplementedError("PRNG call not covered by the model: random")

    def remaining(self):
        return len(self.draws) - self.pos


class BudgetRandom:
    """the real PRNG (a random.Random) behind a call budget, so that initial() cannot spin forever"""

    def __init__(self, rng, budget):
        self.rng, self.budget = rng, budget

    def _tick(self):
        self.budget -= 1
        if self.budget < 0:
            raise BudgetExceeded()

    def randint(self, a, b):
        self._tick()
        return self.rng.randint(a, b)

    def choice(self, seq):
        self._tick()
        return self.rng.choice(seq)

    def shuffle(self, seq):
        self._tick()
        self.rng.shuffle(seq)

    def random(self):
        self._tick()
        return self.rng.random()


def seg_module():
    return importlib.import_module("cspuz.generator.segmentation")


PRNG_MODULES = ("random", "cspuz.generator.srandom", "cspuz.generator.deterministic_random")


@contextlib.contextmanager
def patched(obj):
    """replace whatever PRNG segmentation.py refers to (module `random`, `srandom`, or names imported from them)."""
    seg = seg_module()
    saved = {}
    for name, val in list(vars(seg).items()):
        if isinstance(val, types.ModuleType) and val.__name__ in PRNG_MODULES:
            saved[name] = val
        elif name in ("randint", "choice", "shuffle") and callable(val):
            saved[name] = val
    if not saved:
        raise RuntimeError("segmentation.py: no PRNG module/function found to patch")
    try:
        for name, val in saved.items():
            setattr(seg, name, obj if isinstance(val, types.ModuleType) else getattr(obj, name))
        yield obj
    finally:
        for name, val in saved.items():
            setattr(seg, name, val)


# ---------------------------------------------------------------- wire format

def enc_block(b):
    return " ".join([str(len(b))] + ["%d %d" % (y, x) for (y, x) in b])


def enc_blocks(bs):
    return " ".join([str(len(bs))] + [enc_block(b) for b in bs])


def enc_nats(l):
    return " ".join([str(len(l))] + [str(v) for v in l])


def enc_opt(v):
    return "_" if v is None else str(v)


def enc_cfg(cfg):
    h, w, mn, mx, ms, xs, allow = cfg
    return "%d %d %s %s %s %s %d" % (h, w, enc_opt(mn), enc_opt(mx), enc_opt(ms), enc_opt(xs), 1 if allow else 0)


def enc_update(u):
    return enc_nats(u[0]) + " " + enc_blocks(u[1])


class Cur:
    def __init__(self, toks):
        self.t, self.i = toks, 0

    def int(self):
        v = int(self.t[self.i])
        self.i += 1
        return v

    def block(self):
        k = self.int()
        return tuple((self.int(), self.int()) for _ in range(k))

    def blocks(self):
        n = self.int()
        return tuple(self.block() for _ in range(n))

    def nats(self):
        n = self.int()
        return tuple(self.int() for _ in range(n))

    def update(self):
        ex = self.nats()
        return (ex, self.blocks())


def parse_err(t):
    return ("err", ERRCODE[int(t[1])])


def parse_cand(r):
    t = r.split()
    if t[0] == "E":
        return parse_err(t)
    if t[0] != "OK":
        raise RuntimeError("bad model reply " + r[:200])
    c = Cur(t[1:])
    rest = c.int()
    n = c.int()
    return ("ok", (tuple(c.update() for _ in range(n)), rest))


def parse_blocks_reply(r, with_rest):
    t = r.split()
    if t[0] == "E":
        return parse_err(t)
    if t[0] != "OK":
        raise RuntimeError("bad model reply " + r[:200])
    c = Cur(t[1:])
    if with_rest:
        rest = c.int()
        return ("ok", (c.blocks(), rest))
    return ("ok", c.blocks())


def parse_split(r):
    t = r.split()
    if t[0] == "E":
        return parse_err(t)
    c = Cur(t[1:])
    rest = c.int()
    return ("ok", (c.block(), c.block(), rest))


def norm_blocks(bs):
    return tuple(tuple((int(y), int(x)) for (y, x) in b) for b in bs)


def norm_update(u):
    return (tuple(int(i) for i in u[0]), norm_blocks(u[1]))


def norm_err(r):
    if r[0] == "err" and r[1].startswith("Other"):
        return ("err", "Other")
    return r


# ---------------------------------------------------------------- input generators (independent of the code under test)

def neighbours(c):
    y, x = c
    return [(y - 1, x), (y + 1, x), (y, x - 1), (y, x + 1)]


def rand_partition(rng, h, w, k):
    """k connected regions grown from random seeds; cell order inside a block and block order are random."""
    cells = [(y, x) for y in range(h) for x in range(w)]
    k = max(1, min(k, len(cells)))
    seeds = rng.sample(cells, k)
    owner = {s: i for i, s in enumerate(seeds)}
    blocks = [[s] for s in seeds]
    frontier = list(seeds)
    while len(owner) < len(cells):
        c = rng.choice(frontier)
        free = [n for n in neighbours(c) if 0 <= n[0] < h and 0 <= n[1] < w and n not in owner]
        if not free:
            frontier.remove(c)
            continue
        n = rng.choice(free)
        owner[n] = owner[c]
        blocks[owner[c]].append(n)
        frontier.append(n)
    mode = rng.randint(0, 2)
    for b in blocks:
        if mode == 0:
            b.sort()
        elif mode == 1:
            rng.shuffle(b)
    rng.shuffle(blocks)
    return blocks


def malform(rng, h, w, blocks):
    """one defect: missing cells / overlap / disconnected block / duplicate cell / empty block"""
    bs = [list(b) for b in blocks]
    kind = rng.choice(["missing-block", "missing-cell", "overlap", "swap", "dup-cell", "empty-block"])
    if kind == "missing-block" and len(bs) > 1:
        bs.pop(rng.randrange(len(bs)))
    elif kind == "missing-cell":
        b = rng.choice(bs)
        if len(b) > 1:
            b.pop(rng.randrange(len(b)))
    elif kind == "overlap" and len(bs) > 1:
        i, j = rng.sample(range(len(bs)), 2)
        bs[j].insert(rng.randint(0, len(bs[j])), rng.choice(bs[i]))
    elif kind == "swap" and len(bs) > 1:
        i, j = rng.sample(range(len(bs)), 2)
        a, b = rng.randrange(len(bs[i])), rng.randrange(len(bs[j]))
        bs[i][a], bs[j][b] = bs[j][b], bs[i][a]
    elif kind == "dup-cell":
        b = rng.choice(bs)
        b.insert(rng.randint(0, len(b)), rng.choice(b))
    elif kind == "empty-block":
        bs.insert(rng.randint(0, len(bs)), [])
    return kind, bs


def rand_bounds(rng, h, w, nblocks, sizes):
    """(min_num, max_num, min_size, max_size) — None / 0 / loose / tight around the current value / infeasible / negative"""
    n = max(1, h * w)

    def pick(cur, lo):
        r = rng.random()
        if r < 0.25:
            return None
        if r < 0.30:
            return 0
        if r < 0.60:
            return max(lo, cur + rng.choice([-1, 0, 0, 1]))
        if r < 0.95:
            return rng.randint(lo, n + 1)
        return rng.choice([-1, -2, n + 3])
    smin, smax = (min(sizes), max(sizes)) if sizes else (1, 1)
    return (pick(nblocks, 1), pick(nblocks, 1), pick(smin, 1), pick(smax, 1))


def rand_draws(rng, n, small=False):
    if small:
        return [rng.randint(0, 3) for _ in range(n)]
    return [rng.randint(0, 997) for _ in range(n)]


def mk_builder(cfg, initial_blocks=None):
    seg = seg_module()
    h, w, mn, mx, ms, xs, allow = cfg
    return seg.SegmentationBuilder2D(h, w, min_num_blocks=mn, max_num_blocks=mx, min_block_size=ms,
                                     max_block_size=xs, allow_unmet_constraints_first=allow,
                                     initial_blocks=initial_blocks)


FORMS = ("kw", "omit", "pos", "mixed")


def mk_builder_form(cfg, form, initial_blocks=None):
    """class 6: the same configuration through different call forms of the constructor"""
    seg = seg_module()
    h, w, mn, mx, ms, xs, allow = cfg
    if form == "kw":
        return mk_builder(cfg, initial_blocks)
    if form == "pos":
        return seg.SegmentationBuilder2D(h, w, mn, mx, ms, xs, allow, initial_blocks)
    if form == "mixed":
        return seg.SegmentationBuilder2D(h, w, mn, mx, min_block_size=ms, max_block_size=xs,
                                         initial_blocks=initial_blocks, allow_unmet_constraints_first=allow)
    kw = {}
    for k, v in (("min_num_blocks", mn), ("max_num_blocks", mx), ("min_block_size", ms), ("max_block_size", xs),
                 ("initial_blocks", initial_blocks)):
        if v is not None:
            kw[k] = v
    if allow:
        kw["allow_unmet_constraints_first"] = True
    return seg.SegmentationBuilder2D(width=w, height=h, **kw)


def fresh_int(v):
    """class 2: an int object created at run time (never the cached / constant-folded object)"""
    return None if v is None else int(str(v))


def fresh_cfg(cfg):
    h, w, mn, mx, ms, xs, allow = cfg
    return (fresh_int(h), fresh_int(w), fresh_int(mn), fresh_int(mx), fresh_int(ms), fresh_int(xs), allow)


def hard_scramble(obj, depth=0):
    """class 3: lasting damage to every list reachable from obj (tuples are walked, not changed)"""
    if depth > 6:
        return
    if isinstance(obj, list):
        for x in list(obj):
            hard_scramble(x, depth + 1)
        obj.insert(0, (-7, -7))
        obj.append((-8, -8))
    elif isinstance(obj, tuple):
        for x in obj:
            hard_scramble(x, depth + 1)


def impl_candidates_history(cfg, seq):
    """class 3: ONE builder, the calls of `seq` = [(key, draws)] in order on the same list objects per key;
    everything returned is scrambled before the next call.  seq entries refer to values by index into `vals`."""
    vals, calls = seq

    def f():
        b = mk_builder(cfg)
        objs = [[list(x) for x in blocks] for blocks in vals]
        out = []
        for (vi, draws) in calls:
            try:
                with patched(Replay(draws)) as rp:
                    cands = b.candidates(objs[vi])
                r = ("ok", (tuple(norm_update(u) for u in canon_list(cands)), rp.remaining()))
                hard_scramble(cands)
            except BaseException as ex:  # noqa
                if isinstance(ex, (KeyboardInterrupt, SystemExit)):
                    raise
                r = norm_err(("err", vlib.err_name(ex)))
            out.append(r)
        return tuple(out)
    return vlib.guarded(f)


def impl_apply_twice(blocks, u):
    """class 3: copy_with_update twice on the same objects; the arguments must come back unchanged"""
    def f():
        b = mk_builder((1, 1, None, None, None, None, False))
        prev = [list(x) for x in blocks]
        upd = ([*u[0]], [list(x) for x in u[1]])
        psnap, usnap = copy.deepcopy(prev), copy.deepcopy(upd)
        r1 = norm_blocks(b.copy_with_update(prev, upd))
        same1 = (prev == psnap, upd == usnap)
        r2 = norm_blocks(b.copy_with_update(prev, upd))
        return (r1, r2, same1, (prev == psnap, upd == usnap))
    return norm_err(vlib.guarded(f))


def impl_candidates(cfg, blocks, draws):
    def f():
        b = mk_builder(cfg)
        cur = [list(x) for x in blocks]
        with patched(Replay(draws)) as rp:
            cands = b.candidates(cur)
        return (tuple(norm_update(u) for u in canon_list(cands)), rp.remaining())
    return norm_err(vlib.guarded(f))


def impl_apply(blocks, u):
    def f():
        b = mk_builder((1, 1, None, None, None, None, False))
        return norm_blocks(b.copy_with_update([list(x) for x in blocks], ([*u[0]], [list(x) for x in u[1]])))
    return norm_err(vlib.guarded(f))


def impl_initial(cfg, ib, draws):
    def f():
        b = mk_builder(cfg, None if ib is None else [list(x) for x in ib])
        with patched(Replay(draws)) as rp:
            r = b.initial()
        return (norm_blocks(r), rp.remaining())
    return norm_err(vlib.guarded(f))


def impl_split(block, draws):
    def f():
        seg = seg_module()
        with patched(Replay(draws)) as rp:
            a, b = seg.split_block(list(block))
        return (tuple(a), tuple(b), rp.remaining())
    return norm_err(vlib.guarded(f))


def impl_isconn(block, excl):
    def f():
        return bool(seg_module()._is_connected(list(block), excl))
    return norm_err(vlib.guarded(f))


def board_sizes(ctx, lo=1):
    hi = 6 if ctx.thorough else 5
    return [(h, w) for h in range(lo, hi + 1) for w in range(lo, hi + 1)]


# ---------------------------------------------------------------- correspondence

# the text of the two functions the purity clause rests on ("applying an update never modifies the value it was applied
# to"): previous is only READ (indexed, len), every kept block is deep-copied, the result is a fresh list.  With this
# text the clause holds for CPython lists whatever the blocks are: no statement assigns to, or calls a method of,
# `previous` or one of its elements, and `deepcopy` shares nothing mutable with its argument (the appended blocks come
# from the update, not from the value).  A different text breaks this tie (fail-closed); the purity tests of the search
# phase then look for a concrete input.
PURITY_TEXT = {
    "copy_with_update": """def copy_with_update(self, previous, update):
    return self._copy_with_update(previous, update, use_deepcopy=True)""",
    "_copy_with_update": """def _copy_with_update(self, previous, update, use_deepcopy):
    exclude, append = update
    if use_deepcopy:
        return [deepcopy(previous[i]) for i in range(len(previous)) if i not in exclude] + append
    else:
        return [previous[i] for i in range(len(previous)) if i not in exclude] + append""",
}


def translate(ctx):
    """tie T for the purity clause: the source of SegmentationBuilder2D.copy_with_update / _copy_with_update must be,
    up to layout and comments, the text PURITY_TEXT was written from (compared as ast dumps), and `deepcopy` must be
    copy.deepcopy"""
    import ast
    src = open(os.path.join(vlib.REPO, "cspuz", "generator", "segmentation.py")).read()
    tree = ast.parse(src)
    cls = [n for n in tree.body if isinstance(n, ast.ClassDef) and n.name == "SegmentationBuilder2D"]
    if len(cls) != 1:
        raise RuntimeError("class SegmentationBuilder2D not found exactly once")
    for name, text in PURITY_TEXT.items():
        fs = [n for n in cls[0].body if isinstance(n, ast.FunctionDef) and n.name == name]
        if len(fs) != 1:
            raise RuntimeError("method %s not found exactly once" % name)
        want = ast.dump(ast.parse(text).body[0], annotate_fields=False)
        if ast.dump(fs[0], annotate_fields=False) != want:
            raise RuntimeError("SegmentationBuilder2D.%s is not the text the purity argument was made for" % name)
    imps = [n for n in tree.body if isinstance(n, ast.ImportFrom) and n.module == "copy"
            and any(a.name == "deepcopy" and a.asname is None for a in n.names)]
    rebinds = [n for n in ast.walk(tree) if isinstance(n, (ast.FunctionDef, ast.ClassDef)) and n.name == "deepcopy"] + \
              [n for n in ast.walk(tree) if isinstance(n, ast.Name) and n.id == "deepcopy" and isinstance(n.ctx, ast.Store)]
    if len(imps) != 1 or rebinds:
        raise RuntimeError("`deepcopy` in segmentation.py is not (only) copy.deepcopy")
    ctx.count("purity-source-lock")


def correspond(ctx):
    rng = ctx.rng
    m = ctx.model("C18")
    ctx._c18_states = []

    # --- __init__ defaults
    reqs, cases = [], []
    vals = [None, 0, 1, 2, 3, 7, -1]
    for (h, w) in [(0, 0), (0, 3), (1, 1), (2, 3), (3, 2), (4, 5)]:
        for _ in range(40 if not ctx.thorough else 200):
            cfg = (h, w, rng.choice(vals), rng.choice(vals), rng.choice(vals), rng.choice(vals), False)
            reqs.append("CFG " + enc_cfg(cfg))
            cases.append(cfg)
    for cfg, o in zip(cases, m.batch(reqs)):
        def f():
            b = mk_builder(cfg)
            return (b.min_num_blocks, b.max_num_blocks, b.min_block_size, b.max_block_size)
        mo = ("ok", tuple(int(v) for v in o.split()[1:]))
        ctx.corr("init-defaults", cfg, mo, vlib.guarded(f))

    # --- candidates (+ apply on the proposed updates)
    per = 40 if not ctx.thorough else 120
    reqs, cases = [], []
    for (h, w) in board_sizes(ctx):
        for rep in range(per):
            k = rng.choice([1, 1, 2, 2, 3, 4, rng.randint(1, h * w), h * w])
            blocks = rand_partition(rng, h, w, k)
            label = "valid"
            if rng.random() < 0.25:
                label, blocks = malform(rng, h, w, blocks)
            sizes = [len(b) for b in blocks]
            mn, mx, ms, xs = rand_bounds(rng, h, w, len(blocks), sizes)
            cfg = (h, w, mn, mx, ms, xs, False)
            r = rng.random()
            if r < 0.08:
                draws = rand_draws(rng, rng.randint(0, 12))
            elif r < 0.25:
                draws = rand_draws(rng, 40 * h * w + 40, small=True)   # many equal pairs -> re-draws
            else:
                draws = rand_draws(rng, 30 * h * w + 40)
            reqs.append("CAND %s %s %s" % (enc_cfg(cfg), enc_blocks(blocks), enc_nats(draws)))
            cases.append((cfg, norm_blocks(blocks), tuple(draws), label))
    outs = m.batch(reqs)
    areqs, acases = [], []
    for (cfg, blocks, draws, label), o in zip(cases, outs):
        mo = parse_cand(o)
        io = impl_candidates(cfg, blocks, draws)
        ctx.count("cand-input:" + label)
        ctx.count("cand-result:" + (io[1] if io[0] == "err" else "ok"))
        if io[0] == "ok":
            for u in io[1][0]:
                ctx.count("cand-kind:" + ("merge" if is_merge(u) else "split" if len(u[0]) == 1 else "move"))
        ctx.corr("candidates", (cfg, blocks, draws[:8], len(draws)), mo, io)
        if io[0] == "ok" and io[1][0]:
            ups = list(io[1][0])
            for u in rng.sample(ups, min(3, len(ups))):
                areqs.append("APPLY %s %s" % (enc_blocks(blocks), enc_update(u)))
                acases.append((blocks, u))
            if label == "valid":
                ctx._c18_states.append((cfg, blocks, ups))
        # arbitrary update shapes through copy_with_update
        if rng.random() < 0.3:
            ex = tuple(rng.randint(0, len(blocks) + 1) for _ in range(rng.randint(0, 3)))
            nw = norm_blocks(rand_partition(rng, 2, 2, rng.randint(1, 3)))[:rng.randint(0, 2)]
            areqs.append("APPLY %s %s" % (enc_blocks(blocks), enc_update((ex, nw))))
            acases.append((blocks, (ex, nw)))
    for (blocks, u), o in zip(acases, m.batch(areqs)):
        ctx.corr("copy_with_update", (blocks, u), parse_blocks_reply(o, False), impl_apply(blocks, u))

    # --- initial()
    reqs, cases = [], []
    isz = [(0, 0), (0, 2), (2, 0)] + board_sizes(ctx)
    for (h, w) in isz:
        for rep in range(14 if not ctx.thorough else 40):
            ib = None
            if h * w > 0 and rng.random() < 0.35:
                ib = norm_blocks(rand_partition(rng, h, w, rng.randint(1, h * w)))
            nb = len(ib) if ib else 1
            sizes = [len(b) for b in ib] if ib else [h * w]
            mn, mx, ms, xs = rand_bounds(rng, h, w, rng.choice([nb, 2, 3]), rng.choice([sizes, [1, 2], [2, 3]]))
            cfg = (h, w, mn, mx, ms, xs, rng.random() < 0.1)
            draws = rand_draws(rng, rng.choice([0, 5, 60, 150, 400]))
            reqs.append("INIT %s %s %s" % (enc_cfg(cfg), "0" if ib is None else "1 " + enc_blocks(ib), enc_nats(draws)))
            cases.append((cfg, ib, tuple(draws)))
    for (cfg, ib, draws), o in zip(cases, m.batch(reqs)):
        io = impl_initial(cfg, ib, draws)
        ctx.count("initial-result:" + (io[1] if io[0] == "err" else "ok"))
        ctx.corr("initial", (cfg, ib, draws[:8], len(draws)), parse_blocks_reply(o, True), io)

    # --- split_block and _is_connected on arbitrary cell sets
    reqs, cases = [], []
    for (h, w) in board_sizes(ctx):
        for rep in range(16 if not ctx.thorough else 50):
            cells = [(y, x) for y in range(h) for x in range(w)]
            if rng.random() < 0.6:
                blk = rng.choice(rand_partition(rng, h, w, rng.randint(1, 3)))
            else:
                blk = rng.sample(cells, rng.randint(1, len(cells)))
            if rng.random() < 0.1:
                blk = blk + [rng.choice(blk)]
            draws = rand_draws(rng, rng.choice([0, 1, 2, 6, 30]), small=rng.random() < 0.4)
            reqs.append("SPLIT %s %s" % (enc_block(blk), enc_nats(draws)))
            cases.append(("split", tuple(blk), tuple(draws)))
            for _ in range(3):
                r = rng.random()
                excl = None if r < 0.1 else rng.choice(blk) if r < 0.8 else (rng.randint(-1, h), rng.randint(-1, w))
                reqs.append("ISCONN %s %s" % (enc_block(blk), "_" if excl is None else "%d %d" % excl))
                cases.append(("isconn", tuple(blk), excl))
    for (kind, blk, arg), o in zip(cases, m.batch(reqs)):
        if kind == "split":
            ctx.corr("split_block", (blk, arg), parse_split(o), impl_split(blk, arg))
        else:
            ctx.corr("_is_connected", (blk, arg), ("ok", o.strip() == "T"), impl_isconn(blk, arg))

    correspond_hard(ctx, m)


# ---------------------------------------------------------------- correspondence, hardened input classes

TARGET_BOARDS = [(3, 5), (5, 3), (4, 4), (4, 5), (5, 5), (2, 7), (5, 6), (6, 6), (4, 7), (7, 5), (7, 7)]


def state_bounds(rng, h, w, blocks):
    """bound configurations that the given partition satisfies: default / no split possible / no merge possible / tight sizes"""
    n = len(blocks)
    sizes = [len(b) for b in blocks]
    r = rng.randrange(6)
    if r == 0:
        return (h, w, None, None, None, None, False)
    if r == 1:
        return (h, w, None, n, None, None, False)
    if r == 2:
        return (h, w, n, None, None, None, False)
    if r == 3:
        return (h, w, None, None, min(sizes), max(sizes), False)
    if r == 4:
        return (h, w, max(1, n - 1), n + 1, None, max(sizes) + 1, False)
    return (h, w, None, None, max(1, min(sizes) - 1), None, False)


def targeted_blocks(rng, h, w, per_k=1, ks=None):
    """(label, block) — class 5: rings with tails, blocks with holes, carved non-convex blocks of every size from
    16 cells (or half the board) up, catalogue shapes (snake / spiral / comb / U / C / plus / staircase / notched / frames)"""
    out = []
    cat = SH.catalogue(h, w)
    rng.shuffle(cat)
    for name, b in cat[:8]:
        out.append(("cat:" + name.split("/")[0], b))
    for _ in range(4):
        b = SH.ring_with_tails(rng, h, w)
        if b and SH.connected(b):
            out.append(("ring-tail", sorted(b)))
    n = h * w
    lo = min(16, max(2, n // 2))
    for k in (ks if ks is not None else range(lo, n)):
        for _ in range(per_k):
            out.append(("carved", SH.carve(rng, h, w, k)))
    return out


def correspond_hard(ctx, m):
    rng = ctx.rng
    ctx._c18_shape_states = []

    # --- (class 5) _is_connected on ALL cell subsets of 3x4 and 4x4, every excluded cell; sampled 5x5
    reqs, cases = [], []

    def isconn(blk, excl):
        reqs.append("ISCONN %s %s" % (enc_block(blk), "_" if excl is None else "%d %d" % excl))
        cases.append((tuple(blk), excl))

    for blk in SH.subsets(3, 4):
        out = [c for c in SH.board(3, 4) if c not in blk]
        for ex in [None] + blk + [out[0] if out else (-1, 0)]:
            isconn(blk, ex)
    conn44 = set(SH.connected_masks(4, 4))
    for mask in range(1, 1 << 16):
        blk = SH.mask_cells(4, 4, mask)
        conn = mask in conn44
        if ctx.thorough or (conn and len(blk) >= 8 and SH.has_hole(4, 4, blk)):
            exs = [None] + blk                                   # quick: every cell of every block with a hole
        elif conn:
            exs = [None] + rng.sample(blk, min(len(blk), 2))
        elif mask % 4 == ctx.seed % 4:
            exs = [rng.choice([None] + blk)]
        else:
            exs = []
        for ex in exs:
            isconn(blk, ex)
        if conn and mask % 4 == 0:
            sb = SH.reorder(rng, blk, 2)
            isconn(sb, rng.choice(sb))
    for _ in range(6000 if ctx.thorough else 1200):
        k = rng.randint(2, 24)
        blk = SH.carve(rng, 5, 5, k) if rng.random() < 0.7 else sorted(rng.sample(SH.board(5, 5), k))
        blk = SH.reorder(rng, blk)
        for ex in (rng.choice(blk), rng.choice(blk), None):
            isconn(blk, ex)
    for (blk, ex), o in zip(cases, m.batch(reqs)):
        ctx.corr("_is_connected/all-subsets", (blk, ex), ("ok", o.strip() == "T"), impl_isconn(blk, ex))

    # --- (class 5) split_block: all subsets of 3x3 x all ordered seed pairs; all subsets of 3x4, all connected subsets of 4x4, sampled 5x5..7x7
    reqs, cases = [], []

    def split(blk, draws):
        reqs.append("SPLIT %s %s" % (enc_block(blk), enc_nats(draws)))
        cases.append((tuple(blk), tuple(draws)))

    def pairs(n, k):
        out = []
        for _ in range(k):
            a = rng.randrange(n)
            b = rng.randrange(n - 1)
            b = b + 1 if b >= a else b
            pre = [rng.randrange(n)] * 2 if rng.random() < 0.1 else []      # an equal pair first: one re-draw
            out.append(pre + [a + n * rng.randint(0, 3), b + n * rng.randint(0, 3)])
        return out

    for blk in SH.subsets(3, 3, 2):
        for a in range(len(blk)):
            for b in range(len(blk)):
                if a != b:
                    split(blk, [a, b])
    for blk in SH.subsets(3, 4, 2):
        n = len(blk)
        if ctx.thorough:
            for a in range(n):
                for b in range(n):
                    if a != b:
                        split(blk, [a, b])
        else:
            for d in pairs(n, 2):
                split(blk, d)
    c44 = [b for b in SH.connected_subsets(4, 4) if len(b) >= 2]
    for blk in c44:
        for d in pairs(len(blk), 2 if ctx.thorough else 1):
            split(SH.reorder(rng, blk) if rng.random() < 0.3 else blk, d)
    for _ in range(3000 if ctx.thorough else 1500):
        blk = sorted(rng.sample(SH.board(4, 4), rng.randint(2, 16)))
        split(blk, pairs(len(blk), 1)[0])
    for (h, w) in [(5, 5), (5, 6), (6, 6), (4, 7), (7, 7)]:
        for label, blk in targeted_blocks(rng, h, w, per_k=2 if (h, w) == (5, 5) or ctx.thorough else 1):
            for d in pairs(len(blk), 3):
                split(SH.reorder(rng, blk), d)
    for (blk, draws), o in zip(cases, m.batch(reqs)):
        ctx.corr("split_block/all-subsets", (blk, draws), parse_split(o), impl_split(blk, draws))

    # --- (class 5) candidates / copy_with_update on partitions built around targeted blocks
    reqs, cases = [], []
    for (h, w) in TARGET_BOARDS:
        big = h * w >= 36
        tb = targeted_blocks(rng, h, w, ks=None if not big else rng.sample(range(16, h * w), 4 if not ctx.thorough else 12))
        if not ctx.thorough:
            tb = rng.sample(tb, min(len(tb), 8 if big else 14))
        for label, blk in tb:
            blocks = SH.partition_around(h, w, SH.reorder(rng, blk), rng, cut=rng.choice([0.0, 0.5]),
                                         order=rng.choice(["first", "last", "shuffle"]))
            cfg = state_bounds(rng, h, w, blocks)
            draws = rand_draws(rng, 30 * h * w + 40, small=rng.random() < 0.15)
            reqs.append("CAND %s %s %s" % (enc_cfg(cfg), enc_blocks(blocks), enc_nats(draws)))
            cases.append((cfg, norm_blocks(blocks), tuple(draws), label))
    areqs, acases = [], []
    for (cfg, blocks, draws, label), o in zip(cases, m.batch(reqs)):
        io = impl_candidates(cfg, blocks, draws)
        ctx.count("cand-shape:" + label)
        ctx.corr("candidates/shapes", (cfg, blocks, draws[:8], len(draws)), parse_cand(o), io)
        if io[0] == "ok" and io[1][0]:
            ups = list(io[1][0])
            for u in rng.sample(ups, min(3, len(ups))):
                areqs.append("APPLY %s %s" % (enc_blocks(blocks), enc_update(u)))
                acases.append((blocks, u))
            ctx._c18_shape_states.append((cfg, blocks, ups))

    # --- (class 3) copy_with_update twice on the same objects, arguments unchanged
    both = ctx._c18_states + ctx._c18_shape_states
    for (cfg, blocks, ups) in rng.sample(both, min(len(both), 400)):
        u = rng.choice(ups)
        areqs.append("APPLY %s %s" % (enc_blocks(blocks), enc_update(u)))
        acases.append((blocks, u, "twice"))
    for case, o in zip(acases, m.batch(areqs)):
        mo = parse_blocks_reply(o, False)
        if len(case) == 2:
            ctx.corr("copy_with_update/shapes", case, mo, impl_apply(*case))
        else:
            if mo[0] == "ok":
                mo = ("ok", (mo[1], mo[1], (True, True), (True, True)))
            ctx.corr("copy_with_update/twice", case[:2], mo, impl_apply_twice(case[0], case[1]))

    # --- (class 3) one builder, calls A, B, A on the same objects, results scrambled in between
    reqs, cases = [], []
    pool = [st for st in ctx._c18_states if st[0][0] * st[0][1] <= 16]
    for _ in range(min(len(pool), 1500 if ctx.thorough else 300)):
        cfg, a, _u = rng.choice(pool)
        h, w = cfg[0], cfg[1]
        b = norm_blocks(rand_partition(rng, h, w, rng.randint(1, h * w)))
        cfg = (h, w, cfg[2], cfg[3], cfg[4], cfg[5], False)
        calls = []
        for vi in (0, 1, 0, 0):
            d = tuple(rand_draws(rng, 30 * h * w + 40))
            calls.append((vi, d))
        calls[3] = (0, calls[0][1])                      # exactly the first call again
        for (vi, d) in calls:
            reqs.append("CAND %s %s %s" % (enc_cfg(cfg), enc_blocks((a, b)[vi]), enc_nats(d)))
        cases.append((cfg, (a, b), calls))
    outs = m.batch(reqs)
    for k, (cfg, vals, calls) in enumerate(cases):
        mo = ("ok", tuple(parse_cand(o) for o in outs[4 * k:4 * k + 4]))
        io = impl_candidates_history(cfg, (vals, calls))
        ctx.corr("candidates/history", (cfg, vals, tuple((vi, d[:6]) for (vi, d) in calls)), mo, io)

    # --- (class 2) integers beyond the small-int cache: bounds, block counts and block sizes above 256
    big = [None, 0, 1, 257, 258, 300, 1000, 4096, 65537, -6, -300]
    reqs, cases = [], []
    for (h, w) in [(16, 17), (1, 300), (300, 1), (3, 3), (0, 300), (257, 257)]:
        for _ in range(30):
            cfg = (h, w, rng.choice(big), rng.choice(big), rng.choice(big), rng.choice(big), False)
            reqs.append("CFG " + enc_cfg(cfg))
            cases.append(cfg)
    for cfg, o in zip(cases, m.batch(reqs)):
        form = rng.choice(FORMS)

        def f():
            b = mk_builder_form(fresh_cfg(cfg), form)
            return (b.min_num_blocks, b.max_num_blocks, b.min_block_size, b.max_block_size)
        ctx.corr("init-defaults/big", (cfg, form), ("ok", tuple(int(v) for v in o.split()[1:])), vlib.guarded(f))
    reqs, cases = [], []
    for (h, w) in ([(1, 270), (2, 135), (16, 17), (17, 16)] if ctx.thorough else [(1, 270), (16, 17)]):
        cells = SH.board(h, w)
        n = len(cells)
        rows = [[(y, x) for x in range(w)] for y in range(h)]
        singles = [[c] for c in cells]
        states = [("singletons", singles, (h, w, None, n, None, None, False)),
                  ("singletons", singles, (h, w, n, n + 1, None, 2, False)),
                  ("singletons", singles, (h, w, 257, n, 1, 257, False))]
        if h == 1:
            halves = [cells[:n // 2], cells[n // 2:]]
            states.append(("halves", halves, (h, w, None, 2, None, None, False)))
            states.append(("halves", halves, (h, w, 2, 2, n // 2, n // 2 + 1, False)))
            one = [cells[:258], cells[258:]]
            states.append(("258+rest", one, (h, w, 1, 2, 1, 258, False)))
            states.append(("258+rest", one, (h, w, 1, 2, None, 259, False)))
        if h >= 16:
            states.append(("rows", rows, (h, w, None, None, None, None, False)))
            states.append(("rows", rows, (h, w, h, h, w - 1, 257, False)))
        for label, blocks, cfg in states:
            draws = rand_draws(rng, 2500)
            reqs.append("CAND %s %s %s" % (enc_cfg(cfg), enc_blocks(blocks), enc_nats(draws)))
            cases.append((cfg, norm_blocks(blocks), tuple(draws), label))
    for (cfg, blocks, draws, label), o in zip(cases, m.batch(reqs)):
        io = impl_candidates(fresh_cfg(cfg), blocks, draws)
        ctx.count("cand-big:" + label)
        ctx.corr("candidates/big-ints", (cfg, label, draws[:8]), parse_cand(o), io)
        if io[0] == "ok" and io[1][0]:
            ctx._c18_big = getattr(ctx, "_c18_big", []) + [(cfg, blocks, list(io[1][0]))]

    # --- (class 6) constructor call forms: all keywords / None omitted / positional / mixed
    reqs, cases = [], []
    vals = [None, 0, 1, 2, 3, 5, 9]
    for _ in range(120):
        h, w = rng.randint(1, 4), rng.randint(1, 4)
        cfg = (h, w, rng.choice(vals), rng.choice(vals), rng.choice(vals), rng.choice(vals), False)
        reqs.append("CFG " + enc_cfg(cfg))
        cases.append(cfg)
    for cfg, o in zip(cases, m.batch(reqs)):
        for form in FORMS:
            def f():
                b = mk_builder_form(cfg, form)
                return (b.min_num_blocks, b.max_num_blocks, b.min_block_size, b.max_block_size)
            ctx.corr("init-defaults/forms", (cfg, form), ("ok", tuple(int(v) for v in o.split()[1:])), vlib.guarded(f))
    reqs, cases = [], []
    for _ in range(60):
        h, w = rng.randint(1, 4), rng.randint(1, 4)
        ib = norm_blocks(rand_partition(rng, h, w, rng.randint(1, h * w))) if rng.random() < 0.5 else None
        nb = len(ib) if ib else 1
        mn, mx, ms, xs = rand_bounds(rng, h, w, nb, [len(b) for b in ib] if ib else [h * w])
        cfg = (h, w, mn, mx, ms, xs, rng.random() < 0.15)
        draws = tuple(rand_draws(rng, 200))
        reqs.append("INIT %s %s %s" % (enc_cfg(cfg), "0" if ib is None else "1 " + enc_blocks(ib), enc_nats(draws)))
        cases.append((cfg, ib, draws))
    for (cfg, ib, draws), o in zip(cases, m.batch(reqs)):
        for form in FORMS[1:]:
            def f():
                b = mk_builder_form(cfg, form, None if ib is None else [list(x) for x in ib])
                with patched(Replay(draws)) as rp:
                    r = b.initial()
                return (norm_blocks(r), rp.remaining())
            ctx.corr("initial/forms", (cfg, ib, form, draws[:6]), parse_blocks_reply(o, True), norm_err(vlib.guarded(f)))


# ---------------------------------------------------------------- independent oracle

def own_bounds(cfg):
    h, w, mn, mx, ms, xs, _ = cfg
    return (mn if mn else 1, mx if mx else h * w, ms if ms else 1, xs if xs else h * w)


def block_connected(b):
    s = set(b)
    if not s:
        return False
    start = next(iter(s))
    seen, stack = {start}, [start]
    while stack:
        c = stack.pop()
        for n in neighbours(c):
            if n in s and n not in seen:
                seen.add(n)
                stack.append(n)
    return len(seen) == len(s)


def inv_failure(cfg, blocks, with_bounds=True):
    """None when `blocks` satisfies the property's invariant, else a short reason"""
    h, w = cfg[0], cfg[1]
    if not isinstance(blocks, list) or any(not isinstance(b, list) for b in blocks):
        return "not-a-list-of-lists"
    cnt = Counter(c for b in blocks for c in b)
    want = Counter((y, x) for y in range(h) for x in range(w))
    if cnt != want:
        return "not-a-partition"
    for b in blocks:
        if not block_connected(b):
            return "block-not-connected"
    if with_bounds:
        mn, mx, ms, xs = own_bounds(cfg)
        if not (mn <= len(blocks) <= mx):
            return "block-count-out-of-bounds"
        if any(not (ms <= len(b) <= xs) for b in blocks):
            return "block-size-out-of-bounds"
    return None


def scramble(value):
    """mutate every list reachable from a value"""
    for b in value:
        if isinstance(b, list):
            b.append((-7, -7))
            b.reverse()
            if len(b) > 1:
                b.pop(0)
    value.append([(-9, -9)])
    value.reverse()


def kind_of(u):
    return "merge" if is_merge(u) else "split" if len(u[0]) == 1 else "move"


def check_step(ctx, cfg, builder, cur, u, where):
    """apply one proposed update to cur; returns the new value (or None after reporting)"""
    snap = copy.deepcopy(cur)
    usnap = copy.deepcopy(u)
    key0 = "%dx%d:%s" % (cfg[0], cfg[1], kind_of(u))
    try:
        new = builder.copy_with_update(cur, u)
    except Exception as ex:  # noqa
        ctx.violation(key0 + ":apply-raises", "copy_with_update raised on a proposed update",
                      {"cfg": list(cfg), "value": snap, "update": usnap, "error": vlib.err_name(ex), "where": where})
        return None
    ctx.prop_case("step-" + kind_of(u), (cfg, norm_blocks(snap), norm_update(usnap)))
    if cur != snap:
        ctx.violation(key0 + ":modified-by-apply", "TEST(purity): copy_with_update modified its argument",
                      {"cfg": list(cfg), "value": snap, "update": usnap, "after": cur, "where": where})
    why = inv_failure(cfg, new)
    if why:
        ctx.violation(key0 + ":" + why, "applying a proposed update leaves the invariant: " + why,
                      {"cfg": list(cfg), "value": snap, "update": usnap, "result": new, "where": where})
        return None
    keep = copy.deepcopy(new)
    scramble(new)
    if cur != snap:
        ctx.violation(key0 + ":aliased-result", "TEST(purity): mutating the result of copy_with_update changed the value it was applied to",
                      {"cfg": list(cfg), "value": snap, "update": usnap, "where": where})
        cur[:] = copy.deepcopy(snap)
    return keep


def feasible_cfgs(rng, h, w):
    n = h * w
    out = [(h, w, None, None, None, None, False)]
    for _ in range(6):
        ms = rng.choice([None, 1, 1, 2, 3])
        lo = ms or 1
        xs = rng.choice([None, lo, lo + 1, lo + 2, n])
        hi = xs or n
        kmin = -(-n // hi)
        kmax = max(kmin, n // lo)
        mn = rng.choice([None, kmin, rng.randint(kmin, kmax)])
        mx = rng.choice([None, kmax, rng.randint(mn or kmin, kmax)])
        if mx is not None and mn is not None and mx < mn:
            mx = mn
        out.append((h, w, mn, mx, ms, xs, False))
    return out


def search(ctx):
    rng = ctx.rng
    hi = 6
    sizes = [(h, w) for h in range(1, hi + 1) for w in range(1, hi + 1)]
    walks = 0
    nsteps = 200
    budget_walks = (4000 if ctx.thorough else 260) * (2 if getattr(ctx, "deep", False) else 1)
    # 1. walks from initial()
    while walks < budget_walks:
        h, w = rng.choice(sizes)
        for cfg in feasible_cfgs(rng, h, w):
            walks += 1
            builder = mk_builder(cfg)
            br = BudgetRandom(rng, 4000)
            try:
                with patched(br):
                    cur = builder.initial()
            except BudgetExceeded:
                ctx.count("search:initial-budget-exceeded")
                continue
            except IndexError:
                ctx.count("search:initial-no-candidates")   # random.choice([]) on an infeasible configuration
                continue
            except Exception as ex:  # noqa
                ctx.violation("%dx%d:initial:raises-%s" % (h, w, vlib.err_name(ex)),
                              "initial() raised while walking towards the bounds (an intermediate value was not a partition into connected blocks)",
                              {"cfg": list(cfg), "error": vlib.err_name(ex), "where": "initial"})
                continue
            ctx.prop_case("initial", (cfg, norm_blocks(cur)))
            why = inv_failure(cfg, cur)
            if why:
                ctx.violation("%dx%d:initial:%s" % (h, w, why), "initial() returned a value outside the invariant: " + why,
                              {"cfg": list(cfg), "result": cur, "where": "initial"})
                continue
            steps = nsteps if walks % 4 == 0 else 40
            for t in range(steps):
                br.budget = 100000
                try:
                    with patched(br):
                        cands = builder.candidates(cur)
                except Exception as ex:  # noqa
                    ctx.violation("%dx%d:candidates:raises-%s" % (h, w, vlib.err_name(ex)),
                                  "candidates() raised on a value that satisfies the invariant",
                                  {"cfg": list(cfg), "value": copy.deepcopy(cur), "error": vlib.err_name(ex), "where": "walk step %d" % t})
                    break
                if not cands:
                    break
                # every proposed update must keep the invariant (sampled when there are many)
                probe = cands if len(cands) <= 12 else rng.sample(cands, 12)
                for u in probe:
                    check_step(ctx, cfg, builder, cur, u, "walk step %d" % t)
                kinds = sorted({kind_of(u) for u in cands})
                k = rng.choice(kinds)
                u = rng.choice([c for c in cands if kind_of(c) == k])
                new = check_step(ctx, cfg, builder, cur, u, "walk step %d" % t)
                if new is None:
                    break
                cur = new
            ctx.count("search:walks")
    # 2. every update proposed for the independently generated valid states of the correspondence run
    for (cfg, blocks, ups) in getattr(ctx, "_c18_states", []):
        if inv_failure(cfg, [list(b) for b in blocks]) is not None:
            continue   # the random bounds do not hold for this state: the property says nothing
        builder = mk_builder(cfg)
        for u in ups:
            cur = [list(b) for b in blocks]
            check_step(ctx, cfg, builder, cur, ([*u[0]], [list(b) for b in u[1]]), "generated state")
    for (cfg, blocks, ups) in getattr(ctx, "_c18_shape_states", []):
        cur = [list(b) for b in blocks]
        if inv_failure(cfg, cur) is not None:
            continue
        builder = mk_builder(cfg)
        picks = set(rng.sample(range(len(ups)), min(6, len(ups))))
        for k, u in enumerate(ups):
            u = ([*u[0]], [list(b) for b in u[1]])
            if k in picks:
                check_step(ctx, cfg, builder, cur, u, "generated shape state")
            elif not local_ok(cfg, cur, u):
                lean_step(ctx, cfg, builder, cur, u, "generated shape state")
            else:
                ctx.count("prop:update-checked-locally")
    # 3. hardened input classes
    search_shapes(ctx)
    search_big_ints(ctx)
    search_purity(ctx)


# ---------------------------------------------------------------- search, hardened input classes

def lean_step(ctx, cfg, builder, cur, u, where):
    """invariant half of check_step only (no deep copies): for the exhaustive enumerations"""
    key0 = "%dx%d:%s" % (cfg[0], cfg[1], kind_of(u))
    try:
        new = builder.copy_with_update(cur, u)
    except Exception as ex:  # noqa
        ctx.violation(key0 + ":apply-raises", "copy_with_update raised on a proposed update",
                      {"cfg": list(cfg), "value": copy.deepcopy(cur), "update": copy.deepcopy(u), "error": vlib.err_name(ex), "where": where})
        return False
    why = inv_failure(cfg, new)
    if why:
        ctx.violation(key0 + ":" + why, "applying a proposed update leaves the invariant: " + why,
                      {"cfg": list(cfg), "value": copy.deepcopy(cur), "update": copy.deepcopy(u), "result": new, "where": where})
        return False
    return True


def local_ok(cfg, blocks, u):
    """the update, looked at on its own, keeps the invariant: the appended blocks are connected, hold exactly the cells of the
    excluded blocks, and sizes / block count stay in bounds.  (Independent of copy_with_update; used to thin out the number of
    full applications -- whenever this says no, the update is applied for real and the result decides.)"""
    try:
        ex, app = u
        idx = set(ex)
        if len(idx) != len(ex) or any(not (0 <= i < len(blocks)) for i in idx):
            return False
        if Counter(c for i in idx for c in blocks[i]) != Counter(c for b in app for c in b):
            return False
        mn, mx, ms, xs = own_bounds(cfg)
        if not (mn <= len(blocks) - len(idx) + len(app) <= mx):
            return False
        return all(isinstance(b, list) and ms <= len(b) <= xs and block_connected(b) for b in app)
    except Exception:  # noqa
        return False


def probe_state(ctx, cfg, blocks, where, calls=1, full=4, fresh=False):
    """every update the real code proposes for this (valid) value must lead to a valid value"""
    if inv_failure(cfg, blocks) is not None:
        return
    rng = ctx.rng
    builder = mk_builder_form(fresh_cfg(cfg) if fresh else cfg, rng.choice(FORMS))     # class 6: any call form of the constructor
    snap = copy.deepcopy(blocks)
    seen = set()
    for c in range(calls):
        try:
            with patched(BudgetRandom(rng, 10 ** 6)):
                cands = builder.candidates(blocks)
        except Exception as ex:  # noqa
            ctx.violation("%dx%d:candidates:raises-%s" % (cfg[0], cfg[1], vlib.err_name(ex)),
                          "candidates() raised on a value that satisfies the invariant",
                          {"cfg": list(cfg), "value": snap, "error": vlib.err_name(ex), "where": where})
            return
        if blocks != snap:
            ctx.violation("%dx%d:modified-by-candidates" % (cfg[0], cfg[1]), "TEST(purity): candidates() modified the value it was given",
                          {"cfg": list(cfg), "value": snap, "after": copy.deepcopy(blocks), "where": where})
            blocks[:] = copy.deepcopy(snap)
        ctx.prop_case("state:" + where.split(":")[0], (cfg, norm_blocks(snap), c))
        picks = set(rng.sample(range(len(cands)), min(full, len(cands))))
        for k, u in enumerate(cands):
            nu = norm_update(u)
            if nu in seen:
                continue
            seen.add(nu)
            ctx.count("prop:probe-" + kind_of(u))
            if k in picks:
                check_step(ctx, cfg, builder, blocks, u, where)
            elif local_ok(cfg, blocks, u) and rng.random() < 0.9:
                ctx.count("prop:update-checked-locally")
            else:
                lean_step(ctx, cfg, builder, blocks, u, where)


def tight_cfgs(h, w, blocks):
    n, sizes = len(blocks), [len(b) for b in blocks]
    return [(h, w, None, None, None, None, False), (h, w, None, n, None, None, False),
            (h, w, n, None, None, max(sizes), False), (h, w, None, None, min(sizes), None, False)]


def search_shapes(ctx):
    """class 5: values that short walks from initial() practically never reach"""
    rng = ctx.rng
    deep = getattr(ctx, "deep", False)
    # (a) every connected cell set of the 3x4 / 4x3 board as a block, the rest = components of the complement;
    #     4x4: every block with a hole + a sample of the others (thorough / deep: all)
    for (h, w) in [(3, 4), (4, 3)]:
        for k, blk in enumerate(SH.connected_subsets(h, w)):
            if len(blk) == h * w or ((h, w) == (4, 3) and not (ctx.thorough or deep) and k % 3 != ctx.seed % 3):
                continue
            blocks = SH.partition_around(h, w, blk, order=("first", "last")[k % 2])
            cfg = tight_cfgs(h, w, blocks)[k % 2]
            probe_state(ctx, cfg, blocks, "all-blocks-%dx%d" % (h, w), full=1)
    c44 = [b for b in SH.connected_subsets(4, 4) if len(b) < 16]
    holes = [b for b in c44 if SH.has_hole(4, 4, b)]
    plain = [b for b in c44 if not SH.has_hole(4, 4, b)]
    if not (ctx.thorough or deep):
        plain = rng.sample(plain, 500)
    for k, blk in enumerate(holes + plain):
        blocks = SH.partition_around(4, 4, blk, rng, cut=0.3 if k % 3 == 0 else 0.0, order=("first", "last", "shuffle")[k % 3])
        cfg = tight_cfgs(4, 4, blocks)[1 if k % 4 else 0]      # mostly without the (random, expensive) split section
        probe_state(ctx, cfg, blocks, "all-blocks-4x4", full=1 if k % 16 else 4)
    # (b) targeted shapes on the larger boards
    for (h, w) in TARGET_BOARDS + [(6, 7)]:
        reps = 2 if (ctx.thorough or deep) else 1
        for _ in range(reps):
            lo, n = min(16, max(2, h * w // 2)), h * w
            ks = None if (n - lo <= 12 or ctx.thorough or deep) else sorted(rng.sample(range(lo, n), 12))
            for label, blk in targeted_blocks(rng, h, w, ks=ks):
                blocks = SH.partition_around(h, w, SH.reorder(rng, blk), rng, cut=rng.choice([0.0, 0.0, 0.5]),
                                             order=rng.choice(["first", "last", "shuffle"]))
                cfgs = tight_cfgs(h, w, blocks)
                probe_state(ctx, cfgs[0], blocks, "shape:" + label, calls=2, full=3)
                probe_state(ctx, rng.choice(cfgs[1:]), blocks, "shape:" + label, calls=1, full=1)


def search_big_ints(ctx):
    """class 2: bounds / block counts / block sizes above 256, as int objects created at run time"""
    rng = ctx.rng
    for (cfg, blocks, ups) in getattr(ctx, "_c18_big", []):
        cur = [list(b) for b in blocks]
        if inv_failure(cfg, cur) is not None:
            continue
        builder = mk_builder(fresh_cfg(cfg))
        ctx.prop_case("state:big-ints", (cfg, len(blocks)))
        for k, u in enumerate(ups):
            u = ([*u[0]], [list(b) for b in u[1]])
            if k % 25 == 0 or not local_ok(cfg, cur, u):
                lean_step(ctx, cfg, builder, cur, u, "big-ints")
            else:
                ctx.count("prop:update-checked-locally")
    for (h, w) in [(1, 270), (16, 17), (17, 16), (2, 135)]:
        cells = SH.board(h, w)
        n = len(cells)
        singles = [[c] for c in cells]
        for cfg in [(h, w, None, n, None, None, False), (h, w, n, None, None, None, False), (h, w, 257, n, None, 257, False),
                    (h, w, n - 1, n, None, 2, False)]:
            probe_state(ctx, cfg, copy.deepcopy(singles), "big-ints:singletons", full=1, fresh=True)
        if h >= 16:
            rows = [[(y, x) for x in range(w)] for y in range(h)]
            for cfg in [(h, w, None, None, None, None, False), (h, w, h, h, None, None, False), (h, w, None, h, w, w, False)]:
                probe_state(ctx, cfg, copy.deepcopy(rows), "big-ints:rows", full=1, fresh=True)
        if h == 1:
            for cut in (n // 2, 258, 257):
                two = [cells[:cut], cells[cut:]]
                for cfg in [(h, w, None, 2, None, None, False), (h, w, 2, 2, min(cut, n - cut), max(cut, n - cut), False),
                            (h, w, 1, 2, None, 258, False)]:
                    probe_state(ctx, cfg, copy.deepcopy(two), "big-ints:two-blocks", full=1, fresh=True)
    # a walk on a 1x300 board whose bounds sit just above 256
    cfg = (1, 300, 1, 3, 20, 259, False)
    builder = mk_builder(fresh_cfg(cfg))
    br = BudgetRandom(rng, 200000)
    try:
        with patched(br):
            cur = builder.initial()
    except (BudgetExceeded, IndexError):
        cur = None
    if cur is not None:
        why = inv_failure(cfg, cur)
        ctx.prop_case("initial", (cfg, norm_blocks(cur)))
        if why:
            ctx.violation("1x300:initial:" + why, "initial() returned a value outside the invariant: " + why,
                          {"cfg": list(cfg), "result": cur, "where": "big-ints initial"})
        else:
            for t in range(3):
                br.budget = 10 ** 6
                with patched(br):
                    cands = builder.candidates(cur)
                if not cands:
                    break
                for k, u in enumerate(cands):
                    if k % 40 == 0 or not local_ok(cfg, cur, u):
                        lean_step(ctx, cfg, builder, cur, u, "big-ints walk step %d" % t)
                new = check_step(ctx, cfg, builder, cur, rng.choice(cands), "big-ints walk step %d" % t)
                if new is None:
                    break
                cur = new


def search_purity(ctx):
    """class 3 (TEST, not a theorem): histories on the same objects"""
    rng = ctx.rng
    n = 900 if ctx.thorough else 220
    for it in range(n):
        h, w = rng.choice([(1, 4), (2, 2), (2, 3), (3, 3), (3, 4), (4, 4), (4, 5), (5, 5)])
        blocks = rand_partition(rng, h, w, rng.randint(1, h * w))
        cfg = rng.choice(tight_cfgs(h, w, blocks))
        purity_case(ctx, cfg, blocks, it)


def purity_case(ctx, cfg, blocks, it):
    rng = ctx.rng
    h, w = cfg[0], cfg[1]
    for _once in (0,):
        where = "purity"
        detail = {"cfg": list(cfg), "value": copy.deepcopy(blocks), "where": where}
        key0 = "%dx%d" % (h, w)
        # -- candidates(): value unchanged; scrambling what it returned leaves the value and a second call unchanged
        builder = mk_builder_form(cfg, rng.choice(FORMS))
        snap = copy.deepcopy(blocks)
        draws = rand_draws(rng, 30 * h * w + 40)
        try:
            with patched(Replay(draws)):
                c1 = builder.candidates(blocks)
            first = [norm_update(u) for u in canon_list(c1)]
            ok1 = blocks == snap
            hard_scramble(c1)
            ok2 = blocks == snap
            with patched(Replay(draws)):
                c2 = builder.candidates(blocks)
            second = [norm_update(u) for u in canon_list(c2)]
        except Exception as ex:  # noqa
            ctx.violation(key0 + ":candidates:raises-" + vlib.err_name(ex), "candidates() raised on a value that satisfies the invariant",
                          dict(detail, error=vlib.err_name(ex)))
            continue
        ctx.prop_case("purity-candidates", (cfg, norm_blocks(snap), tuple(draws[:6])))
        if not ok1:
            ctx.violation(key0 + ":modified-by-candidates", "TEST(purity): candidates() modified the value it was given", dict(detail, after=blocks))
        elif not ok2:
            ctx.violation(key0 + ":candidates-alias-value", "TEST(purity): mutating the updates returned by candidates() changed the value", dict(detail, after=blocks))
        elif first != second:
            ctx.violation(key0 + ":candidates-history", "TEST(history): a second candidates() call on the same value with the same PRNG draws proposes different updates",
                          dict(detail, first=first[:6], second=second[:6]))
        blocks = copy.deepcopy(snap)
        # -- copy_with_update(): update unchanged; applying the same update again gives the same value
        if c2:
            u = rng.choice(c2)
            usnap = copy.deepcopy(u)
            try:
                r1 = builder.copy_with_update(blocks, u)
                k1 = copy.deepcopy(r1)
                same_u = (u == usnap)
                r2 = builder.copy_with_update(blocks, u)
            except Exception as ex:  # noqa
                ctx.violation(key0 + ":" + kind_of(usnap) + ":apply-raises", "copy_with_update raised on a proposed update",
                              dict(detail, update=usnap, error=vlib.err_name(ex)))
                continue
            ctx.prop_case("purity-apply", (cfg, norm_blocks(snap), norm_update(usnap)))
            if not same_u:
                ctx.violation(key0 + ":update-modified-by-apply", "TEST(purity): copy_with_update modified the update it was given", dict(detail, update=usnap, after=u))
            if blocks != snap:
                ctx.violation(key0 + ":" + kind_of(usnap) + ":modified-by-apply", "TEST(purity): copy_with_update modified its argument", dict(detail, update=usnap, after=blocks))
            if r2 != k1:
                ctx.violation(key0 + ":apply-history", "TEST(history): applying the same update to the same value twice gives different values",
                              dict(detail, update=usnap, first=k1, second=r2))
            hard_scramble(r1)
            if blocks != snap:
                ctx.violation(key0 + ":" + kind_of(usnap) + ":aliased-result", "TEST(purity): mutating the result of copy_with_update changed the value it was applied to",
                              dict(detail, update=usnap))
        # -- initial(): the configured initial_blocks are not handed out / modified
        ib = copy.deepcopy(snap)
        allow = it % 3 == 0
        icfg = cfg[:6] + (allow,)
        b2 = mk_builder_form(icfg, rng.choice(FORMS), ib)
        try:
            with patched(BudgetRandom(rng, 4000)):
                v1 = b2.initial()
            k1 = copy.deepcopy(v1)
            ok_ib = (ib == snap)
            hard_scramble(v1)
            ok_alias = (ib == snap) and (b2.initial_blocks == snap)
            with patched(BudgetRandom(rng, 4000)):
                v2 = b2.initial()
        except (BudgetExceeded, IndexError):
            continue
        except Exception as ex:  # noqa
            ctx.violation(key0 + ":initial:raises-" + vlib.err_name(ex), "initial() raised on initial_blocks that satisfy the invariant",
                          dict(detail, error=vlib.err_name(ex)))
            continue
        ctx.prop_case("purity-initial", (icfg, norm_blocks(snap)))
        if not ok_ib:
            ctx.violation(key0 + ":initial-modified-initial_blocks", "TEST(purity): initial() modified the configured initial_blocks", dict(detail, after=ib))
        elif not ok_alias:
            ctx.violation(key0 + ":initial-aliases-initial_blocks", "TEST(purity): the value returned by initial() shares lists with the configured initial_blocks "
                          "(mutating it changes what the next initial() starts from)", dict(detail, cfg=list(icfg)))
        why = inv_failure(icfg, v2, with_bounds=not allow)
        if why:
            ctx.violation(key0 + ":initial:second-call:" + why, "a second initial() on the same builder returned a value outside the invariant: " + why,
                          dict(detail, cfg=list(icfg), result=v2, first=k1))


def replay(ctx, rp):
    v = rp.get("violation", {}).get("detail", {})
    print(rp)
    if not v or "cfg" not in v:
        return 0
    cfg = tuple(v["cfg"])
    tup = lambda bs: [[tuple(c) for c in b] for b in bs]  # noqa
    if v.get("where") == "purity" and "value" in v:
        sub = vlib.Ctx("C18", "quick", rp.get("seed", 0))
        for it in range(6):
            purity_case(sub, cfg[:6] + (False,), tup(v["value"]), it)
        for x in sub.violations:
            print("still failing:", x["key"], x["what"])
        return 1 if sub.violations else 0
    if "update" not in v and "value" in v and "result" not in v:
        sub = vlib.Ctx("C18", "quick", rp.get("seed", 0))
        for _ in range(5):
            probe_state(sub, cfg, tup(v["value"]), "replay", calls=2, full=4, fresh=True)
        for x in sub.violations:
            print("still failing:", x["key"], x["what"])
        return 1 if sub.violations else 0
    if "update" not in v:
        if "result" in v:
            return 1 if inv_failure(cfg, tup(v["result"])) else 0
        return 1
    builder = mk_builder(cfg)
    cur = tup(v["value"])
    u = (list(v["update"][0]), tup(v["update"][1]))
    # is the recorded update still proposed for the recorded value?  (splits depend on the PRNG: try many seeds)
    rng, found = random.Random(0), False
    for _ in range(400 if kind_of(u) == "split" else 1):
        try:
            with patched(BudgetRandom(rng, 10 ** 6)):
                cands = builder.candidates(copy.deepcopy(cur))
        except Exception as ex:  # noqa
            print("candidates raises:", vlib.err_name(ex))
            return 1
        if any(norm_update(c) == norm_update(u) for c in cands):
            found = True
            break
    if not found:
        print("the recorded update is no longer proposed for the recorded value")
        return 0
    sub = vlib.Ctx("C18", "quick", 0)
    check_step(sub, cfg, builder, cur, u, "replay")
    for x in sub.violations:
        print("still failing:", x["key"], x["what"])
    return 1 if sub.violations else 0
