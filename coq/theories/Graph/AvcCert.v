(* C04, level S: the certificate checker cert_avc accepts some in-range
   certificate exactly when the active vertices are connected (acyclic: induce
   a tree).  Pure graph theory over functions act / rank / root. *)
From Coq Require Import ZArith List Bool Arith Lia.
From Cspuz Require Import Core.Expr Graph.GraphModel Graph.ReachProofs Graph.Avc.
Import ListNotations.
Local Open Scope Z_scope.

(* ------------------------------------------------------------------------ *)
(* sums                                                                       *)

Lemma zsum_cons a l : zsum (a :: l) = a + zsum l.
Proof. reflexivity. Qed.

Lemma zsum_app a b : zsum (a ++ b) = zsum a + zsum b.
Proof. induction a as [|x a IH]; [reflexivity|]. simpl app. rewrite !zsum_cons, IH. lia. Qed.

Lemma b2z_nonneg b : 0 <= b2z b.
Proof. destruct b; simpl; lia. Qed.

Lemma b2z_true b : b2z b = 1 <-> b = true.
Proof. destruct b; simpl; split; intros; try reflexivity; try discriminate; lia. Qed.

Lemma zsum_map_nonneg {A} (h : A -> Z) l : (forall x, In x l -> 0 <= h x) -> 0 <= zsum (map h l).
Proof.
  induction l as [|a l IH]; intros H; simpl map; [unfold zsum; simpl; lia|].
  rewrite zsum_cons. pose proof (H a (or_introl eq_refl)).
  assert (0 <= zsum (map h l)) by (apply IH; intros; apply H; right; assumption). lia.
Qed.

Lemma zsum_map_ge1 {A} (h : A -> Z) l x :
  In x l -> 1 <= h x -> (forall y, In y l -> 0 <= h y) -> 1 <= zsum (map h l).
Proof.
  induction l as [|a l IH]; intros Hin Hx Hnn; [destruct Hin|].
  simpl map. rewrite zsum_cons.
  assert (0 <= zsum (map h l)) by (apply zsum_map_nonneg; intros; apply Hnn; right; assumption).
  pose proof (Hnn a (or_introl eq_refl)).
  destruct Hin as [->|Hin]; [lia|].
  assert (1 <= zsum (map h l)) by (apply IH; auto; intros; apply Hnn; right; assumption). lia.
Qed.

Lemma zsum_b2z_exists {A} (p : A -> bool) l :
  1 <= zsum (map (fun x => b2z (p x)) l) -> exists x, In x l /\ p x = true.
Proof.
  induction l as [|a l IH]; simpl map; [unfold zsum; simpl; lia|].
  rewrite zsum_cons. destruct (p a) eqn:Hp.
  - intros _. exists a. split; [left; reflexivity|exact Hp].
  - simpl b2z. intros H. destruct IH as [x [Hx Hpx]]; [lia|].
    exists x. split; [right; exact Hx|exact Hpx].
Qed.

Lemma zsum_b2z_count {A} (p : A -> bool) l :
  zsum (map (fun x => b2z (p x)) l) = Z.of_nat (length (filter p l)).
Proof.
  induction l as [|a l IH]; [reflexivity|]. simpl map. simpl filter. rewrite zsum_cons, IH.
  destruct (p a); simpl b2z; simpl length; lia.
Qed.

Lemma zsum_map_filter {A} (p : A -> bool) (h : A -> Z) l :
  zsum (map h (filter p l)) = zsum (map (fun x => if p x then h x else 0) l).
Proof.
  induction l as [|a l IH]; [reflexivity|]. simpl filter. simpl map.
  destruct (p a); simpl map; rewrite ?zsum_cons, IH; lia.
Qed.

Lemma zsum_map_add {A} (h1 h2 : A -> Z) l :
  zsum (map (fun x => h1 x + h2 x) l) = zsum (map h1 l) + zsum (map h2 l).
Proof. induction l as [|a l IH]; [reflexivity|]. simpl map. rewrite !zsum_cons, IH. lia. Qed.

Lemma zsum_map_ext_in {A} (h1 h2 : A -> Z) l :
  (forall x, In x l -> h1 x = h2 x) -> zsum (map h1 l) = zsum (map h2 l).
Proof. intros H. f_equal. apply map_ext_in. exact H. Qed.

Lemma zsum_map_zero {A} (h : A -> Z) l : (forall x, In x l -> h x = 0) -> zsum (map h l) = 0.
Proof.
  induction l as [|a l IH]; intros H; [reflexivity|]. simpl map. rewrite zsum_cons.
  rewrite (H a (or_introl eq_refl)), IH by (intros; apply H; right; assumption). reflexivity.
Qed.

Lemma zsum_map_all1 {A} (h : A -> Z) l :
  (forall x, In x l -> h x = 1) -> zsum (map h l) = Z.of_nat (length l).
Proof.
  induction l as [|a l IH]; intros H; [reflexivity|]. simpl map. rewrite zsum_cons.
  rewrite (H a (or_introl eq_refl)), IH by (intros; apply H; right; assumption).
  simpl length. lia.
Qed.

Lemma zsum_map_ge_length {A} (h : A -> Z) l :
  (forall x, In x l -> 1 <= h x) -> Z.of_nat (length l) <= zsum (map h l).
Proof.
  induction l as [|a l IH]; intros H; [unfold zsum; simpl; lia|]. simpl map. rewrite zsum_cons.
  pose proof (H a (or_introl eq_refl)).
  assert (Z.of_nat (length l) <= zsum (map h l)) by (apply IH; intros; apply H; right; assumption).
  simpl length. lia.
Qed.

Lemma zsum_all_one {A} (h : A -> Z) l :
  (forall x, In x l -> 1 <= h x) -> zsum (map h l) = Z.of_nat (length l) ->
  forall x, In x l -> h x = 1.
Proof.
  induction l as [|a l IH]; intros H Hs x Hx; [destruct Hx|].
  simpl map in Hs. rewrite zsum_cons in Hs. simpl length in Hs.
  pose proof (H a (or_introl eq_refl)).
  assert (Z.of_nat (length l) <= zsum (map h l))
    by (apply zsum_map_ge_length; intros; apply H; right; assumption).
  destruct Hx as [->|Hx]; [lia|].
  apply IH; [intros; apply H; right; assumption|lia|exact Hx].
Qed.

Lemma zsum_two_true {A} (p : A -> bool) l a b :
  In a l -> In b l -> a <> b -> p a = true -> p b = true ->
  2 <= zsum (map (fun x => b2z (p x)) l).
Proof.
  induction l as [|x l IH]; intros Ha Hb Hab Hpa Hpb; [destruct Ha|].
  simpl map. rewrite zsum_cons.
  assert (Hnn : forall y, In y l -> 0 <= b2z (p y)) by (intros; apply b2z_nonneg).
  pose proof (b2z_nonneg (p x)).
  destruct Ha as [Ha|Ha]; destruct Hb as [Hb|Hb].
  - congruence.
  - subst x. rewrite Hpa. simpl b2z.
    assert (1 <= zsum (map (fun y => b2z (p y)) l))
      by (apply zsum_map_ge1 with b; auto; rewrite Hpb; simpl; lia). lia.
  - subst x. rewrite Hpb. simpl b2z.
    assert (1 <= zsum (map (fun y => b2z (p y)) l))
      by (apply zsum_map_ge1 with a; auto; rewrite Hpa; simpl; lia). lia.
  - specialize (IH Ha Hb Hab Hpa Hpb). lia.
Qed.

Lemma zsum_pick_notin (a : nat) (h : nat -> Z) l :
  ~ In a l -> zsum (map (fun i => if Nat.eqb a i then h i else 0) l) = 0.
Proof.
  induction l as [|x l IH]; intros H; [reflexivity|]. simpl map. rewrite zsum_cons.
  destruct (Nat.eqb_spec a x) as [->|_]; [exfalso; apply H; left; reflexivity|].
  rewrite IH; [lia|]. intros Hin; apply H; right; exact Hin.
Qed.

Lemma zsum_pick (a : nat) (h : nat -> Z) l :
  NoDup l -> In a l -> zsum (map (fun i => if Nat.eqb a i then h i else 0) l) = h a.
Proof.
  induction l as [|x l IH]; intros Hn Hin; [destruct Hin|]. simpl map. rewrite zsum_cons.
  inversion Hn; subst. destruct (Nat.eqb_spec a x) as [->|Hne].
  - rewrite zsum_pick_notin by assumption. lia.
  - destruct Hin as [Hin|Hin]; [congruence|]. rewrite IH by assumption. lia.
Qed.

Lemma zsum_eqb_in (s : nat) l :
  NoDup l -> In s l -> zsum (map (fun j => b2z (Nat.eqb j s)) l) = 1.
Proof.
  intros Hn Hin.
  rewrite (zsum_map_ext_in _ (fun i => if Nat.eqb s i then (fun _ => 1) i else 0)).
  - apply (zsum_pick s (fun _ => 1)); assumption.
  - intros x _. rewrite (Nat.eqb_sym x s). destruct (Nat.eqb s x); reflexivity.
Qed.

Lemma zsum_eqb_le1 (s : nat) l : NoDup l -> zsum (map (fun j => b2z (Nat.eqb j s)) l) <= 1.
Proof.
  intros Hn. destruct (in_dec Nat.eq_dec s l) as [Hin|Hin].
  - rewrite zsum_eqb_in by assumption. lia.
  - rewrite (zsum_map_ext_in _ (fun i => if Nat.eqb s i then (fun _ => 1) i else 0)).
    + rewrite zsum_pick_notin by assumption. lia.
    + intros x _. rewrite (Nat.eqb_sym x s). destruct (Nat.eqb s x); reflexivity.
Qed.

Lemma zsum_filter_le {A} (p : A -> bool) (h : A -> Z) l :
  (forall x, 0 <= h x) -> zsum (map h (filter p l)) <= zsum (map h l).
Proof.
  intros Hnn. induction l as [|a l IH]; [simpl; lia|]. simpl filter. simpl map. pose proof (Hnn a).
  destruct (p a); simpl map; rewrite ?zsum_cons; lia.
Qed.

(* ------------------------------------------------------------------------ *)
(* lists: index_of, NoDup of an append                                        *)

Lemma NoDup_app_disj {A} (l1 l2 : list A) :
  NoDup l1 -> NoDup l2 -> (forall x, In x l1 -> ~ In x l2) -> NoDup (l1 ++ l2).
Proof.
  induction l1 as [|a l1 IH]; intros H1 H2 Hd; [exact H2|]. simpl. inversion H1; subst.
  constructor.
  - rewrite in_app_iff. intros [H|H]; [contradiction|]. apply (Hd a); [left; reflexivity|exact H].
  - apply IH; [assumption|assumption|]. intros x Hx. apply Hd. right; exact Hx.
Qed.

Lemma index_of_lt x l : In x l -> (index_of x l < length l)%nat.
Proof.
  induction l as [|y l IH]; intros H; [destruct H|]. simpl.
  destruct (Nat.eqb_spec x y); [lia|]. destruct H as [H|H]; [congruence|].
  specialize (IH H). lia.
Qed.

Lemma nth_error_index_of x l : In x l -> nth_error l (index_of x l) = Some x.
Proof.
  induction l as [|y l IH]; intros H; [destruct H|]. simpl.
  destruct (Nat.eqb_spec x y) as [->|Hne]; [reflexivity|].
  destruct H as [H|H]; [congruence|]. simpl. apply IH; exact H.
Qed.

Lemma index_of_nth x l p : NoDup l -> nth_error l p = Some x -> index_of x l = p.
Proof.
  revert p. induction l as [|y l IH]; intros p Hn Hp; [destruct p; discriminate|].
  inversion Hn; subst. destruct p as [|p]; simpl in *.
  - inversion Hp; subst. rewrite Nat.eqb_refl. reflexivity.
  - destruct (Nat.eqb_spec x y) as [->|Hne].
    + exfalso. apply H1. eapply nth_error_In; exact Hp.
    + f_equal. apply IH; assumption.
Qed.

Lemma index_of_app x l1 l2 : In x l1 -> index_of x (l1 ++ l2) = index_of x l1.
Proof.
  induction l1 as [|y l1 IH]; intros H; [destruct H|]. simpl.
  destruct (Nat.eqb_spec x y); [reflexivity|]. destruct H as [H|H]; [congruence|].
  f_equal. apply IH; exact H.
Qed.

Lemma index_of_inj x y l : In x l -> index_of x l = index_of y l -> x = y.
Proof.
  induction l as [|z l IH]; intros H He; [destruct H|]. simpl in He.
  destruct (Nat.eqb_spec x z) as [->|Hx]; destruct (Nat.eqb_spec y z) as [->|Hy];
    try reflexivity; try discriminate.
  destruct H as [H|H]; [congruence|]. apply IH; [exact H|]. congruence.
Qed.

(* ------------------------------------------------------------------------ *)
(* incident entries of a well-formed graph                                    *)

Lemma incident_lt g i j k :
  wf_graph g = true -> In (j, k) (incident g i) -> (i < nv g)%nat /\ (j < nv g)%nat.
Proof.
  intros Hwf H. apply incident_spec in H. destruct H as [H|H];
    apply (wf_graph_edge g k _ _ Hwf) in H; tauto.
Qed.

Lemma incident_nbrs g i j k : In (j, k) (incident g i) -> In j (nbrs g all_edges_ok i).
Proof. intros H. apply nbrs_incident. exists k. split; [reflexivity|exact H]. Qed.

(* the handshake lemma: summing over the incidence lists = summing over the
   edge list, each edge seen from both ends (a self-loop twice from its vertex) *)
Lemma handshake_from (f : nat -> nat -> Z) n es :
  (forall a b, In (a, b) es -> (a < n)%nat /\ (b < n)%nat) ->
  forall k0,
  zsum (map (fun i => zsum (map (fun jk : nat * nat => f i (fst jk)) (incident_from i k0 es))) (seq 0 n))
  = zsum (map (fun ab : nat * nat => f (fst ab) (snd ab) + f (snd ab) (fst ab)) es).
Proof.
  induction es as [|[a b] r IH]; intros Hwf k0.
  - transitivity 0; [|reflexivity]. apply zsum_map_zero. intros; reflexivity.
  - destruct (Hwf a b (or_introl eq_refl)) as [Ha Hb].
    rewrite (zsum_map_ext_in _ (fun i =>
       (if Nat.eqb a i then (fun i => f i b) i else 0) +
       ((if Nat.eqb b i then (fun i => f i a) i else 0) +
        zsum (map (fun jk : nat * nat => f i (fst jk)) (incident_from i (S k0) r))))).
    + rewrite !zsum_map_add.
      rewrite (zsum_pick a (fun i => f i b)) by (try apply seq_NoDup; apply in_seq; lia).
      rewrite (zsum_pick b (fun i => f i a)) by (try apply seq_NoDup; apply in_seq; lia).
      rewrite IH by (intros; apply Hwf; right; assumption).
      rewrite ?zsum_map_add. simpl map. rewrite !zsum_cons. simpl fst; simpl snd. lia.
    + intros i _. simpl incident_from. rewrite !map_app, !zsum_app.
      destruct (Nat.eqb a i), (Nat.eqb b i); simpl map; rewrite ?zsum_cons; simpl fst;
        unfold zsum at 1 2; simpl fold_right; lia.
Qed.

Lemma handshake g (f : nat -> nat -> Z) :
  wf_graph g = true ->
  zsum (map (fun i => zsum (map (fun jk : nat * nat => f i (fst jk)) (incident g i))) (seq 0 (nv g)))
  = zsum (map (fun ab : nat * nat => f (fst ab) (snd ab) + f (snd ab) (fst ab)) (edges g)).
Proof.
  intros Hwf. unfold incident. apply handshake_from.
  intros a b Hin. unfold wf_graph in Hwf. rewrite forallb_forall in Hwf.
  specialize (Hwf _ Hin). simpl in Hwf. apply andb_true_iff in Hwf. destruct Hwf as [H1 H2].
  apply Nat.ltb_lt in H1. apply Nat.ltb_lt in H2. split; assumption.
Qed.

(* ------------------------------------------------------------------------ *)
(* reading the checker                                                        *)

Lemma lower_cnt_nonneg g act rank i : 0 <= lower_cnt g act rank i.
Proof. unfold lower_cnt. apply zsum_map_nonneg. intros; apply b2z_nonneg. Qed.

Lemma cert_avc_inv g acyclic act rank root :
  cert_avc g acyclic act rank root = true ->
  (forall i, (i < nv g)%nat -> vertex_ok g acyclic act rank root i = true) /\
  zsum (map (fun j => b2z (root j)) (seq 0 (nv g))) <= 1.
Proof.
  unfold cert_avc. intros H. apply andb_true_iff in H. destruct H as [H1 H2].
  rewrite forallb_forall in H1. apply Z.leb_le in H2. split; [|exact H2].
  intros i Hi. apply H1. apply in_seq. lia.
Qed.

Lemma cert_avc_intro g acyclic act rank root :
  (forall i, (i < nv g)%nat -> vertex_ok g acyclic act rank root i = true) ->
  zsum (map (fun j => b2z (root j)) (seq 0 (nv g))) <= 1 ->
  cert_avc g acyclic act rank root = true.
Proof.
  intros H1 H2. unfold cert_avc. apply andb_true_iff. split; [|apply Z.leb_le; exact H2].
  apply forallb_forall. intros i Hi. apply in_seq in Hi. apply H1. lia.
Qed.

Lemma vertex_ok_step g acyclic act rank root i :
  vertex_ok g acyclic act rank root i = true -> act i = true ->
  1 <= lower_cnt g act rank i + b2z (root i) /\
  (acyclic = true -> lower_cnt g act rank i + b2z (root i) = 1).
Proof.
  unfold vertex_ok. intros H Ha. apply andb_true_iff in H. destruct H as [_ H].
  rewrite Ha in H. simpl in H. destruct acyclic.
  - apply Z.eqb_eq in H. split; [lia|intros _; exact H].
  - apply Z.leb_le in H. split; [exact H|discriminate].
Qed.

Lemma vertex_ok_ne g act rank root i j k :
  vertex_ok g true act rank root i = true -> In (j, k) (incident g i) -> (i < j)%nat ->
  rank j <> rank i.
Proof.
  unfold vertex_ok. intros H Hin Hlt. apply andb_true_iff in H. destruct H as [H _].
  rewrite forallb_forall in H.
  assert (Hf : In (j, k) (filter (fun jk : nat * nat => Nat.ltb i (fst jk)) (incident g i))).
  { apply filter_In. split; [exact Hin|]. simpl. apply Nat.ltb_lt. exact Hlt. }
  specialize (H _ Hf). simpl in H. apply negb_true_iff in H. apply Z.eqb_neq in H. exact H.
Qed.

(* ------------------------------------------------------------------------ *)
(* soundness: a certificate forces connectivity                               *)

Section Sound.
  Variable g : graph.
  Variable act : nat -> bool.
  Variable rank : nat -> Z.
  Variable root : nat -> bool.
  Hypothesis Hwf : wf_graph g = true.
  Hypothesis Hlow : forall i, (i < nv g)%nat -> 0 <= rank i.
  Hypothesis Hstep : forall i, (i < nv g)%nat -> act i = true ->
                               1 <= lower_cnt g act rank i + b2z (root i).
  Hypothesis Hroot : zsum (map (fun j => b2z (root j)) (seq 0 (nv g))) <= 1.

  Lemma reach_from_root :
    forall k i, (Z.to_nat (rank i) < k)%nat -> (i < nv g)%nat -> act i = true ->
    exists r, (r < nv g)%nat /\ root r = true /\ act r = true /\ reach g act all_edges_ok r i.
  Proof.
    induction k as [|k IH]; intros i Hk Hi Ha; [lia|].
    pose proof (Hstep i Hi Ha) as Hs. destruct (root i) eqn:Hr.
    - exists i. repeat split; try assumption. apply reach_refl; exact Ha.
    - simpl b2z in Hs. assert (Hc : 1 <= lower_cnt g act rank i) by lia.
      unfold lower_cnt in Hc. apply zsum_b2z_exists in Hc. destruct Hc as [[j e] [Hin Hp]].
      simpl in Hp. apply andb_true_iff in Hp. destruct Hp as [Hlt Haj]. apply Z.ltb_lt in Hlt.
      destruct (incident_lt g i j e Hwf Hin) as [_ Hj].
      pose proof (Hlow j Hj). pose proof (Hlow i Hi).
      destruct (IH j) as [r [Hr1 [Hr2 [Hr3 Hr4]]]]; [lia|exact Hj|exact Haj|].
      exists r. repeat split; try assumption.
      eapply reach_step; [exact Hr4| |exact Ha].
      apply incident_nbrs with e. apply incident_sym. exact Hin.
  Qed.

  Lemma root_unique r1 r2 :
    (r1 < nv g)%nat -> (r2 < nv g)%nat -> root r1 = true -> root r2 = true -> r1 = r2.
  Proof.
    intros H1 H2 Hr1 Hr2. destruct (Nat.eq_dec r1 r2) as [|Hne]; [assumption|]. exfalso.
    assert (2 <= zsum (map (fun j => b2z (root j)) (seq 0 (nv g)))).
    { apply zsum_two_true with r1 r2; try assumption; apply in_seq; lia. }
    lia.
  Qed.

  Lemma cert_connected : connected g act.
  Proof.
    intros u v Hu Hv Hau Hav.
    destruct (reach_from_root (S (Z.to_nat (rank u))) u) as [r1 [A1 [A2 [A3 A4]]]]; try assumption; [lia|].
    destruct (reach_from_root (S (Z.to_nat (rank v))) v) as [r2 [B1 [B2 [B3 B4]]]]; try assumption; [lia|].
    assert (r1 = r2) by (apply root_unique; assumption). subst r2.
    apply reach_trans with r1; [apply reach_sym; exact A4|exact B4].
  Qed.

  (* some active vertex -> an active root exists *)
  Lemma active_root_exists i :
    (i < nv g)%nat -> act i = true -> exists r, (r < nv g)%nat /\ root r = true /\ act r = true.
  Proof.
    intros Hi Ha.
    destruct (reach_from_root (S (Z.to_nat (rank i))) i) as [r [A1 [A2 [A3 _]]]]; try assumption; [lia|].
    exists r; auto.
  Qed.
End Sound.

(* ------------------------------------------------------------------------ *)
(* counting: with distinct ranks along every non-loop edge, the lower-rank
   counts of the active vertices add up to the number of induced edges        *)

Section Count.
  Variable g : graph.
  Variable act : nat -> bool.
  Variable rank : nat -> Z.
  Hypothesis Hwf : wf_graph g = true.
  Hypothesis Hne : forall a b, In (a, b) (edges g) -> a <> b -> rank a <> rank b.

  Lemma lower_cnt_sum :
    zsum (map (lower_cnt g act rank) (filter act (seq 0 (nv g)))) = Z.of_nat (induced_edges g act).
  Proof.
    rewrite zsum_map_filter.
    pose (f := fun i j : nat => b2z (act i && ((rank j <? rank i) && act j))).
    rewrite (zsum_map_ext_in _ (fun i => zsum (map (fun jk : nat * nat => f i (fst jk)) (incident g i)))).
    - rewrite (handshake g f Hwf). unfold induced_edges. rewrite <- zsum_b2z_count.
      apply zsum_map_ext_in. intros [a b] Hin. unfold f. simpl fst; simpl snd.
      destruct (act a), (act b); simpl; rewrite ?andb_false_r, ?andb_true_r; simpl; try reflexivity.
      destruct (Nat.eqb_spec a b) as [->|Hab].
      + rewrite Z.ltb_irrefl. reflexivity.
      + pose proof (Hne a b Hin Hab).
        destruct (Z.ltb_spec (rank b) (rank a)); destruct (Z.ltb_spec (rank a) (rank b)); simpl; lia.
    - intros i _. unfold lower_cnt, f. destruct (act i); simpl.
      + reflexivity.
      + symmetry. apply zsum_map_zero. intros; reflexivity.
  Qed.
End Count.

(* distinct ranks along the non-loop edges, from the acyclic checker *)
Lemma cert_acyclic_ne g act rank root :
  wf_graph g = true ->
  (forall i, (i < nv g)%nat -> vertex_ok g true act rank root i = true) ->
  forall a b, In (a, b) (edges g) -> a <> b -> rank a <> rank b.
Proof.
  intros Hwf Hv a b Hin Hab. apply In_nth_error in Hin. destruct Hin as [k Hk].
  destruct (wf_graph_edge g k a b Hwf Hk) as [Ha Hb].
  destruct (Nat.lt_total a b) as [Hlt|[Heq|Hlt]]; [|contradiction|].
  - intros He. apply (vertex_ok_ne g act rank root a b k (Hv a Ha)); [|exact Hlt|symmetry; exact He].
    apply incident_spec. left; exact Hk.
  - apply (vertex_ok_ne g act rank root b a k (Hv b Hb)); [|exact Hlt].
    apply incident_spec. right; exact Hk.
Qed.

Theorem cert_sound g acyclic act rank root :
  wf_graph g = true -> ranks_in_range g rank ->
  cert_avc g acyclic act rank root = true -> spec_avc acyclic g act.
Proof.
  intros Hwf Hrange Hc. destruct (cert_avc_inv _ _ _ _ _ Hc) as [Hv Hroot].
  assert (Hlow : forall i, (i < nv g)%nat -> 0 <= rank i) by (intros i Hi; apply Hrange; exact Hi).
  assert (Hstep : forall i, (i < nv g)%nat -> act i = true ->
                            1 <= lower_cnt g act rank i + b2z (root i)).
  { intros i Hi Ha. apply (vertex_ok_step g acyclic act rank root i (Hv i Hi) Ha). }
  pose proof (cert_connected g act rank root Hwf Hlow Hstep Hroot) as Hconn.
  destruct acyclic; simpl; [|exact Hconn].
  split; [exact Hconn|].
  unfold n_active. destruct (filter act (seq 0 (nv g))) as [|s l] eqn:Hf; [left; reflexivity|right].
  assert (Hs : In s (filter act (seq 0 (nv g)))) by (rewrite Hf; left; reflexivity).
  apply filter_In in Hs. destruct Hs as [Hs Has]. apply in_seq in Hs.
  (* every active vertex contributes exactly one *)
  assert (Hone : zsum (map (fun i => lower_cnt g act rank i + b2z (root i)) (filter act (seq 0 (nv g))))
                 = Z.of_nat (length (filter act (seq 0 (nv g))))).
  { apply zsum_map_all1. intros i Hi. apply filter_In in Hi. destruct Hi as [Hi Hai].
    apply in_seq in Hi. apply (vertex_ok_step g true act rank root i); [apply Hv; lia|exact Hai|reflexivity]. }
  rewrite zsum_map_add in Hone.
  rewrite (lower_cnt_sum g act rank Hwf (cert_acyclic_ne g act rank root Hwf Hv)) in Hone.
  (* exactly one active root *)
  assert (Hr1 : zsum (map (fun i => b2z (root i)) (filter act (seq 0 (nv g)))) = 1).
  { assert (zsum (map (fun i => b2z (root i)) (filter act (seq 0 (nv g)))) <= 1).
    { eapply Z.le_trans; [apply zsum_filter_le; intros; apply b2z_nonneg|exact Hroot]. }
    destruct (active_root_exists g act rank root Hwf Hlow Hstep s) as [r [R1 [R2 R3]]]; [lia|exact Has|].
    assert (1 <= zsum (map (fun i => b2z (root i)) (filter act (seq 0 (nv g))))).
    { apply zsum_map_ge1 with r.
      - apply filter_In. split; [apply in_seq; lia|exact R3].
      - rewrite R2. simpl. lia.
      - intros; apply b2z_nonneg. }
    lia. }
  rewrite Hr1, Hf in Hone. simpl length in Hone. simpl length. lia.
Qed.

(* ------------------------------------------------------------------------ *)
(* completeness: the certificate built from the discovery order               *)

Section Complete.
  Variable g : graph.
  Variable act : nat -> bool.
  Hypothesis Hwf : wf_graph g = true.
  Hypothesis Hn : (1 <= nv g)%nat.

  Let s := avc_start g act.
  Let c := component g act all_edges_ok s.
  Let ord := avc_order g act.
  Let rank := avc_rank g act.
  Let root := avc_root g act.

  Lemma avc_start_lt : (s < nv g)%nat.
  Proof.
    unfold s, avc_start. destruct (filter act (seq 0 (nv g))) as [|x l] eqn:Hf; simpl; [lia|].
    assert (H : In x (filter act (seq 0 (nv g)))) by (rewrite Hf; left; reflexivity).
    apply filter_In in H. destruct H as [H _]. apply in_seq in H. lia.
  Qed.

  Lemma avc_start_active i : (i < nv g)%nat -> act i = true -> act s = true.
  Proof.
    intros Hi Ha. unfold s, avc_start.
    destruct (filter act (seq 0 (nv g))) as [|x l] eqn:Hf; simpl.
    - exfalso. assert (H : In i (filter act (seq 0 (nv g)))).
      { apply filter_In. split; [apply in_seq; lia|exact Ha]. }
      rewrite Hf in H. destruct H.
    - assert (H : In x (filter act (seq 0 (nv g)))) by (rewrite Hf; left; reflexivity).
      apply filter_In in H. tauto.
  Qed.

  Lemma ord_nodup : NoDup ord.
  Proof.
    unfold ord, avc_order. fold s. fold c. apply NoDup_app_disj.
    - apply component_nodup.
    - apply NoDup_filter. apply seq_NoDup.
    - intros x Hx Hf. apply filter_In in Hf. destruct Hf as [_ Hf].
      apply negb_true_iff in Hf. apply mem_not_In in Hf. contradiction.
  Qed.

  Lemma ord_lt x : In x ord -> (x < nv g)%nat.
  Proof.
    unfold ord, avc_order. fold s. fold c. rewrite in_app_iff. intros [H|H].
    - apply (component_lt g act all_edges_ok s x Hwf avc_start_lt H).
    - apply filter_In in H. destruct H as [H _]. apply in_seq in H. lia.
  Qed.

  Lemma ord_all x : (x < nv g)%nat -> In x ord.
  Proof.
    intros Hx. unfold ord, avc_order. fold s. fold c. rewrite in_app_iff.
    destruct (mem x c) eqn:Hm.
    - left. apply mem_In. exact Hm.
    - right. apply filter_In. split; [apply in_seq; lia|]. rewrite Hm. reflexivity.
  Qed.

  Lemma rank_range : ranks_in_range g rank.
  Proof.
    intros i Hi. unfold rank, avc_rank. fold ord.
    pose proof (index_of_lt i ord (ord_all i Hi)).
    assert (length ord <= nv g)%nat.
    { apply NoDup_bounded_length; [apply ord_nodup|apply ord_lt]. }
    lia.
  Qed.

  Lemma rank_inj a b : (a < nv g)%nat -> rank a = rank b -> a = b.
  Proof.
    intros Ha He. unfold rank, avc_rank in He. fold ord in He.
    apply Nat2Z.inj in He. apply (index_of_inj a b ord (ord_all a Ha) He).
  Qed.

  Lemma root_sum : zsum (map (fun j => b2z (root j)) (seq 0 (nv g))) <= 1.
  Proof. unfold root, avc_root. fold s. apply zsum_eqb_le1. apply seq_NoDup. Qed.

  Lemma rank_in_c x : In x c -> rank x = Z.of_nat (index_of x c).
  Proof.
    intros H. unfold rank, avc_rank, avc_order. fold s. fold c. rewrite index_of_app by exact H.
    reflexivity.
  Qed.

  Hypothesis Hconn : connected g act.

  Lemma active_in_c i : (i < nv g)%nat -> act i = true -> In i c.
  Proof.
    intros Hi Ha. unfold c. apply component_complete; [exact Hwf|apply avc_start_lt|].
    apply Hconn; [apply avc_start_lt|exact Hi|exact (avc_start_active i Hi Ha)|exact Ha].
  Qed.

  Lemma witness_step i :
    (i < nv g)%nat -> act i = true -> 1 <= lower_cnt g act rank i + b2z (root i).
  Proof.
    intros Hi Ha. pose proof (lower_cnt_nonneg g act rank i) as Hnn.
    unfold root, avc_root. fold s. destruct (Nat.eqb_spec i s) as [Heq|Hne]; [simpl; lia|].
    simpl b2z. pose proof (active_in_c i Hi Ha) as Hic.
    destruct (component_head g act all_edges_ok s (avc_start_active i Hi Ha)) as [t Ht]. fold c in Ht.
    pose proof (nth_error_index_of i c Hic) as Hnth.
    assert (Hp : (0 < index_of i c)%nat).
    { rewrite Ht. simpl. destruct (Nat.eqb_spec i s); [contradiction|lia]. }
    destruct (component_earlier_nbr_nth g act all_edges_ok s _ _ Hnth Hp) as [q [u [Hq [Hu [_ Hnb]]]]].
    fold c in Hu.
    apply nbrs_incident in Hnb. destruct Hnb as [k [_ Hk]].
    assert (Huc : In u c) by (eapply nth_error_In; exact Hu).
    assert (Hqi : index_of u c = q) by (apply index_of_nth; [apply component_nodup|exact Hu]).
    assert (1 <= lower_cnt g act rank i); [|lia].
    unfold lower_cnt. apply zsum_map_ge1 with (u, k); [exact Hk| |intros; apply b2z_nonneg].
    simpl fst. rewrite (rank_in_c u Huc), (rank_in_c i Hic), Hqi.
    assert (Hau : act u = true) by (apply (component_vok g act all_edges_ok s u Huc)).
    rewrite Hau. destruct (Z.ltb_spec (Z.of_nat q) (Z.of_nat (index_of i c))); simpl; lia.
  Qed.

  Lemma witness_ne i j k : (i < nv g)%nat -> In (j, k) (incident g i) -> i <> j -> rank j <> rank i.
  Proof.
    intros Hi Hin Hne He. destruct (incident_lt g i j k Hwf Hin) as [_ Hj].
    apply Hne. symmetry. apply rank_inj; assumption.
  Qed.

  Lemma witness_connected_cert : cert_avc g false act rank root = true.
  Proof.
    apply cert_avc_intro; [|apply root_sum].
    intros i Hi. unfold vertex_ok. simpl. destruct (act i) eqn:Ha; [|reflexivity]. simpl.
    apply Z.leb_le. apply witness_step; assumption.
  Qed.

  Lemma witness_tree_cert :
    (n_active g act = 0%nat \/ (induced_edges g act + 1 = n_active g act)%nat) ->
    cert_avc g true act rank root = true.
  Proof.
    intros Hcount. apply cert_avc_intro; [|apply root_sum].
    assert (Hne : forall a b, In (a, b) (edges g) -> a <> b -> rank a <> rank b).
    { intros a b Hin Hab He. apply In_nth_error in Hin. destruct Hin as [k Hk].
      destruct (wf_graph_edge g k a b Hwf Hk) as [Ha _]. apply Hab. apply rank_inj; assumption. }
    (* every active vertex contributes exactly one *)
    assert (Hone : forall i, In i (filter act (seq 0 (nv g))) ->
                             lower_cnt g act rank i + b2z (root i) = 1).
    { apply zsum_all_one.
      - intros i Hi. apply filter_In in Hi. destruct Hi as [Hi Ha]. apply in_seq in Hi.
        apply witness_step; [lia|exact Ha].
      - rewrite zsum_map_add. rewrite (lower_cnt_sum g act rank Hwf Hne).
        destruct (filter act (seq 0 (nv g))) as [|x l] eqn:Hf.
        + unfold induced_edges. unfold n_active in Hcount. rewrite Hf in Hcount. simpl in Hcount.
          assert (Hz : length (filter (fun ab : nat * nat => act (fst ab) && act (snd ab) && negb (Nat.eqb (fst ab) (snd ab))) (edges g)) = 0%nat).
          { destruct (filter _ (edges g)) as [|[a b] r] eqn:He; [reflexivity|]. exfalso.
            assert (H : In (a, b) (filter (fun ab : nat * nat => act (fst ab) && act (snd ab) && negb (Nat.eqb (fst ab) (snd ab))) (edges g)))
              by (rewrite He; left; reflexivity).
            apply filter_In in H. destruct H as [Hin H]. simpl in H.
            apply andb_true_iff in H. destruct H as [H _]. apply andb_true_iff in H. destruct H as [Haa _].
            apply In_nth_error in Hin. destruct Hin as [k Hk].
            destruct (wf_graph_edge g k a b Hwf Hk) as [Ha _].
            assert (Hx : In a (filter act (seq 0 (nv g)))) by (apply filter_In; split; [apply in_seq; lia|exact Haa]).
            rewrite Hf in Hx. destruct Hx. }
          rewrite Hz. reflexivity.
        + assert (Hx : In x (filter act (seq 0 (nv g)))) by (rewrite Hf; left; reflexivity).
          rewrite <- Hf.
          assert (Hs : In s (filter act (seq 0 (nv g)))).
          { apply filter_In in Hx. destruct Hx as [Hx Hax]. apply in_seq in Hx.
            apply filter_In. split; [apply in_seq; pose proof avc_start_lt; lia|].
            apply (avc_start_active x); [lia|exact Hax]. }
          unfold root, avc_root. fold s.
          rewrite zsum_eqb_in; [|apply NoDup_filter; apply seq_NoDup|exact Hs].
          unfold n_active in Hcount. destruct Hcount as [H0|H1].
          * rewrite Hf in H0. discriminate.
          * rewrite <- H1. lia. }
    intros i Hi. unfold vertex_ok. apply andb_true_iff. split.
    - apply forallb_forall. intros [j k] Hf. apply filter_In in Hf. destruct Hf as [Hin Hlt].
      simpl in Hlt. apply Nat.ltb_lt in Hlt. simpl fst. apply negb_true_iff. apply Z.eqb_neq.
      apply (witness_ne i j k Hi Hin). lia.
    - destruct (act i) eqn:Ha; [|reflexivity]. simpl. apply Z.eqb_eq. apply Hone.
      apply filter_In. split; [apply in_seq; lia|exact Ha].
  Qed.
End Complete.

Theorem cert_complete g acyclic act :
  wf_graph g = true -> (1 <= nv g)%nat -> spec_avc acyclic g act ->
  ranks_in_range g (avc_rank g act) /\
  cert_avc g acyclic act (avc_rank g act) (avc_root g act) = true.
Proof.
  intros Hwf Hn Hs. split; [apply rank_range; assumption|].
  destruct acyclic; simpl in Hs.
  - destruct Hs as [Hc Hcount]. apply witness_tree_cert; assumption.
  - apply witness_connected_cert; assumption.
Qed.

(* avc_cert: an in-range certificate exists exactly when the specification holds *)
Theorem avc_cert g acyclic act :
  wf_graph g = true -> (1 <= nv g)%nat ->
  ((exists rank root, ranks_in_range g rank /\ cert_avc g acyclic act rank root = true)
   <-> spec_avc acyclic g act).
Proof.
  intros Hwf Hn. split.
  - intros [rank [root [Hr Hc]]]. eapply cert_sound; eassumption.
  - intros Hs. exists (avc_rank g act), (avc_root g act). apply cert_complete; assumption.
Qed.

(* pointwise-equal patterns have the same specification *)
Lemma connected_ext g act1 act2 :
  (forall v, act1 v = act2 v) -> connected g act1 -> connected g act2.
Proof.
  intros He Hc u v Hu Hv Hau Hav. apply (reach_ext g act1 act2 all_edges_ok all_edges_ok); auto.
  apply Hc; try assumption; rewrite He; assumption.
Qed.

Lemma spec_avc_ext acyclic g act1 act2 :
  (forall v, act1 v = act2 v) -> spec_avc acyclic g act1 -> spec_avc acyclic g act2.
Proof.
  intros He. destruct acyclic; simpl; [|apply connected_ext; exact He].
  intros [Hc Hn]. split; [eapply connected_ext; eassumption|].
  unfold n_active, induced_edges in *.
  rewrite <- (filter_ext act1 act2 He).
  rewrite <- (filter_ext (fun ab : nat * nat => act1 (fst ab) && act1 (snd ab) && negb (Nat.eqb (fst ab) (snd ab)))
                         (fun ab : nat * nat => act2 (fst ab) && act2 (snd ab) && negb (Nat.eqb (fst ab) (snd ab)))).
  - exact Hn.
  - intros [a b]. simpl. rewrite !He. reflexivity.
Qed.

(* on loop-free graphs the induced-edge count is the plain one *)
Lemma induced_edges_loop_free g act :
  loop_free g = true ->
  induced_edges g act = length (filter (fun ab : nat * nat => act (fst ab) && act (snd ab)) (edges g)).
Proof.
  intros Hl. unfold induced_edges. f_equal. apply filter_ext_in. intros [a b] Hin.
  unfold loop_free in Hl. rewrite forallb_forall in Hl. specialize (Hl _ Hin). simpl in Hl.
  simpl. rewrite Hl. rewrite andb_true_r. reflexivity.
Qed.
