(* C11 Tier 1, native-operator route - lits.  The program solve_lits posts when cspuz.config.use_graph_primitive is
   on: graph.active_vertices_connected(solver, is_black) posts ONE node GRAPH_ACTIVE_VERTICES_CONNECTED over the answer
   grid (model Graph/Avc.v::post_avc with prim = true) and declares no auxiliary variable, so num_straight / has_t get
   the ids h*w .. h*w + 2*k - 1 for k blocks (3*h*w .. on the other route); the constraints are those of
   Puzzle/Lits.v::lits_constraints with that base, the input checks are the same.  On a board without cells the call
   succeeds on this route.
   Theorem: same answer ids (the grid), same rules as LitsProofs.lits_exact; the meaning of the node is C04's gsem_avc;
   num_straight / has_t are existential as before (LitsLocal.lits_local). *)
From Coq Require Import ZArith List Bool Arith Lia.
From Cspuz Require Import Lib.PyErr Core.Expr Core.Program Graph.GraphModel Graph.ReachProofs
     Graph.Avc Graph.AvcSem Graph.AvcProofs
     Puzzle.PuzzleBase Puzzle.SatAbs Puzzle.ModelBase Puzzle.ModelLemmas Puzzle.AkariLemmas Puzzle.CreekProofs
     Puzzle.Rules_norinori Puzzle.Norinori Puzzle.NurimisakiProofs Puzzle.HeyawakeProofs
     Puzzle.Rules_lits Puzzle.Lits Puzzle.LitsShapes Puzzle.LitsSem Puzzle.LitsLocal Puzzle.LitsProofs
     Puzzle.AvcPrimCompose.
Import ListNotations.
Local Open Scope nat_scope.

Definition solve_lits_model_prim (pb : problem) : res state :=
  let h := dim pb 0 in let w := dim pb 1 in let region := sec pb 1 in
  if negb (forallb (fun z => (0 <=? z)%Z) region) || Nat.ltb (length region) (h * w) then Err ValueError
  else
  match post_avc (bool_grid_state (h * w) []) (map BVar (seq 0 (h * w))) (grid_graph h w) false true with
  | Ok st1 =>
      let k := n_regions region in
      Ok {| vars := vars st1 ++ repeat (DInt 0 2) k ++ repeat DBool k;
            keys := keys st1 ++ repeat false (k + k);
            cons := cons st1 ++ lits_constraints h w region k (next_id st1) |}
  | Err e => Err e
  end.

Theorem lits_exact_prim h w region st ans :
  solve_lits_model_prim [[Z.of_nat h; Z.of_nat w]; region] = Ok st ->
  ((exists en, model_of gsem_avc en st /\ reads st en (seq 0 (h * w)) = ans)
   <-> rules_lits [[Z.of_nat h; Z.of_nat w]; region] ans = true).
Proof.
  unfold solve_lits_model_prim. destruct (dims2h h w [region]) as [-> ->].
  change (sec [[Z.of_nat h; Z.of_nat w]; region] 1) with region.
  destruct (negb (forallb (fun z => (0 <=? z)%Z) region) || Nat.ltb (length region) (h * w)) eqn:G; [discriminate|].
  apply orb_false_iff in G. destruct G as [G1 G2]. apply negb_false_iff in G1. apply Nat.ltb_ge in G2.
  pose proof (region_ok h w region G1 G2) as Hreg.
  destruct (post_avc (bool_grid_state (h * w) []) (map BVar (seq 0 (h * w))) (grid_graph h w) false true)
    as [st1|e] eqn:Hp; [|discriminate].
  intros H. inversion H; subst st; clear H.
  rewrite rules_lits_split. set (k := n_regions region).
  assert (Hbase0 : h * w <= next_id st1).
  { destruct (avc_primitive _ _ _ _ Hp) as [_ [Hv _]]. unfold next_id. rewrite Hv. cbn [vars bool_grid_state].
    rewrite repeat_length. lia. }
  refine (proj2 (lits_compose_prim h w k (lits_constraints h w region k (next_id st1))
           (fun a => rules_local h w region k (fun c => isb (at2 a w (fst c) (snd c)))) st1 ans Hp _ _)).
  - (* every model obeys the rules *)
    intros en Hx. rewrite (lits_constraints_sem gsem_avc en h w region k (next_id st1)) in Hx.
    rewrite (rules_local_ext h w region k _ (fun c => eb en (cidx w c)) (lits_black_lit h w en)).
    apply (lits_local h w region k _ Hreg).
    exists (fun i => ei en (next_id st1 + i)), (fun i => eb en (next_id st1 + k + i)). split; [|exact Hx].
    (* the bounds are not needed in this direction *)
    intros i Hi.
    (* they follow from the room constraints anyway *)
    unfold lits_sem in Hx. apply andb_true_iff in Hx. destruct Hx as [Hx _]. apply andb_true_iff in Hx. destruct Hx as [_ HK].
    rewrite forallb_forall in HK. specialize (HK i ltac:(apply in_seq; lia)). rewrite blk_sem_abs in HK.
    destruct (shape_of_room h w region _ i _ _ HK) as [s [_ [_ [Ns _]]]]. rewrite Ns. pose proof (ns_of_le s). lia.
  - (* every rule-obeying grid extends to a model *)
    intros en Hl.
    rewrite (rules_local_ext h w region k _ (fun c => eb en (cidx w c)) (lits_black_lit h w en)) in Hl.
    apply (lits_local h w region k _ Hreg) in Hl. destruct Hl as [nsv [htv [Hb Hs]]].
    set (base := next_id st1) in *.
    set (en' := {| eb := fun i => if Nat.ltb i base then eb en i else htv (i - (base + k));
                   ei := fun i => if Nat.ltb i base then ei en i else nsv (i - base) |}).
    exists en'. split; [|split].
    + intros i Hi. unfold en'. cbn [eb ei]. destruct (Nat.ltb_spec i base); [split; reflexivity|lia].
    + intros j Hj. unfold en'. cbn [ei]. destruct (Nat.ltb_spec (base + j) base); [lia|].
      replace (base + j - base) with j by lia. apply Hb. exact Hj.
    + rewrite (lits_constraints_sem gsem_avc en' h w region k base).
      assert (Hbase : h * w <= base) by exact Hbase0.
      rewrite (lits_sem_ext h w region k (fun c => eb en' (cidx w c)) (fun c => eb en (cidx w c))).
      2:{ intros y x Hy Hx. unfold en'. cbn [eb]. pose proof (cidx_lt h w y x Hy Hx).
          destruct (Nat.ltb_spec (cidx w (y, x)) base); [reflexivity|lia]. }
      rewrite <- Hs. unfold lits_sem. apply (f_equal2 andb); [apply (f_equal2 andb)|].
      * reflexivity.
      * apply ModelLemmas.forallb_ext_in. intros i _. unfold blk_sem. unfold en'. cbn [eb ei].
        destruct (Nat.ltb_spec (base + i) base); [lia|]. destruct (Nat.ltb_spec (base + k + i) base); [lia|].
        replace (base + i - base) with i by lia. replace (base + k + i - (base + k)) with i by lia. reflexivity.
      * apply ModelLemmas.forallb_ext_in. intros [y x] _. unfold border_sem, differ_sem. unfold en'. cbn [eb ei].
        repeat match goal with |- context [Nat.ltb (base + ?a) base] => destruct (Nat.ltb_spec (base + a) base); [lia|] end.
        repeat match goal with |- context [Nat.ltb (base + k + ?a) base] => destruct (Nat.ltb_spec (base + k + a) base); [lia|] end.
        repeat match goal with |- context [base + ?a - base] => replace (base + a - base) with a by lia end.
        repeat match goal with |- context [base + k + ?a - (base + k)] => replace (base + k + a - (base + k)) with a by lia end.
        reflexivity.
Qed.

Example lits_model_prim_ok :
  exists st, solve_lits_model_prim [[2; 3]; [0; 1; 1; 1; 1; 1]]%Z = Ok st.
Proof. vm_compute. eexists. reflexivity. Qed.
