(* C11 rule specification - Nanro.
   Published rules (Nikoli, "Nanro"; the same wording on puzz.link):
     1. Write numbers in some of the cells of the board.
     2. All numbers written in a room (an area bounded by bold lines) are the same, and that number is the
        number of cells of the room that carry a number.  A given number is the number of its cell.
     3. Every room contains at least one number.
     4. Equal numbers must not be orthogonally adjacent across a room border.
     5. The numbered cells must not cover a 2x2 square anywhere.
     6. All numbered cells form one orthogonally connected area.
   Reading choices: numbers are positive integers (0 in the answer means "no number"); rule 2 bounds a number
   by the size of its room, so the candidate list gives every cell the values 0 .. size of its room; a room id
   in 0 .. (largest id) that no cell carries is a room without cells, which rule 3 makes unsolvable (such
   problems are not well formed and never generated).  Rooms need not be connected for the rules to make sense.

   problem = [[h; w]; room; num]   room: h*w room ids 0..k-1 row-major (room i = the i-th entry of the solver's
                                   `blocks` argument); num: h*w given numbers row-major (<= 0 = no given number)
   answer  = h*w cells row-major (the nested list solve_nanro returns), the number of the cell, 0 = no number *)
From Coq Require Import ZArith List Bool Arith.
From Cspuz Require Import Graph.GraphModel Puzzle.PuzzleBase Puzzle.Rules_norinori.
Import ListNotations.

Definition rules_nanro (pb : problem) (ans : answer) : bool :=
  let h := dim pb 0 in let w := dim pb 1 in
  let room := sec pb 1 in let num := sec pb 2 in
  let cs := cells h w in
  let val := fun '(y, x) => at2 ans w y x in
  let numbered := fun c => negb (val c =? 0)%Z in
  let room_of := fun '(y, x) => at2 room w y x in
  (* the number of numbered cells of room i *)
  let cnt := fun i => zcount (fun c => (room_of c =? Z.of_nat i)%Z && numbered c) cs in
  Nat.eqb (length ans) (h * w) && forallb (fun z => (0 <=? z)%Z) ans &&
  (* given numbers *)
  forallb (fun '(y, x) => let c := at2 num w y x in (c <=? 0)%Z || (val (y, x) =? c)%Z) cs &&
  (* rules 2 and 3 *)
  forallb (fun i => (1 <=? cnt i)%Z &&
                    forallb (fun c => negb ((room_of c =? Z.of_nat i)%Z && numbered c) || (val c =? cnt i)%Z) cs)
          (seq 0 (n_regions room)) &&
  (* rule 5 *)
  negb (has_2x2 h w (fun y x => numbered (y, x))) &&
  (* rule 4 *)
  forallb (fun '(y, x) => forallb (fun c' =>
     negb (numbered (y, x) && numbered c' && negb (room_of (y, x) =? room_of c')%Z) ||
     negb (val (y, x) =? val c')%Z) (nbr4 h w y x)) cs &&
  (* rule 6 *)
  cells_connected h w (fun v => negb (getz ans v =? 0)%Z).

(* every cell: 0 .. the size of its room *)
Definition answers_nanro (pb : problem) : list answer :=
  let h := dim pb 0 in let w := dim pb 1 in
  let room := sec pb 1 in
  all_answers (map (fun '(y, x) => (0%Z, zcount (fun '(y', x') => (at2 room w y' x' =? at2 room w y x)%Z) (cells h w)))
                   (cells h w)).
