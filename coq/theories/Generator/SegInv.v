(* C18: every update proposed by [candidates] keeps the invariant; walks and
   initial().  Built on SegLists.v (lists) and SegReach.v (connectivity). *)
From Coq Require Import ZArith List Bool Arith Permutation Lia.
From Cspuz Require Import Lib.PyErr Generator.Segmentation Generator.SegLists Generator.SegReach.
Import ListNotations.
Local Arguments split_block : simpl never.
Local Arguments is_connected : simpl never.
Local Arguments candidates : simpl never.
Local Arguments Z.mul : simpl never.
Local Arguments Nat.modulo : simpl never.

Definition sizes_ok (cfg : config) (l : list block) : Prop :=
  Forall (fun b => (min_size cfg <= zlen b <= max_size cfg)%Z) l.

(* what makes an update (exclude, append) harmless for a value bs *)
Definition upd_ok (cfg : config) (bs : blocks) (u : update) : Prop :=
  NoDup (fst u) /\ (forall i, In i (fst u) -> i < length bs) /\
  Permutation (concat (map (blk bs) (fst u))) (concat (snd u)) /\
  Forall connected_block (snd u) /\
  (bounds_ok cfg bs ->
     (min_num cfg <= zlen bs - zlen (fst u) + zlen (snd u) <= max_num cfg)%Z /\ sizes_ok cfg (snd u)).

Lemma apply_WInv : forall cfg bs u, WInv cfg bs -> upd_ok cfg bs u -> WInv cfg (apply_update bs u).
Proof.
  intros cfg bs [excl new] [Hpart Hconn] [ND [Hr [Hperm [Hc _]]]]; simpl in *.
  unfold apply_update; simpl. split.
  - unfold partition_of_board in *. eapply perm_trans; [|exact Hpart].
    rewrite concat_app. apply Permutation_sym.
    eapply perm_trans; [apply keep_idx_concat; eassumption|].
    eapply perm_trans; [apply Permutation_app_tail; exact Hperm|]. apply Permutation_app_comm.
  - apply Forall_app; split; [|exact Hc].
    apply Forall_forall; intros b Hb. apply keep_idx_In in Hb.
    rewrite Forall_forall in Hconn; apply Hconn; exact Hb.
Qed.

Lemma apply_bounds : forall cfg bs u, bounds_ok cfg bs -> upd_ok cfg bs u -> bounds_ok cfg (apply_update bs u).
Proof.
  intros cfg bs [excl new] Hb [ND [Hr [_ [_ Hbd]]]]; simpl in *.
  destruct (Hbd Hb) as [Hcnt Hsz]. destruct Hb as [_ Hsizes].
  unfold apply_update; simpl. split.
  - pose proof (keep_idx_length excl bs ND Hr) as HL. unfold zlen in *. rewrite app_length. lia.
  - apply Forall_app; split; [|exact Hsz].
    apply Forall_forall; intros b Hb. apply keep_idx_In in Hb.
    rewrite Forall_forall in Hsizes; apply Hsizes; exact Hb.
Qed.

(* ---------------------------------------------------------------- facts about a valid value *)

Lemma blk_In : forall (bs : blocks) i, i < length bs -> In (blk bs i) bs.
Proof. intros; unfold blk; apply nth_In; assumption. Qed.

Lemma WInv_NoDup : forall cfg bs i, WInv cfg bs -> i < length bs -> NoDup (blk bs i).
Proof.
  intros cfg bs i [Hpart _] Hi. apply NoDup_concat_block with bs; [|apply blk_In; exact Hi].
  eapply Permutation_NoDup; [apply Permutation_sym; exact Hpart | apply board_NoDup].
Qed.

Lemma WInv_conn : forall cfg bs i, WInv cfg bs -> i < length bs -> connected_block (blk bs i).
Proof.
  intros cfg bs i [_ Hc] Hi. rewrite Forall_forall in Hc. apply Hc, blk_In, Hi.
Qed.

Lemma bounds_size : forall cfg bs i, bounds_ok cfg bs -> i < length bs ->
  (min_size cfg <= zlen (blk bs i) <= max_size cfg)%Z.
Proof.
  intros cfg bs i [_ Hs] Hi. rewrite Forall_forall in Hs. apply (Hs (blk bs i)), blk_In, Hi.
Qed.

(* ---------------------------------------------------------------- merge *)

Definition mergeable (cfg : config) (bs : blocks) (a b : nat) : Prop :=
  a <> b /\ a < length bs /\ b < length bs /\
  (exists u1 u2, In u1 (blk bs a) /\ In u2 (blk bs b) /\ adj u1 u2) /\
  (zlen (blk bs a) + zlen (blk bs b) <= max_size cfg)%Z.

Lemma mergeable_sym : forall cfg bs a b, mergeable cfg bs a b -> mergeable cfg bs b a.
Proof.
  intros cfg bs a b [H1 [H2 [H3 [[u1 [u2 [Hu1 [Hu2 Ha]]]] H5]]]].
  repeat split; auto; [exists u2, u1; repeat split; auto; apply adj_sym; exact Ha | lia].
Qed.

Lemma merge_probe_inv : forall cfg bs inside i oj l pr,
  merge_probe cfg bs inside i oj = Some l -> In pr l ->
  exists j, oj = Some j /\ inside = true /\ i <> j /\ pr = order_pair i j /\
            (zlen (blk bs i) + zlen (blk bs j) <= max_size cfg)%Z.
Proof.
  intros cfg bs inside i oj l pr H Hin. unfold merge_probe in H.
  destruct oj as [j|]; [|inversion H; subst; contradiction].
  destruct inside; simpl in H; [|inversion H; subst; contradiction].
  destruct (Nat.eqb i j) eqn:E; simpl in H; [inversion H; subst; contradiction|].
  destruct (zlen (blk bs i) + zlen (blk bs j) >? max_size cfg)%Z eqn:Eg; [discriminate|].
  inversion H; subst. destruct Hin as [<-|[]].
  exists j. apply Nat.eqb_neq in E. repeat split; auto. lia.
Qed.

Lemma merge_probe_mergeable : forall cfg bs inside i c c' l pr,
  block_id bs c = Some i -> adj c c' ->
  merge_probe cfg bs inside i (block_id bs c') = Some l -> In pr l ->
  mergeable cfg bs (fst pr) (snd pr).
Proof.
  intros cfg bs inside i c c' l pr Hi Ha H Hin.
  destruct (merge_probe_inv _ _ _ _ _ _ _ H Hin) as [j [Hj [_ [Hne [Hpr Hsz]]]]].
  destruct (block_id_spec _ _ _ Hi) as [Hil Hic]. destruct (block_id_spec _ _ _ Hj) as [Hjl Hjc].
  assert (M : mergeable cfg bs i j).
  { repeat split; auto. exists c, c'; repeat split; auto. }
  subst pr. unfold order_pair. destruct (Nat.ltb i j); simpl; [exact M | apply mergeable_sym; exact M].
Qed.

Lemma merge_at_mergeable : forall cfg bs c pr, In pr (merge_at cfg bs c) -> mergeable cfg bs (fst pr) (snd pr).
Proof.
  intros cfg bs [y x] pr H. unfold merge_at in H.
  destruct (block_id bs (y, x)) as [i|] eqn:Ei; [|contradiction].
  assert (A1 : adj (y, x) (y + 1, x)%Z) by (unfold adj; simpl; lia).
  assert (A2 : adj (y, x) (y, x + 1)%Z) by (unfold adj; simpl; lia).
  destruct (merge_probe cfg bs (y <? height cfg - 1)%Z i (block_id bs (y + 1, x)%Z)) as [l1|] eqn:E1; [|contradiction].
  destruct (merge_probe cfg bs (x <? width cfg - 1)%Z i (block_id bs (y, x + 1)%Z)) as [l2|] eqn:E2.
  - apply in_app_or in H; destruct H as [H|H];
      [eapply merge_probe_mergeable with (c := (y, x)) (c' := (y + 1, x)%Z) | eapply merge_probe_mergeable with (c := (y, x)) (c' := (y, x + 1)%Z)]; eassumption.
  - eapply merge_probe_mergeable with (c := (y, x)) (c' := (y + 1, x)%Z); eassumption.
Qed.

Lemma merges_ok : forall cfg bs u, WInv cfg bs -> In u (merges cfg bs) -> upd_ok cfg bs u.
Proof.
  intros cfg bs u HW H. unfold merges in H.
  destruct (zlen bs >? min_num cfg)%Z eqn:Eg; [|contradiction].
  apply in_map_iff in H. destruct H as [[a b] [<- Hp]].
  unfold merge_pairs in Hp. apply sort_pairs_In in Hp. apply in_flat_map in Hp.
  destruct Hp as [c [_ Hc]]. apply merge_at_mergeable in Hc. simpl in Hc.
  destruct Hc as [Hne [Ha [Hb [[u1 [u2 [Hu1 [Hu2 Hadj]]]] Hsz]]]].
  unfold upd_ok, merge_upd; simpl. split; [|split; [|split; [|split]]].
  - constructor; [intros [E|[]]; congruence | constructor; [intros [] | constructor]].
  - intros i [<-|[<-|[]]]; assumption.
  - rewrite !app_nil_r. apply Permutation_refl.
  - constructor; [|constructor]. eapply connected_merge; try eassumption; apply (WInv_conn cfg); assumption.
  - intros Hbd. pose proof (bounds_size cfg bs a Hbd Ha). pose proof (bounds_size cfg bs b Hbd Hb).
    destruct Hbd as [Hn _]. split.
    + unfold zlen in *; simpl; lia.
    + constructor; [|constructor]. unfold zlen in *. rewrite app_length. lia.
Qed.

(* ---------------------------------------------------------------- split *)

Lemma split_reps_inv : forall cfg i B u n draws l rest,
  split_reps cfg n i B draws = Ok (l, rest) -> In u l ->
  exists d a b d', split_block B d = Ok (a, b, d') /\ u = ([i], [a; b]) /\
                   (min_size cfg <= zlen a)%Z /\ (min_size cfg <= zlen b)%Z.
Proof.
  intros cfg i B u; induction n as [|n IH]; intros draws l rest H Hin; simpl in H.
  - inversion H; subst; contradiction.
  - destruct (split_block B draws) as [[[a b] d1]|] eqn:Es; simpl in H; [|discriminate].
    destruct (split_reps cfg n i B d1) as [[us d2]|] eqn:Er; simpl in H; [|discriminate].
    inversion H; subst; clear H. apply in_app_or in Hin. destruct Hin as [Hin|Hin].
    + destruct ((zlen a >=? min_size cfg)%Z && (zlen b >=? min_size cfg)%Z) eqn:Eb; [|contradiction].
      destruct Hin as [<-|[]]. apply andb_true_iff in Eb. destruct Eb.
      exists draws, a, b, d1. repeat split; auto; lia.
    + eapply IH; eassumption.
Qed.

Lemma splits_from_inv : forall cfg u bs0 i draws l rest,
  splits_from cfg i bs0 draws = Ok (l, rest) -> In u l ->
  exists k B d a b d', nth_error bs0 k = Some B /\ split_block B d = Ok (a, b, d') /\
                       u = ([i + k], [a; b]) /\ (min_size cfg <= zlen a)%Z /\ (min_size cfg <= zlen b)%Z.
Proof.
  intros cfg u; induction bs0 as [|B r IH]; intros i draws l rest H Hin; simpl in H.
  - inversion H; subst; contradiction.
  - match type of H with bind ?X _ = _ => destruct X as [[u1 d1]|] eqn:E1 end; simpl in H; [|discriminate].
    destruct (splits_from cfg (S i) r d1) as [[u2 d2]|] eqn:E2; simpl in H; [|discriminate].
    inversion H; subst; clear H. apply in_app_or in Hin. destruct Hin as [Hin|Hin].
    + destruct (zlen B >=? _)%Z in E1; [|inversion E1; subst; contradiction].
      destruct (split_reps_inv _ _ _ _ _ _ _ _ E1 Hin) as [d [a [b [d' [Hs [Hu [Ha Hb]]]]]]].
      exists 0, B, d, a, b, d'. rewrite Nat.add_0_r. repeat split; auto.
    + destruct (IH _ _ _ _ E2 Hin) as [k [B' [d [a [b [d' [Hn [Hs [Hu [Ha Hb]]]]]]]]]].
      exists (S k), B', d, a, b, d'. replace (i + S k) with (S i + k) by lia. repeat split; auto.
Qed.

Lemma splits_ok : forall cfg bs draws l rest u,
  WInv cfg bs -> splits cfg bs draws = Ok (l, rest) -> In u l -> upd_ok cfg bs u.
Proof.
  intros cfg bs draws l rest u HW H Hin. unfold splits in H.
  destruct (zlen bs <? max_num cfg)%Z eqn:El; [|inversion H; subst; contradiction].
  destruct (splits_from_inv _ _ _ _ _ _ _ H Hin) as [k [B [d [a [b [d' [Hn [Hs [Hu [Ha Hb]]]]]]]]]].
  simpl in Hu. subst u.
  assert (Hk : k < length bs) by (apply nth_error_Some; congruence).
  assert (HB : blk bs k = B) by (unfold blk; apply nth_error_nth; exact Hn).
  destruct (split_block_ok B d a b d') as [Ca [Cb Hperm]]; [rewrite <- HB; apply (WInv_NoDup cfg); assumption | exact Hs |].
  unfold upd_ok; simpl. split; [|split; [|split; [|split]]].
  - constructor; [intros [] | constructor].
  - intros i [<-|[]]; exact Hk.
  - rewrite HB, !app_nil_r. exact Hperm.
  - constructor; [exact Ca | constructor; [exact Cb | constructor]].
  - intros Hbd. pose proof (bounds_size cfg bs k Hbd Hk) as HsB. rewrite HB in HsB.
    destruct Hbd as [Hcnt _]. pose proof (Permutation_length Hperm) as HL. rewrite app_length in HL.
    split.
    + unfold zlen in *; simpl; lia.
    + constructor; [|constructor; [|constructor]]; unfold zlen in *; lia.
Qed.

(* ---------------------------------------------------------------- move *)

Lemma move_perm : forall c Dn R, NoDup Dn -> In c Dn ->
  Permutation (Dn ++ R) (remove_cell c Dn ++ (R ++ [c])).
Proof.
  intros c Dn R ND Hc.
  eapply perm_trans; [apply Permutation_app_tail; apply remove_cell_perm; eassumption|].
  simpl. rewrite app_assoc. apply Permutation_cons_append.
Qed.

(* moving c from the block `donor` to the block `recv`, next to cell nb of recv *)
Lemma move_case_ok : forall cfg bs i j d r c nb,
  WInv cfg bs -> i <> j -> i < length bs -> j < length bs ->
  ((d = i /\ r = j) \/ (d = j /\ r = i)) ->
  In c (blk bs d) -> In nb (blk bs r) -> adj nb c ->
  (zlen (blk bs d) > min_size cfg)%Z -> (zlen (blk bs r) < max_size cfg)%Z ->
  is_connected (blk bs d) (Some c) = true ->
  upd_ok cfg bs (move_upd [i; j] (blk bs d) (blk bs r) c).
Proof.
  intros cfg bs i j d r c nb HW Hne Hi Hj Hdr Hc Hnb Hadj Hmin Hmax Hconn.
  assert (Hd : d < length bs) by (destruct Hdr as [[-> _]|[-> _]]; assumption).
  assert (Hr : r < length bs) by (destruct Hdr as [[_ ->]|[_ ->]]; assumption).
  pose proof (WInv_NoDup cfg bs d HW Hd) as NDd.
  unfold upd_ok, move_upd; simpl. split; [|split; [|split; [|split]]].
  - constructor; [intros [E|[]]; congruence | constructor; [intros [] | constructor]].
  - intros k [<-|[<-|[]]]; assumption.
  - rewrite !app_nil_r. destruct Hdr as [[-> ->]|[-> ->]].
    + apply move_perm; assumption.
    + eapply perm_trans; [apply Permutation_app_comm | apply move_perm; assumption].
  - constructor; [apply is_connected_remove; assumption|].
    constructor; [|constructor]. eapply connected_snoc; [apply (WInv_conn cfg); assumption | exact Hnb | exact Hadj].
  - intros Hbd. pose proof (bounds_size cfg bs d Hbd Hd). pose proof (bounds_size cfg bs r Hbd Hr).
    destruct Hbd as [Hcnt _].
    pose proof (Permutation_length (remove_cell_perm c _ NDd Hc)) as HL. simpl in HL.
    split.
    + unfold zlen in *; simpl; lia.
    + constructor; [|constructor; [|constructor]]; unfold zlen in *; [lia | rewrite app_length; simpl; lia].
Qed.

Lemma move_pair_ok : forall cfg bs i j ci cj u,
  WInv cfg bs -> block_id bs ci = Some i -> block_id bs cj = Some j -> i <> j -> adj ci cj ->
  In u (move_pair cfg bs i j ci cj) -> upd_ok cfg bs u.
Proof.
  intros cfg bs i j ci cj u HW Hi Hj Hne Hadj H.
  destruct (block_id_spec _ _ _ Hi) as [Hil Hic]. destruct (block_id_spec _ _ _ Hj) as [Hjl Hjc].
  unfold move_pair in H. apply in_app_or in H. destruct H as [H|H].
  - destruct ((zlen (blk bs i) >? min_size cfg)%Z && (zlen (blk bs j) <? max_size cfg)%Z
              && is_connected (blk bs i) (Some ci)) eqn:E; [|contradiction].
    destruct H as [<-|[]]. apply andb_true_iff in E. destruct E as [E E3]. apply andb_true_iff in E. destruct E as [E1 E2].
    apply move_case_ok with (nb := cj); auto; try lia. apply adj_sym; exact Hadj.
  - destruct ((zlen (blk bs j) >? min_size cfg)%Z && (zlen (blk bs i) <? max_size cfg)%Z
              && is_connected (blk bs j) (Some cj)) eqn:E; [|contradiction].
    destruct H as [<-|[]]. apply andb_true_iff in E. destruct E as [E E3]. apply andb_true_iff in E. destruct E as [E1 E2].
    apply move_case_ok with (nb := ci); auto; lia.
Qed.

Lemma move_probe_ok : forall cfg bs inside c c' l u,
  WInv cfg bs -> adj c c' -> move_probe cfg bs inside c c' = Some l -> In u l -> upd_ok cfg bs u.
Proof.
  intros cfg bs inside c c' l u HW Hadj H Hin. unfold move_probe in H.
  destruct (inside && negb (oid_eqb (block_id bs c) (block_id bs c'))) eqn:E; [|inversion H; subst; contradiction].
  apply andb_true_iff in E. destruct E as [_ E]. apply negb_true_iff in E.
  destruct (block_id bs c) as [i|] eqn:Ei; [|discriminate].
  destruct (block_id bs c') as [j|] eqn:Ej; [|discriminate].
  inversion H; subst l. simpl in E. apply Nat.eqb_neq in E.
  exact (move_pair_ok cfg bs i j c c' u HW Ei Ej E Hadj Hin).
Qed.

Lemma moves_ok : forall cfg bs u, WInv cfg bs -> In u (moves cfg bs) -> upd_ok cfg bs u.
Proof.
  intros cfg bs u HW H. unfold moves in H. apply in_flat_map in H. destruct H as [[y x] [_ H]].
  unfold move_at in H.
  assert (A1 : adj (y, x) (y + 1, x)%Z) by (unfold adj; simpl; lia).
  assert (A2 : adj (y, x) (y, x + 1)%Z) by (unfold adj; simpl; lia).
  destruct (move_probe cfg bs (y <? height cfg - 1)%Z (y, x) (y + 1, x)%Z) as [l1|] eqn:E1; [|contradiction].
  destruct (move_probe cfg bs (x <? width cfg - 1)%Z (y, x) (y, x + 1)%Z) as [l2|] eqn:E2.
  - apply in_app_or in H; destruct H as [H|H]; [eapply move_probe_ok with (c := (y, x)) (c' := (y + 1, x)%Z)
                                                | eapply move_probe_ok with (c := (y, x)) (c' := (y, x + 1)%Z)]; eassumption.
  - eapply move_probe_ok with (c := (y, x)) (c' := (y + 1, x)%Z); eassumption.
Qed.

(* ---------------------------------------------------------------- every proposed update *)

Lemma proposed_ok : forall cfg bs ds u, WInv cfg bs -> proposed cfg bs ds u -> upd_ok cfg bs u.
Proof.
  intros cfg bs ds u HW [l [rest [H Hin]]]. unfold candidates in H.
  destruct (splits cfg bs ds) as [[sp r]|] eqn:Es; simpl in H; [|discriminate].
  inversion H; subst; clear H.
  apply in_app_or in Hin. destruct Hin as [Hin|Hin]; [apply merges_ok; assumption|].
  apply in_app_or in Hin. destruct Hin as [Hin|Hin]; [eapply splits_ok; eassumption | apply moves_ok; assumption].
Qed.

Lemma step_WInv : forall cfg bs ds u, WInv cfg bs -> proposed cfg bs ds u -> WInv cfg (apply_update bs u).
Proof. intros; apply apply_WInv; [assumption | eapply proposed_ok; eassumption]. Qed.

Lemma step_Inv : forall cfg bs ds u, Inv cfg bs -> proposed cfg bs ds u -> Inv cfg (apply_update bs u).
Proof.
  intros cfg bs ds u [HW Hb] Hp. pose proof (proposed_ok _ _ _ _ HW Hp) as Hok.
  split; [apply apply_WInv | apply apply_bounds]; assumption.
Qed.

Lemma walk_Inv : forall cfg steps bs, Inv cfg bs -> valid_walk cfg bs steps ->
  Forall (Inv cfg) (walk_values bs (map snd steps)).
Proof.
  intros cfg; induction steps as [|[ds u] r IH]; intros bs HI Hw; simpl.
  - constructor; [exact HI | constructor].
  - destruct Hw as [Hp Hw]. constructor; [exact HI|]. apply IH; [eapply step_Inv; eassumption | exact Hw].
Qed.

(* ---------------------------------------------------------------- initial() *)

Lemma is_met_bounds : forall cfg bs, is_met cfg bs = true -> bounds_ok cfg bs.
Proof.
  intros cfg bs H. unfold is_met in H. apply andb_true_iff in H. destruct H as [H H3].
  apply andb_true_iff in H. destruct H as [H1 H2]. split; [lia|].
  apply Forall_forall; intros b Hb. rewrite forallb_forall in H3. specialize (H3 b Hb).
  unfold size_ok in H3. apply andb_true_iff in H3. lia.
Qed.

Lemma initial_loop_Inv : forall cfg fuel bs draws r d',
  WInv cfg bs -> initial_loop cfg fuel bs draws = Ok (r, d') -> Inv cfg r.
Proof.
  intros cfg; induction fuel as [|f IH]; intros bs draws r d' HW H.
  - simpl in H. destruct (is_met cfg bs) eqn:Em; [|discriminate].
    inversion H; subst. split; [exact HW | apply is_met_bounds; exact Em].
  - simpl in H. destruct (is_met cfg bs) eqn:Em.
    + inversion H; subst. split; [exact HW | apply is_met_bounds; exact Em].
    + destruct (candidates cfg bs draws) as [[cands d1]|] eqn:Ec; simpl in H; [|discriminate].
      destruct cands as [|c0 cands]; [discriminate|].
      destruct d1 as [|k d2]; [discriminate|].
      eapply IH; [|exact H]. eapply step_WInv; [exact HW|].
      exists (c0 :: cands), (k :: d2). split; [exact Ec|].
      apply nth_In. apply Nat.mod_upper_bound. simpl; lia.
Qed.

Lemma initial_board_WInv : forall cfg, (0 < height cfg)%Z -> (0 < width cfg)%Z ->
  WInv cfg [board_cells (height cfg) (width cfg)].
Proof.
  intros cfg Hh Hw. split.
  - unfold partition_of_board; simpl. rewrite app_nil_r. apply Permutation_refl.
  - constructor; [apply board_connected; assumption | constructor].
Qed.

Lemma initial_Inv : forall cfg ib draws fuel r d',
  allow_unmet cfg = false ->
  match ib with
  | None => (0 < height cfg)%Z /\ (0 < width cfg)%Z
  | Some b => WInv cfg b
  end ->
  initial cfg ib draws fuel = Ok (r, d') -> Inv cfg r.
Proof.
  intros cfg ib draws fuel r d' Ha Hib H. unfold initial in H. rewrite Ha in H.
  eapply initial_loop_Inv; [|exact H].
  destruct ib as [b|]; [exact Hib | destruct Hib; apply initial_board_WInv; assumption].
Qed.
