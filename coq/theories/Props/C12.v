From Coq Require Import ZArith List Bool.
From Cspuz Require Import Lib.PyErr Core.Expr Core.Build Array.Slice Array.Elementwise Array.Helpers
  Array.ArraySpec Gen.DunderTable Array.DunderProofs Array.ElementwiseProofs Array.ProtocolProofs
  Array.HelpersProofs Array.C12Examples.
Import ListNotations.
Open Scope Z_scope.

(* _elementwise: same shape, result sort of the operator, item i is the operator
   applied to the operands' items i, and that node denotes the operator's meaning *)
Theorem elementwise_pointwise : forall o sh ops r,
  wf_shape sh -> elementwise o sh ops = Ok r ->
  exists data, r = VA (kind_of_op o) sh data /\ zlen data = shape_size sh /\
    forall i, (i < length data)%nat ->
      exists args, mapM (operand_at i) ops = Ok args /\
        nth_error data i = Some (mk_node o args) /\
        forall en, eval no_graph en (mk_node o args) = op_sem o (map (value_at en i) ops).
Proof. exact elementwise_spec. Qed.
Print Assumptions elementwise_pointwise.

Theorem elementwise_defined : forall o sh ops,
  elem_typecheck o ops = Some true ->
  forallb (shape_ok sh) ops = true -> forallb wf_val ops = true -> wf_shape sh ->
  exists r, elementwise o sh ops = Ok r.
Proof. exact elementwise_total. Qed.
Print Assumptions elementwise_defined.

(* the method table read from the Python source is the table the model runs *)
Theorem dunder_table_correct : forall c m, lookup_row dunder_table c m = lookup_method c m.
Proof. exact dunder_table_lookup. Qed.
Print Assumptions dunder_table_correct.

(* the type-check chain of _elementwise and the isinstance predicates, read from the source *)
Theorem type_table_correct : forall o ops, tc_eval gen_elem_table o ops = elem_typecheck o ops.
Proof. exact gen_elem_table_correct. Qed.
Print Assumptions type_table_correct.

Theorem like_predicates_correct : forall v,
  like_eval gen_is_bool_like (class_of v) = is_bool_like v /\
  like_eval gen_is_int_like (class_of v) = is_int_like v /\
  like_eval gen_is_bool_expr_like (class_of v) = is_bool_expr_like_v v /\
  like_eval gen_is_int_expr_like (class_of v) = is_int_expr_like_v v.
Proof.
  exact (fun v => conj (gen_is_bool_like_correct v) (conj (gen_is_int_like_correct v)
          (conj (gen_is_bool_expr_like_correct v) (gen_is_int_expr_like_correct v)))).
Qed.
Print Assumptions like_predicates_correct.

Theorem result_kind_lists_correct : forall o,
  existsb (op_eqb o) gen_bool_ops = is_bool_op o /\ existsb (op_eqb o) gen_int_ops = is_int_op o.
Proof. exact (fun o => conj (gen_bool_ops_correct o) (gen_int_ops_correct o)). Qed.
Print Assumptions result_kind_lists_correct.

(* A op B, A op s, s op A through CPython's operator protocol (operand order kept) *)
Theorem operator_forms_pointwise : forall o same a b k sh,
  operands_ok o k a b = true ->
  is_arr a || is_arr b = true ->
  wf_val a = true -> wf_val b = true ->
  shape_ok sh a = true -> shape_ok sh b = true ->
  pointwise_result (py_binop o same a b) (pyop_result_kind o) sh
    (fun en i => pyop_sem o k (value_at en i a) (value_at en i b)).
Proof. exact binop_pointwise. Qed.
Print Assumptions operator_forms_pointwise.

Theorem unary_forms_pointwise : forall u k sh d,
  k = unop_kind u -> wf_val (VA k sh d) = true ->
  pointwise_result (py_unop u (VA k sh d)) k sh (fun en i => unop_sem u (value_at en i (VA k sh d))).
Proof. exact unop_pointwise. Qed.
Print Assumptions unary_forms_pointwise.

Theorem then_form_pointwise : forall x y sh,
  has_kind KB x && has_kind KB y = true ->
  first_shape [x; y] = Some sh ->
  forallb wf_val [x; y] = true -> forallb (shape_ok sh) [x; y] = true ->
  pointwise_result (fn_then x y) KB sh
    (fun en i => then_sem (value_at en i x) (value_at en i y)).
Proof. exact then_pointwise. Qed.
Print Assumptions then_form_pointwise.

Theorem cond_form_pointwise : forall c t f sh,
  has_kind KB c && has_kind KI t && has_kind KI f = true ->
  first_shape [c; t; f] = Some sh ->
  forallb wf_val [c; t; f] = true -> forallb (shape_ok sh) [c; t; f] = true ->
  pointwise_result (fn_cond c t f) KI sh
    (fun en i => cond_sem (value_at en i c) (value_at en i t) (value_at en i f)).
Proof. exact cond_pointwise. Qed.
Print Assumptions cond_form_pointwise.

Theorem then_method_is_then : forall self y,
  bool_class self = true -> call_method self m_then [y] = fn_then self y.
Proof. exact then_method_is_function. Qed.
Print Assumptions then_method_is_then.

Theorem cond_method_is_cond : forall self t f,
  bool_class self = true -> call_method self m_cond [t; f] = fn_cond self t f.
Proof. exact cond_method_is_function. Qed.
Print Assumptions cond_method_is_cond.

(* the scalar forms of BoolExpr / IntExpr (incl. literal operands on either side) *)
Theorem scalar_forms_sem : forall o same ea eb k,
  operands_ok o k (VE ea) (VE eb) = true ->
  is_builtin (class_of (VE ea)) && is_builtin (class_of (VE eb)) = false ->
  exists e, py_binop o same (VE ea) (VE eb) = Ok (VE e) /\
    forall en, eval no_graph en e = pyop_sem o k (eval no_graph en ea) (eval no_graph en eb).
Proof. exact scalar_binop_sem. Qed.
Print Assumptions scalar_forms_sem.

Theorem scalar_then_form_sem : forall ex ey,
  has_kind KB (VE ex) && has_kind KB (VE ey) = true ->
  fn_then (VE ex) (VE ey) = Ok (VE (BNode IMP [ex; ey])) /\
  forall en, eval no_graph en (BNode IMP [ex; ey]) = then_sem (eval no_graph en ex) (eval no_graph en ey).
Proof. exact scalar_then_sem. Qed.
Print Assumptions scalar_then_form_sem.

Theorem scalar_cond_form_sem : forall ec et ef,
  has_kind KB (VE ec) && has_kind KI (VE et) && has_kind KI (VE ef) = true ->
  fn_cond (VE ec) (VE et) (VE ef) = Ok (VE (INode IF [ec; et; ef])) /\
  forall en, eval no_graph en (INode IF [ec; et; ef]) =
             cond_sem (eval no_graph en ec) (eval no_graph en et) (eval no_graph en ef).
Proof. exact scalar_cond_sem. Qed.
Print Assumptions scalar_cond_form_sem.

(* a boolean-valued operand where an integer-valued one is required, or vice versa *)
Theorem ill_typed_rejected : forall o same a b k,
  pyop_operand_kind o = Some k ->
  has_kind k a && has_kind k b = false ->
  is_builtin (class_of a) && is_builtin (class_of b) = false ->
  py_binop o same a b = Err TypeError.
Proof. exact binop_ill_typed_rejected. Qed.
Print Assumptions ill_typed_rejected.

Theorem ill_typed_unary_rejected : forall u a,
  has_kind (unop_kind u) a = false -> is_builtin (class_of a) = false ->
  py_unop u a = Err TypeError.
Proof. exact unop_ill_typed_rejected. Qed.
Print Assumptions ill_typed_unary_rejected.

Theorem ill_typed_then_rejected : forall x y,
  has_kind KB x && has_kind KB y = false -> fn_then x y = Err TypeError.
Proof. exact then_ill_typed_rejected. Qed.
Print Assumptions ill_typed_then_rejected.

Theorem ill_typed_cond_rejected : forall c t f,
  has_kind KB c && has_kind KI t && has_kind KI f = false -> fn_cond c t f = Err TypeError.
Proof. exact cond_ill_typed_rejected. Qed.
Print Assumptions ill_typed_cond_rejected.

Theorem shape_mismatch_rejected : forall o same ka sha da kb shb db k,
  operands_ok o k (VA ka sha da) (VA kb shb db) = true ->
  shape_eqb shb sha = false ->
  py_binop o same (VA ka sha da) (VA kb shb db) = Err ValueError.
Proof. exact binop_shape_mismatch_rejected. Qed.
Print Assumptions shape_mismatch_rejected.

Theorem shape_mismatch_then_rejected : forall x y sh,
  has_kind KB x && has_kind KB y = true ->
  first_shape [x; y] = Some sh -> forallb (shape_ok sh) [x; y] = false ->
  fn_then x y = Err ValueError.
Proof. exact then_shape_mismatch_rejected. Qed.
Print Assumptions shape_mismatch_then_rejected.

Theorem shape_mismatch_cond_rejected : forall c t f sh,
  has_kind KB c && has_kind KI t && has_kind KI f = true ->
  first_shape [c; t; f] = Some sh -> forallb (shape_ok sh) [c; t; f] = false ->
  fn_cond c t f = Err ValueError.
Proof. exact cond_shape_mismatch_rejected. Qed.
Print Assumptions shape_mismatch_cond_rejected.

(* aggregate helpers over any nesting of iterables, arrays and literals *)
Theorem count_true_sem : forall args e en bs,
  h_count_true args = Ok e -> denote_bools en (flatten_nest (NL args)) bs ->
  ev en e = Some (VI (count_trues bs)).
Proof. exact h_count_true_sem. Qed.
Print Assumptions count_true_sem.

Theorem fold_or_sem : forall args e en bs,
  h_fold_or args = Ok e -> denote_bools en (flatten_nest (NL args)) bs ->
  ev en e = Some (VB (existsb (fun b => b) bs)).
Proof. exact h_fold_or_sem. Qed.
Print Assumptions fold_or_sem.

Theorem fold_and_sem : forall args e en bs,
  h_fold_and args = Ok e -> denote_bools en (flatten_nest (NL args)) bs ->
  ev en e = Some (VB (forallb (fun b => b) bs)).
Proof. exact h_fold_and_sem. Qed.
Print Assumptions fold_and_sem.

Theorem alldifferent_sem : forall args e en zs,
  h_alldifferent args = Ok e -> denote_ints en (flatten_nest (NL args)) zs ->
  exists b, ev en e = Some (VB b) /\ (b = true <-> NoDup zs).
Proof. exact h_alldifferent_sem. Qed.
Print Assumptions alldifferent_sem.

Theorem count_true_defined_iff : forall args,
  (exists e, h_count_true args = Ok e) <-> forallb bool_item (flatten_nest (NL args)) = true.
Proof. exact h_count_true_ok_iff. Qed.
Print Assumptions count_true_defined_iff.

Theorem conv2d_windowed : forall h w data kh kw o,
  0 <= h -> 0 <= w -> zlen data = h * w -> 1 <= kh -> 1 <= kw -> o <> ConvOther ->
  let rh := Z.max 0 (h - kh + 1) in
  let rw := Z.max 0 (w - kw + 1) in
  exists r, conv2d h w data kh kw o = Ok (VA KB (S2 rh rw) r) /\ zlen r = rh * rw /\
    forall y x, 0 <= y < rh -> 0 <= x < rw ->
      exists e, nth_error r (Z.to_nat (y * rw + x)) = Some e /\
        forall en,
          (forall dy dx, 0 <= dy < kh -> 0 <= dx < kw ->
             exists b, cell_value en w data (y + dy) (x + dx) = Some (VB b)) ->
          exists b, ev en e = Some (VB b) /\
            (b = true <->
             match o with
             | ConvAnd => forall dy dx, 0 <= dy < kh -> 0 <= dx < kw ->
                            cell_value en w data (y + dy) (x + dx) = Some (VB true)
             | _ => exists dy dx, 0 <= dy < kh /\ 0 <= dx < kw /\
                            cell_value en w data (y + dy) (x + dx) = Some (VB true)
             end).
Proof. exact conv2d_sem. Qed.
Print Assumptions conv2d_windowed.

Theorem four_neighbor_indices_orthogonal : forall h w a y x,
  fn_parse a = Ok (y, x) -> 0 <= y < h -> 0 <= x < w ->
  exists l, four_neighbor_indices h w a = Ok l /\ NoDup l /\
    forall y' x', In (y', x') l <-> orth_neighbour h w y x y' x'.
Proof. exact four_neighbor_indices_sem. Qed.
Print Assumptions four_neighbor_indices_orthogonal.

Theorem four_neighbors_cells : forall k h w data a y x,
  fn_parse a = Ok (y, x) -> zlen data = h * w -> 0 <= y < h -> 0 <= x < w ->
  exists idx l, four_neighbor_indices h w a = Ok idx /\
    four_neighbors k h w data a = Ok (VA k (S1 (zlen l)) l) /\
    Forall2 (fun p e => nth_error data (Z.to_nat (fst p * w + snd p)) = Some e) idx l.
Proof. exact four_neighbors_sem. Qed.
Print Assumptions four_neighbors_cells.

(* the aggregate methods of the array classes: a.fold_or(), a.fold_and(), a.count_true(), a.alldifferent() *)
Theorem array_fold_or_method_sem : forall k sh d en bs,
  k = KB -> denote_bools en d bs ->
  exists e, call_method (VA k sh d) m_fold_or [] = Ok (VE e) /\
            ev en e = Some (VB (existsb (fun b => b) bs)).
Proof. exact array_fold_or_sem. Qed.
Print Assumptions array_fold_or_method_sem.

Theorem array_fold_and_method_sem : forall k sh d en bs,
  k = KB -> denote_bools en d bs ->
  exists e, call_method (VA k sh d) m_fold_and [] = Ok (VE e) /\
            ev en e = Some (VB (forallb (fun b => b) bs)).
Proof. exact array_fold_and_sem. Qed.
Print Assumptions array_fold_and_method_sem.

Theorem array_count_true_method_sem : forall sh d en bs e,
  call_method (VA KB sh d) m_count_true [] = Ok (VE e) -> denote_bools en d bs ->
  ev en e = Some (VI (count_trues bs)).
Proof. exact array_count_true_sem. Qed.
Print Assumptions array_count_true_method_sem.

Theorem array_alldifferent_method_sem : forall sh d en zs,
  denote_ints en d zs ->
  exists e b, call_method (VA KI sh d) m_alldifferent [] = Ok (VE e) /\
              ev en e = Some (VB b) /\ (b = true <-> NoDup zs).
Proof. exact array_alldifferent_sem. Qed.
Print Assumptions array_alldifferent_method_sem.

Theorem literal_operand_is_constant : forall en,
  (forall b, ev en (PyBool b) = ev en (BNode BOOL_CONSTANT [PyBool b])) /\
  (forall z, ev en (PyInt z) = ev en (INode INT_CONSTANT [PyInt z])).
Proof. exact literal_is_constant. Qed.
Print Assumptions literal_operand_is_constant.
