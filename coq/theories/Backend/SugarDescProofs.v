(* C03, description side: the whole text handed to the solver, read the way
   CspuzSugarInterface.loadProblem reads it, declares exactly the variables,
   names exactly the keys and carries exactly the posted constraints. *)
From Coq Require Import ZArith List Bool String Ascii Lia.
From Cspuz Require Import Lib.PyErr Core.Expr Core.Program Backend.SugarText Backend.SugarTextProofs
  Gen.SugarOps Backend.Sugar Backend.SugarReply Backend.SugarLexProofs Backend.SugarSpec Backend.SugarPrintProofs.
Import ListNotations.
Open Scope string_scope.

(* ---- generic facts ---- *)
Lemma join_all_chars P sep parts :
  all_chars P sep = true -> Forall (fun p => all_chars P p = true) parts -> all_chars P (join sep parts) = true.
Proof.
  intros Hs; induction 1 as [|p r Hp Hr IH]; [reflexivity|]. simpl. destruct r; [assumption|].
  rewrite !all_chars_app, Hp, Hs. exact IH.
Qed.

Lemma printc_no_nl s : all_chars printc s = true -> no_char ch_nl s = true.
Proof.
  apply all_chars_impl. intros c H. rewrite (printc_not_nl c H). reflexivity.
Qed.
Lemma printc_no_hash s : all_chars printc s = true -> starts_hash s = false.
Proof.
  destruct s; simpl; [reflexivity|]. rewrite andb_true_iff; intros [H _]. apply printc_not_hash; assumption.
Qed.

Lemma split_join c l :
  l <> [] -> Forall (fun x => no_char c x = true) l -> split_on c (join (String c "") l) = l.
Proof.
  intros Hne H; induction H; [congruence|].
  simpl. destruct l as [|y r].
  - apply split_on_none; assumption.
  - simpl append. rewrite split_on_app by assumption.
    f_equal. apply IHForall. discriminate.
Qed.

(* ---- declarations ---- *)
Definition decl_sx (v : bvar) : sexp :=
  match v with
  | VBool _ => SList [SAtom "bool"; SAtom (var_name v)]
  | VInt _ lo hi => SList [SAtom "int"; SAtom (var_name v); SAtom (pz lo); SAtom (pz hi)]
  end.

Lemma var_name_atom v : is_atom (var_name v).
Proof. destruct v; simpl; [apply (name_atom "b") | apply (name_atom "i")]; reflexivity. Qed.
Lemma var_name_tokc v : all_chars tokc (var_name v) = true.
Proof. destruct v; simpl; apply pz_tokc. Qed.

Lemma print_var_text v :
  print_var v = match v with
                | VBool _ => node_text "bool" [var_name v]
                | VInt _ lo hi => node_text "int" [var_name v; pz lo; pz hi]
                end.
Proof.
  destruct v; unfold print_var, node_text, var_name; simpl; rewrite ?app_assoc_s; simpl; try reflexivity.
  rewrite ?app_assoc_s. reflexivity.
Qed.

Lemma var_reads v : reads_as (print_var v) (decl_sx v).
Proof.
  rewrite print_var_text. destruct v; simpl decl_sx.
  - apply reads_node; [split; [reflexivity|discriminate]|].
    repeat constructor. apply reads_atom, (var_name_atom (VBool id)).
  - apply reads_node; [split; [reflexivity|discriminate]|].
    repeat constructor; apply reads_atom; try apply pz_atom. apply (var_name_atom (VInt id lo hi)).
Qed.

Lemma tok_printc s : all_chars tokc s = true -> all_chars printc s = true.
Proof. apply all_chars_impl, tokc_printc. Qed.

Lemma var_printc v : all_chars printc (print_var v) = true.
Proof.
  rewrite print_var_text. destruct v; apply node_text_printc; try reflexivity;
    repeat constructor; apply tok_printc; try apply pz_tokc.
Qed.

Lemma decl_of_decl_sx v : decl_of_sexp (decl_sx v) = Some (sdecl_of v).
Proof. destruct v; simpl; [reflexivity|]. rewrite !int_atom_pz. reflexivity. Qed.
Lemma is_decl_decl_sx v : is_decl (decl_sx v) = true.
Proof. destruct v; reflexivity. Qed.
Lemma is_decl_cshape x : cshape x = true -> is_decl x = false.
Proof.
  destruct x as [a|[|[k|?] r]]; simpl; try discriminate; try reflexivity.
  rewrite andb_true_iff, !negb_true_iff. intros [-> ->]. reflexivity.
Qed.

Lemma decl_names_constraints kind xs :
  (kind = "int" \/ kind = "bool") -> Forall (fun x => cshape x = true) xs -> decl_names kind xs = Some [].
Proof.
  intros Hk; induction 1 as [|x r Hx _ IH]; [reflexivity|].
  destruct x as [a|[|[k|?] rest]]; simpl in *; try discriminate; try exact IH.
  apply andb_true_iff in Hx as [H1 H2]. apply negb_true_iff in H1, H2.
  destruct Hk as [-> | ->]; [rewrite H1 | rewrite H2]; exact IH.
Qed.

Lemma decl_names_int vs xs :
  Forall (fun x => cshape x = true) xs -> decl_names "int" (map decl_sx vs ++ xs) = Some (int_names vs).
Proof.
  intros Hx; induction vs as [|v r IH]; simpl.
  - apply decl_names_constraints; auto.
  - destruct v; simpl; unfold int_names in *; simpl; rewrite IH; reflexivity.
Qed.
Lemma decl_names_bool vs xs :
  Forall (fun x => cshape x = true) xs -> decl_names "bool" (map decl_sx vs ++ xs) = Some (bool_names vs).
Proof.
  intros Hx; induction vs as [|v r IH]; simpl.
  - apply decl_names_constraints; auto.
  - destruct v; simpl; unfold bool_names in *; simpl; rewrite IH; reflexivity.
Qed.

Lemma filter_decls vs xs :
  Forall (fun x => cshape x = true) xs -> filter is_decl (map decl_sx vs ++ xs) = map decl_sx vs.
Proof.
  intros Hx; induction vs as [|v r IH]; simpl.
  - induction Hx as [|x l Hc _ IHx]; [reflexivity|]. simpl. rewrite (is_decl_cshape _ Hc). exact IHx.
  - rewrite is_decl_decl_sx, IH. reflexivity.
Qed.
Lemma filter_constraints vs xs :
  Forall (fun x => cshape x = true) xs -> filter (fun x => negb (is_decl x)) (map decl_sx vs ++ xs) = xs.
Proof.
  intros Hx; induction vs as [|v r IH]; simpl.
  - induction Hx as [|x l Hc _ IHx]; [reflexivity|]. simpl. rewrite (is_decl_cshape _ Hc). simpl. rewrite IHx. reflexivity.
  - rewrite is_decl_decl_sx. simpl. exact IH.
Qed.

(* ---- the key line ---- *)
Lemma skipn_nth {A} (l : list A) i k : nth_error l i = Some k -> skipn i l = k :: skipn (S i) l.
Proof.
  revert i; induction l as [|a l IH]; intros [|i]; simpl; try discriminate.
  - intros [= ->]. reflexivity.
  - intros H. rewrite (IH _ H). reflexivity.
Qed.

Lemma key_names_from_spec vs : forall i ks names,
  key_names_from vs i ks = Ok names -> names = names_of_keys vs (skipn i ks).
Proof.
  induction vs as [|v r IH]; intros i ks names; simpl.
  - intros [= <-]. reflexivity.
  - destruct (nth_error ks i) as [k|] eqn:E; [|discriminate].
    rewrite (skipn_nth _ _ _ E).
    destruct (key_names_from r (S i) ks) as [rest|] eqn:Er; simpl; [|discriminate].
    intros [= <-]. rewrite (IH _ _ _ Er). destruct k; reflexivity.
Qed.
Lemma key_names_spec vs ks names : key_names vs ks = Ok names -> names = names_of_keys vs ks.
Proof. apply key_names_from_spec. Qed.

Lemma key_names_from_total vs : forall i ks,
  (List.length vs + i <= List.length ks)%nat -> exists names, key_names_from vs i ks = Ok names.
Proof.
  induction vs as [|v r IH]; intros i ks H; simpl.
  - eauto.
  - simpl in H. destruct (nth_error ks i) as [k|] eqn:E.
    + destruct (IH (S i) ks) as [rest Hr]; [lia|]. rewrite Hr. simpl. eauto.
    + apply nth_error_None in E. lia.
Qed.

Lemma names_of_keys_tokc vs ks : Forall (fun n => all_chars tokc n = true) (names_of_keys vs ks).
Proof.
  revert ks; induction vs as [|v r IH]; intros [|k ks]; simpl; try constructor.
  destruct k; [constructor; [apply var_name_tokc | apply IH] | apply IH].
Qed.

(* what loadProblem makes of the key line: "".split(" ") is [""] *)
Definition key_list (names : list string) : list string :=
  match names with [] => [""] | _ => names end.

Lemma tokc_no_sp s : all_chars tokc s = true -> no_char ch_sp s = true.
Proof.
  apply all_chars_impl. intros c H.
  destruct (Ascii.eqb_spec c ch_sp); [subst; discriminate | reflexivity].
Qed.

Lemma key_line_split names :
  Forall (fun n => all_chars tokc n = true) names ->
  split_on ch_sp (drop 1 (key_line names)) = key_list names.
Proof.
  intros H. unfold key_line. simpl drop. destruct names as [|n r]; [reflexivity|].
  unfold key_list. apply (split_join ch_sp); [discriminate|].
  revert H. apply Forall_impl. intros a. apply tokc_no_sp.
Qed.

Lemma key_line_no_nl names :
  Forall (fun n => all_chars tokc n = true) names -> no_char ch_nl (key_line names) = true.
Proof.
  intros H. unfold key_line, no_char. simpl.
  apply join_all_chars; [reflexivity|].
  revert H. apply Forall_impl. intros a Ha. apply printc_no_nl, tok_printc, Ha.
Qed.

(* ---- loadProblem on the lines ---- *)
Lemma last_key_skip body rest acc :
  Forall (fun l => starts_hash l = false) body -> last_key_line (body ++ rest) acc = last_key_line rest acc.
Proof. induction 1 as [|l r Hl _ IH]; simpl; [reflexivity|]. rewrite Hl. exact IH. Qed.
Lemma filter_body body :
  Forall (fun l => starts_hash l = false) body -> filter (fun l => negb (starts_hash l)) body = body.
Proof. induction 1 as [|l r Hl _ IH]; simpl; [reflexivity|]. rewrite Hl. simpl. rewrite IH. reflexivity. Qed.

Section Desc.
  Variable gsem : op -> list (option value) -> option bool.

  (* the constraint lines: each is read as one constraint-shaped expression with the meaning of its tree *)
  Lemma constraint_lines_read cs :
    Forall (fun c => wts true c = true) cs ->
    exists cl xs, constraint_lines cs = Ok cl /\ Forall2 reads_as cl xs /\
      Forall (fun l => all_chars printc l = true) cl /\ Forall (fun x => cshape x = true) xs /\
      forall en, map (sugar_sem gsem (name_env en)) xs = map (eval gsem en) cs.
  Proof.
    unfold constraint_lines. induction 1 as [|c r Hc _ [cl [xs [Hm [Hf [Hp [Hs Hv]]]]]]].
    - exists [], []. repeat split; constructor.
    - destruct (print_denotes_gen gsem c (okarg_t c Hc)) as [s [x [Hpr [Hr [Hpc [Hsh Hsem]]]]]].
      exists (s :: cl), (x :: xs). simpl. rewrite Hpr, Hm. simpl. repeat split; try (constructor; assumption).
      intros en. rewrite Hsem, Hv. reflexivity.
  Qed.

  Lemma var_lines_read vs : Forall2 reads_as (var_lines vs) (map decl_sx vs).
  Proof. induction vs; simpl; constructor; [apply var_reads | assumption]. Qed.
  Lemma var_lines_printc vs : Forall (fun l => all_chars printc l = true) (var_lines vs).
  Proof. induction vs; simpl; constructor; [apply var_printc | assumption]. Qed.

  Lemma load_body body xs keyl :
    Forall2 reads_as body xs -> Forall (fun l => all_chars printc l = true) body ->
    (forall l, keyl = Some l -> starts_hash l = true /\ no_char ch_nl l = true) ->
    java_load (join s_nl (body ++ match keyl with Some l => [l] | None => [] end))
    = match decl_names "int" xs, decl_names "bool" xs with
      | Some is, Some bs =>
          Some {| j_problem := xs; j_ints := is; j_bools := bs;
                  j_keys := option_map (fun l => split_on ch_sp (drop 1 l)) keyl |}
      | _, _ => None
      end.
  Proof.
    intros Hr Hp Hk.
    assert (Hnh : Forall (fun l => starts_hash l = false) body).
    { revert Hp. apply Forall_impl. intros a. apply printc_no_hash. }
    assert (Hnl : Forall (fun l => no_char ch_nl l = true) body).
    { revert Hp. apply Forall_impl. intros a. apply printc_no_nl. }
    unfold java_load.
    set (lines := (body ++ match keyl with Some l => [l] | None => [] end)%list).
    assert (Hlines : java_load_lines (split_on ch_nl (join s_nl lines)) = java_load_lines lines).
    { destruct lines as [|l0 lr] eqn:El; [reflexivity|].
      rewrite (split_join ch_nl); [reflexivity|discriminate|].
      rewrite <- El. unfold lines. apply Forall_app. split; [assumption|].
      destruct keyl as [l|]; constructor; [apply (Hk l eq_refl) | constructor]. }
    rewrite Hlines. unfold java_load_lines, lines.
    assert (Hfil : filter (fun l => negb (starts_hash l)) (body ++ match keyl with Some l => [l] | None => [] end) = body).
    { rewrite filter_app, (filter_body _ Hnh). destruct keyl as [l|]; simpl; [|apply app_nil_r].
      destruct (Hk l eq_refl) as [-> _]. simpl. apply app_nil_r. }
    rewrite Hfil, (reads_file _ _ Hr).
    rewrite (last_key_skip _ _ _ Hnh).
    destruct keyl as [l|]; simpl; [destruct (Hk l eq_refl) as [-> _]|]; reflexivity.
  Qed.

  Theorem description_faithful vs cs mode text :
    Forall (fun c => wts true c = true) cs ->
    description vs cs mode = Ok text ->
    exists jp, java_load text = Some jp /\
      sugar_decls (j_problem jp) = map (fun v => Some (sdecl_of v)) vs /\
      j_ints jp = int_names vs /\ j_bools jp = bool_names vs /\
      j_keys jp = option_map (fun ks => key_list (names_of_keys vs ks)) mode /\
      forall en, map (sugar_sem gsem (name_env en)) (sugar_constraints (j_problem jp)) = map (eval gsem en) cs.
  Proof.
    intros Hcs Hd.
    destruct (constraint_lines_read cs Hcs) as [cl [xs [Hm [Hf [Hp [Hs Hv]]]]]].
    unfold description in Hd. rewrite Hm in Hd. simpl in Hd.
    assert (Hbody : Forall2 reads_as (var_lines vs ++ cl) (map decl_sx vs ++ xs)).
    { apply Forall2_app; [apply var_lines_read | assumption]. }
    assert (Hbp : Forall (fun l => all_chars printc l = true) (var_lines vs ++ cl)).
    { apply Forall_app; split; [apply var_lines_printc | assumption]. }
    set (jp keyl := {| j_problem := (map decl_sx vs ++ xs)%list; j_ints := int_names vs; j_bools := bool_names vs;
                       j_keys := keyl |}).
    assert (Hrest : forall keyl,
      sugar_decls (j_problem (jp keyl)) = map (fun v => Some (sdecl_of v)) vs /\
      j_ints (jp keyl) = int_names vs /\ j_bools (jp keyl) = bool_names vs /\
      forall en, map (sugar_sem gsem (name_env en)) (sugar_constraints (j_problem (jp keyl))) = map (eval gsem en) cs).
    { intros keyl. simpl. unfold sugar_decls, sugar_constraints.
      rewrite (filter_decls _ _ Hs), (filter_constraints _ _ Hs), map_map.
      repeat split; auto. apply map_ext. intros v. apply decl_of_decl_sx. }
    destruct mode as [ks|].
    - destruct (key_names vs ks) as [names|] eqn:Ek; simpl in Hd; [|discriminate].
      injection Hd as <-. pose proof (key_names_spec _ _ _ Ek) as ->.
      pose proof (names_of_keys_tokc vs ks) as Htk.
      rewrite app_assoc.
      rewrite (load_body _ _ (Some (key_line (names_of_keys vs ks))) Hbody Hbp).
      + rewrite (decl_names_int _ _ Hs), (decl_names_bool _ _ Hs). simpl option_map.
        replace (split_on ch_sp (join " " (names_of_keys vs ks))) with (key_list (names_of_keys vs ks))
          by (symmetry; exact (key_line_split _ Htk)).
        exists (jp (Some (key_list (names_of_keys vs ks)))). split; [reflexivity|].
        destruct (Hrest (Some (key_list (names_of_keys vs ks)))) as [H1 [H2 [H3 H4]]]. repeat split; auto.
      + intros l [= <-]. split; [reflexivity | apply key_line_no_nl; assumption].
    - injection Hd as <-.
      pose proof (load_body _ _ None Hbody Hbp) as Hl. simpl in Hl. rewrite app_nil_r in Hl.
      rewrite Hl by (intros l; discriminate).
      rewrite (decl_names_int _ _ Hs), (decl_names_bool _ _ Hs). simpl option_map.
      exists (jp None). split; [reflexivity|].
      destruct (Hrest None) as [H1 [H2 [H3 H4]]]. repeat split; auto.
  Qed.

  Theorem description_total vs cs mode :
    Forall (fun c => wts true c = true) cs ->
    (forall ks, mode = Some ks -> (List.length vs <= List.length ks)%nat) ->
    exists text, description vs cs mode = Ok text.
  Proof.
    intros Hcs Hk. destruct (constraint_lines_read cs Hcs) as [cl [xs [Hm _]]].
    unfold description. rewrite Hm. simpl. destruct mode as [ks|]; [|eauto].
    destruct (key_names_from_total vs 0 ks) as [names Hn]; [specialize (Hk ks eq_refl); lia|].
    unfold key_names. rewrite Hn. simpl. eauto.
  Qed.

  (* every character handed to run_subprocess's .encode("ascii") is ASCII *)
  Theorem description_ascii vs cs mode text :
    Forall (fun c => wts true c = true) cs -> description vs cs mode = Ok text ->
    all_chars (fun c => Nat.ltb (nat_of_ascii c) 128) text = true.
  Proof.
    intros Hcs Hd.
    destruct (constraint_lines_read cs Hcs) as [cl [xs [Hm [_ [Hp _]]]]].
    unfold description in Hd. rewrite Hm in Hd. simpl in Hd.
    set (P := fun c => Nat.ltb (nat_of_ascii c) 128).
    assert (Himp : forall s, all_chars printc s = true -> all_chars P s = true).
    { intros s. apply all_chars_impl. intros c. unfold P. by_char c. }
    assert (Hbody : Forall (fun l => all_chars P l = true) (var_lines vs ++ cl)).
    { apply Forall_app; split; [generalize (var_lines_printc vs) | generalize Hp];
        apply Forall_impl; intros a; apply Himp. }
    destruct mode as [ks|].
    - destruct (key_names vs ks) as [names|] eqn:Ek; simpl in Hd; [|discriminate].
      injection Hd as <-. pose proof (key_names_spec _ _ _ Ek) as ->.
      apply join_all_chars; [reflexivity|]. rewrite app_assoc. apply Forall_app; split; [assumption|].
      constructor; [|constructor]. unfold key_line. simpl. apply join_all_chars; [reflexivity|].
      generalize (names_of_keys_tokc vs ks). apply Forall_impl. intros a Ha. apply Himp, tok_printc, Ha.
    - injection Hd as <-. apply join_all_chars; [reflexivity | assumption].
  Qed.
End Desc.
