(* C07, level S, soundness of the size bookkeeping: in any certificate the
   downstream size of a vertex is the size of its subtree, so the total size
   of a vertex is the size of its class of equal ids. *)
From Coq Require Import ZArith List Bool Arith Lia.
From Cspuz Require Import Core.Expr Graph.GraphModel Graph.ReachProofs Graph.VarGroups
  Graph.VarGroupsSound Graph.VarGroupsComplete Graph.VarGroupsForest.
Import ListNotations.
Open Scope nat_scope.

Lemma find_filter {A} (p : A -> bool) (l : list A) :
  find p l = match filter p l with [] => None | x :: _ => Some x end.
Proof. induction l as [|a l IH]; simpl; [reflexivity|]. destruct (p a); [reflexivity|exact IH]. Qed.

Section SizedSound.
  Variable g : graph.
  Variable c : vg_cert.
  Variables down total : nat -> Z.
  Variable sizes : nat -> option Z.
  Variable pv : bool.
  Hypothesis Hwf : wf_graph g = true.
  Hypothesis Hmain : cert_main g c = true.
  Hypothesis Hrange : cert_ranges g c = true.
  Hypothesis Hsz : cert_sizes g c down total sizes pv = true.
  Let n := nv g.
  (* per-vertex sizes (total size propagated along tree edges), or one common size *)
  Hypothesis Hpv : pv = true \/ exists s0, forall i, i < n -> sizes i = Some s0.

  Definition qual (v : nat) : nat * nat -> bool :=
    fun '(j, e) => c_act c e && (c_rank c j <? c_rank c v)%Z.
  Definition parc (v : nat) : option (nat * nat) := find (qual v) (incident g v).

  Lemma parc_some v p e :
    parc v = Some (p, e) -> In (p, e) (incident g v) /\ (0 <= c_rank c p < c_rank c v)%Z.
  Proof.
    unfold parc. intros H. apply find_some in H. destruct H as [H1 H2]. simpl in H2.
    apply andb_true_iff in H2. destruct H2 as [_ H2]. apply Z.ltb_lt in H2.
    split; [exact H1|]. destruct (incident_lt g Hwf v p e H1) as [_ Hp].
    pose proof (cm_rank_nonneg g c Hrange p Hp). lia.
  Qed.

  Lemma parc_act v p e : parc v = Some (p, e) -> c_act c e = true.
  Proof.
    unfold parc. intros H. apply find_some in H. destruct H as [_ H2]. simpl in H2.
    apply andb_true_iff in H2. tauto.
  Qed.

  (* the unique active entry towards a smaller rank *)
  Lemma parc_unique i j e :
    In (j, e) (incident g i) -> c_act c e = true -> (c_rank c j < c_rank c i)%Z -> parc i = Some (j, e).
  Proof.
    intros Hin Ha Hlt. destruct (incident_lt g Hwf i j e Hin) as [Hi _].
    pose proof (cm_vertex g c Hmain i Hi) as Hv. unfold cert_vertex in Hv.
    apply andb_true_iff in Hv. destruct Hv as [_ Hv]. apply Z.eqb_eq in Hv.
    assert (Hq : In (j, e) (filter (qual i) (incident g i))).
    { apply filter_In. split; [exact Hin|]. simpl. rewrite Ha. simpl. apply Z.ltb_lt; exact Hlt. }
    unfold parc. rewrite find_filter. unfold bcount in Hv. fold (qual i) in Hv.
    destruct (filter (qual i) (incident g i)) as [|x [|y r]]; [destruct Hq| |].
    - destruct Hq as [->|[]]. reflexivity.
    - exfalso. destruct (c_root c i); unfold zn in Hv; simpl length in Hv; lia.
  Qed.

  Lemma parc_entry i j e :
    In (j, e) (incident g i) -> c_act c e = true -> parc i = Some (j, e) \/ parc j = Some (i, e).
  Proof.
    intros Hin Ha. destruct (incident_lt g Hwf i j e Hin) as [Hi _].
    pose proof (cm_vertex g c Hmain i Hi) as Hv. unfold cert_vertex in Hv.
    apply andb_true_iff in Hv. destruct Hv as [Hv _]. apply andb_true_iff in Hv. destruct Hv as [_ Hv].
    rewrite forallb_forall in Hv. specialize (Hv (j, e) Hin). simpl in Hv. rewrite Ha in Hv. simpl in Hv.
    apply negb_true_iff in Hv. apply Z.eqb_neq in Hv.
    destruct (Z.lt_ge_cases (c_rank c j) (c_rank c i)) as [H|H].
    - left. apply parc_unique; assumption.
    - right. apply parc_unique; [apply incident_sym; exact Hin|exact Ha|lia].
  Qed.

  Lemma parc_exists v : v < n -> c_root c v = false -> exists p e, parc v = Some (p, e).
  Proof.
    intros Hv Hr. destruct (cm_parent g c Hmain v Hv Hr) as [j [e [Hin [Ha Hlt]]]].
    exists j, e. apply parc_unique; assumption.
  Qed.

  Notation rankc := (c_rank c).
  Notation ancc := (anc rankc parc).
  Notation cntc := (cnt g rankc parc).

  (* the pieces of cert_sizes *)
  Lemma cs_root i : i < n -> c_root c i = true -> down i = total i.
  Proof.
    intros Hi Hr. unfold cert_sizes in Hsz. apply andb_true_iff in Hsz. destruct Hsz as [H _].
    apply andb_true_iff in H. destruct H as [H _]. apply andb_true_iff in H. destruct H as [_ H].
    rewrite forallb_forall in H. specialize (H i). rewrite Hr in H. simpl in H.
    apply Z.eqb_eq. apply H. apply in_seq. unfold n in Hi; lia.
  Qed.

  Lemma cs_rec i : i < n -> down i = (down_sum g c down i + 1)%Z.
  Proof.
    intros Hi. unfold cert_sizes in Hsz. apply andb_true_iff in Hsz. destruct Hsz as [H _].
    apply andb_true_iff in H. destruct H as [_ H].
    rewrite forallb_forall in H. specialize (H i). apply Z.eqb_eq.
    assert (Hin : In i (seq 0 (nv g))) by (apply in_seq; unfold n in Hi; lia).
    specialize (H Hin). apply andb_true_iff in H. tauto.
  Qed.

  Lemma cs_size i s : i < n -> sizes i = Some s -> total i = s.
  Proof.
    intros Hi Hs. unfold cert_sizes in Hsz. apply andb_true_iff in Hsz. destruct Hsz as [H _].
    apply andb_true_iff in H. destruct H as [_ H].
    rewrite forallb_forall in H. specialize (H i).
    assert (Hin : In i (seq 0 (nv g))) by (apply in_seq; unfold n in Hi; lia).
    specialize (H Hin). apply andb_true_iff in H. destruct H as [_ H]. rewrite Hs in H.
    apply Z.eqb_eq; exact H.
  Qed.

  Lemma cs_edge k u v :
    pv = true -> nth_error (edges g) k = Some (u, v) -> c_act c k = true -> total u = total v.
  Proof.
    intros Hp Hk Ha. unfold cert_sizes in Hsz. rewrite Hp in Hsz. apply andb_true_iff in Hsz. destruct Hsz as [_ H].
    simpl in H. rewrite forallb_forall in H. specialize (H (k, (u, v))).
    assert (Hin : In (k, (u, v)) (combine (seq 0 (length (edges g))) (edges g))) by (apply in_combine_seq; exact Hk).
    specialize (H Hin). simpl in H. rewrite Ha in H. simpl in H. apply Z.eqb_eq; exact H.
  Qed.

  Lemma rank_lt_n i : i < n -> (0 <= c_rank c i <= zn n - 1)%Z.
  Proof.
    intros Hi. unfold cert_ranges in Hrange. apply andb_true_iff in Hrange. destruct Hrange as [_ H].
    unfold in_range in H. rewrite forallb_forall in H. specialize (H i).
    assert (Hin : In i (seq 0 (nv g))) by (apply in_seq; unfold n in Hi; lia).
    specialize (H Hin). apply andb_true_iff in H. destruct H as [H1 H2].
    apply Z.leb_le in H1. apply Z.leb_le in H2. unfold n. lia.
  Qed.

  (* downstream sizes are subtree sizes *)
  Lemma down_is_cnt : forall d i, i < n -> Z.to_nat (zn n - c_rank c i) <= d -> down i = cntc i.
  Proof.
    induction d as [|d IH]; intros i Hi Hd.
    - pose proof (rank_lt_n i Hi). lia.
    - rewrite (cs_rec i Hi).
      rewrite (cnt_recurrence g rankc (c_act c) parc parc_some parc_entry parc_act i Hi).
      f_equal. unfold down_sum, zsum. f_equal. apply map_ext_in. intros [j e] Hin.
      unfold child. simpl. destruct (c_act c e && (c_rank c i <? c_rank c j)%Z) eqn:Hq; [|reflexivity].
      apply andb_true_iff in Hq. destruct Hq as [_ Hq]. apply Z.ltb_lt in Hq.
      destruct (incident_lt g Hwf i j e Hin) as [_ Hj].
      apply IH; [exact Hj|]. pose proof (rank_lt_n i Hi). pose proof (rank_lt_n j Hj). lia.
  Qed.

  Lemma anc_gid i v : ancc i v = true -> c_gid c i = c_gid c v.
  Proof.
    apply (anc_preserved g rankc parc parc_some (fun i v => c_gid c i = c_gid c v)) with (f := rkn rankc v);
      [reflexivity| |lia].
    intros v0 p e w Hp Hw. destruct (parc_some v0 p e Hp) as [Hin _].
    rewrite Hw. apply (incident_gid_eq g c Hmain v0 p e Hin (parc_act v0 p e Hp)).
  Qed.

  Lemma anc_total i v : pv = true -> ancc i v = true -> total i = total v.
  Proof.
    intros Hpt. apply (anc_preserved g rankc parc parc_some (fun i v => total i = total v)) with (f := rkn rankc v);
      [reflexivity| |lia].
    intros v0 p e w Hp Hw. destruct (parc_some v0 p e Hp) as [Hin _].
    rewrite Hw. pose proof (parc_act v0 p e Hp) as Ha.
    apply incident_spec in Hin. destruct Hin as [H|H].
    - symmetry. eapply cs_edge; eassumption.
    - eapply cs_edge; eassumption.
  Qed.

  Lemma total_root r v s : r < n -> v < n -> ancc r v = true -> sizes v = Some s -> total r = s.
  Proof.
    intros Hr Hv Ha Hs. destruct Hpv as [Hp|[s0 H0]].
    - rewrite (anc_total r v Hp Ha). apply cs_size; assumption.
    - rewrite (H0 v Hv) in Hs. inversion Hs; subst. apply cs_size; [exact Hr|apply H0; exact Hr].
  Qed.

  Lemma root_gid r : r < n -> c_root c r = true -> c_gid c r = zn r.
  Proof.
    intros Hr Hroot. pose proof (cm_vertex g c Hmain r Hr) as H. unfold cert_vertex in H.
    apply andb_true_iff in H. destruct H as [H _]. apply andb_true_iff in H. destruct H as [H _].
    rewrite Hroot in H. simpl in H. apply Z.eqb_eq; exact H.
  Qed.

  (* the root carrying the id of w is an ancestor of w *)
  Lemma root_anc r : r < n -> c_root c r = true ->
    forall f w, w < n -> rkn rankc w <= f -> c_gid c w = zn r -> ancc r w = true.
  Proof.
    intros Hr Hroot. induction f as [|f IH]; intros w Hw Hf Hg.
    - assert (Hrw : c_root c w = true).
      { rewrite (cm_rootrank g c Hmain w Hw). apply Z.eqb_eq.
        pose proof (cm_rank_nonneg g c Hrange w Hw). unfold rkn in Hf. lia. }
      pose proof (root_gid w Hw Hrw) as H. rewrite Hg in H. unfold zn in H. apply Nat2Z.inj in H. subst w.
      apply (anc_refl g rankc parc parc_some).
    - destruct (c_root c w) eqn:Hrw.
      + pose proof (root_gid w Hw Hrw) as H. rewrite Hg in H. unfold zn in H. apply Nat2Z.inj in H. subst w.
        apply (anc_refl g rankc parc parc_some).
      + destruct (parc_exists w Hw Hrw) as [p [e Hp]].
        destruct (parc_some w p e Hp) as [Hin Hlt].
        rewrite (anc_some g rankc parc parc_some r w p e Hp). apply orb_true_iff. right.
        destruct (incident_lt g Hwf w p e Hin) as [_ Hpn].
        apply IH; [exact Hpn|unfold rkn in *; lia|].
        rewrite <- Hg. apply (incident_gid_eq g c Hmain w p e Hin (parc_act w p e Hp)).
  Qed.

  Theorem cert_sized_sound blk :
    ids_realise n (c_gid c) blk ->
    forall v s, v < n -> sizes v = Some s -> block_size n blk v = s.
  Proof.
    intros Hids v s Hv Hs.
    destruct (cert_reach_root g c Hwf Hmain Hrange _ v Hv (Nat.le_refl _)) as [r [Hr [Hroot [Hg _]]]].
    assert (Hanc : ancc r v = true) by (apply (root_anc r Hr Hroot (rkn rankc v) v Hv); [lia|exact Hg]).
    rewrite <- (total_root r v s Hr Hv Hanc Hs), <- (cs_root r Hr Hroot).
    rewrite (down_is_cnt _ r Hr (Nat.le_refl _)).
    unfold block_size, cnt. apply bcount_ext_in. intros w Hw. apply in_seq in Hw.
    assert (Hwn : w < n) by (unfold n; lia).
    rewrite <- (Hids v w Hv Hwn). rewrite Hg.
    destruct (ancc r w) eqn:Ha.
    - apply anc_gid in Ha. rewrite (root_gid r Hr Hroot) in Ha. rewrite <- Ha. apply Z.eqb_refl.
    - apply Z.eqb_neq. intros He. rewrite (root_anc r Hr Hroot (rkn rankc w) w Hwn) in Ha; [discriminate|lia|congruence].
  Qed.
End SizedSound.
