(* C07: exactness of division_connected_variable_groups for a per-vertex
   group_size sequence (None holes, ints, variables, integer expressions). *)
From Coq Require Import ZArith List Bool Arith Lia.
From Cspuz Require Import Lib.PyErr Core.Expr Core.Program Core.Build
  Graph.GraphModel Graph.ReachProofs Graph.VarGroups Graph.VarGroupsSound Graph.VarGroupsComplete
  Graph.VarGroupsEval Graph.VarGroupsMain Graph.VarGroupsExact Graph.VarGroupsLib Graph.VarGroupsSized
  Graph.VarGroupsForest Graph.VarGroupsWitness Graph.VarGroupsSizedSound.
Import ListNotations.
Open Scope nat_scope.

Local Arguments Nat.mul : simpl never.

(* the caller's group_size items, evaluated in the caller's assignment: a None
   item is a hole; any other item is an int-typed tree over variables that
   exist before the call *)
Definition sizes_eval (gsem : op -> list (option value) -> option bool) (k : nat) (en : env)
           (sizes : list expr) (sval : nat -> option Z) : Prop :=
  forall i, i < length sizes ->
    match nth i sizes PyNone with
    | PyNone => sval i = None
    | e => valid_size e = true /\ max_id e <= k /\ exists z, eval gsem en e = Some (VI z) /\ sval i = Some z
    end.

Lemma sizes_eval_valid gsem k en sizes sval :
  sizes_eval gsem k en sizes sval -> forallb valid_size sizes = true.
Proof.
  intros H. apply forallb_forall. intros e He. destruct (In_nth _ _ PyNone He) as [i [Hi Hn]].
  specialize (H i Hi). rewrite Hn in H. destruct e; try reflexivity; destruct H as [H _]; exact H.
Qed.

Lemma sizes_eval_agree gsem k en en' sizes sval :
  agree_below k en en' -> sizes_eval gsem k en sizes sval ->
  forall i, i < length sizes ->
    match nth i sizes PyNone with
    | PyNone => sval i = None
    | e => valid_size e = true /\ exists z, eval gsem en' e = Some (VI z) /\ sval i = Some z
    end.
Proof.
  intros Hag H i Hi. specialize (H i Hi).
  destruct (nth i sizes PyNone) as [b0|z0| |id0|id0 lo0 hi0|o0 args0|o0 args0]; try exact H;
    destruct H as [Hv [Hm [z [Hz Hs]]]]; (split; [exact Hv|]); exists z;
    (split; [|exact Hs]); rewrite <- (vg_eval_agree gsem k en en' _ Hag Hm); exact Hz.
Qed.

(* ------------------------------------------------------------------------ *)

Lemma down_sum_ext g c c' d d' i :
  wf_graph g = true ->
  (forall j, j < nv g -> c_rank c j = c_rank c' j /\ d j = d' j) ->
  (forall e, e < length (edges g) -> c_act c e = c_act c' e) ->
  i < nv g -> down_sum g c d i = down_sum g c' d' i.
Proof.
  intros Hwf Hv He Hi. unfold down_sum. f_equal. apply map_ext_in. intros [j e] Hin.
  destruct (incident_bounds g Hwf i j e Hin) as [_ [Hj Hee]].
  destruct (Hv j Hj) as [H1 H2]. destruct (Hv i Hi) as [H3 _]. rewrite H1, H2, H3, (He e Hee). reflexivity.
Qed.

Lemma cert_sizes_ext g c c' d d' t t' sz pv :
  wf_graph g = true ->
  (forall i, i < nv g -> c_rank c i = c_rank c' i /\ c_root c i = c_root c' i /\ d i = d' i /\ t i = t' i) ->
  (forall e, e < length (edges g) -> c_act c e = c_act c' e) ->
  cert_sizes g c d t sz pv = cert_sizes g c' d' t' sz pv.
Proof.
  intros Hwf Hv He. unfold cert_sizes. f_equal; [f_equal; [f_equal|]|].
  - apply forallb_ext_in. intros i Hi. apply in_seq in Hi. destruct (Hv i) as [_ [_ [H1 H2]]]; [lia|].
    rewrite H1, H2. reflexivity.
  - apply forallb_ext_in. intros i Hi. apply in_seq in Hi. destruct (Hv i) as [_ [H0 [H1 H2]]]; [lia|].
    rewrite H0, H1, H2. reflexivity.
  - apply forallb_ext_in. intros i Hi. apply in_seq in Hi. destruct (Hv i) as [_ [_ [H1 H2]]]; [lia|].
    rewrite H1, H2. rewrite (down_sum_ext g c c' d d' i Hwf); [reflexivity| |exact He|lia].
    intros j Hj. destruct (Hv j Hj) as [H3 [_ [H4 _]]]. split; assumption.
  - f_equal. apply forallb_ext_in. intros [e [u v]] Hin. apply in_combine_seq in Hin.
    pose proof (nth_error_lt _ _ _ Hin) as Hee.
    destruct (wf_graph_edge g e u v Hwf Hin) as [Hu Hv'].
    destruct (Hv u Hu) as [_ [_ [_ H1]]]. destruct (Hv v Hv') as [_ [_ [_ H2]]].
    rewrite H1, H2, (He e Hee). reflexivity.
Qed.

Lemma cert_size_ranges_ext g d d' t t' :
  (forall i, i < nv g -> d i = d' i /\ t i = t' i) ->
  cert_size_ranges g d t = cert_size_ranges g d' t'.
Proof.
  intros H. unfold cert_size_ranges, in_range. f_equal; apply forallb_ext_in; intros i Hi;
    apply in_seq in Hi; destruct (H i) as [H1 H2]; try lia; rewrite ?H1, ?H2; reflexivity.
Qed.

(* ------------------------------------------------------------------------ *)
(* from a certificate with sizes to an assignment                            *)

Definition env_of_cert2 (k : nat) (g : graph) (en : env) (c : vg_cert) (down total : nat -> Z) : env :=
  let n := nv g in let m := length (edges g) in
  {| eb := fun i => if i <? k + 2 * n then eb en i
                    else if i <? k + 3 * n then c_root c (i - (k + 2 * n))
                    else c_act c (i - (k + 3 * n));
     ei := fun i => if i <? k then ei en i
                    else if i <? k + n then c_gid c (i - k)
                    else if i <? k + 2 * n then c_rank c (i - (k + n))
                    else if i <? k + 4 * n + m then down (i - (k + 3 * n + m))
                    else total (i - (k + 4 * n + m)) |}.

Lemma env_of_cert2_agree k g en c d t : agree_below k en (env_of_cert2 k g en c d t).
Proof.
  intros i Hi. simpl. destruct (Nat.ltb_spec i (k + 2 * nv g)); [|lia].
  destruct (Nat.ltb_spec i k); [|lia]. split; reflexivity.
Qed.

Lemma env_of_cert2_back k g en c d t :
  let en' := env_of_cert2 k g en c d t in
  let c' := cert_of_env k (nv g) en' in
  (forall i, i < nv g -> c_gid c' i = c_gid c i /\ c_rank c' i = c_rank c i /\ c_root c' i = c_root c i
                         /\ down_of_env k g en' i = d i /\ total_of_env k g en' i = t i)
  /\ (forall e, c_act c' e = c_act c e).
Proof.
  simpl. unfold down_of_env, total_of_env. simpl. split.
  - intros i Hi. repeat split.
    + destruct (Nat.ltb_spec (k + i) k); [lia|]. destruct (Nat.ltb_spec (k + i) (k + nv g)); [|lia].
      f_equal. lia.
    + destruct (Nat.ltb_spec (k + nv g + i) k); [lia|].
      destruct (Nat.ltb_spec (k + nv g + i) (k + nv g)); [lia|].
      destruct (Nat.ltb_spec (k + nv g + i) (k + 2 * nv g)); [|lia]. f_equal. lia.
    + destruct (Nat.ltb_spec (k + 2 * nv g + i) (k + 2 * nv g)); [lia|].
      destruct (Nat.ltb_spec (k + 2 * nv g + i) (k + 3 * nv g)); [|lia]. f_equal. lia.
    + destruct (Nat.ltb_spec (k + 3 * nv g + length (edges g) + i) k); [lia|].
      destruct (Nat.ltb_spec (k + 3 * nv g + length (edges g) + i) (k + nv g)); [lia|].
      destruct (Nat.ltb_spec (k + 3 * nv g + length (edges g) + i) (k + 2 * nv g)); [lia|].
      destruct (Nat.ltb_spec (k + 3 * nv g + length (edges g) + i) (k + 4 * nv g + length (edges g))); [|lia].
      f_equal. lia.
    + destruct (Nat.ltb_spec (k + 4 * nv g + length (edges g) + i) k); [lia|].
      destruct (Nat.ltb_spec (k + 4 * nv g + length (edges g) + i) (k + nv g)); [lia|].
      destruct (Nat.ltb_spec (k + 4 * nv g + length (edges g) + i) (k + 2 * nv g)); [lia|].
      destruct (Nat.ltb_spec (k + 4 * nv g + length (edges g) + i) (k + 4 * nv g + length (edges g))); [lia|].
      f_equal. lia.
  - intros e. destruct (Nat.ltb_spec (k + 3 * nv g + e) (k + 2 * nv g)); [lia|].
    destruct (Nat.ltb_spec (k + 3 * nv g + e) (k + 3 * nv g)); [lia|]. f_equal. lia.
Qed.

(* ------------------------------------------------------------------------ *)
(* level S <-> level E, for any state [xst] whose new declarations are those of
   the sized route and whose new constraints are the main ones followed by
   constraints [xcons] that evaluate to cert_sizes *)

Section SizedGlue.
  Variable gsem : op -> list (option value) -> option bool.
  Variable st : state.
  Variable g : graph.
  Variable sval : nat -> option Z.
  Variable en : env.
  Variable pv : bool.
  Variable xst : state.
  Variable xcons : list expr.
  Hypothesis Hwf : wf_graph g = true.
  Hypothesis Hn : 1 <= nv g.
  Let k := next_id st.
  Hypothesis Hxb : forall en', new_in_bounds st xst en' =
    cert_ranges g (cert_of_env (next_id st) (nv g) en')
    && cert_size_ranges g (down_of_env (next_id st) g en') (total_of_env (next_id st) g en').
  Hypothesis Hxc : new_cons st xst = main_cons g (next_id st) ++ xcons.
  Hypothesis Hxe : forall en', agree_below (next_id st) en en' ->
    forallb (holds gsem en') xcons =
    cert_sizes g (cert_of_env (next_id st) (nv g) en') (down_of_env (next_id st) g en')
               (total_of_env (next_id st) g en') sval pv.
  Hypothesis Hpv : pv = true \/ exists s0, forall i, i < nv g -> sval i = Some s0.

  (* what an extension satisfying the call's constraints amounts to *)
  Lemma sized_sat_iff en' :
    agree_below k en en' ->
    (new_in_bounds st xst en' = true /\ forallb (holds gsem en') (new_cons st xst) = true)
    <->
    (cert_ranges g (cert_of_env k (nv g) en') = true /\
     cert_size_ranges g (down_of_env k g en') (total_of_env k g en') = true /\
     cert_main g (cert_of_env k (nv g) en') = true /\
     cert_sizes g (cert_of_env k (nv g) en') (down_of_env k g en') (total_of_env k g en') sval pv = true).
  Proof.
    intros Hag. rewrite Hxb, Hxc, forallb_app.
    rewrite (eval_main gsem g Hwf). rewrite (Hxe en' Hag).
    fold k. rewrite !andb_true_iff. tauto.
  Qed.

  Theorem sized_exact_main blk :
    ((exists en', extends_sat gsem st xst en en' /\
                  ids_realise (nv g) (ids_val gsem en' (main_gid st g)) blk)
     <-> realisable g blk sval).
  Proof.
    split.
    - intros [en' [[Hag [Hb Hc]] Hids]].
      destruct (proj1 (sized_sat_iff en' Hag) (conj Hb Hc)) as [Hr [_ [Hm Hs]]].
      assert (Hids' : ids_realise (nv g) (c_gid (cert_of_env k (nv g) en')) blk).
      { intros u v Hu Hv. rewrite <- !(main_gid_val gsem st g en') by assumption. apply Hids; assumption. }
      split.
      + apply (cert_sound_nosize g _ Hwf Hm Hr blk Hids').
      + apply (cert_sized_sound g _ _ _ sval pv Hwf Hm Hr Hs Hpv blk Hids').
    - intros [Hconn Hsz].
      set (c := the_cert g blk).
      set (d := w_down g blk). set (t := w_total g blk).
      set (en' := env_of_cert2 k g en c d t).
      destruct (env_of_cert2_back k g en c d t) as [Hv He]. cbv zeta in Hv, He. fold en' in Hv, He.
      assert (Hag : agree_below k en en') by apply env_of_cert2_agree.
      exists en'. split.
      + split; [exact Hag|]. apply (sized_sat_iff en' Hag). repeat split.
        * rewrite (cert_ranges_ext g _ c) by (intros i Hi; destruct (Hv i Hi) as [H1 [H2 _]]; split; assumption).
          apply the_cert_ranges; assumption.
        * rewrite (cert_size_ranges_ext g _ d _ t) by (intros i Hi; destruct (Hv i Hi) as [_ [_ [_ H]]]; exact H).
          apply the_cert_size_ranges; assumption.
        * rewrite (cert_main_ext g _ c Hwf).
          -- apply the_cert_main; assumption.
          -- intros i Hi. destruct (Hv i Hi) as [H1 [H2 [H3 _]]]. repeat split; assumption.
          -- intros e _. apply He.
        * rewrite (cert_sizes_ext g _ c _ d _ t sval pv Hwf).
          -- apply the_cert_sizes; assumption.
          -- intros i Hi. destruct (Hv i Hi) as [_ [H2 [H3 [H4 H5]]]]. repeat split; assumption.
          -- intros e _. apply He.
      + intros u v Hu Hv'. rewrite !(main_gid_val gsem st g en') by assumption.
        destruct (Hv u Hu) as [H1 _]. destruct (Hv v Hv') as [H2 _]. fold k. rewrite H1, H2.
        apply (the_cert_ids g blk); assumption.
  Qed.
End SizedGlue.

(* the two instances *)
Lemma seq_glue_eval gsem st g sizes sval en :
  wf_graph g = true -> length sizes = nv g -> sizes_eval gsem (next_id st) en sizes sval ->
  forall en', agree_below (next_id st) en en' ->
    forallb (holds gsem en') (sized_cons g (next_id st) sizes) =
    cert_sizes g (cert_of_env (next_id st) (nv g) en') (down_of_env (next_id st) g en')
               (total_of_env (next_id st) g en') sval true.
Proof.
  intros Hwf Hlen Hsv en' Hag. apply (eval_sized gsem g Hwf (next_id st) en' sizes sval).
  intros i Hi. rewrite <- Hlen in Hi. apply (sizes_eval_agree gsem (next_id st) en en' sizes sval Hag Hsv i Hi).
Qed.

Theorem vargroups_exact_sized_proved :
  forall gsem st g sizes st' ids blk en sval,
    wf_graph g = true -> 1 <= nv g -> length sizes = nv g ->
    sizes_eval gsem (next_id st) en sizes sval ->
    post_vargroups st g (G1Seq sizes) = Ok (st', ids) ->
    ((exists en', extends_sat gsem st st' en en' /\ ids_realise (nv g) (ids_val gsem en' ids) blk)
     <-> realisable g blk sval).
Proof.
  intros gsem st g sizes st' ids blk en sval Hwf Hn Hl Hsv Hp.
  rewrite post_vargroups_seq in Hp by (try assumption; eapply sizes_eval_valid; eassumption).
  inversion Hp; subst.
  apply (sized_exact_main gsem st g sval en true (sized_state st g sizes) (sized_cons g (next_id st) sizes) Hwf Hn).
  - intros en'. apply sized_state_bounds.
  - apply sized_state_new_cons.
  - apply seq_glue_eval; assumption.
  - left; reflexivity.
Qed.

(* group_size one int-like object: an int constant, an IntVar, an integer
   expression over the caller's variables, with value z in the caller's assignment *)
Theorem vargroups_exact_scalar_proved :
  forall gsem st g e z st' ids blk en,
    wf_graph g = true -> 1 <= nv g ->
    valid_scalar e = true -> max_id e <= next_id st -> eval gsem en e = Some (VI z) ->
    post_vargroups st g (G1Scalar e) = Ok (st', ids) ->
    ((exists en', extends_sat gsem st st' en en' /\ ids_realise (nv g) (ids_val gsem en' ids) blk)
     <-> realisable g blk (fun _ => Some z)).
Proof.
  intros gsem st g e z st' ids blk en Hwf Hn Hv Hm He Hp.
  rewrite post_vargroups_scalar in Hp by assumption.
  inversion Hp; subst.
  apply (sized_exact_main gsem st g (fun _ => Some z) en false (scalar_state st g e) (scalar_cons g (next_id st) e) Hwf Hn).
  - intros en'. rewrite scalar_state_bounds. apply sized_state_bounds.
  - apply scalar_state_new_cons.
  - intros en' Hag. apply eval_scalar; [exact Hwf|exact Hv|].
    rewrite <- (vg_eval_agree gsem (next_id st) en en' e Hag Hm). exact He.
  - right. exists z. reflexivity.
Qed.

(* the per-vertex instance, in the form used by VarGroupsBorders.v *)
Lemma seq_sat_iff gsem st g sizes sval en :
  wf_graph g = true -> length sizes = nv g -> sizes_eval gsem (next_id st) en sizes sval ->
  forall en', agree_below (next_id st) en en' ->
    (new_in_bounds st (sized_state st g sizes) en' = true /\
     forallb (holds gsem en') (new_cons st (sized_state st g sizes)) = true)
    <->
    (cert_ranges g (cert_of_env (next_id st) (nv g) en') = true /\
     cert_size_ranges g (down_of_env (next_id st) g en') (total_of_env (next_id st) g en') = true /\
     cert_main g (cert_of_env (next_id st) (nv g) en') = true /\
     cert_sizes g (cert_of_env (next_id st) (nv g) en') (down_of_env (next_id st) g en')
                (total_of_env (next_id st) g en') sval true = true).
Proof.
  intros Hwf Hlen Hsv.
  apply (sized_sat_iff gsem st g sval en true (sized_state st g sizes) (sized_cons g (next_id st) sizes) Hwf).
  - intros en'. apply sized_state_bounds.
  - apply sized_state_new_cons.
  - apply seq_glue_eval; assumption.
  - left; reflexivity.
Qed.

Lemma seq_exact_main gsem st g sizes sval en :
  wf_graph g = true -> 1 <= nv g -> length sizes = nv g -> sizes_eval gsem (next_id st) en sizes sval ->
  forall blk,
    ((exists en', extends_sat gsem st (sized_state st g sizes) en en' /\
                  ids_realise (nv g) (ids_val gsem en' (main_gid st g)) blk)
     <-> realisable g blk sval).
Proof.
  intros Hwf Hn Hlen Hsv.
  apply (sized_exact_main gsem st g sval en true (sized_state st g sizes) (sized_cons g (next_id st) sizes) Hwf Hn).
  - intros en'. apply sized_state_bounds.
  - apply sized_state_new_cons.
  - apply seq_glue_eval; assumption.
  - left; reflexivity.
Qed.
