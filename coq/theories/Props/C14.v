(* C14 — BoolGridFrame accessors are consistent with the lattice geometry.
   Only final statements here; proofs are in Array/FrameProofs.v.

   Vocabulary (Array/Frame.v): a [segment] is a unit segment of the integer
   lattice; [ends] are its two lattice points, [sides h w] the cells of the
   h x w frame on either side, [mid] the doubled coordinates of its midpoint
   (the sum of its ends); [seg_in h w] says that both ends are lattice points
   of the frame.  [frame_of h w lab f] says that frame [f] carries variable
   [lab s] on segment [s] (horizontal[y][x] on the segment from (y, x) to
   (y, x+1), vertical[y][x] on the segment from (y, x) to (y+1, x)). *)
From Coq Require Import ZArith List.
From Cspuz Require Import Lib.PyErr Array.Slice Graph.GraphModel Array.Frame Array.FrameProofs.
Import ListNotations.
Open Scope Z_scope.

(* The public constructor yields, for every h, w >= 0, a frame that carries a
   distinct fresh variable on each segment of the lattice (so the hypothesis
   [frame_of] of the theorems below is satisfiable for every size). *)
Theorem constructor_builds_frame :
  forall next h w, 0 <= h -> 0 <= w ->
    (exists f, new_frame next h w = Ok (f, next + (h + 1) * w + h * (w + 1)) /\
               frame_of h w (new_frame_lab next h w) f) /\
    (forall s s', seg_in h w s = true -> seg_in h w s' = true ->
                  new_frame_lab next h w s = new_frame_lab next h w s' -> s = s').
Proof.
  intros next h w Hh Hw. split.
  - exact (new_frame_ok next h w Hh Hw).
  - intros s s'. exact (new_frame_lab_inj next h w s s' Hh Hw).
Qed.
Print Assumptions constructor_builds_frame.

Theorem inner_constructor_builds_frame :
  forall next H W, 1 <= H -> 1 <= W ->
    exists i, new_inner next H W = Ok (i, next + (H - 1) * W + H * (W - 1)) /\
              iframe_of H W (new_inner_lab next H W) i.
Proof. exact new_inner_ok. Qed.
Print Assumptions inner_constructor_builds_frame.

(* frame[Y, X] is the variable on the segment whose midpoint has doubled
   coordinates (Y, X); every other position raises IndexError. *)
Theorem getitem_geometry :
  forall (A : Type) h w (lab : segment -> A) (f : frame A),
    0 <= h -> 0 <= w -> frame_of h w lab f ->
    (forall s, seg_in h w s = true -> getitem f (fst (mid s)) (snd (mid s)) = Ok (lab s)) /\
    (forall Y X, (forall s, seg_in h w s = true -> mid s <> (Y, X)) -> getitem f Y X = Err IndexError).
Proof.
  intros A h w lab f Hh Hw Hf. split.
  - intros s Hs. exact (getitem_mid h w lab f s Hf Hs).
  - intros Y X Hno. apply getitem_not_mid. destruct Hf as [-> [-> _]]. exact Hno.
Qed.
Print Assumptions getitem_geometry.

(* the two sides of a segment are exactly the cells of the frame that have both
   its ends among their corners (sanity of the specification vocabulary) *)
Theorem sides_are_cells_with_both_ends :
  forall h w s c,
    side_of h w s c <->
    cell_in h w c = true /\ corner_of c (fst (ends s)) /\ corner_of c (snd (ends s)).
Proof. exact sides_spec. Qed.
Print Assumptions sides_are_cells_with_both_ends.

(* cell_neighbors(y, x) (both call forms): the variables of exactly the segments
   of the frame that have cell (y, x) on one side, each once; IndexError for a
   cell outside the frame. *)
Theorem cell_neighbors_are_sides :
  forall (A : Type) h w (lab : segment -> A) (f : frame A) a y x,
    0 <= h -> 0 <= w -> frame_of h w lab f -> unpack_args a = Ok (y, x) ->
    (cell_in h w (y, x) = true ->
       exists segs, cell_neighbors f a = Ok (map lab segs) /\ NoDup segs /\
                    forall s, In s segs <-> (seg_in h w s = true /\ side_of h w s (y, x))) /\
    (cell_in h w (y, x) = false -> cell_neighbors f a = Err IndexError).
Proof.
  intros A h w lab f a y x Hh Hw Hf Ha. split.
  - intros Hc. exists (cell_segs y x). split; [exact (cell_neighbors_in h w lab f a y x Hf Ha Hc)|].
    split; [apply NoDup_cell_segs|]. intros s. exact (cell_segs_spec h w y x s Hc).
  - intros Hc. apply (cell_neighbors_out f a y x Ha). destruct Hf as [-> [-> _]]. exact Hc.
Qed.
Print Assumptions cell_neighbors_are_sides.

(* vertex_neighbors(y, x): the variables of exactly the segments of the frame
   that end at lattice point (y, x), each once; IndexError outside. *)
Theorem vertex_neighbors_are_incident :
  forall (A : Type) h w (lab : segment -> A) (f : frame A) a y x,
    0 <= h -> 0 <= w -> frame_of h w lab f -> unpack_args a = Ok (y, x) ->
    (point_in h w (y, x) = true ->
       exists segs, vertex_neighbors f a = Ok (map lab segs) /\ NoDup segs /\
                    forall s, In s segs <-> (seg_in h w s = true /\ incident_pt s (y, x))) /\
    (point_in h w (y, x) = false -> vertex_neighbors f a = Err IndexError).
Proof.
  intros A h w lab f a y x Hh Hw Hf Ha. split.
  - intros Hp. exists (vertex_segs h w y x). split; [exact (vertex_neighbors_in h w lab f a y x Hf Ha Hp)|].
    split; [apply NoDup_vertex_segs|]. intros s. exact (vertex_segs_spec h w y x s Hp).
  - intros Hp. apply (vertex_neighbors_out f a y x Ha). destruct Hf as [-> [-> _]]. exact Hp.
Qed.
Print Assumptions vertex_neighbors_are_incident.

(* all_edges() and iteration enumerate every segment of the frame exactly once,
   in the same order; horizontal / vertical are the two halves. *)
Theorem all_edges_enumerates_once :
  forall (A : Type) h w (lab : segment -> A) (f : frame A),
    0 <= h -> 0 <= w -> frame_of h w lab f ->
    exists segs, all_edges f = map lab segs /\ iter f = all_edges f /\
                 all_edges f = adata (hor f) ++ adata (ver f) /\
                 NoDup segs /\ forall s, In s segs <-> seg_in h w s = true.
Proof.
  intros A h w lab f Hh Hw Hf. exists (all_segs h w).
  split; [exact (all_edges_segs h w lab f Hf)|]. split; [reflexivity|]. split; [reflexivity|].
  split; [apply NoDup_all_segs|]. intros s. exact (In_all_segs h w s Hh Hw).
Qed.
Print Assumptions all_edges_enumerates_once.

(* _from_grid_frame: there is an enumeration of the segments of the frame, each
   exactly once, such that entry k of the returned list is the variable on
   segment k and graph edge k joins the (row-major numbers of the) two ends of
   segment k; the graph has one vertex per lattice point. *)
Theorem from_grid_frame_consistent :
  forall (A : Type) h w (lab : segment -> A) (f : frame A),
    0 <= h -> 0 <= w -> frame_of h w lab f ->
    exists segs,
      from_grid_frame f =
        Ok (map lab segs,
            {| nv := Z.to_nat ((h + 1) * (w + 1));
               edges := map (fun s => (Z.to_nat (point_id w (fst (ends s))),
                                       Z.to_nat (point_id w (snd (ends s))))) segs |}) /\
      NoDup segs /\ forall s, In s segs <-> seg_in h w s = true.
Proof.
  intros A h w lab f Hh Hw Hf. exists (fg_segs h w).
  split; [exact (from_grid_frame_ok h w lab f Hh Hw Hf)|].
  split; [apply NoDup_fg_segs|]. intros s. exact (In_fg_segs h w s Hh Hw).
Qed.
Print Assumptions from_grid_frame_consistent.

(* the vertex numbering used there is a bijection between the lattice points of
   the frame and [0, (h+1)(w+1)) *)
Theorem point_numbering_bijective :
  forall h w, 0 <= h -> 0 <= w ->
    (forall y x, point_in h w (y, x) = true -> 0 <= point_id w (y, x) < (h + 1) * (w + 1)) /\
    (forall p q, point_in h w p = true -> point_in h w q = true -> point_id w p = point_id w q -> p = q).
Proof.
  intros h w Hh Hw. split.
  - intros y x. exact (point_id_range h w y x Hh Hw).
  - intros p q. exact (point_id_inj h w p q Hw).
Qed.
Print Assumptions point_numbering_bijective.

(* dual(): the lattice points of the frame become the cells of the inner frame
   of an (h+1) x (w+1) board; the border between two adjacent cells c1 | c2 of
   the dual carries the variable of the primal segment joining c1 and c2.
   And back, for BoolInnerGridFrame.dual(). *)
Theorem dual_swaps :
  forall (A : Type) h w (lab : segment -> A) (f : frame A),
    frame_of h w lab f ->
    exists labd, iframe_of (h + 1) (w + 1) labd (dual f) /\
      forall sd c1 c2, sides (h + 1) (w + 1) sd = (Some c1, Some c2) ->
        exists sp, seg_in h w sp = true /\ ends sp = (c1, c2) /\ labd sd = lab sp.
Proof.
  intros A h w lab f Hf. exists (fun sd => lab (primal_seg sd)).
  split; [exact (dual_frame_of h w lab f Hf)|].
  intros sd c1 c2 Hs. exists (primal_seg sd).
  destruct (primal_seg_geometry (h + 1) (w + 1) sd c1 c2 Hs) as [E [I _]].
  replace (h + 1 - 1) with h in I by (symmetry; apply Z.add_simpl_r).
  replace (w + 1 - 1) with w in I by (symmetry; apply Z.add_simpl_r).
  auto.
Qed.
Print Assumptions dual_swaps.

Theorem inner_dual_swaps :
  forall (A : Type) H W (lab : segment -> A) (i : iframe A),
    1 <= H -> 1 <= W -> iframe_of H W lab i ->
    exists labp, frame_of (H - 1) (W - 1) labp (idual i) /\
      forall sp, seg_in (H - 1) (W - 1) sp = true ->
        exists sd, sides H W sd = (Some (fst (ends sp)), Some (snd (ends sp))) /\ labp sp = lab sd.
Proof.
  intros A H W lab i HH HW Hi. exists (fun sp => lab (dual_seg sp)).
  split; [exact (idual_frame_of H W lab i Hi)|].
  intros sp Hs. exists (dual_seg sp).
  destruct (dual_seg_geometry (H - 1) (W - 1) sp Hs) as [E _].
  replace (H - 1 + 1) with H in E by (symmetry; apply Z.sub_add).
  replace (W - 1 + 1) with W in E by (symmetry; apply Z.sub_add).
  auto.
Qed.
Print Assumptions inner_dual_swaps.

(* the graph division_connected_variable_groups_with_borders infers from an
   inner frame (through is_border.dual()): one vertex per cell (row-major),
   edge k joins two adjacent cells and entry k of the list is the variable on
   the border separating them; every pair of adjacent cells occurs once. *)
Theorem inner_from_grid_frame_consistent :
  forall (A : Type) H W (lab : segment -> A) (i : iframe A),
    1 <= H -> 1 <= W -> iframe_of H W lab i ->
    exists pairs : list segment,
      from_grid_frame (idual i) =
        Ok (map (fun sp => lab (dual_seg sp)) pairs,
            {| nv := Z.to_nat (H * W);
               edges := map (fun sp => (Z.to_nat (cell_id W (fst (ends sp))),
                                        Z.to_nat (cell_id W (snd (ends sp))))) pairs |}) /\
      NoDup pairs /\
      (forall sp, In sp pairs <-> seg_in (H - 1) (W - 1) sp = true) /\
      (forall sp, In sp pairs ->
         sides H W (dual_seg sp) = (Some (fst (ends sp)), Some (snd (ends sp)))).
Proof.
  intros A H W lab i HH HW Hi. exists (fg_segs (H - 1) (W - 1)).
  split; [exact (inner_from_grid_frame_ok H W lab i HH HW Hi)|].
  split; [apply NoDup_fg_segs|].
  assert (HI : forall sp, In sp (fg_segs (H - 1) (W - 1)) <-> seg_in (H - 1) (W - 1) sp = true).
  { intros sp. apply In_fg_segs; [apply Z.le_0_sub; exact HH|apply Z.le_0_sub; exact HW]. }
  split; [exact HI|].
  intros sp Hin. apply HI in Hin.
  destruct (dual_seg_geometry (H - 1) (W - 1) sp Hin) as [E _].
  replace (H - 1 + 1) with H in E by (symmetry; apply Z.sub_add).
  replace (W - 1 + 1) with W in E by (symmetry; apply Z.sub_add).
  exact E.
Qed.
Print Assumptions inner_from_grid_frame_consistent.

(* dual of dual is the original frame (both classes, every frame record) *)
Theorem dual_involutive :
  forall (A : Type), (forall f : frame A, idual (dual f) = f) /\ (forall i : iframe A, dual (idual i) = i).
Proof. intros A. split; [exact dual_idual|exact idual_dual]. Qed.
Print Assumptions dual_involutive.

(* coordinates outside the frame are rejected with IndexError — for every frame
   record, whatever its arrays; the one-int / tuple-plus-int call forms raise
   TypeError. *)
Theorem oob_index_error :
  forall (A : Type) (f : frame A),
    (forall Y X, ~ (0 <= Y <= 2 * fh f /\ 0 <= X <= 2 * fw f) -> getitem f Y X = Err IndexError) /\
    (forall a y x, unpack_args a = Ok (y, x) -> cell_in (fh f) (fw f) (y, x) = false ->
                   cell_neighbors f a = Err IndexError) /\
    (forall a y x, unpack_args a = Ok (y, x) -> point_in (fh f) (fw f) (y, x) = false ->
                   vertex_neighbors f a = Err IndexError) /\
    (forall a, unpack_args a = Err TypeError ->
               cell_neighbors f a = Err TypeError /\ vertex_neighbors f a = Err TypeError).
Proof.
  intros A f. split; [exact (getitem_oob f)|]. split; [exact (cell_neighbors_out f)|].
  split; [exact (vertex_neighbors_out f)|].
  intros a Ha. unfold cell_neighbors, vertex_neighbors. rewrite Ha. split; reflexivity.
Qed.
Print Assumptions oob_index_error.

(* non-vacuity, concretely: the 1 x 2 frame built by the constructor *)
Example frame_example :
  exists f, new_frame 0 1 2 = Ok (f, 7) /\
    getitem f 0 3 = Ok 1 /\ getitem f 1 4 = Ok 6 /\ getitem f 1 1 = Err IndexError /\
    getitem f (-1) 0 = Err IndexError /\
    cell_neighbors f (ATwo 0 1) = Ok [1; 3; 5; 6] /\
    vertex_neighbors f (ATuple 1 1) = Ok [5; 2; 3] /\
    all_edges f = [0; 1; 2; 3; 4; 5; 6] /\
    rmap fst (from_grid_frame f) = Ok [4; 0; 5; 1; 6; 2; 3].
Proof. eexists. repeat split; vm_compute; reflexivity. Qed.
