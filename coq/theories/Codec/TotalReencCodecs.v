(* C17: re-encodability at problem level - for every term satisfying the side conditions, and
   for the eight puzzle codecs built from library combinators (yajilin: TotalReencYajilin.v). *)
From Coq Require Import ZArith List Ascii Bool NArith Lia.
From Cspuz Require Import Lib.PyErr Codec.Comb Codec.CombWf Codec.CombBasics Codec.CombLeaf Codec.CombRoundTrip
  Codec.Puzzles Codec.TotalModel Codec.TotalLeaf Codec.Total Codec.TotalDims Codec.TotalRedecode
  Codec.TotalReencModel Codec.TotalReencLeaf Codec.TotalReenc Codec.TotalReencRooms Gen.Codecs.
Import ListNotations.
Local Open Scope Z_scope.

(* whatever deserialize_problem returns is serialized again by serialize_problem, and the
   canonical text decodes to the same value *)
Theorem de_reencodable_lemma c h w s p : 1 <= h -> 1 <= w ->
  wf c = true -> tupl_single c = true -> dec_ok c = true -> single c = true -> reenc_ok c = true ->
  deserialize_problem c s h w = Ok (Some p) ->
  exists t, serialize_problem c p h w = Ok t /\ deserialize_problem c t h w = Ok (Some p).
Proof.
  intros Hh Hw Hwf Hts Hok Hsg Hre Hd.
  assert (He : env_ok (mk_env h w)) by (split; simpl; lia).
  unfold deserialize_problem in Hd.
  destruct (de (mk_env h w) c s) as [[[n l]|]|] eqn:E; try discriminate.
  destruct l as [|p0 [|q l]]; try discriminate. inversion Hd; subst p0.
  destruct (de_reencodable_gen (mk_env h w) c s n p He (or_introl (rooms_canon_holds _)) Hwf Hts Hok Hsg Hre E)
    as (t & Es & Ed).
  exists t. unfold serialize_problem, deserialize_problem. rewrite Es, Ed. auto.
Qed.

(* the same with a table of Combinator subclasses in the environment (they do not occur in c) *)
Theorem de_reencodable_cu_lemma cu c h w s p : 1 <= h -> 1 <= w ->
  wf c = true -> tupl_single c = true -> dec_ok c = true -> single c = true -> reenc_ok c = true ->
  deserialize_problem_cu cu c s h w = Ok (Some p) ->
  exists t, serialize_problem_cu cu c p h w = Ok t /\ deserialize_problem_cu cu c t h w = Ok (Some p).
Proof.
  intros Hh Hw Hwf Hts Hok Hsg Hre Hd.
  assert (He : env_ok (cu_env cu h w)) by (split; simpl; lia).
  unfold deserialize_problem_cu in Hd.
  destruct (de (cu_env cu h w) c s) as [[[n l]|]|] eqn:E; try discriminate.
  destruct l as [|p0 [|q l]]; try discriminate. inversion Hd; subst p0.
  destruct (de_reencodable_gen (cu_env cu h w) c s n p He (or_introl (rooms_canon_holds _)) Hwf Hts Hok Hsg Hre E)
    as (t & Es & Ed).
  exists t. unfold serialize_problem_cu, deserialize_problem_cu. rewrite Es, Ed. auto.
Qed.

(* the side conditions hold for the terms read from the puzzle modules *)
Definition side_conditions (c : comb) : bool :=
  wf c && tupl_single c && dec_ok c && single c && reenc_ok c.

Lemma codecs_side_conditions :
  forallb side_conditions
    [NURIKABE_COMBINATOR; MASYU_COMBINATOR; SLITHERLINK_COMBINATOR; SUDOKU_COMBINATOR; NURIMISAKI_COMBINATOR;
     HEYAWAKE_COMBINATOR; LITS_COMBINATOR; NORINORI_COMBINATOR] = true.
Proof. vm_compute. reflexivity. Qed.

(* the eight codecs built from library combinators: unconditionally *)
Theorem codecs_reencodable_lemma : forall c,
  In c [NURIKABE_COMBINATOR; MASYU_COMBINATOR; SLITHERLINK_COMBINATOR; SUDOKU_COMBINATOR; NURIMISAKI_COMBINATOR;
        HEYAWAKE_COMBINATOR; LITS_COMBINATOR; NORINORI_COMBINATOR] ->
  forall s h w p, 1 <= h -> 1 <= w ->
    deserialize_problem c s h w = Ok (Some p) ->
    exists t, serialize_problem c p h w = Ok t /\ deserialize_problem c t h w = Ok (Some p).
Proof.
  intros c Hin s h w p Hh Hw Hd.
  pose proof codecs_side_conditions as Hsc. rewrite forallb_forall in Hsc. specialize (Hsc c Hin).
  unfold side_conditions in Hsc. repeat (apply andb_true_iff in Hsc as [Hsc ?]).
  eapply de_reencodable_lemma; eauto.
Qed.

Theorem grid_codecs_redecode_lemma' : forall c,
  In c [NURIKABE_COMBINATOR; MASYU_COMBINATOR; SLITHERLINK_COMBINATOR; SUDOKU_COMBINATOR; NURIMISAKI_COMBINATOR] ->
  forall s h w p, 1 <= h -> 1 <= w ->
    deserialize_problem c s h w = Ok (Some p) ->
    exists t, serialize_problem c p h w = Ok t /\ deserialize_problem c t h w = Ok (Some p).
Proof.
  intros c Hin. apply codecs_reencodable_lemma. simpl in *. intuition.
Qed.
