"""C11 plug-in: heyawake (solve_heyawake(height, width, rooms, clues))."""
import c11lib as L

NAME = "heyawake"
MODULE = "cspuz.puzzle.heyawake"
FUNC = "solve_heyawake"


def call(mod, pb):
    rooms = [[tuple(c) for c in b] for b in pb["rooms"]]
    return mod.solve_heyawake(pb["h"], pb["w"], rooms, pb["clues"])


def ncand(pb):
    return 2 ** (pb['h'] * pb['w'])


def encode(pb):
    return [[pb["h"], pb["w"]], L.flat(L.region_ids(pb["h"], pb["w"], pb["rooms"])), pb["clues"]]


def _with_clues(rng, h, w, rooms, k):
    yield {"h": h, "w": w, "rooms": rooms, "clues": [-1] * len(rooms)}
    for _ in range(k):
        yield {"h": h, "w": w, "rooms": rooms,
               "clues": [rng.choice([-1, -1, 0, 1, 2, min(3, len(r))]) for r in rooms]}


def families(tier, rng):
    th = tier == "thorough"
    for (h, w) in [(1, 1), (1, 2), (2, 1), (1, 3), (3, 1), (2, 2), (1, 4), (4, 1), (2, 3), (3, 2), (1, 5), (5, 1)]:
        parts = list(L.region_partitions(h, w))
        for rooms in (parts if th else L.sample(rng, parts, 12)):
            yield from _with_clues(rng, h, w, rooms, 3 if th else 1)
    for (h, w) in [(3, 3), (2, 4), (4, 2), (3, 4)]:
        for rooms in L.sample(rng, L.region_partitions(h, w, max_size=6), 60 if th else 8):
            yield from _with_clues(rng, h, w, rooms, 2 if th else 1)


def tier2(tier, rng):
    th = tier == "thorough"
    for (h, w) in [(1, 1), (1, 2), (2, 2), (1, 3), (3, 1)]:
        parts = list(L.region_partitions(h, w))
        for rooms in (parts if th else L.sample(rng, parts, 3)):
            yield from _with_clues(rng, h, w, rooms, 1)
