(* C11 Tier 1 - view: for every board shape and every layout of given numbers, the program posted by
   solve_view (model View.v: the connectivity helper of property C04 on the grid of number cells, then the
   number grid, the four auxiliary distance grids with their recurrences, and the local constraints) has a model
   reading as [ans] (numbers, then flags) exactly when [ans] obeys Rules_view.
   (=>) the recurrences determine the four distance grids: they are the sight distances of the rules;
   (<=) the sight distances computed from the answer lie in the declared domains 0 .. h-1 / 0 .. w-1 and satisfy
        the recurrences; the certificate of C04 fills the rank / root variables (ViewCompose.v). *)
From Coq Require Import ZArith List Bool Arith Lia.
From Cspuz Require Import Lib.PyErr Core.Expr Core.Program Graph.GraphModel Graph.ReachProofs
     Graph.Avc Graph.AvcSem Graph.AvcProofs
     Puzzle.PuzzleBase Puzzle.SatAbs Puzzle.ModelBase Puzzle.ModelLemmas Puzzle.AkariLemmas Puzzle.CreekProofs
     Puzzle.ViewCompose Puzzle.Rules_view Puzzle.View Puzzle.ViewLemmas.
Import ListNotations.
Local Open Scope nat_scope.

Notation b2z := PuzzleBase.b2z.

(* ---- the per-cell rule of Rules_view.v, as a function of the two grids *)
Definition view_cell_rule (h w : nat) (given : list Z) (num : nat * nat -> Z) (has : nat * nat -> bool)
    : nat * nat -> bool :=
  fun '(y, x) =>
     let c := at2 given w y x in
     ((c <? 0)%Z || (has (y, x) && (num (y, x) =? c)%Z)) &&
     (if has (y, x) then
       (num (y, x) =? Z.of_nat (fold_right Nat.add 0%nat
           (map (fun '(dy, dx) => length (take_while (fun q => negb (has q)) (ray h w y x dy dx)))
                [((-1)%Z, 0%Z); (1%Z, 0%Z); (0%Z, (-1)%Z); (0%Z, 1%Z)])))%Z &&
       forallb (fun q => negb (has q) || negb (num q =? num (y, x))%Z) (nbr4 h w y x)
     else (num (y, x) =? 0)%Z).

Lemma rules_view_ab h w grid a b :
  length a = h * w -> length b = h * w ->
  rules_view [[Z.of_nat h; Z.of_nat w]; grid] (a ++ b) =
  forallb (fun v => ((0 <=? v) && (v <=? Z.of_nat (h + w)%nat))%Z) a && forallb is01 b &&
  cells_connected h w (fun v => isb (getz (a ++ b) (h * w + v))) &&
  forallb (view_cell_rule h w grid (fun '(y, x) => at2 (a ++ b) w y x)
                          (fun '(y, x) => isb (getz (a ++ b) (h * w + y * w + x)))) (cells h w).
Proof.
  intros La Lb. unfold rules_view. destruct (dims2c h w [grid]) as [-> ->].
  change (sec [[Z.of_nat h; Z.of_nat w]; grid] 1) with grid. cbv zeta.
  rewrite app_length, La, Lb.
  replace (Nat.eqb (h * w + h * w) (2 * (h * w))) with true by (symmetry; apply Nat.eqb_eq; lia).
  rewrite (firstn_app_len a b (h * w) La), (skipn_app_len a b (h * w) La). reflexivity.
Qed.

Lemma rules_view_length h w grid ans :
  rules_view [[Z.of_nat h; Z.of_nat w]; grid] ans = true -> length ans = 2 * (h * w).
Proof.
  unfold rules_view. destruct (dims2c h w [grid]) as [-> ->]. cbv zeta. rewrite !andb_true_iff.
  intros [[[[H _] _] _] _]. apply Nat.eqb_eq in H. exact H.
Qed.

Lemma cell_rule_spec h w given num has y x :
  y < h -> x < w ->
  (view_cell_rule h w given num has (y, x) = true <->
   (((at2 given w y x < 0)%Z \/ (has (y, x) = true /\ num (y, x) = at2 given w y x)) /\
    (has (y, x) = true ->
     num (y, x) = Z.of_nat (run_up has y x + run_down h has y x + run_left has y x + run_right w has y x) /\
     forall q, In q (nbr4 h w y x) -> has q = true -> num q <> num (y, x)) /\
    (has (y, x) = false -> num (y, x) = 0%Z))).
Proof.
  intros Hy Hx. unfold view_cell_rule. cbv zeta. rewrite (rays_total h w has y x Hy Hx).
  rewrite andb_true_iff, orb_true_iff, andb_true_iff, Z.ltb_lt, Z.eqb_eq.
  destruct (has (y, x)) eqn:Hc.
  - rewrite andb_true_iff, Z.eqb_eq, forallb_forall. split.
    + intros [A [B C]]. split; [exact A|]. split; [|discriminate]. intros _. split; [exact B|].
      intros q Hq Hhq. specialize (C q Hq). rewrite Hhq in C. cbn [negb orb] in C.
      apply negb_true_iff, Z.eqb_neq in C. exact C.
    + intros [A [B _]]. destruct (B eq_refl) as [B1 B2]. split; [exact A|]. split; [exact B1|].
      intros q Hq. destruct (has q) eqn:Hhq; [|reflexivity]. cbn [negb orb].
      apply negb_true_iff, Z.eqb_neq. apply B2; assumption.
  - rewrite Z.eqb_eq. split.
    + intros [A B]. split; [exact A|]. split; [discriminate|]. intros _. exact B.
    + intros [A [_ B]]. split; [exact A|]. apply B. reflexivity.
Qed.

Tactic Notation "iff_fwd" uconstr(lem) hyp(H) :=
  let T := fresh in pose proof (proj1 lem H) as T; clear H; rename T into H.

(* ---- the auxiliary distance grids are determined by their recurrences, and the local constraints say what the
        rules say *)
Section Aux.
  Variable gsem : op -> list (option value) -> option bool.
  Variable en : env.
  Variables h w : nat.
  Notation n := (h * w).
  Variable has : nat * nat -> bool.
  Hypothesis Hhas : forall y x, y < h -> x < w -> has (y, x) = eb en (cidx w (y, x)).

  Lemma view_up_sem : 1 <= h ->
    (forallb (holds gsem en) (view_up h w) = true <->
    (forall y x, y < h -> x < w -> ei en (4 * n + cidx w (y, x)) = Z.of_nat (run_up has y x))).
  Proof.
    intros Hpos. unfold view_up. rewrite forallb_app, !forallb_map, andb_true_iff, !forallb_forall. split.
    - intros [H0 HS]. induction y as [|y IH]; intros x Hy Hx.
      + specialize (H0 x ltac:(apply in_seq; lia)). unfold vw_up in H0. apply hold_vw_zero in H0.
        rewrite H0. reflexivity.
      + specialize (HS (y, x) ltac:(apply cells_in; lia)). cbv beta iota in HS. unfold vw_up, vw_has in HS.
        apply hold_vw_step in HS. rewrite HS, (IH x) by lia. rewrite run_up_S, (Hhas y x) by lia.
        destruct (eb en (cidx w (y, x))); lia.
    - intros H. split.
      + intros x Hx. apply in_seq in Hx. unfold vw_up. apply hold_vw_zero. rewrite H by lia. reflexivity.
      + intros [y x] Hc. apply cells_in in Hc. cbv beta iota. unfold vw_up, vw_has. apply hold_vw_step.
        rewrite !H by lia. rewrite run_up_S, (Hhas y x) by lia. destruct (eb en (cidx w (y, x))); lia.
  Qed.

  Lemma view_left_sem : 1 <= w ->
    (forallb (holds gsem en) (view_left h w) = true <->
    (forall y x, y < h -> x < w -> ei en (6 * n + cidx w (y, x)) = Z.of_nat (run_left has y x))).
  Proof.
    intros Hpos. unfold view_left. rewrite forallb_app, !forallb_map, andb_true_iff, !forallb_forall. split.
    - intros [H0 HS] y x. revert y. induction x as [|x IH]; intros y Hy Hx.
      + specialize (H0 y ltac:(apply in_seq; lia)). unfold vw_left in H0. apply hold_vw_zero in H0.
        rewrite H0. reflexivity.
      + specialize (HS (y, x) ltac:(apply cells_in; lia)). cbv beta iota in HS. unfold vw_left, vw_has in HS.
        apply hold_vw_step in HS. rewrite HS, (IH y) by lia. rewrite run_left_S, (Hhas y x) by lia.
        destruct (eb en (cidx w (y, x))); lia.
    - intros H. split.
      + intros y Hy. apply in_seq in Hy. unfold vw_left. apply hold_vw_zero. rewrite H by lia. reflexivity.
      + intros [y x] Hc. apply cells_in in Hc. cbv beta iota. unfold vw_left, vw_has. apply hold_vw_step.
        rewrite !H by lia. rewrite run_left_S, (Hhas y x) by lia. destruct (eb en (cidx w (y, x))); lia.
  Qed.

  Lemma view_down_sem : 1 <= h ->
    (forallb (holds gsem en) (view_down h w) = true <->
    (forall y x, y < h -> x < w -> ei en (5 * n + cidx w (y, x)) = Z.of_nat (run_down h has y x))).
  Proof.
    intros Hpos. unfold view_down. rewrite forallb_app, !forallb_map, andb_true_iff, !forallb_forall. split.
    - intros [H0 HS].
      assert (G : forall d y x, S y + d = h -> x < w ->
                    ei en (5 * n + cidx w (y, x)) = Z.of_nat (run_down h has y x)).
      { induction d as [|d IH]; intros y x Hy Hx.
        - specialize (H0 x ltac:(apply in_seq; lia)). unfold vw_down in H0. apply hold_vw_zero in H0.
          replace (h - 1) with y in H0 by lia. rewrite H0, run_down_last by lia. reflexivity.
        - specialize (HS (y, x) ltac:(apply cells_in; lia)). cbv beta iota in HS. unfold vw_down, vw_has in HS.
          apply hold_vw_step in HS. rewrite HS, (IH (S y) x) by lia.
          rewrite (run_down_S h has y x), (Hhas (S y) x) by lia.
          destruct (eb en (cidx w (S y, x))); lia. }
      intros y x Hy Hx. apply (G (h - S y)); lia.
    - intros H. split.
      + intros x Hx. apply in_seq in Hx. unfold vw_down. apply hold_vw_zero. rewrite H by lia.
        rewrite run_down_last by lia. reflexivity.
      + intros [y x] Hc. apply cells_in in Hc. cbv beta iota. unfold vw_down, vw_has. apply hold_vw_step.
        rewrite !H by lia. rewrite (run_down_S h has y x), (Hhas (S y) x) by lia.
        destruct (eb en (cidx w (S y, x))); lia.
  Qed.

  Lemma view_right_sem : 1 <= w ->
    (forallb (holds gsem en) (view_right h w) = true <->
    (forall y x, y < h -> x < w -> ei en (7 * n + cidx w (y, x)) = Z.of_nat (run_right w has y x))).
  Proof.
    intros Hpos. unfold view_right. rewrite forallb_app, !forallb_map, andb_true_iff, !forallb_forall. split.
    - intros [H0 HS].
      assert (G : forall d y x, S x + d = w -> y < h ->
                    ei en (7 * n + cidx w (y, x)) = Z.of_nat (run_right w has y x)).
      { induction d as [|d IH]; intros y x Hx Hy.
        - specialize (H0 y ltac:(apply in_seq; lia)). unfold vw_right in H0. apply hold_vw_zero in H0.
          replace (w - 1) with x in H0 by lia. rewrite H0, run_right_last by lia. reflexivity.
        - specialize (HS (y, x) ltac:(apply cells_in; lia)). cbv beta iota in HS. unfold vw_right, vw_has in HS.
          apply hold_vw_step in HS. rewrite HS, (IH y (S x)) by lia.
          rewrite (run_right_S w has y x), (Hhas y (S x)) by lia.
          destruct (eb en (cidx w (y, S x))); lia. }
      intros y x Hy Hx. apply (G (w - S x)); lia.
    - intros H. split.
      + intros y Hy. apply in_seq in Hy. unfold vw_right. apply hold_vw_zero. rewrite H by lia.
        rewrite run_right_last by lia. reflexivity.
      + intros [y x] Hc. apply cells_in in Hc. cbv beta iota. unfold vw_right, vw_has. apply hold_vw_step.
        rewrite !H by lia. rewrite (run_right_S w has y x), (Hhas y (S x)) by lia.
        destruct (eb en (cidx w (y, S x))); lia.
  Qed.

  Variable num : nat * nat -> Z.
  Hypothesis Hnum : forall y x, y < h -> x < w -> num (y, x) = ei en (3 * n + cidx w (y, x)).
  Variable grid : list Z.
  Hypothesis HU : forall y x, y < h -> x < w -> ei en (4 * n + cidx w (y, x)) = Z.of_nat (run_up has y x).
  Hypothesis HD : forall y x, y < h -> x < w -> ei en (5 * n + cidx w (y, x)) = Z.of_nat (run_down h has y x).
  Hypothesis HL : forall y x, y < h -> x < w -> ei en (6 * n + cidx w (y, x)) = Z.of_nat (run_left has y x).
  Hypothesis HR : forall y x, y < h -> x < w -> ei en (7 * n + cidx w (y, x)) = Z.of_nat (run_right w has y x).

  Lemma view_local_sem :
    forallb (holds gsem en) (view_local h w grid) = true <->
    forallb (view_cell_rule h w grid num has) (cells h w) = true.
  Proof.
    unfold view_local. rewrite !forallb_app, !forallb_map, forallb_flat_map, !andb_true_iff, !forallb_forall. split.
    - intros [Hs [Hv [Hz [Hb Hc]]]] [y x] Hin. apply cells_in in Hin. destruct Hin as [Hy Hx].
      apply cell_rule_spec; [exact Hy|exact Hx|]. split; [|split].
      + specialize (Hc (y, x) ltac:(apply cells_in; lia)). iff_fwd (hold_view_clue gsem en h w grid (y, x)) Hc. cbn [fst snd] in Hc.
        destruct (Z.lt_ge_cases (at2 grid w y x) 0) as [L|L]; [left; exact L|right].
        destruct (Hc L) as [C1 C2]. rewrite (Hhas y x), (Hnum y x) by lia. split; assumption.
      + intros Hh1. rewrite (Hhas y x) in Hh1 by lia. split.
        * specialize (Hs (y, x) ltac:(apply cells_in; lia)). iff_fwd (hold_view_sum gsem en h w (y, x)) Hs.
          rewrite (Hnum y x), (Hs Hh1), HU, HD, HL, HR by lia. lia.
        * intros q Hq Hhq. apply nbr4_iff in Hq.
          destruct Hq as [[H1 ->]|[[H1 ->]|[[H1 ->]|[H1 ->]]]].
          -- specialize (Hv (y - 1, x) ltac:(apply cells_in; lia)). cbv beta iota in Hv.
             iff_fwd (hold_view_ne gsem en h w _ _) Hv. replace (S (y - 1)) with y in Hv by lia.
             rewrite !Hnum by lia. apply Hv; [rewrite <- Hhas by lia; exact Hhq|exact Hh1].
          -- specialize (Hv (y, x) ltac:(apply cells_in; lia)). cbv beta iota in Hv.
             iff_fwd (hold_view_ne gsem en h w _ _) Hv. rewrite !Hnum by lia. intros E. symmetry in E. revert E.
             apply Hv; [exact Hh1|rewrite <- Hhas by lia; exact Hhq].
          -- specialize (Hz (y, x - 1) ltac:(apply cells_in; lia)). cbv beta iota in Hz.
             iff_fwd (hold_view_ne gsem en h w _ _) Hz. replace (S (x - 1)) with x in Hz by lia.
             rewrite !Hnum by lia. apply Hz; [rewrite <- Hhas by lia; exact Hhq|exact Hh1].
          -- specialize (Hz (y, x) ltac:(apply cells_in; lia)). cbv beta iota in Hz.
             iff_fwd (hold_view_ne gsem en h w _ _) Hz. rewrite !Hnum by lia. intros E. symmetry in E. revert E.
             apply Hz; [exact Hh1|rewrite <- Hhas by lia; exact Hhq].
      + intros Hh0. rewrite (Hhas y x) in Hh0 by lia.
        specialize (Hb (y, x) ltac:(apply cells_in; lia)). iff_fwd (hold_view_blank gsem en h w (y, x)) Hb.
        rewrite (Hnum y x) by lia. apply Hb. exact Hh0.
    - intros H.
      assert (H' : forall y x, y < h -> x < w ->
                ((at2 grid w y x < 0)%Z \/ (has (y, x) = true /\ num (y, x) = at2 grid w y x)) /\
                (has (y, x) = true ->
                 num (y, x) = Z.of_nat (run_up has y x + run_down h has y x + run_left has y x + run_right w has y x) /\
                 forall q, In q (nbr4 h w y x) -> has q = true -> num q <> num (y, x)) /\
                (has (y, x) = false -> num (y, x) = 0%Z)).
      { intros y x Hy Hx. apply cell_rule_spec; [exact Hy|exact Hx|]. apply H. apply cells_in. lia. }
      split; [|split; [|split; [|split]]].
      + intros [y x] Hin. apply cells_in in Hin. apply hold_view_sum. intros Hb.
        destruct (H' y x) as [_ [B _]]; [lia|lia|]. rewrite <- (Hhas y x) in Hb by lia. destruct (B Hb) as [B1 _].
        rewrite <- (Hnum y x), HU, HD, HL, HR by lia. rewrite B1. lia.
      + intros [y x] Hin. apply cells_in in Hin. cbv beta iota. apply hold_view_ne. intros Ha Hb.
        rewrite <- !Hnum by lia. rewrite <- Hhas in Ha, Hb by lia.
        destruct (H' y x) as [_ [B _]]; [lia|lia|]. destruct (B Ha) as [_ B2]. intros E.
        apply (B2 (S y, x)); [apply nbr4_iff; right; left; split; [lia|reflexivity]|exact Hb|symmetry; exact E].
      + intros [y x] Hin. apply cells_in in Hin. cbv beta iota. apply hold_view_ne. intros Ha Hb.
        rewrite <- !Hnum by lia. rewrite <- Hhas in Ha, Hb by lia.
        destruct (H' y x) as [_ [B _]]; [lia|lia|]. destruct (B Ha) as [_ B2]. intros E.
        apply (B2 (y, S x)); [apply nbr4_iff; right; right; right; split; [lia|reflexivity]|exact Hb|symmetry; exact E].
      + intros [y x] Hin. apply cells_in in Hin. apply hold_view_blank. intros Hb.
        rewrite <- (Hhas y x) in Hb by lia. rewrite <- (Hnum y x) by lia.
        destruct (H' y x) as [_ [_ B]]; [lia|lia|]. apply B. exact Hb.
      + intros [y x] Hin. apply cells_in in Hin. apply hold_view_clue. cbn [fst snd]. intros L.
        destruct (H' y x) as [[A|[A1 A2]] _]; [lia|lia|lia|].
        rewrite <- (Hnum y x), <- (Hhas y x) by lia. split; assumption.
  Qed.
End Aux.

(* ---- what the model declares and posts *)
Definition view_more (h w : nat) : list vdecl :=
  repeat (DInt 0 (Z.of_nat (h + w))) (h * w) ++
  repeat (DInt 0 (Z.of_nat h - 1)) (h * w) ++ repeat (DInt 0 (Z.of_nat h - 1)) (h * w) ++
  repeat (DInt 0 (Z.of_nat w - 1)) (h * w) ++ repeat (DInt 0 (Z.of_nat w - 1)) (h * w).
Definition view_extra (h w : nat) (grid : list Z) : list expr :=
  view_up h w ++ view_down h w ++ view_left h w ++ view_right h w ++ view_local h w grid.

Lemma foldM_add_key l : forall st st',
  foldM add_answer_key st l = Ok st' -> vars st' = vars st /\ Program.cons st' = Program.cons st.
Proof.
  induction l as [|a l IH]; intros st st' H; simpl in H.
  - inversion H; subst. split; reflexivity.
  - unfold bind in H. destruct (add_answer_key st a) as [s|e] eqn:E; [|discriminate].
    apply IH in H. destruct H as [H1 H2].
    assert (Hs : vars s = vars st /\ Program.cons s = Program.cons st).
    { unfold add_answer_key in E.
      destruct a; try discriminate; destruct (nth_error (keys st) id) as [[|]|]; try discriminate;
        inversion E; subst; split; reflexivity. }
    destruct Hs. split; congruence.
Qed.

Lemma int_array_spec st k lo hi st' l :
  int_array st k lo hi = Ok (st', l) ->
  vars st' = vars st ++ repeat (DInt lo hi) k /\ Program.cons st' = Program.cons st.
Proof.
  unfold int_array. destruct (hi <? lo)%Z; [discriminate|]. intros H. inversion H as [E].
  apply int_vars_spec in E. tauto.
Qed.

Lemma view_model_shape h w grid st :
  solve_view_model [[Z.of_nat h; Z.of_nat w]; grid] = Ok st ->
  exists st0 st1,
    vars st0 = repeat DBool (h * w) /\ Program.cons st0 = [] /\
    post_avc st0 (map BVar (seq 0 (h * w))) (grid_graph h w) false false = Ok st1 /\
    vars st = vars st1 ++ view_more h w /\
    Program.cons st = Program.cons st1 ++ view_extra h w grid.
Proof.
  unfold solve_view_model. destruct (dims2c h w [grid]) as [-> ->].
  change (sec [[Z.of_nat h; Z.of_nat w]; grid] 1) with grid.
  destruct (bool_array empty_state (h * w)) as [st0 has] eqn:E0. unfold bool_array in E0.
  apply bool_vars_spec in E0. destruct E0 as [Ehas [V0 [C0 _]]].
  assert (Ehas' : has = map BVar (seq 0 (h * w))) by (rewrite Ehas; reflexivity).
  destruct (post_avc st0 has (grid_graph h w) false false) as [st1|] eqn:Hp; [|discriminate].
  destruct (int_array st1 (h * w) 0 (Z.of_nat (h + w))) as [[st2 nums]|] eqn:E2; [|discriminate].
  destruct (foldM add_answer_key st2 nums) as [st3|] eqn:E3; [|discriminate].
  destruct (foldM add_answer_key st3 has) as [st4|] eqn:E4; [|discriminate].
  destruct (int_array st4 (h * w) 0 (Z.of_nat h - 1)) as [[st5 l5]|] eqn:E5; [|discriminate].
  destruct (int_array (ensure st5 (view_up h w)) (h * w) 0 (Z.of_nat h - 1)) as [[st6 l6]|] eqn:E6; [|discriminate].
  destruct (int_array (ensure st6 (view_down h w)) (h * w) 0 (Z.of_nat w - 1)) as [[st7 l7]|] eqn:E7; [|discriminate].
  destruct (int_array (ensure st7 (view_left h w)) (h * w) 0 (Z.of_nat w - 1)) as [[st8 l8]|] eqn:E8; [|discriminate].
  destruct (Nat.ltb (length grid) (h * w)); [discriminate|].
  intros H. inversion H; subst st; clear H.
  apply int_array_spec in E2, E5, E6, E7, E8. apply foldM_add_key in E3, E4.
  destruct E2 as [V2 C2], E3 as [V3 C3], E4 as [V4 C4], E5 as [V5 C5], E6 as [V6 C6], E7 as [V7 C7], E8 as [V8 C8].
  cbn [vars Program.cons ensure] in *.
  exists st0, st1. split; [exact V0|]. split; [exact C0|]. split; [rewrite <- Ehas'; exact Hp|]. split.
  - unfold view_more. rewrite V8, V7, V6, V5, V4, V3, V2. rewrite <- !app_assoc. reflexivity.
  - unfold view_extra. rewrite C8, C7, C6, C5, C4, C3, C2. rewrite <- !app_assoc. reflexivity.
Qed.

Lemma reads_ints_at st en pre lo hi k rest b :
  vars st = pre ++ repeat (DInt lo hi) k ++ rest -> length pre = b ->
  reads st en (seq b k) = map (ei en) (seq b k).
Proof.
  intros Hv Hb. unfold reads. apply map_ext_in. intros i Hi. apply in_seq in Hi. unfold read_var. rewrite Hv.
  rewrite nth_error_app2 by lia. rewrite nth_error_app1 by (rewrite repeat_length; lia).
  rewrite (nth_error_nth' _ (DInt lo hi)) by (rewrite repeat_length; lia). rewrite nth_repeat. reflexivity.
Qed.

(* ---- the assignment built from an answer: numbers at 3n .., the four sight distances at 4n .. 8n-1 *)
Definition view_env0 (n : nat) (a b : list Z) (U D L R : nat -> Z) : env :=
  {| eb := fun i => isb (getz b i);
     ei := fun i => if Nat.ltb i (4 * n) then getz a (i - 3 * n)
                    else if Nat.ltb i (5 * n) then U (i - 4 * n)
                    else if Nat.ltb i (6 * n) then D (i - 5 * n)
                    else if Nat.ltb i (7 * n) then L (i - 6 * n) else R (i - 7 * n) |}.

Section Env0.
  Variables (n : nat) (a b : list Z) (U D L R : nat -> Z).
  Notation e0 := (view_env0 n a b U D L R).
  Ltac env0_tac :=
    cbn [ei view_env0];
    repeat match goal with |- context [Nat.ltb ?p ?q] => destruct (Nat.ltb_spec p q); try lia end;
    f_equal; lia.
  Lemma env0_num j : j < n -> ei e0 (3 * n + j) = getz a j.
  Proof. intros H. env0_tac. Qed.
  Lemma env0_up j : j < n -> ei e0 (4 * n + j) = U j.
  Proof. intros H. env0_tac. Qed.
  Lemma env0_down j : j < n -> ei e0 (5 * n + j) = D j.
  Proof. intros H. env0_tac. Qed.
  Lemma env0_left j : j < n -> ei e0 (6 * n + j) = L j.
  Proof. intros H. env0_tac. Qed.
  Lemma env0_right j : j < n -> ei e0 (7 * n + j) = R j.
  Proof. intros H. env0_tac. Qed.
End Env0.

Lemma getz_ab a b k j : length a = k -> getz (a ++ b) (k + j) = getz b j.
Proof. intros <-. apply getz_app2. Qed.

Theorem view_exact h w grid st ans :
  solve_view_model [[Z.of_nat h; Z.of_nat w]; grid] = Ok st ->
  ((exists en, model_of gsem_avc en st /\
               reads st en (seq (3 * (h * w)) (h * w) ++ seq 0 (h * w)) = ans)
   <-> rules_view [[Z.of_nat h; Z.of_nat w]; grid] ans = true).
Proof.
  intros Hm. destruct (view_model_shape _ _ _ _ Hm) as [st0 [st1 [V0 [C0 [Hp [Hv Hc]]]]]].
  pose proof (compose_nonempty h w st0 st1 Hp) as Hn.
  assert (Hh : 1 <= h) by (destruct h; [simpl in Hn; lia|lia]).
  assert (Hw : 1 <= w) by (destruct w; [rewrite Nat.mul_0_r in Hn; lia|lia]).
  pose proof (compose_model h w st0 st1 st (view_more h w) (view_extra h w grid) V0 C0 Hp Hv Hc) as CM.
  destruct (AvcSem.avc_eval _ _ _ _ _ Hp) as [Hv1 _]. change (nv (grid_graph h w)) with (h * w) in Hv1.
  set (n := h * w) in *.
  assert (Hreads : forall en, reads st en (seq (3 * n) n ++ seq 0 n) =
                              map (fun j => ei en (3 * n + j)) (seq 0 n) ++ map (fun i => b2z (eb en i)) (seq 0 n)).
  { intros en. unfold reads. rewrite map_app. f_equal.
    - rewrite <- map_seq_from.
      apply (reads_ints_at st en (repeat DBool n ++ repeat (DInt 0 (Z.of_nat n - 1)) n ++ repeat DBool n)
                           0%Z (Z.of_nat (h + w)) n
                           (repeat (DInt 0 (Z.of_nat h - 1)) n ++ repeat (DInt 0 (Z.of_nat h - 1)) n ++
                            repeat (DInt 0 (Z.of_nat w - 1)) n ++ repeat (DInt 0 (Z.of_nat w - 1)) n)).
      + rewrite Hv, Hv1, V0. unfold view_more. fold n. rewrite <- !app_assoc. reflexivity.
      + rewrite !app_length, !repeat_length. lia.
    - apply (reads_bool_prefix st en n
               (repeat (DInt 0 (Z.of_nat n - 1)) n ++ repeat DBool n ++ view_more h w)).
      rewrite Hv, Hv1, V0. rewrite <- !app_assoc. reflexivity. }
  (* pointwise facts about an answer a ++ b *)
  assert (Hcell : forall y x, y < h -> x < w -> cidx w (y, x) < n).
  { intros y x Hy Hx. apply (cidx_lt h w y x); assumption. }
  assert (Hbnd : forall en, in_bounds_from en (3 * n) (view_more h w) = true <->
            ((forall j, j < n -> (0 <= ei en (3 * n + j) <= Z.of_nat (h + w))%Z) /\
             (forall j, j < n -> (0 <= ei en (4 * n + j) <= Z.of_nat h - 1)%Z) /\
             (forall j, j < n -> (0 <= ei en (5 * n + j) <= Z.of_nat h - 1)%Z) /\
             (forall j, j < n -> (0 <= ei en (6 * n + j) <= Z.of_nat w - 1)%Z) /\
             (forall j, j < n -> (0 <= ei en (7 * n + j) <= Z.of_nat w - 1)%Z))).
  { intros en. unfold view_more. fold n. rewrite !in_bounds_from_app, !repeat_length, !andb_true_iff, !in_bounds_from_ints.
    replace (3 * n + n) with (4 * n) by lia. replace (4 * n + n) with (5 * n) by lia.
    replace (5 * n + n) with (6 * n) by lia. replace (6 * n + n) with (7 * n) by lia. tauto. }
  assert (Hext : forall en, forallb (holds gsem_avc en) (view_extra h w grid) = true <->
            (forallb (holds gsem_avc en) (view_up h w) = true /\ forallb (holds gsem_avc en) (view_down h w) = true /\
             forallb (holds gsem_avc en) (view_left h w) = true /\ forallb (holds gsem_avc en) (view_right h w) = true /\
             forallb (holds gsem_avc en) (view_local h w grid) = true)).
  { intros en. unfold view_extra. rewrite !forallb_app, !andb_true_iff. tauto. }
  split.
  - (* a model reads as an answer obeying the rules *)
    intros [en [Hmod Hr]]. rewrite Hreads in Hr. subst ans.
    apply CM in Hmod. destruct Hmod as [Hrk [Hce [Hbd Hex]]]. fold n in Hbd.
    apply Hbnd in Hbd. destruct Hbd as [Bn _].
    apply Hext in Hex. destruct Hex as [Eu [Ed [El [Er Eloc]]]].
    set (A := map (fun j => ei en (3 * n + j)) (seq 0 n)).
    set (B := map (fun i => b2z (eb en i)) (seq 0 n)).
    assert (La : length A = n) by (unfold A; rewrite map_length, seq_length; reflexivity).
    assert (Lb : length B = n) by (unfold B; rewrite map_length, seq_length; reflexivity).
    rewrite (rules_view_ab h w grid A B La Lb). fold n.
    assert (Hhas : forall y x, y < h -> x < w ->
              isb (getz (A ++ B) (n + y * w + x)) = eb en (cidx w (y, x))).
    { intros y x Hy Hx. rewrite <- Nat.add_assoc. rewrite (getz_ab A B n _ La).
      unfold B. change (y * w + x) with (cidx w (y, x)). rewrite getz_map_seq by (apply Hcell; assumption).
      apply b2z_isb. }
    assert (Hnum : forall y x, y < h -> x < w -> at2 (A ++ B) w y x = ei en (3 * n + cidx w (y, x))).
    { intros y x Hy Hx. unfold at2. change (y * w + x) with (cidx w (y, x)).
      rewrite getz_app1 by (rewrite La; apply Hcell; assumption).
      unfold A. rewrite getz_map_seq by (apply Hcell; assumption). reflexivity. }
    repeat (apply andb_true_iff; split).
    + unfold A. rewrite forallb_map. apply forallb_forall. intros j Hj. apply in_seq in Hj.
      apply andb_true_iff. split; [apply Z.leb_le|apply Z.leb_le]; apply (Bn j); lia.
    + unfold B. rewrite forallb_map. apply forallb_forall. intros; apply is01_b2z.
    + unfold cells_connected, board.
      rewrite (connected_b_ext _ _ (pattern en (map BVar (seq 0 n))) (grid_wf h w)).
      * apply (compose_sound h w en Hrk Hce).
      * intros v. rewrite pattern_acts. destruct (Nat.ltb_spec v n) as [L|L].
        -- rewrite (getz_ab A B n v La). unfold B. rewrite getz_map_seq by exact L. cbn [andb]. apply b2z_isb.
        -- rewrite getz_overflow by (rewrite app_length, La, Lb; lia). reflexivity.
    + apply (view_local_sem gsem_avc en h w (fun '(y, x) => isb (getz (A ++ B) (n + y * w + x))) Hhas
                            (fun '(y, x) => at2 (A ++ B) w y x) Hnum grid).
      * apply (view_up_sem gsem_avc en h w _ Hhas Hh). exact Eu.
      * apply (view_down_sem gsem_avc en h w _ Hhas Hh). exact Ed.
      * apply (view_left_sem gsem_avc en h w _ Hhas Hw). exact El.
      * apply (view_right_sem gsem_avc en h w _ Hhas Hw). exact Er.
      * exact Eloc.
  - (* an answer obeying the rules is the reading of a model *)
    intros Hr. pose proof (rules_view_length _ _ _ _ Hr) as Hlen. fold n in Hlen.
    pose proof (firstn_skipn n ans) as Hsp.
    assert (La : length (firstn n ans) = n) by (rewrite firstn_length; lia).
    assert (Lb : length (skipn n ans) = n) by (rewrite skipn_length; lia).
    set (a := firstn n ans) in *. set (b := skipn n ans) in *. clearbody a b. subst ans. clear Hlen.
    rewrite (rules_view_ab h w grid a b La Lb) in Hr. fold n in Hr.
    apply andb_true_iff in Hr. destruct Hr as [Hr Rcell].
    apply andb_true_iff in Hr. destruct Hr as [Hr Rconn].
    apply andb_true_iff in Hr. destruct Hr as [Rrng R01].
    set (has := fun '(y, x) => isb (getz (a ++ b) (n + y * w + x))) in *.
    set (num := fun '(y, x) => at2 (a ++ b) w y x) in *.
    set (U := fun k => Z.of_nat (run_up has (k / w) (k mod w))).
    set (D := fun k => Z.of_nat (run_down h has (k / w) (k mod w))).
    set (L := fun k => Z.of_nat (run_left has (k / w) (k mod w))).
    set (R := fun k => Z.of_nat (run_right w has (k / w) (k mod w))).
    set (en0 := view_env0 n a b U D L R).
    assert (Hpat : forall v, isb (getz (a ++ b) (n + v)) = pattern en0 (map BVar (seq 0 n)) v).
    { intros v. rewrite pattern_acts. destruct (Nat.ltb_spec v n) as [Lt|Ge].
      - rewrite (getz_ab a b n v La). reflexivity.
      - rewrite getz_overflow by (rewrite app_length, La, Lb; lia). reflexivity. }
    unfold cells_connected, board in Rconn.
    rewrite (connected_b_ext _ _ _ (grid_wf h w) Hpat) in Rconn.
    destruct (compose_complete h w st0 st1 Hp en0 Rconn) as [rank [root Hsp]]. cbv zeta in Hsp. fold n in Hsp.
    set (en := splice_avc n en0 rank root) in *. destruct Hsp as [Hrk Hce].
    assert (Hhas : forall y x, y < h -> x < w -> has (y, x) = eb en (cidx w (y, x))).
    { intros y x Hy Hx. unfold has, en. rewrite splice_eb_low by (apply Hcell; assumption).
      rewrite <- Nat.add_assoc. rewrite (getz_ab a b n _ La). reflexivity. }
    assert (Hnum : forall y x, y < h -> x < w -> num (y, x) = ei en (3 * n + cidx w (y, x))).
    { intros y x Hy Hx. unfold num, en, at2. change (y * w + x) with (cidx w (y, x)).
      rewrite splice_ei_high by lia. unfold en0. rewrite env0_num by (apply Hcell; assumption).
      apply getz_app1. rewrite La. apply Hcell; assumption. }
    assert (Hdm : forall j, j < n -> j / w < h /\ j mod w < w).
    { intros j Hj. split; [apply Nat.div_lt_upper_bound; [lia|]; unfold n in Hj; lia|apply Nat.mod_upper_bound; lia]. }
    assert (HU : forall y x, y < h -> x < w -> ei en (4 * n + cidx w (y, x)) = Z.of_nat (run_up has y x)).
    { intros y x Hy Hx. unfold en. rewrite splice_ei_high by lia. unfold en0.
      rewrite env0_up by (apply Hcell; assumption). unfold U. rewrite cidx_div, cidx_mod by exact Hx. reflexivity. }
    assert (HD : forall y x, y < h -> x < w -> ei en (5 * n + cidx w (y, x)) = Z.of_nat (run_down h has y x)).
    { intros y x Hy Hx. unfold en. rewrite splice_ei_high by lia. unfold en0.
      rewrite env0_down by (apply Hcell; assumption). unfold D. rewrite cidx_div, cidx_mod by exact Hx. reflexivity. }
    assert (HL : forall y x, y < h -> x < w -> ei en (6 * n + cidx w (y, x)) = Z.of_nat (run_left has y x)).
    { intros y x Hy Hx. unfold en. rewrite splice_ei_high by lia. unfold en0.
      rewrite env0_left by (apply Hcell; assumption). unfold L. rewrite cidx_div, cidx_mod by exact Hx. reflexivity. }
    assert (HR : forall y x, y < h -> x < w -> ei en (7 * n + cidx w (y, x)) = Z.of_nat (run_right w has y x)).
    { intros y x Hy Hx. unfold en. rewrite splice_ei_high by lia. unfold en0.
      rewrite env0_right by (apply Hcell; assumption). unfold R. rewrite cidx_div, cidx_mod by exact Hx. reflexivity. }
    exists en. split.
    + apply CM. fold n. split; [exact Hrk|]. split; [exact Hce|]. split.
      * apply Hbnd. repeat split.
        -- unfold en. rewrite splice_ei_high by lia. unfold en0. rewrite env0_num by assumption.
           rewrite forallb_forall in Rrng. specialize (Rrng (getz a j) ltac:(apply nth_In; lia)).
           apply andb_true_iff in Rrng. destruct Rrng as [R1 _]. apply Z.leb_le in R1. exact R1.
        -- unfold en. rewrite splice_ei_high by lia. unfold en0. rewrite env0_num by assumption.
           rewrite forallb_forall in Rrng. specialize (Rrng (getz a j) ltac:(apply nth_In; lia)).
           apply andb_true_iff in Rrng. destruct Rrng as [_ R2]. apply Z.leb_le in R2. exact R2.
        -- unfold en. rewrite splice_ei_high by lia. unfold en0. rewrite env0_up by assumption. unfold U. lia.
        -- unfold en. rewrite splice_ei_high by lia. unfold en0. rewrite env0_up by assumption. unfold U.
           destruct (Hdm j ltac:(assumption)). pose proof (run_up_le has (j / w) (j mod w)). lia.
        -- unfold en. rewrite splice_ei_high by lia. unfold en0. rewrite env0_down by assumption. unfold D. lia.
        -- unfold en. rewrite splice_ei_high by lia. unfold en0. rewrite env0_down by assumption. unfold D.
           destruct (Hdm j ltac:(assumption)). pose proof (run_down_le h has (j / w) (j mod w)). lia.
        -- unfold en. rewrite splice_ei_high by lia. unfold en0. rewrite env0_left by assumption. unfold L. lia.
        -- unfold en. rewrite splice_ei_high by lia. unfold en0. rewrite env0_left by assumption. unfold L.
           destruct (Hdm j ltac:(assumption)). pose proof (run_left_le has (j / w) (j mod w)). lia.
        -- unfold en. rewrite splice_ei_high by lia. unfold en0. rewrite env0_right by assumption. unfold R. lia.
        -- unfold en. rewrite splice_ei_high by lia. unfold en0. rewrite env0_right by assumption. unfold R.
           destruct (Hdm j ltac:(assumption)). pose proof (run_right_le w has (j / w) (j mod w)). lia.
      * apply Hext. split; [|split; [|split; [|split]]].
        -- apply (view_up_sem gsem_avc en h w has Hhas Hh). exact HU.
        -- apply (view_down_sem gsem_avc en h w has Hhas Hh). exact HD.
        -- apply (view_left_sem gsem_avc en h w has Hhas Hw). exact HL.
        -- apply (view_right_sem gsem_avc en h w has Hhas Hw). exact HR.
        -- apply (view_local_sem gsem_avc en h w has Hhas num Hnum grid HU HD HL HR). exact Rcell.
    + rewrite Hreads. f_equal.
      * rewrite <- (map_getz_seq a) at 1. rewrite La. apply map_ext_in. intros j Hj. apply in_seq in Hj.
        unfold en. rewrite splice_ei_high by lia. unfold en0. apply env0_num. lia.
      * rewrite <- (map_getz_seq b) at 1. rewrite Lb. apply map_ext_in. intros j Hj. apply in_seq in Hj.
        unfold en. rewrite splice_eb_low by lia. cbn [eb en0 view_env0]. apply isb_is01.
        rewrite forallb_forall in R01. apply R01. apply nth_In. lia.
Qed.

(* the premise is satisfiable: the model succeeds on every board with at least one cell, e.g. 2 x 3 *)
Example view_model_ok : exists st, solve_view_model [[2; 3]; [-1; 2; -1; 0; -1; 7]]%Z = Ok st.
Proof. vm_compute. eexists. reflexivity. Qed.
