(* C09 level E: the program posted by post_acyclic in closed form, and the
   evaluation of its constraints as the certificate checker. *)
From Coq Require Import ZArith List Bool Arith Lia.
From Cspuz Require Import Lib.PyErr Core.Expr Core.Program Core.Build
  Graph.GraphModel Graph.Acyclic Graph.AcyclicGraphFacts.
Import ListNotations.
Local Open Scope nat_scope.

(* ------------------------------------------------------------------ int_vars *)

Lemma int_vars_spec n lo hi : forall st,
  int_vars st n lo hi =
  ({| vars := vars st ++ repeat (DInt lo hi) n;
      keys := keys st ++ repeat false n;
      cons := cons st |},
   map (fun i => IVar (next_id st + i) lo hi) (seq 0 n)).
Proof.
  induction n as [|n IH]; intros st; simpl.
  - rewrite !app_nil_r. destruct st; reflexivity.
  - rewrite IH. simpl. unfold next_id. simpl. rewrite app_length. simpl.
    rewrite <- !app_assoc. simpl. f_equal.
    f_equal; [f_equal; lia|].
    rewrite <- seq_shift, map_map. apply map_ext. intros a. f_equal. lia.
Qed.

Definition ensure_all (st : state) (l : list expr) : state :=
  {| vars := vars st; keys := keys st; cons := cons st ++ l |}.

Lemma ensure_then_all st l1 l2 : ensure_all (ensure st l1) l2 = ensure_all st (l1 ++ l2).
Proof. unfold ensure_all, ensure. simpl. rewrite app_assoc. reflexivity. Qed.

Lemma ensure_all_app st l1 l2 : ensure_all (ensure_all st l1) l2 = ensure_all st (l1 ++ l2).
Proof. unfold ensure_all. simpl. rewrite app_assoc. reflexivity. Qed.

Lemma ensure_all_nil st : ensure_all st [] = st.
Proof. unfold ensure_all. rewrite app_nil_r. destruct st; reflexivity. Qed.

(* ------------------------------------------------------------------ count_true *)

Definition is_bnode (e : expr) : bool := match e with BNode _ _ => true | _ => false end.

Definition count_expr (l : list expr) : expr :=
  match l with
  | [] => INode INT_CONSTANT [PyInt 0]
  | _ => INode ADD (map (fun x => i_cond x (PyInt 1) (PyInt 0)) l)
  end.

Lemma count_true_go_bnodes l : forall ops c,
  forallb is_bnode l = true ->
  count_true_go l ops c = Ok (ops ++ map (fun x => i_cond x (PyInt 1) (PyInt 0)) l, c).
Proof.
  induction l as [|x l IH]; intros ops c H; simpl.
  - rewrite app_nil_r. reflexivity.
  - simpl in H. apply andb_true_iff in H. destruct H as [Hx Hl].
    destruct x; try discriminate. rewrite IH by exact Hl. rewrite <- app_assoc. reflexivity.
Qed.

Lemma count_true_bnodes l : forallb is_bnode l = true -> count_true l = Ok (count_expr l).
Proof.
  intros H. unfold count_true. rewrite count_true_go_bnodes by exact H. simpl.
  destruct l; reflexivity.
Qed.

(* ------------------------------------------------------------------ closed form *)

Section Closed.
  Variable st : state.
  Variable flags : list expr.
  Variable g : graph.
  Let n := nv g.
  Let k0 := next_id st.
  Let hi := (Z.of_nat n - 1)%Z.

  Definition rk (j : nat) : expr := IVar (k0 + j) 0 hi.
  Definition fl (e : nat) : expr := nth e flags PyNone.
  Definition ranks_list : list expr := map rk (seq 0 n).

  Definition ne_list (i : nat) (inc : list (nat * nat)) : list expr :=
    flat_map (fun '(j, _) => if Nat.ltb i j then [i_ne (rk i) (rk j)] else []) inc.
  Definition less_list (i : nat) (inc : list (nat * nat)) : list expr :=
    map (fun '(j, e) => b_and (i_lt (rk j) (rk i)) (fl e)) inc.
  Definition vertex_cons (i : nat) : list expr :=
    ne_list i (incident g i) ++ [i_le (count_expr (less_list i (incident g i))) (PyInt 1)].
  Definition new_vars : list vdecl := repeat (DInt 0 hi) n.
  Definition new_cons : list expr := flat_map vertex_cons (seq 0 n).

  Hypothesis Hwf : wf_graph g = true.
  Hypothesis Hflags : forall e, e < length (edges g) ->
    exists f, nth_error flags e = Some f /\ is_bool_expr_like f = true.

  Lemma ranks_get j : j < n -> py_get ranks_list j = Ok (rk j).
  Proof.
    intros H. unfold py_get, ranks_list.
    rewrite (map_nth_error rk j (seq 0 n) (d := j)); [reflexivity|].
    rewrite (nth_error_nth' _ 0) by (rewrite seq_length; exact H).
    rewrite seq_nth by exact H. reflexivity.
  Qed.

  Lemma flags_get e : e < length (edges g) ->
    py_get flags e = Ok (fl e) /\ is_bool_expr_like (fl e) = true.
  Proof.
    intros H. destruct (Hflags e H) as [f [Hn Hb]]. unfold py_get, fl. rewrite Hn.
    rewrite (nth_error_nth _ _ _ Hn). auto.
  Qed.

  Lemma edge_loop_closed i : i < n -> forall inc s less,
    (forall j e, In (j, e) inc -> j < n /\ e < length (edges g)) ->
    acy_edge_loop s ranks_list flags i inc less =
    Ok (ensure_all s (ne_list i inc), less ++ less_list i inc).
  Proof.
    intros Hi. induction inc as [|[j e] inc IH]; intros s less Hin; simpl.
    - rewrite ensure_all_nil, app_nil_r. reflexivity.
    - destruct (Hin j e (or_introl eq_refl)) as [Hj He].
      rewrite (ranks_get j Hj), (ranks_get i Hi). simpl.
      destruct (flags_get e He) as [Hg Hb]. rewrite Hg. simpl.
      unfold make_bool_expr. simpl. rewrite Hb. simpl.
      rewrite IH by (intros j' e' H'; apply Hin; right; exact H').
      rewrite <- app_assoc. simpl.
      destruct (Nat.ltb i j); simpl.
      + rewrite ensure_then_all. reflexivity.
      + reflexivity.
  Qed.

  Lemma less_list_bnodes i inc : forallb is_bnode (less_list i inc) = true.
  Proof. induction inc as [|[j e] inc IH]; simpl; auto. Qed.

  Lemma incident_bounds i j e : In (j, e) (incident g i) -> j < n /\ e < length (edges g).
  Proof.
    intros H. split; [apply (incident_lt _ _ _ _ Hwf H)|].
    apply in_incident in H. destruct H as [H|H]; apply nth_error_Some; congruence.
  Qed.

  Lemma vertex_loop_closed vs : forall s, (forall i, In i vs -> i < n) ->
    acy_vertex_loop s ranks_list flags g vs = Ok (ensure_all s (flat_map vertex_cons vs)).
  Proof.
    induction vs as [|i vs IH]; intros s Hvs; simpl.
    - rewrite ensure_all_nil. reflexivity.
    - rewrite (edge_loop_closed i (Hvs i (or_introl eq_refl)) (incident g i) s [])
        by (apply incident_bounds).
      simpl. rewrite count_true_bnodes by apply less_list_bnodes. simpl.
      rewrite IH by (intros i' H'; apply Hvs; right; exact H').
      rewrite ensure_then_all, !ensure_all_app. unfold vertex_cons. rewrite <- app_assoc. reflexivity.
  Qed.

  Hypothesis Hn : 1 <= n.

  Definition posted_state : state :=
    {| vars := vars st ++ new_vars; keys := keys st ++ repeat false n; cons := cons st ++ new_cons |}.

  Theorem post_acyclic_closed : post_acyclic st flags g = Ok posted_state.
  Proof.
    unfold post_acyclic, int_array. fold n.
    assert (E : (Z.of_nat n - 1 <? 0)%Z = false) by (apply Z.ltb_ge; lia).
    rewrite E. simpl. rewrite int_vars_spec. simpl.
    fold k0. fold hi. change (map (fun i => IVar (k0 + i) 0 hi) (seq 0 n)) with ranks_list.
    rewrite vertex_loop_closed by (intros i Hi; apply in_seq in Hi; lia).
    reflexivity.
  Qed.
End Closed.

(* ------------------------------------------------------------------ evaluation *)

Lemma all_some_map_some {A B} (f : A -> B) (l : list A) :
  all_some (map (fun x => Some (f x)) l) = Some (map f l).
Proof. induction l as [|a l IH]; simpl; [reflexivity|]. rewrite IH. reflexivity. Qed.

Lemma as_ints_VI (zs : list Z) : as_ints (map VI zs) = Some zs.
Proof. induction zs as [|z zs IH]; simpl; [reflexivity|]. rewrite IH. reflexivity. Qed.

Lemma zsum_bools (bs : list bool) :
  zsum (map (fun b : bool => if b then 1%Z else 0%Z) bs) = Z.of_nat (count_b bs).
Proof.
  unfold count_b. induction bs as [|b bs IH]; simpl; [reflexivity|].
  unfold zsum in *. simpl. rewrite IH. destruct b; simpl length; lia.
Qed.

Lemma holds_VB gsem en e b : eval gsem en e = Some (VB b) -> holds gsem en e = b.
Proof. unfold holds. intros ->. destruct b; reflexivity. Qed.

Lemma forallb_map_comp {A B} (f : B -> bool) (h : A -> B) l :
  forallb f (map h l) = forallb (fun x => f (h x)) l.
Proof. induction l as [|a l IH]; simpl; [reflexivity|]. rewrite IH. reflexivity. Qed.

Lemma forallb_ext_eq {A} (f h : A -> bool) l : (forall x, f x = h x) -> forallb f l = forallb h l.
Proof. intros H. induction l as [|a l IH]; simpl; [reflexivity|]. rewrite H, IH. reflexivity. Qed.

Lemma eval_add_ints gsem en ops zs : ops <> [] ->
  map (eval gsem en) ops = map (fun z => Some (VI z)) zs ->
  eval gsem en (INode ADD ops) = Some (VI (zsum zs)).
Proof.
  intros Hne H. change (eval gsem en (INode ADD ops)) with (eval_iop ADD (map (eval gsem en) ops)).
  rewrite H. unfold eval_iop. rewrite (all_some_map_some VI).
  destruct zs as [|z zs]; [destruct ops; [congruence|discriminate]|].
  simpl. rewrite as_ints_VI. reflexivity.
Qed.

Section Eval.
  Variable gsem : op -> list (option value) -> option bool.
  Variable st : state.
  Variable flags : list expr.
  Variable g : graph.
  Variable A : nat -> bool.
  Variable en : env.
  Let n := nv g.
  Let k0 := next_id st.
  Let r (j : nat) : Z := ei en (k0 + j).

  Hypothesis Hwf : wf_graph g = true.
  Hypothesis Hden : forall e, e < length (edges g) ->
    eval gsem en (fl flags e) = Some (VB (A e)).

  Lemma holds_ne i j : holds gsem en (i_ne (rk st g i) (rk st g j)) = negb (Z.eqb (r i) (r j)).
  Proof. apply holds_VB. reflexivity. Qed.

  Lemma ne_list_eval i inc :
    forallb (holds gsem en) (ne_list st g i inc) =
    forallb (fun '(j, _) => implb (Nat.ltb i j) (negb (Z.eqb (r i) (r j)))) inc.
  Proof.
    induction inc as [|[j e] inc IH]; simpl; [reflexivity|].
    rewrite forallb_app, IH. destruct (Nat.ltb i j); simpl; [|reflexivity].
    rewrite holds_ne, andb_true_r. reflexivity.
  Qed.

  Definition low (i : nat) (x : nat * nat) : bool := let '(j, e) := x in Z.ltb (r j) (r i) && A e.

  Lemma less_eval i inc : (forall j e, In (j, e) inc -> e < length (edges g)) ->
    map (eval gsem en) (map (fun x => i_cond x (PyInt 1) (PyInt 0)) (less_list st flags g i inc)) =
    map (fun x => Some (VI (if low i x then 1 else 0)%Z)) inc.
  Proof.
    induction inc as [|[j e] inc IH]; intros Hin; simpl; [reflexivity|].
    rewrite IH by (intros j' e' H'; apply (Hin j' e'); right; exact H').
    f_equal. rewrite (Hden e (Hin j e (or_introl eq_refl))). simpl.
    fold k0. fold (r j). fold (r i). rewrite andb_true_r. reflexivity.
  Qed.

  Lemma count_eval i inc : (forall j e, In (j, e) inc -> e < length (edges g)) ->
    eval gsem en (count_expr (less_list st flags g i inc)) =
    Some (VI (Z.of_nat (count_b (map (low i) inc)))).
  Proof.
    intros Hin. destruct inc as [|x inc]; [reflexivity|].
    remember (x :: inc) as l eqn:El.
    assert (Hl : less_list st flags g i l <> []) by (subst l; destruct x; discriminate).
    unfold count_expr.
    destruct (less_list st flags g i l) as [|y ys] eqn:Ey; [congruence|]. rewrite <- Ey.
    rewrite (eval_add_ints gsem en _ (map (fun x0 => (if low i x0 then 1 else 0)%Z) l)).
    - rewrite <- (map_map (low i) (fun b : bool => if b then 1%Z else 0%Z)).
      rewrite zsum_bools. reflexivity.
    - rewrite Ey. discriminate.
    - rewrite less_eval by exact Hin. rewrite map_map. reflexivity.
  Qed.

  Lemma incident_edge_bound i j e : In (j, e) (incident g i) -> e < length (edges g).
  Proof.
    intros H. apply in_incident in H. destruct H as [H|H]; apply nth_error_Some; congruence.
  Qed.

  Lemma vertex_cons_eval i :
    forallb (holds gsem en) (vertex_cons st flags g i) = cert_vertex g A r i.
  Proof.
    unfold vertex_cons, cert_vertex. rewrite forallb_app, ne_list_eval. f_equal.
    simpl. rewrite andb_true_r.
    change (fun '(j, e) => (r j <? r i)%Z && A e) with (low i).
    set (c := count_b (map (low i) (incident g i))).
    apply holds_VB. unfold i_le.
    change (eval gsem en (BNode LE [count_expr (less_list st flags g i (incident g i)); PyInt 1]))
      with (eval_bop gsem LE [eval gsem en (count_expr (less_list st flags g i (incident g i))); Some (VI 1)]).
    rewrite count_eval by (apply incident_edge_bound). fold c. simpl. do 2 f_equal.
    destruct (Nat.leb_spec c 1); destruct (Z.leb_spec (Z.of_nat c) 1); try reflexivity; lia.
  Qed.

  Lemma new_cons_eval :
    forallb (holds gsem en) (new_cons st flags g) = cert_acyclic g A r.
  Proof.
    unfold new_cons, cert_acyclic. induction (seq 0 (nv g)) as [|i l IH]; simpl; [reflexivity|].
    rewrite forallb_app, vertex_cons_eval, IH. reflexivity.
  Qed.

End Eval.

Lemma in_bounds_repeat en lo hi0 m : forall k,
  in_bounds_from en k (repeat (DInt lo hi0) m) =
  forallb (fun i => Z.leb lo (ei en (k + i)) && Z.leb (ei en (k + i)) hi0) (seq 0 m).
Proof.
  induction m as [|m IH]; intros k; simpl; [reflexivity|].
  rewrite IH, Nat.add_0_r. f_equal.
  rewrite <- seq_shift, forallb_map_comp. apply forallb_ext_eq. intros i.
  replace (S k + i) with (k + S i) by lia. reflexivity.
Qed.

