(* C11 rule specification - Gokigen Naname (Slant).
   Published rules (Nikoli, "Gokigen Naname"):
     1. Draw a diagonal line in every cell.
     2. A number on a grid point is the number of lines meeting at that point.
     3. The diagonal lines must not form a closed loop.

   problem = [[h; w]; clue]   clue: (h+1)*(w+1) grid points row-major, negative = none
   answer  = h*w cells row-major, 1 = "\" (upper-left to lower-right), 0 = "/" *)
From Coq Require Import ZArith List Bool Arith.
From Cspuz Require Import Graph.GraphModel Puzzle.PuzzleBase.
Import ListNotations.

Definition rules_gokigen (pb : problem) (ans : answer) : bool :=
  let h := dim pb 0 in let w := dim pb 1 in
  let clue := sec pb 1 in
  let Q := S w in
  let back := fun '(y, x) => isb (at2 ans w y x) in
  (* the line actually drawn in each cell, as an edge between grid points *)
  let g := {| nv := S h * Q;
              edges := map (fun '(y, x) => if back (y, x) then (y * Q + x, S y * Q + S x)
                                           else (y * Q + S x, S y * Q + x)) (cells h w) |} in
  Nat.eqb (length ans) (h * w) && forallb is01 ans &&
  edges_acyclic g (fun _ => true) &&
  forallb (fun v => let c := getz clue v in (c <? 0)%Z || (Z.of_nat (degree g (fun _ => true) v) =? c)%Z)
          (seq 0 (S h * Q)).

Definition answers_gokigen (pb : problem) : list answer :=
  all_answers (bool_doms (dim pb 0 * dim pb 1)).
