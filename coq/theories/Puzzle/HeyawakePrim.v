(* C11 Tier 1, native-operator route - heyawake.  The program solve_heyawake posts when
   cspuz.config.use_graph_primitive is on: graph.active_vertices_connected(solver, ~is_black) posts ONE node
   GRAPH_ACTIVE_VERTICES_CONNECTED whose is_active operands are the negated grid variables (model
   Graph/Avc.v::post_avc with prim = true), no auxiliary variable.  active_vertices_not_adjacent has no native form
   (the two shifted-slice conjunctions of Puzzle/Heyawake.v::heyawake_not_adjacent, posted before the call); the room
   clues and the line constraints are heyawake_extra, unchanged.  On a board without cells the call succeeds on this
   route.
   Theorem: same ids, same rules as HeyawakeProofs.heyawake_exact; the meaning of the node is C04's gsem_avc. *)
From Coq Require Import ZArith List Bool Arith Lia.
From Cspuz Require Import Lib.PyErr Core.Expr Core.Program Graph.GraphModel Graph.Avc
     Puzzle.PuzzleBase Puzzle.SatAbs Puzzle.ModelBase Puzzle.ModelLemmas
     Puzzle.Rules_heyawake Puzzle.Heyawake Puzzle.HeyawakeLemmas Puzzle.HeyawakeProofs Puzzle.AvcPrimCompose.
Import ListNotations.
Local Open Scope nat_scope.

Definition solve_heyawake_model_prim (pb : problem) : res state :=
  let h := dim pb 0 in let w := dim pb 1 in
  match post_avc (bool_grid_state (h * w) (heyawake_not_adjacent h w))
                 (map (fun i => BNode NOT [BVar i]) (seq 0 (h * w))) (grid_graph h w) false true with
  | Ok st1 => Ok (ensure st1 (heyawake_extra h w (sec pb 1) (sec pb 2)))
  | Err e => Err e
  end.

Theorem heyawake_exact_prim h w room clue st ans :
  solve_heyawake_model_prim [[Z.of_nat h; Z.of_nat w]; room; clue] = Ok st ->
  ((exists en, model_of gsem_avc en st /\ reads st en (seq 0 (h * w)) = ans)
   <-> rules_heyawake [[Z.of_nat h; Z.of_nat w]; room; clue] ans = true).
Proof.
  unfold solve_heyawake_model_prim. destruct (dims2h h w [room; clue]) as [-> ->].
  change (sec [[Z.of_nat h; Z.of_nat w]; room; clue] 1) with room.
  change (sec [[Z.of_nat h; Z.of_nat w]; room; clue] 2) with clue.
  set (acts := map (fun i => BNode NOT [BVar i]) (seq 0 (h * w))).
  destruct (post_avc (bool_grid_state (h * w) (heyawake_not_adjacent h w)) acts (grid_graph h w) false true)
    as [st1|e] eqn:Hp; [|discriminate].
  intros H. inversion H; subst st; clear H.
  rewrite rules_heyawake_split.
  apply (avc_grid_compose_gen_prim h w (heyawake_not_adjacent h w) (heyawake_extra h w room clue) acts
           (fun a v => negb (isb (getz a v))) (hey_nonadj h w)
           (fun a => hey_clues h w room clue a && hey_lines h w room a) st1 ans Hp).
  - intros en a Ha. unfold acts in Ha. apply in_map_iff in Ha. destruct Ha as [i [<- _]]. eexists. reflexivity.
  - intros en v Hv. unfold pattern, acts.
    rewrite nth_indep with (d' := BNode NOT [BVar 0]) by (rewrite map_length, seq_length; exact Hv).
    rewrite (map_nth (fun i => BNode NOT [BVar i])), seq_nth by exact Hv. simpl Nat.add.
    rewrite getz_map_seq by exact Hv. rewrite b2z_isb.
    unfold holds. simpl. destruct (eb en v); reflexivity.
  - intros en. apply hey_nonadj_core.
  - intros en. unfold heyawake_extra. rewrite forallb_app.
    rewrite (hey_clues_core gsem_avc h w room clue en), (hey_lines_core gsem_avc h w room en). reflexivity.
Qed.

Example heyawake_model_prim_ok :
  exists st, solve_heyawake_model_prim [[2; 3]; [0; 1; 2; 0; 2; 2]; [1; -1; 0]]%Z = Ok st.
Proof. vm_compute. eexists. reflexivity. Qed.
