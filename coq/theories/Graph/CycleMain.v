(* C06 -- the theorems about the non-primitive _active_edges_single_cycle:
   cycle_total, cycle_exact (both directions), cycle_passed. *)
From Coq Require Import ZArith List Bool Arith Lia.
From Cspuz Require Import Lib.PyErr Core.Expr Core.Program Core.Build
  Graph.GraphModel Graph.ReachProofs Graph.Cycle Graph.CycleLemmas Graph.CycleCert Graph.CycleProofs.
Import ListNotations.
Open Scope nat_scope.

Lemma skipn_app_exact {A} (a b : list A) : skipn (length a) (a ++ b) = b.
Proof. induction a as [|x a IH]; simpl; [reflexivity|exact IH]. Qed.

Section Main.
  Variable gsem : op -> list (option value) -> option bool.

  (* the caller's flags: BoolExpr-like values over already declared variables
     that evaluate to a boolean under the caller's assignment *)
  Definition flags_ok (st : state) (en : env) (acts : list expr) : Prop :=
    forall e, In e acts ->
      is_constraint_like e = true /\ max_id e <= next_id st /\ exists b, eval gsem en e = Some (VB b).

  (* what the helper appended to Solver.constraints *)
  Definition new_cons (st st' : state) : list expr := skipn (length (cons st)) (cons st').

  (* en' keeps the caller's variables, respects the declared domains and
     satisfies everything the helper posted *)
  Definition extends_sat (st st' : state) (en en' : env) : Prop :=
    agree_below (next_id st) en en' /\ in_bounds en' st' = true /\
    forallb (holds gsem en') (new_cons st st') = true.

  Lemma pattern_flag st en en' acts k :
    flags_ok st en acts -> agree_below (next_id st) en en' -> k < length acts ->
    eval gsem en' (flag acts k) = Some (VB (pattern gsem en acts k)).
  Proof.
    intros Hf Hag Hk. unfold flag, pattern.
    rewrite (nth_error_nth' acts PyNone Hk).
    destruct (Hf (nth k acts PyNone) (nth_In acts PyNone Hk)) as [_ [Hm [b Hb]]].
    rewrite <- (eval_agree gsem (next_id st) en en' _ Hag Hm), Hb.
    rewrite (holds_of_eval gsem en _ b Hb). reflexivity.
  Qed.

  Lemma flags_cl st en acts : flags_ok st en acts -> forall e, In e acts -> is_constraint_like e = true.
  Proof. intros H e He. destruct (H e He) as [H1 _]. exact H1. Qed.

  Theorem cycle_total st acts g :
    wf_graph g = true -> 1 <= nv g -> length (edges g) <= length acts ->
    (forall e, In e acts -> is_constraint_like e = true) ->
    exists st' passed, post_cycle st acts g false = Ok (st', passed) /\ length passed = nv g.
  Proof.
    intros Hwf Hn Hlen Hcl.
    destruct (post_cycle_enc_shape acts g (next_id st) Hwf Hlen Hcl st eq_refl Hn) as [st' [Hp _]].
    exists st', (passedL g (next_id st)). split; [exact Hp|].
    unfold passedL. rewrite map_length, seq_length. reflexivity.
  Qed.

  (* the assignment built from a certificate *)
  Definition env_of_cert (en : env) (base n : nat) (P : nat -> bool) (r : nat -> Z) (R : nat -> bool) : env :=
    {| eb := fun id => if id <? base then eb en id
                       else if id <? base + n then P (id - base) else R (id - base - n - n);
       ei := fun id => if id <? base then ei en id else r (id - base - n) |}.

  Theorem cycle_exact st acts g en st' passed :
    wf_graph g = true -> 1 <= nv g -> length (edges g) <= length acts ->
    flags_ok st en acts -> in_bounds en st = true ->
    post_cycle st acts g false = Ok (st', passed) ->
    ((exists en', extends_sat st st' en en') <-> single_cycle g (pattern gsem en acts)).
  Proof.
    intros Hwf Hn Hlen Hf Hib Hpost.
    pose proof (flags_cl st en acts Hf) as Hcl.
    destruct (post_cycle_enc_shape acts g (next_id st) Hwf Hlen Hcl st eq_refl Hn) as [st'' [Hp [Hv Hc]]].
    rewrite Hp in Hpost. inversion Hpost; subst st'' passed. clear Hpost.
    assert (Hnc : new_cons st st' = enc_cons acts g (next_id st)).
    { unfold new_cons. rewrite Hc. apply skipn_app_exact. }
    set (A := pattern gsem en acts).
    set (base := next_id st) in *.
    split.
    - intros [en' [Hag [Hb Hs]]]. rewrite Hnc in Hs.
      assert (HA : forall k, k < length (edges g) -> eval gsem en' (flag acts k) = Some (VB (A k))).
      { intros k Hk. apply (pattern_flag st en en' acts k Hf Hag). lia. }
      apply (enc_cons_holds acts g base Hlen Hcl gsem en' A HA) in Hs.
      apply (cert_sound g A Hwf _ _ _ Hs).
      intros i Hi. unfold in_bounds in Hb. rewrite Hv in Hb. unfold new_decls_enc in Hb.
      rewrite !in_bounds_from_app, !andb_true_iff in Hb. destruct Hb as [_ [_ [Hints _]]].
      rewrite in_bounds_from_ints in Hints. specialize (Hints i Hi).
      rewrite repeat_length in Hints. unfold er.
      replace (base + nv g + i) with (0 + length (vars st) + nv g + i) by (unfold base, next_id; lia).
      lia.
    - intros Hsc.
      destruct (cert_complete g A Hwf Hn Hsc) as [P [r [R [Hr Hcert]]]].
      set (en' := env_of_cert en base (nv g) P r R).
      assert (Hag : agree_below base en en').
      { intros i Hi. simpl. apply Nat.ltb_lt in Hi. rewrite Hi. split; reflexivity. }
      exists en'. split; [exact Hag|]. split.
      + unfold in_bounds. rewrite Hv. unfold new_decls_enc.
        rewrite !in_bounds_from_app, !andb_true_iff. split; [|split; [|split]].
        * rewrite <- Hib. unfold in_bounds. symmetry. apply in_bounds_from_agree.
          intros k Hk. destruct (Hag k) as [_ H]; [unfold base, next_id; lia|exact H].
        * apply in_bounds_from_bools.
        * apply in_bounds_from_ints. intros k Hk. rewrite repeat_length.
          assert (E : ei en' (0 + length (vars st) + nv g + k) = r k).
          { unfold en', env_of_cert. cbn [ei].
            destruct (Nat.ltb_spec (0 + length (vars st) + nv g + k) base) as [H|H];
              [unfold base, next_id in H; lia|].
            f_equal. unfold base, next_id. lia. }
          rewrite E.
          unfold hiZ. apply Hr.
        * apply in_bounds_from_bools.
      + rewrite Hnc.
        assert (HA : forall k, k < length (edges g) -> eval gsem en' (flag acts k) = Some (VB (A k))).
        { intros k Hk. apply (pattern_flag st en en' acts k Hf Hag). lia. }
        apply (enc_cons_holds acts g base Hlen Hcl gsem en' A HA).
        apply (cert_ext g A Hwf P r R); [|exact Hcert].
        intros i Hi. unfold eP, er, eR, en', env_of_cert. cbn [eb ei].
        replace (base + i <? base) with false by (symmetry; apply Nat.ltb_ge; lia).
        replace (base + i <? base + nv g) with true by (symmetry; apply Nat.ltb_lt; lia).
        replace (base + nv g + i <? base) with false by (symmetry; apply Nat.ltb_ge; lia).
        replace (base + nv g + nv g + i <? base) with false by (symmetry; apply Nat.ltb_ge; lia).
        replace (base + nv g + nv g + i <? base + nv g) with false by (symmetry; apply Nat.ltb_ge; lia).
        replace (base + i - base) with i by lia.
        replace (base + nv g + i - base - nv g) with i by lia.
        replace (base + nv g + nv g + i - base - nv g - nv g) with i by lia.
        auto.
  Qed.

  (* in EVERY satisfying extension the returned array is the set of visited vertices *)
  Theorem cycle_passed st acts g en st' passed en' :
    wf_graph g = true -> 1 <= nv g -> length (edges g) <= length acts ->
    flags_ok st en acts ->
    post_cycle st acts g false = Ok (st', passed) ->
    extends_sat st st' en en' ->
    length passed = nv g /\
    forall i, i < nv g ->
      exists p, nth_error passed i = Some p /\
                holds gsem en' p = visited g (pattern gsem en acts) i.
  Proof.
    intros Hwf Hn Hlen Hf Hpost [Hag [Hb Hs]].
    pose proof (flags_cl st en acts Hf) as Hcl.
    destruct (post_cycle_enc_shape acts g (next_id st) Hwf Hlen Hcl st eq_refl Hn) as [st'' [Hp [Hv Hc]]].
    rewrite Hp in Hpost. inversion Hpost; subst st'' passed. clear Hpost.
    assert (Hnc : new_cons st st' = enc_cons acts g (next_id st)).
    { unfold new_cons. rewrite Hc. apply skipn_app_exact. }
    rewrite Hnc in Hs.
    set (A := pattern gsem en acts).
    assert (HA : forall k, k < length (edges g) -> eval gsem en' (flag acts k) = Some (VB (A k))).
    { intros k Hk. apply (pattern_flag st en en' acts k Hf Hag). lia. }
    apply (enc_cons_holds acts g (next_id st) Hlen Hcl gsem en' A HA) in Hs.
    split; [unfold passedL; rewrite map_length, seq_length; reflexivity|].
    intros i Hi. exists (pv (next_id st) i). split.
    - unfold passedL. apply nth_error_map_seq. exact Hi.
    - rewrite <- (cert_passed g A _ _ _ Hs i Hi). apply holds_of_eval. reflexivity.
  Qed.
End Main.
