(* C11 rule specification - Creek.
   Published rules (puzz.link, "Creek"):
     1. Shade some cells.
     2. A number on a grid point is the number of shaded cells among the (up to
        four) cells touching that point.
     3. All unshaded cells form one orthogonally connected area.

   problem = [[h; w]; clue]   clue: (h+1)*(w+1) grid points row-major, negative = none
   answer  = h*w cells row-major, 1 = unshaded (white) *)
From Coq Require Import ZArith List Bool Arith.
From Cspuz Require Import Graph.GraphModel Puzzle.PuzzleBase.
Import ListNotations.

Definition rules_creek (pb : problem) (ans : answer) : bool :=
  let h := dim pb 0 in let w := dim pb 1 in
  let clue := sec pb 1 in
  let shaded := fun '(y, x) => negb (isb (at2 ans w y x)) in
  Nat.eqb (length ans) (h * w) && forallb is01 ans &&
  cells_connected h w (fun v => isb (getz ans v)) &&
  forallb (fun '(py, px) =>
     let c := at2 clue (S w) py px in
     (c <? 0)%Z ||
     (* the cells touching point (py, px): (py-1|py, px-1|px) inside the board *)
     (zcount shaded (filter (fun '(y, x) =>
          (Nat.eqb (S y) py || Nat.eqb y py) && (Nat.eqb (S x) px || Nat.eqb x px)) (cells h w)) =? c)%Z)
     (cells (S h) (S w)).

Definition answers_creek (pb : problem) : list answer :=
  all_answers (bool_doms (dim pb 0 * dim pb 1)).
