(* C11 Tier 1, native-operator route - fillomino.  solve_fillomino (checkered=False) makes ONE call into cspuz.graph,
       graph.division_connected_variable_groups_with_borders(solver, group_size=size, is_border=border),
   without a use_graph_primitive argument, so _division_connected_variable_groups_with_borders reads
   config.use_graph_division_primitive (NOT config.use_graph_primitive).  With that flag on (default of the
   csugar / enigma_csp / cspuz_core backends) the helper declares nothing and posts ONE node Op.GRAPH_DIVISION with
   operands [h*w; #edges] ++ size ++ edge ends ++ border items (Graph/VarGroups.v::gdiv_operands); no group_id / rank /
   is_root / is_active_edge / downstream_size / total_size variables.
   solve_fillomino_model_prim is Fillomino.v::solve_fillomino_model with that flag on; everything else the module
   posts (Fillomino.v::fl_constraints) is unchanged.  The answer keys are the size variables, ids 0 .. h*w-1, as on the
   auxiliary route; the border variables (ids h*w .. h*w + (h-1)*w + h*(w-1) - 1) are the only other variables.
   Error points: as on the auxiliary route (ValueError in int_array on a board without cells, IndexError in the clue
   loop for a short clue list).
   The theorem: fillomino_exact_prim - same statement as FillominoProofs.fillomino_exact with gsem = graph_sem (the
   specification of the native node, Graph/VarGroups.v).  Proof: the module's local lemmas of FillominoProofs.v
   (fl_constraints_sem, fl_local_ext, fl_rules_iff_borders) + BordersPrimCompose.borders_grid_compose_prim (C07's
   closed theorems of this route: vargroups_with_borders_primitive, vargroups_primitive_exact). *)
From Coq Require Import ZArith List Bool Arith Lia.
From Cspuz Require Import Lib.PyErr Core.Expr Core.Program Graph.GraphModel Graph.ReachProofs Graph.AvcProofs
     Graph.VarGroups Graph.VarGroupsEval Graph.VarGroupsBorders Graph.VarGroupsFrame Graph.VarGroupsPrim
     Puzzle.PuzzleBase Puzzle.SatAbs Puzzle.ModelBase Puzzle.ModelLemmas Puzzle.CreekProofs
     Puzzle.BordersCompose Puzzle.BordersPrimCompose Puzzle.Rules_fillomino Puzzle.Fillomino Puzzle.FillominoProofs.
Import ListNotations.
Local Open Scope nat_scope.

(* Fillomino.v::solve_fillomino_model with config.use_graph_division_primitive on (last argument of the helper;
   its use_graph_primitive argument stays None) *)
Definition solve_fillomino_model_prim (pb : problem) : res state :=
  let h := dim pb 0 in let w := dim pb 1 in let given := sec pb 1 in
  let n := h * w in
  match int_array empty_state n 1 (Z.of_nat n) with
  | Err e => Err e
  | Ok (st0, size) =>
      (* add_answer_key(size) *)
      let st0k := {| vars := vars st0; keys := repeat true n; cons := cons st0 |} in
      let '(st1, hor) := bool_array st0k ((h - 1) * w) in
      let '(st2, ver) := bool_array st1 (h * (w - 1)) in
      match division_connected_variable_groups_with_borders st2 (GArr2 h w size)
              (BFrame {| fh := h; fw := w; fhor := hor; fver := ver |}) None None true with
      | Err e => Err e
      | Ok st3 =>
          if Nat.ltb (length given) n then Err IndexError
          else Ok (ensure st3 (fl_constraints h w given))
      end
  end.

Theorem fillomino_exact_prim h w given st ans :
  solve_fillomino_model_prim [[Z.of_nat h; Z.of_nat w]; given] = Ok st ->
  ((exists en, model_of graph_sem en st /\ reads st en (seq 0 (h * w)) = ans)
   <-> rules_fillomino [[Z.of_nat h; Z.of_nat w]; given] ans = true).
Proof.
  unfold solve_fillomino_model_prim. destruct (dims2c h w [given]) as [-> ->].
  change (sec [[Z.of_nat h; Z.of_nat w]; given] 1) with given.
  destruct (int_array empty_state (h * w) 1 (Z.of_nat (h * w))) as [[st0 size]|e] eqn:Hdecl; [|discriminate].
  destruct (bool_array _ ((h - 1) * w)) as [st1 hor] eqn:Hhor.
  destruct (bool_array st1 (h * (w - 1))) as [st2 ver] eqn:Hver.
  destruct (division_connected_variable_groups_with_borders _ _ _ _ _ _) as [st3|e] eqn:Hcall; [|discriminate].
  destruct (Nat.ltb (length given) (h * w)); [discriminate|].
  intros H. inversion H; subst st; clear H.
  pose proof (borders_grid_compose_prim h w 1 (Z.of_nat (h * w)) st0 size st1 hor st2 ver st3 Hdecl Hhor Hver Hcall
                (fl_constraints h w given) (fl_local h w given)
                (fl_constraints_sem graph_sem h w given) (fl_local_ext h w given) ans) as HC.
  unfold borders_final_state in HC. rewrite HC. clear HC.
  symmetry. apply fl_rules_iff_borders.
Qed.

(* the answer keys are the size variables, declared first *)
Lemma fillomino_keys_prim h w given st :
  solve_fillomino_model_prim [[Z.of_nat h; Z.of_nat w]; given] = Ok st ->
  keys st = repeat true (h * w) ++ repeat false (n_borders h w).
Proof.
  unfold solve_fillomino_model_prim. destruct (dims2c h w [given]) as [-> ->].
  change (sec [[Z.of_nat h; Z.of_nat w]; given] 1) with given.
  destruct (int_array empty_state (h * w) 1 (Z.of_nat (h * w))) as [[st0 size]|e] eqn:Hdecl; [|discriminate].
  destruct (bool_array _ ((h - 1) * w)) as [st1 hor] eqn:Hhor.
  destruct (bool_array st1 (h * (w - 1))) as [st2 ver] eqn:Hver.
  destruct (division_connected_variable_groups_with_borders _ _ _ _ _ _) as [st3|e] eqn:Hcall; [|discriminate].
  destruct (Nat.ltb (length given) (h * w)); [discriminate|].
  intros H. inversion H; subst st; clear H.
  rewrite (pbc_st3 h w 1 (Z.of_nat (h * w)) st0 size st1 hor st2 ver st3 Hdecl Hhor Hver Hcall).
  cbn [keys ensure].
  rewrite (proj1 (bc_ver h w 1 (Z.of_nat (h * w)) st0 size st1 hor st2 ver Hdecl Hhor Hver)),
          (proj1 (bc_hor h w 1 (Z.of_nat (h * w)) st0 size st1 hor Hdecl Hhor)).
  cbn [keys add_decls]. rewrite !repeat_length, <- app_assoc, <- repeat_app. reflexivity.
Qed.

(* the model is defined (returns a state) exactly on the boards with at least one cell and a full clue list, as on
   the auxiliary route *)
Theorem fillomino_model_prim_defined h w given :
  (exists st, solve_fillomino_model_prim [[Z.of_nat h; Z.of_nat w]; given] = Ok st) <-> (0 < h * w <= length given).
Proof.
  unfold solve_fillomino_model_prim. destruct (dims2c h w [given]) as [-> ->].
  change (sec [[Z.of_nat h; Z.of_nat w]; given] 1) with given.
  destruct (int_array empty_state (h * w) 1 (Z.of_nat (h * w))) as [[st0 size]|e] eqn:Hdecl.
  2:{ unfold int_array in Hdecl. destruct (Z.ltb_spec (Z.of_nat (h * w)) 1) as [Hlt|Hge]; [|discriminate].
      split; [intros [st Hst]; discriminate|lia]. }
  assert (Hn : 1 <= h * w).
  { unfold int_array in Hdecl. destruct (Z.ltb_spec (Z.of_nat (h * w)) 1) as [Hlt|Hge]; [discriminate|lia]. }
  destruct (bool_array _ ((h - 1) * w)) as [st1 hor] eqn:Hhor.
  destruct (bool_array st1 (h * (w - 1))) as [st2 ver] eqn:Hver.
  rewrite (bc_frame h w 1 (Z.of_nat (h * w)) st0 size st1 hor st2 ver Hdecl Hhor Hver).
  rewrite with_borders_frame_form.
  rewrite post_with_borders_primitive.
  - destruct (Nat.ltb_spec (length given) (h * w)) as [Hl|Hl].
    + split; [intros [st Hst]; discriminate|lia].
    + split; [lia|]. intros _. eexists; reflexivity.
  - exact (bc_size_len h w 1 (Z.of_nat (h * w)) st0 size Hdecl).
  - exact (bc_bd_len h w).
Qed.

Example fillomino_model_prim_ok :
  exists st, solve_fillomino_model_prim [[2; 3]; [0; 3; 0; 0; 0; 1]]%Z = Ok st.
Proof. apply (fillomino_model_prim_defined 2 3). simpl. lia. Qed.
