(* C11 rule specification - Sudoku.
   Published rules (Nikoli, "Sudoku"):
     1. Place a number from 1 to 9 in each empty cell.
     2. Each row, column, and 3x3 block bounded by bold lines (nine blocks) must
        contain all the numbers from 1 to 9.
   Generalised as the module does (parameter n, board n*n x n*n, numbers 1..n*n,
   blocks n x n).  A given number stays where it is.

   problem = [[n]; clues]   clues: n^2*n^2 cells row-major, value >= 1 is a given, anything else is empty
   answer  = the n^2*n^2 numbers row-major *)
From Coq Require Import ZArith List Bool Arith.
From Cspuz Require Import Puzzle.PuzzleBase.
Import ListNotations.

Definition rules_sudoku (pb : problem) (ans : answer) : bool :=
  let n := dim pb 0 in
  let size := n * n in
  let clues := sec pb 1 in
  Nat.eqb (length ans) (size * size) &&
  forallb (fun v => ((1 <=? v) && (v <=? Z.of_nat size))%Z) ans &&
  forallb (fun y => zdistinct (map (fun x => at2 ans size y x) (seq 0 size))) (seq 0 size) &&
  forallb (fun x => zdistinct (map (fun y => at2 ans size y x) (seq 0 size))) (seq 0 size) &&
  forallb (fun '(by_, bx) =>
             zdistinct (map (fun '(dy, dx) => at2 ans size (by_ * n + dy) (bx * n + dx)) (cells n n)))
          (cells n n) &&
  forallb (fun i => let c := getz clues i in (c <? 1)%Z || (getz ans i =? c)%Z) (seq 0 (size * size)).

(* candidate grids for enumeration: every row is an arrangement of 1..size
   without repetition (rule 2 for rows makes every rule-obeying grid such a
   grid); used only to keep the enumeration finite in practice *)
Fixpoint insert_everywhere (a : Z) (l : list Z) : list (list Z) :=
  match l with
  | [] => [[a]]
  | b :: r => (a :: l) :: map (cons b) (insert_everywhere a r)
  end.
Fixpoint perms (l : list Z) : list (list Z) :=
  match l with [] => [[]] | a :: r => flat_map (insert_everywhere a) (perms r) end.
Definition answers_sudoku (pb : problem) : list answer :=
  let size := dim pb 0 * dim pb 0 in
  rows_product (perms (zrange 1 (Z.of_nat size))) size.
