(* The independent pzpr decoder decodeArrowNumber16 (Codec/Pzpr.v, arrow16) reads the body that
   yajilin's term Grid(OneOf(YajilinClue(), Spaces("..", "a"))) writes back as the same board:
   for every board of the domain (".." / "??" / arrow + number 0..4095), all sizes. *)
From Coq Require Import ZArith List Ascii Bool NArith Lia.
From Cspuz Require Import Lib.PyErr Codec.Comb Codec.CombWf Codec.CombBasics Codec.CombLeaf Codec.CombRoundTrip
  Codec.Legacy Codec.LegacyProofs Codec.LegacyEq Codec.Pzpr Codec.PzprProofs Codec.Url Codec.Yajilin Codec.Puzzles
  Codec.PuzzleProofs Codec.YajilinProofs.
Import ListNotations.
Local Open Scope Z_scope.

(* ------------------------------------------------------------------ characters as the pzpr side sees them *)
Lemma dch_pzpr d : 1 <= d <= 4 ->
  between "0" "4" (dch d) = true /\ code (dch d) - 48 = d /\
  between "0" "4" (dch (d + 5)) = false /\ between "5" "9" (dch (d + 5)) = true /\ code (dch (d + 5)) - 48 - 5 = d.
Proof.
  intros H. assert (Hd : d = 1 \/ d = 2 \/ d = 3 \/ d = 4) by lia.
  destruct Hd as [-> | [-> | [-> | ->]]]; vm_compute; repeat split; reflexivity.
Qed.

Lemma clean16_not_dot ch : cleanb 16 ch = true -> is_ch "." ch = false.
Proof.
  revert ch.
  assert (H : forall ch, (negb (cleanb 16 ch) || negb (is_ch "." ch)) = true).
  { apply forall_chars. vm_compute. reflexivity. }
  intros ch Hc. specialize (H ch). rewrite Hc in H. simpl in H. apply negb_true_iff in H. exact H.
Qed.

Lemma letter_pzpr v : 10 <= v < 36 ->
  between "0" "4" (base36_char v) = false /\ between "5" "9" (base36_char v) = false /\
  is_ch "-" (base36_char v) = false /\ between "a" "z" (base36_char v) = true /\
  code (base36_char v) - 87 - 10 = v - 10.
Proof.
  intros H.
  assert (A : forallb (fun v => let ch := base36_char v in
              negb (between "0" "4" ch) && negb (between "5" "9" ch) && negb (is_ch "-" ch) && between "a" "z" ch
              && (code ch - 87 - 10 =? v - 10))
            (map Z.of_nat (seq 10 26)) = true) by (vm_compute; reflexivity).
  rewrite forallb_forall in A. specialize (A v).
  assert (Hin : In v (map Z.of_nat (seq 10 26))).
  { replace v with (Z.of_nat (Z.to_nat v)) by lia. apply in_map. apply in_seq. lia. }
  specialize (A Hin). cbv zeta in A.
  repeat (apply andb_true_iff in A as [A ?]).
  repeat match goal with H : negb _ = true |- _ => apply negb_true_iff in H end.
  apply Z.eqb_eq in H0. auto.
Qed.

(* the decimal text written independently in Pzpr.v is Python's str() on 0..4095 *)
Lemma dec_py_str n : 0 <= n <= 4095 -> dec n = py_str_int n.
Proof.
  intros Hn.
  assert (A : forallb (fun n => str_eqb (dec n) (py_str_int n)) (map Z.of_nat (seq 0 (64 * 64))) = true)
    by (vm_compute; reflexivity).
  rewrite forallb_forall in A. apply str_eqb_eq. apply A.
  replace n with (Z.of_nat (Z.to_nat n)) by lia. apply in_map. apply in_seq. lia.
Qed.

(* ------------------------------------------------------------------ one token read by decodeArrowNumber16 *)
Definition anext (fuel n : nat) (cells : list (Z * Z)) (c : nat) (rest : str) : option (list (Z * Z) * str) :=
  if Nat.leb n c then Some (cells, rest) else arrow16 fuel n c cells rest.

(* a run of k clue-less cells *)
Lemma arrow16_run f n c cells k rest : (c < n)%nat -> 1 <= k <= 26 ->
  arrow16 (S f) n c cells (base36_char (9 + k) :: rest) = anext f n cells (c + Z.to_nat k) rest.
Proof.
  intros Hc Hk. destruct (letter_pzpr (9 + k) ltac:(lia)) as (L1 & L2 & L3 & L4 & L5).
  cbn [arrow16]. destruct (Nat.leb_spec n c); [lia|]. cbv zeta.
  rewrite L1, L2, L3, L4, L5. unfold anext.
  replace (c + Z.to_nat (9 + k - 10) + 1)%nat with (c + Z.to_nat k)%nat by lia. reflexivity.
Qed.

(* "0." *)
Lemma arrow16_qq f n pre x post rest : (length pre < n)%nat ->
  arrow16 (S f) n (length pre) (pre ++ x :: post) ("0"%char :: "."%char :: rest)
  = anext f n (pre ++ (0, -2) :: post) (S (length pre)) rest.
Proof.
  intros Hc. cbn [arrow16]. destruct (Nat.leb_spec n (length pre)); [lia|]. cbv zeta.
  change (between "0" "4" "0"%char) with true. cbv iota.
  change (is_ch "." "."%char) with true. cbv iota. rewrite upd_app. reflexivity.
Qed.

(* direction and number in one of the three forms *)
Lemma arrow16_clue f n pre x post d v rest : (length pre < n)%nat -> 1 <= d <= 4 -> 0 <= v <= 4095 ->
  arrow16 (S f) n (length pre) (pre ++ x :: post) (clue_text d v ++ rest)
  = anext f n (pre ++ (d, v) :: post) (S (length pre)) rest.
Proof.
  intros Hc Hd Hv. destruct (dch_pzpr d Hd) as (P1 & P2 & P3 & P4 & P5).
  pose proof (hex_len v Hv) as Hlen. unfold hex_len_of in Hlen.
  destruct (to_base_spec 16 v) as (Hne & Hcl & Hval); [lia|lia|].
  unfold clue_text. destruct (Z.ltb_spec v 16).
  - destruct (to_base 16 v) as [|hd [|h2 t]] eqn:E; try discriminate.
    cbn [forallb] in Hcl. apply andb_true_iff in Hcl as [Hh _].
    cbn [app arrow16]. destruct (Nat.leb_spec n (length pre)); [lia|]. cbv zeta.
    rewrite P1. rewrite (clean16_not_dot hd Hh). rewrite (clean16_digit_in hd Hh).
    unfold valacc in Hval. cbn [fold_left] in Hval. unfold step in Hval.
    rewrite upd_app. rewrite P2. replace (dv hd) with v by lia. reflexivity.
  - destruct (Z.ltb_spec v 256).
    + cbn [app arrow16]. destruct (Nat.leb_spec n (length pre)); [lia|]. cbv zeta.
      rewrite P3, P4. rewrite <- Hlen. rewrite take_hex_to_base by lia.
      rewrite upd_app. rewrite P5. reflexivity.
    + cbn [app arrow16]. destruct (Nat.leb_spec n (length pre)); [lia|]. cbv zeta.
      change (between "0" "4" "-"%char) with false. change (between "5" "9" "-"%char) with false.
      change (is_ch "-" "-"%char) with true. cbv iota.
      rewrite P1. rewrite <- Hlen. rewrite take_hex_to_base by lia.
      rewrite upd_app. rewrite P2. reflexivity.
Qed.

(* ------------------------------------------------------------------ the whole loop *)
(* how pzpr reads one cspuz cell: (direction, number) with -1 = no clue, -2 = "?" *)
Definition yreads (v : pv) (dq : Z * Z) : Prop :=
  (v = VStr s_dotdot /\ dq = no_arrow) \/ (v = VStr s_qq /\ dq = (0, -2)) \/
  exists c d n, dir_code c = Ok d /\ 0 <= n <= 4095 /\ v = VStr (c :: py_str_int n) /\ dq = (d, n).

Lemma Forall2_repeat_dots k l : l = repeat (VStr s_dotdot) k -> Forall2 yreads l (repeat no_arrow k).
Proof.
  intros ->. induction k as [|k IH]; cbn [repeat]; constructor; [|exact IH]. left. split; reflexivity.
Qed.

Section Loop.
  Variables (h w : Z) (d : list pv).
  Hypothesis Hall : Forall yajilin_cell_ok d.
  Local Notation e := (cu_env yajilin_custom h w).
  Local Notation N := (length d).

  Lemma arrow_loop : forall fuel nr ret s,
    seq_ser_loop (ser e ycell) (Z.of_nat N) (VList d) fuel nr ret = Ok (Some s) -> (nr <= N)%nat ->
    exists tail cs, s = ret ++ tail /\ Forall2 yreads (skipn nr d) cs /\
      forall fuel' pre, length pre = nr -> (length tail <= fuel')%nat ->
        anext fuel' N (pre ++ repeat no_arrow (N - nr)) nr tail = Some (pre ++ cs, []).
  Proof.
    induction fuel as [|fuel IH]; intros nr ret s Hloop Hnr.
    - destruct (Z.ltb_spec (Z.of_nat nr) (Z.of_nat N)) as [Hlt|Hge].
      + apply seq_ser_loop_step in Hloop as (f & ? & ? & ? & _); auto. discriminate.
      + apply seq_ser_loop_done in Hloop as [-> _]; [|lia]. exists [], []. rewrite app_nil_r.
        split; [reflexivity|]. split; [rewrite skipn_all2 by (lia); constructor|].
        intros fuel' pre Hpre _. unfold anext. destruct (Nat.leb_spec N nr); [|lia].
        replace (N - nr)%nat with 0%nat by lia. reflexivity.
    - destruct (Z.ltb_spec (Z.of_nat nr) (Z.of_nat N)) as [Hlt|Hge].
      2:{ apply seq_ser_loop_done in Hloop as [-> _]; [|lia]. exists [], []. rewrite app_nil_r.
          split; [reflexivity|]. split; [rewrite skipn_all2 by (lia); constructor|].
          intros fuel' pre Hpre _. unfold anext. destruct (Nat.leb_spec N nr); [|lia].
          replace (N - nr)%nat with 0%nat by lia. reflexivity. }
      apply seq_ser_loop_step in Hloop as (f' & ofs & d2 & Ef & Eser & Hloop); auto. inversion Ef; subst f'. clear Ef.
      assert (HnrN : (nr < N)%nat) by lia.
      destruct (ycell_total h w d Hall nr HnrN) as (ofs' & s' & Eser' & Hbound).
      rewrite Eser in Eser'. inversion Eser'; subst ofs' s'. clear Eser'.
      destruct (IH _ _ _ Hloop ltac:(lia)) as (tail' & cs' & Es & Hcs' & Hdec').
      destruct (nth_error d nr) as [v|] eqn:Hn; [|apply nth_error_None in Hn; lia].
      assert (Hv : yajilin_cell_ok v). { rewrite Forall_forall in Hall. apply Hall. eapply nth_error_In; eauto. }
      pose proof (firstn_skipn_nth d nr v Hn) as Hsk.
      assert (Hsplit : skipn nr d = firstn (S ofs) (skipn nr d) ++ skipn (nr + S ofs) d).
      { rewrite <- (firstn_skipn (S ofs) (skipn nr d)) at 1. rewrite skipn_skipn'. reflexivity. }
      destruct (ycell_ser_cases h w d nr v Hn Hv) as [(Ev & Hy)|[(Ev & Hs)|(c & dd & n & Hd & Hr & Ev & Hs)]].
      + (* a run *)
        rewrite ycell_ser_unfold, Hy in Eser.
        assert (Hsp : spaces_ser (VStr s_dotdot) "a"%char (VList d) nr = Ok (Some (S ofs, d2))).
        { destruct (spaces_ser (VStr s_dotdot) "a"%char (VList d) nr) as [[r|]|]; try discriminate. exact Eser. }
        destruct (spaces_ser_inv _ _ _ _ _ _ spaces_wf Hsp) as (l & Hl & _ & Hk & Hrange & Ed2).
        cbn [py_items] in Hl. inversion Hl; subst l. clear Hl.
        change (spaces_offset "a"%char) with 9 in Hrange, Ed2.
        change (Z.to_nat (spaces_max "a"%char - 1)) with 25%nat in Hk.
        destruct (run_eq_spec (VStr s_dotdot) (skipn (S nr) d) 25) as (Hr1 & _ & _).
        apply Nat.succ_inj in Hk. rewrite <- Hk in Hr1.
        assert (Hfirst : firstn (S ofs) (skipn nr d) = repeat (VStr s_dotdot) (S ofs)).
        { rewrite Hsk. cbn [firstn repeat]. rewrite Hr1, Ev. reflexivity. }
        exists (d2 ++ tail'), (repeat no_arrow (S ofs) ++ cs'). split; [rewrite Es, app_assoc; reflexivity|]. split.
        { rewrite Hsplit. apply Forall2_app; [apply Forall2_repeat_dots; exact Hfirst|exact Hcs']. }
        intros fuel' pre Hpre Hfuel. subst d2. cbn [app length] in Hfuel |- *.
        destruct fuel' as [|f']; [lia|].
        unfold anext at 1. destruct (Nat.leb_spec N nr); [lia|].
        rewrite (arrow16_run f' N nr _ (Z.of_nat (S ofs)) tail') by lia.
        rewrite Nat2Z.id.
        replace (N - nr)%nat with (S ofs + (N - (nr + S ofs)))%nat by (lia).
        rewrite repeat_app, app_assoc.
        rewrite (Hdec' f' (pre ++ repeat no_arrow (S ofs))) by (try rewrite app_length, repeat_length; lia).
        rewrite <- app_assoc. reflexivity.
      + (* "??" *)
        rewrite Hs in Eser. inversion Eser; subst ofs d2. clear Eser.
        exists (s_zero_dot ++ tail'), ((0, -2) :: cs'). split; [rewrite Es, app_assoc; reflexivity|]. split.
        { rewrite Hsk. constructor; [right; left; split; [exact Ev|reflexivity]|].
          replace (S nr) with (nr + 1)%nat by lia. exact Hcs'. }
        intros fuel' pre Hpre Hfuel. cbn [s_zero_dot app length] in Hfuel |- *.
        destruct fuel' as [|f']; [lia|].
        unfold anext at 1. destruct (Nat.leb_spec N nr); [lia|].
        replace (N - nr)%nat with (S (N - (nr + 1)))%nat by (lia). cbn [repeat].
        subst nr. rewrite arrow16_qq by lia. replace (S (length pre)) with (length pre + 1)%nat by lia.
        replace (pre ++ (0, -2) :: repeat no_arrow (N - (length pre + 1)))
          with ((pre ++ [(0, -2)]) ++ repeat no_arrow (N - (length pre + 1))) by (rewrite <- app_assoc; reflexivity).
        rewrite (Hdec' f' (pre ++ [(0, -2)])) by (try rewrite app_length; cbn [length]; lia).
        rewrite <- app_assoc. reflexivity.
      + (* arrow and number *)
        rewrite Hs in Eser. inversion Eser; subst ofs d2. clear Eser.
        destruct (dir_code_inv c dd Hd) as (Hd14 & _).
        exists (clue_text dd n ++ tail'), ((dd, n) :: cs'). split; [rewrite Es, app_assoc; reflexivity|]. split.
        { rewrite Hsk. constructor; [right; right; exists c, dd, n; repeat split; auto; lia|].
          replace (S nr) with (nr + 1)%nat by lia. exact Hcs'. }
        intros fuel' pre Hpre Hfuel.
        assert (Hct : (1 <= length (clue_text dd n))%nat).
        { unfold clue_text. destruct (n <? 16); [|destruct (n <? 256)]; cbn [length]; lia. }
        rewrite app_length in Hfuel.
        destruct fuel' as [|f']; [lia|].
        unfold anext at 1. destruct (Nat.leb_spec N nr); [lia|].
        replace (N - nr)%nat with (S (N - (nr + 1)))%nat by (lia). cbn [repeat].
        subst nr. rewrite arrow16_clue by lia. replace (S (length pre)) with (length pre + 1)%nat by lia.
        replace (pre ++ (dd, n) :: repeat no_arrow (N - (length pre + 1)))
          with ((pre ++ [(dd, n)]) ++ repeat no_arrow (N - (length pre + 1))) by (rewrite <- app_assoc; reflexivity).
        rewrite (Hdec' f' (pre ++ [(dd, n)])) by (try rewrite app_length; cbn [length]; lia).
        rewrite <- app_assoc. reflexivity.
  Qed.
End Loop.

(* ------------------------------------------------------------------ the pzpr board as a cspuz problem *)
Lemma yajilin_cell_reads v dq : yreads v dq -> yajilin_cell dq = Some v.
Proof.
  intros [(-> & ->)|[(-> & ->)|(c & d & n & Hd & Hn & -> & ->)]]; [reflexivity|reflexivity|].
  destruct (dir_code_inv c d Hd) as (Hd14 & Hdc & _).
  unfold yajilin_cell. destruct (Z.eqb_spec n (-1)); [lia|]. destruct (Z.eqb_spec n (-2)); [lia|].
  rewrite (dec_py_str n Hn). rewrite <- Hdc.
  assert (Hd' : d = 1 \/ d = 2 \/ d = 3 \/ d = 4) by lia.
  destruct Hd' as [-> | [-> | [-> | ->]]]; reflexivity.
Qed.

Lemma all_some_reads l cs : Forall2 yreads l cs -> all_some (map yajilin_cell cs) = Some l.
Proof.
  induction 1 as [|v dq l cs Hv _ IH]; [reflexivity|].
  cbn [map all_some]. rewrite (yajilin_cell_reads v dq Hv), IH. reflexivity.
Qed.

(* what serialize_problem computes on a board of the right shape *)
Lemma yajilin_ser_body h w pb rows : grid_shape h w pb rows ->
  serialize_problem_cu yajilin_custom yterm pb h w =
  match seq_ser (ser (cu_env yajilin_custom h w) ycell) (Z.of_nat (length (concat rows))) (VList [VList (concat rows)]) 0 with
  | Err e => Err e
  | Ok None => Err AssertionError
  | Ok (Some (_, s)) => Ok s
  end.
Proof.
  intros (Hpb & Hh & Hw).
  pose proof (concat_rows_length w rows Hw) as Hlen. rewrite Hh in Hlen.
  unfold serialize_problem_cu, yterm. cbn [ser]. unfold grid_ser.
  cbn [py_items length Nat.eqb nth_res nth_error grid_dims height width cu_env]. subst pb.
  replace (Z.to_nat h) with (length rows) by lia.
  pose proof (grid_flatten_rows rows []) as Hfl. cbn [app length] in Hfl. rewrite Hfl.
  rewrite <- Hlen. reflexivity.
Qed.

(* For every board of the domain with at least one cell: whatever body serialize_yajilin's term
   writes, decodeArrowNumber16 and the yajilin reading of a pzpr board give the problem back,
   the whole body being consumed. *)
Theorem yajilin_pzpr_reads h w pb rows body :
  1 <= h -> 1 <= w -> grid_shape h w pb rows -> Forall (Forall yajilin_cell_ok) rows ->
  serialize_problem_cu yajilin_custom yterm pb h w = Ok body ->
  pzpr_decode_yajilin (Z.to_nat h) (Z.to_nat w) body = Some pb.
Proof.
  intros Hh1 Hw1 Hshape Hall Hser.
  rewrite (yajilin_ser_body h w pb rows Hshape) in Hser.
  destruct Hshape as (Hpb & Hh & Hw).
  assert (Hcells : Forall yajilin_cell_ok (concat rows)) by (apply Forall_concat; exact Hall).
  pose proof (concat_rows_length w rows Hw) as Hlen. rewrite Hh in Hlen.
  destruct (seq_ser _ _ _ 0) as [[[k s]|]|] eqn:Eseq; try discriminate. inversion Hser; subst s. clear Hser.
  apply seq_ser_inv in Eseq as (l & d' & Hl & Hn & _ & Hloop).
  cbn [py_items] in Hl. inversion Hl; subst l. cbn [nth_error] in Hn. inversion Hn; subst d'. clear Hl Hn.
  destruct (arrow_loop h w (concat rows) Hcells _ 0%nat [] body Hloop ltac:(lia)) as (tail & cs & Es & Hcs & Hdec).
  cbn [app] in Es. subst tail. cbn [skipn] in Hcs.
  specialize (Hdec (S (length body)) [] eq_refl ltac:(lia)). cbn [app] in Hdec. rewrite Nat.sub_0_r in Hdec.
  assert (HN : (Z.to_nat h * Z.to_nat w)%nat = length (concat rows)) by nia.
  unfold pzpr_decode_yajilin, decode_arrow16. rewrite HN.
  destruct (length (concat rows)) as [|N'] eqn:EN; [nia|].
  unfold anext in Hdec. cbn [Nat.leb] in Hdec. rewrite Hdec. cbn [whole].
  rewrite (all_some_reads _ _ Hcs).
  unfold grid_pv. subst pb. f_equal. f_equal.
  replace (Z.to_nat h) with (length rows) by lia.
  rewrite (rows_of_concat (Z.to_nat w) rows).
  - apply map_ext. intros r. rewrite map_id. reflexivity.
  - eapply Forall_impl; [|exact Hw]. cbv beta. intros r Hr. lia.
Qed.
