(* C02 for the z3 route: Solver.solve(backend="z3") with any sound and complete
   SMT solver; independence of the route (a conformant native reply gives the
   same sol on every answer key). *)
From Coq Require Import ZArith List Bool Lia.
From Cspuz Require Import Lib.PyErr Core.Expr Core.Program Backend.Z3Call Gen.Z3Table Backend.Z3
  Backend.Z3Oracle Backend.ExprFacts Backend.Z3Proofs Backend.Z3ConstsProofs Backend.Z3SolveProofs
  Backend.SolveLoop Backend.SolveLoopProofs.
Import ListNotations.
Open Scope Z_scope.

Lemma mapM_app {A B} (f : A -> res B) l1 l2 r1 r2 :
  mapM f l1 = Ok r1 -> mapM f l2 = Ok r2 -> mapM f (l1 ++ l2) = Ok (r1 ++ r2).
Proof.
  revert r1; induction l1 as [|a l1 IH]; intros r1 H1 H2; simpl in *.
  - inversion H1; subst; exact H2.
  - destruct (f a); simpl in *; try discriminate.
    destruct (mapM f l1) eqn:E; simpl in *; try discriminate.
    inversion H1; subst. rewrite (IH _ eq_refl H2); reflexivity.
Qed.

(* the property on the sol fields, in terms of the program's models *)
Definition facts_exact (st : state) (sol : list (option value)) : Prop :=
  forall j d, nth_error (vars st) j = Some d -> nth_error (keys st) j = Some true ->
    exists a, nth_error sol j = Some a /\
      (forall v, a = Some v <-> (forall en, model_of no_graph en st -> val_of en d j = v)) /\
      (a = None <-> exists e1 e2, model_of no_graph e1 st /\ model_of no_graph e2 st /\ val_of e1 d j <> val_of e2 d j).

Definition solve_spec (st : state) (r : solve_result) : Prop :=
  match r with
  | Unsat => ~ satisfiable no_graph st
  | Sat sol => satisfiable no_graph st /\ facts_exact st sol
  | OutOfFuel => False
  end.

(* a program as the Solver API builds it: one key flag per variable *)
Definition wf_keys (st : state) : Prop := length (keys st) = length (vars st).

Section Z3Route.
  Variable oracle : list zterm -> option zmodel.
  Hypothesis oracle_sound : oracle_sound_on oracle.
  Hypothesis oracle_complete : oracle_complete_on oracle.

  Variable st : state.
  Hypothesis W : wf_state st.
  Hypothesis Hk : wf_keys st.

  Definition z3_rep (b : backend) (added : list expr) : Prop :=
    mapM (conv (vars st)) (cons st ++ added) = Ok b.

  Lemma z3_add_ok b added e : z3_rep b added -> wf_cons (vars st) [e] ->
    exists b', z3_add (vars st) b e = Ok b' /\ z3_rep b' (added ++ [e]).
  Proof.
    intros R We. unfold wf_cons in We; simpl in We. rewrite andb_true_r in We.
    apply andb_prop in We; destruct We as [Wt Rf].
    destruct (conv_sem (vars st) e true Wt Rf) as [r [Er _]].
    exists (b ++ [r]); unfold z3_add; rewrite Er; simpl; split; [reflexivity|].
    unfold z3_rep. rewrite app_assoc. apply mapM_app; [exact R|simpl; rewrite Er; reflexivity].
  Qed.

  Lemma z3_solve_ok b added : z3_rep b added -> wf_cons (vars st) added ->
    exists r, z3_solve oracle (vars st) b = Ok r /\
      match r with
      | Some s => sol_typed (vars st) s /\ is_model (vars st) (cons st) (env_of_sol s) /\
                  forallb (holds no_graph (env_of_sol s)) added = true
      | None => forall en, is_model (vars st) (cons st) en -> forallb (holds no_graph en) added = false
      end.
  Proof.
    intros R Wa.
    destruct (z3_solve_correct oracle oracle_sound oracle_complete (vars st) (cons st ++ added) b
                (wf_cons_app _ _ _ W Wa) R) as [r [E Hr]].
    exists r; split; [exact E|]. destruct r as [s|].
    - destruct Hr as [Hb [Hc T]]. rewrite forallb_app in Hc. apply andb_prop in Hc; destruct Hc as [H1 H2].
      split; [exact T|split; [split; assumption|exact H2]].
    - intros en [Hb Hc]. specialize (Hr en Hb). rewrite forallb_app, Hc in Hr; exact Hr.
  Qed.

  Lemma exact_transfer sol : exact_on_keys (vars st) (keys st) (cons st) sol -> facts_exact st sol.
  Proof. intros X; exact X. Qed.

  Theorem solve_exact_z3 : exists r, solve oracle st = Ok r /\ solve_spec st r.
  Proof.
    destruct (conv_constraints (vars st) (cons st) W) as [rs [ts [E1 _]]].
    assert (R0 : z3_rep rs []) by (unfold z3_rep; rewrite app_nil_r; exact E1).
    destruct (solve_with_exact backend (z3_add (vars st)) (z3_solve oracle (vars st)) (vars st) (keys st) (cons st) Hk
                z3_rep z3_add_ok z3_solve_ok rs R0) as [r [b' [E Hr]]].
    exists r. unfold solve, solve_fuel, z3_add_list. rewrite E1; simpl. rewrite E; simpl. split; [reflexivity|].
    destruct r as [|sol|]; simpl.
    - intros [en M]. exact (Hr en M).
    - destruct Hr as [[en M] X]. split; [exists en; exact M|exact X].
    - exact Hr.
  Qed.
End Z3Route.

(* ---- independence of the route ---------------------------------------------- *)
(* a native reply (already parsed) that conforms to the deduction protocol *)
Definition native_reply_ok (st : state) (r : native_reply) : Prop := solve_spec st (sol_of_native r).

(* two results that both meet the specification coincide on every answer key *)
Theorem spec_determines_keys st r1 r2 : solve_spec st r1 -> solve_spec st r2 ->
  match r1, r2 with
  | Unsat, Unsat => True
  | Sat s1, Sat s2 => forall j d, nth_error (vars st) j = Some d -> nth_error (keys st) j = Some true ->
                      nth_error s1 j = nth_error s2 j
  | _, _ => False
  end.
Proof.
  destruct r1 as [|s1|], r2 as [|s2|]; simpl; intros H1 H2; try tauto;
    try (destruct H1; tauto); try (destruct H2; tauto).
  destruct H1 as [_ X1]; destruct H2 as [_ X2]. intros j d Nv Nk.
    destruct (X1 j d Nv Nk) as [a1 [E1 [S1 N1]]]. destruct (X2 j d Nv Nk) as [a2 [E2 [S2 N2]]].
    rewrite E1, E2. f_equal. destruct a1 as [v|].
    + symmetry. apply S2. apply S1. reflexivity.
    + symmetry. apply N2. apply N1. reflexivity.
Qed.

Theorem solve_no_fuel_z3 : forall oracle, oracle_sound_on oracle -> oracle_complete_on oracle ->
  forall st, wf_state st -> wf_keys st -> solve oracle st <> Ok OutOfFuel.
Proof.
  intros oracle Hs Hc st W K E.
  destruct (solve_exact_z3 oracle Hs Hc st W K) as [r [E' S]]. rewrite E in E'; injection E' as <-. exact S.
Qed.

Theorem route_independent_z3 : forall oracle, oracle_sound_on oracle -> oracle_complete_on oracle ->
  forall st reply r, wf_state st -> wf_keys st -> native_reply_ok st reply -> solve oracle st = Ok r ->
  match sol_of_native reply, r with
  | Unsat, Unsat => True
  | Sat s1, Sat s2 => forall j d, nth_error (vars st) j = Some d -> nth_error (keys st) j = Some true ->
                      nth_error s1 j = nth_error s2 j
  | _, _ => False
  end.
Proof.
  intros oracle Hs Hc st reply r W K N E.
  destruct (solve_exact_z3 oracle Hs Hc st W K) as [r' [E' S]]. rewrite E in E'; injection E' as <-.
  exact (spec_determines_keys st (sol_of_native reply) r N S).
Qed.

(* ---- non-vacuity: a concrete program, solved by the model with the brute-force oracle ------ *)
(* b0 == True, i1 <= count_true([b0, b2]), key b0 is determined, key i1 is not *)
Definition example_st : state :=
  {| vars := [DBool; DInt 0 2; DBool];
     keys := [true; true; false];
     cons := [BNode IFF [BVar 0; PyBool true];
              BNode LE [IVar 1 0 2; INode ADD [INode IF [BVar 0; PyInt 1; PyInt 0]; INode IF [BVar 2; PyInt 1; PyInt 0]]]] |}.

Example example_wf : wf_state example_st /\ wf_keys example_st.
Proof. split; reflexivity. Qed.

Example example_solve :
  exists x, solve bf_oracle example_st = Ok (Sat [Some (VB true); None; x]).
Proof. eexists; vm_compute; reflexivity. Qed.

Example example_find : exists s, find_answer bf_oracle example_st = Ok (Some s).
Proof. eexists; vm_compute; reflexivity. Qed.
