From Coq Require Import ZArith List.
From Cspuz Require Import Lib.PyErr Core.Expr Core.Program Backend.Z3Call Backend.Z3.
Theorem bounds_as_posted : forall i lo hi,
  py_bin PLe (PyI lo) (ZT (ZIntConst i)) = Ok (ZT (ZGe (ZIntConst i) (ZIntVal lo))) /\
  py_bin PLe (ZT (ZIntConst i)) (PyI hi) = Ok (ZT (ZLe (ZIntConst i) (ZIntVal hi))).
Proof. intros; split; reflexivity. Qed.
Print Assumptions bounds_as_posted.
