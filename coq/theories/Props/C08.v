From Coq Require Import ZArith List.
From Cspuz Require Import Lib.PyErr Core.Expr Core.Program Graph.GraphModel Graph.Avc Graph.NotAdj.
Theorem not_adjacent_wrapper_type_errors : forall st h w l g l',
  post_not_adjacent st (AArr2 h w l) (Some g) = (st, Some TypeError) /\
  post_not_adjacent st (ASeq l') None = (st, Some TypeError) /\
  post_not_adjacent st (AArr1 l') None = (st, Some TypeError).
Proof. intros; repeat split. Qed.
Print Assumptions not_adjacent_wrapper_type_errors.
