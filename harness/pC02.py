"""C02 — solve() reports exactly the facts common to all solutions."""
import hashlib
import warnings

import c01gen as G
import c01translate
import c02gen as H
import vlib

PROPS = "Props/C02.v"
RULE = ("C 'scripted': the real Solver.solve is run with a scripted backend class (backend=<class>) that logs every "
        "add_constraint call and answers solve() either live from the program's real model set under an enumeration policy "
        "(first / last / random / fewest-changes / most-changes w.r.t. the previous answer) or from an adversarial list of "
        "arbitrary assignments (repeats, non-models, early UNSAT); the extracted Backend/SolveLoop.v::solve_scripted is run on "
        "the recorded answers (fuel S(#keys) for conformant backends, script length for adversarial ones); verdict, the sol "
        "field of every variable and every posted refuting clause (as trees, harness/exprio.py) are compared.  "
        "C 'solve-z3': real Solver.solve(backend='z3') vs the extracted solve with the brute-force oracle on the answer keys.  "
        "search: Solver.solve(backend='z3') and Solver.solve(backend=<SugarLikeBackend subclass whose solver call returns a "
        "protocol-conformant deduction reply>) vs the facts computed by enumerating the declared domains under the ordinary "
        "meaning of the program as written (all / some / no keys, bool and int keys); the Coq specification common_facts is "
        "cross-checked against the same enumeration.  "
        "Scenarios (harness/c02gen.py; kinds sc-*): whole histories of one Solver written as data -- variables declared one by "
        "one or through bool_array / int_array (1-D, 2-D); ensure and add_answer_key fed through lists, tuples, cspuz arrays, "
        "generators, map, zip, iter, reversed, chain, filter, generators nested in lists / tuples / generators, lazily built "
        "constraints, one call per element; integer domains far from zero (every value outside CPython's small-int cache, up to "
        "10^12) and wide domains (up to 2^34 values, restricted by a posted membership constraint so that enumeration of the "
        "candidates is exact), all integers created at run time; 1-4 solve() calls on the same Solver with further constraints, "
        "further answer keys or overwritten sol fields in between; backend z3 given as class / by name / through "
        "config.default_backend, a conformant deduction backend, or a live scripted backend.  C 'sc-forms': what the Solver holds "
        "(is_answer_key, multiset of constraint trees) vs a fresh Solver given the same things as plain lists; solve() must leave "
        "both unchanged.  C 'sc-solve-z3' / 'sc-scripted': every solve() of a history vs the extracted solve / solve_scripted on "
        "the program and keys declared so far.  search: every solve() of every history vs enumeration (verdict and every answer "
        "key's sol, type-strict); failing histories are shrunk (steps, forms, keys, constraints) and replayable.  "
        "Non-trivial = distinct (kind, program, keys, policy) / (kind, scenario, step).")
TRUSTED = [
    "as C01: z3 behind Section hypotheses oracle_sound / oracle_complete; z3py overload semantics; eval = ordinary meaning",
    "the native route's reply parsing (SugarLikeBackend.solve_irrefutably) belongs to C03; here a native reply is an abstract, already parsed, conformant answer",
    "harness/c01translate.py (ast -> Gen/Z3Table.v, fail-closed): C02's z3 route is built on Backend/Z3.v::conv",
]
ASSUMPTIONS = [
    "constraints are well-typed and refer to the Solver's own variables (as C01)",
    "the backend's solve() writes a value of the variable's own type into every sol field (z3: is_true / as_long)",
    "sol fields of variables that are not answer keys are outside the property (they keep whatever the last backend call left)",
    "sol fields after a solve() that returned False are outside the property (the loop route leaves the previous values, the "
    "native route clears them); the harness only counts which of the two happened (sc-unsat-sol:*)",
    "integer values stay below 2^62 in absolute value (the extracted runner uses OCaml native ints for I/O)",
]

ERR = {1: "IndexError", 2: "KeyError", 3: "AssertionError", 4: "TypeError", 5: "ValueError",
       6: "RecursionError", 7: "NotImplementedError", 8: "Other"}


def md5(s):
    return hashlib.md5(s.encode()).hexdigest()[:10]


def translate(ctx):
    c01translate.translate()


# ----------------------------------------------------------------- programs

def gen_program(ctx, rng, maxenv=200):
    while True:
        decls = G.gen_decls(rng, 4, empty_p=0.01)
        if G.n_envs(decls) <= maxenv:
            break
    g = G.Gen(rng, decls, count=ctx.count)
    cons = [g.gbool(rng.randint(1, 3)) for _ in range(rng.randint(0, 3))]
    mode = rng.choice(["none", "all", "some", "some", "some"])
    if mode == "none":
        keys = [False] * len(decls)
    elif mode == "all":
        keys = [True] * len(decls)
    else:
        keys = [rng.random() < 0.6 for _ in decls]
    ctx.count("keys:" + mode)
    return decls, cons, keys


class SetupFailed(Exception):
    pass


def setup(decls, cons, keys):
    try:
        return _setup(decls, cons, keys)
    except Exception as ex:      # noqa
        raise SetupFailed(vlib.err_name(ex))


def _setup(decls, cons, keys):
    from cspuz import Solver
    s = Solver()
    vs = G.declare(s, decls)
    s.ensure([G.build(c, vs) for c in cons])
    ks = [v for v, k in zip(vs, keys) if k]
    if ks:
        if len(ks) % 2:
            s.add_answer_key(ks)
        else:
            s.add_answer_key(*ks)
    return s, vs


class LoopBound(Exception):
    """raised by the harness' backends when Solver.solve keeps re-solving beyond any
    bound the property allows (a mutated loop would otherwise never return)."""


_BZ3 = {}


def bounded_z3(bound):
    """the real Z3Backend, except that solve() may be called at most `bound` times."""
    if bound not in _BZ3:
        from cspuz.backend.z3 import Z3Backend

        class BoundedZ3(Z3Backend):
            def solve(self):
                self._n = getattr(self, "_n", 0) + 1
                if self._n > bound:
                    raise LoopBound()
                return Z3Backend.solve(self)
        _BZ3[bound] = BoundedZ3
    return _BZ3[bound]


def run_case(decls, cons, keys, backend):
    """declare + ensure + add_answer_key + solve; -> (result, sols, solver or None)"""
    try:
        s, vs = setup(decls, cons, keys)
    except SetupFailed as ex:
        return ("err", "Other"), [None] * len(decls), None
    r, sols = run_solve(s, vs, backend)
    return r, sols, s


def run_solve(s, vs, backend):
    if backend == "z3":
        backend = bounded_z3(sum(1 for k in s.is_answer_key if k) + 4)
    with warnings.catch_warnings():
        warnings.simplefilter("ignore")
        r = vlib.guarded(lambda: s.solve(backend=backend))
    if r[0] == "err":
        return ("err", r[1] if r[1] in ERR.values() else "Other"), [v.sol for v in vs]
    return r, [v.sol for v in vs]


def result_tok(r, sols):
    if r[0] == "err":
        return "E %d" % [k for k, v in ERR.items() if v == r[1]][0]
    if r[1] is False:
        return "U"
    if r[1] is True:
        return "S " + G.vals_tok(sols)
    return "?%r" % (r[1],)


# ----------------------------------------------------------------- scripted backend

def make_scripted(policy, rng, ms, script, log, given):
    """backend class handed to Solver.solve.  policy 'script': answers from `script`;
    otherwise live: a model (from ms) of everything posted so far, chosen by policy.
    `given` receives the answers actually given (the script to replay in the model)."""
    from cspuz.backend.backend import Backend

    class Scripted(Backend):
        def __init__(self, variables):
            self.variables = variables
            self.adds = 0
            self.posted = []
            self.prev = None
            self.solves = 0

        def add_constraint(self, c):
            if isinstance(c, list):        # the program itself, loaded once by Solver.solve
                log.append(("init", list(c)))
                return
            log.append(("add", c))
            self.posted.append(c)
            self.adds += 1

        def _answer(self):
            if policy == "script":
                return script[self.adds] if self.adds < len(script) else None
            cand = [m for m in ms if all(bool(G.teval(c, m)) for c in self.posted)]
            if not cand:
                return None
            if policy == "first":
                return cand[0]
            if policy == "last":
                return cand[-1]
            if policy == "random":
                return rng.choice(cand)
            dist = lambda m: sum(1 for a, b in zip(m, self.prev or m) if a != b)  # noqa
            if policy == "fewest":
                return min(cand, key=dist)
            return max(cand, key=dist)

        def solve(self):
            self.solves += 1
            if self.solves > (len(script) + 3 if policy == "script" else len(self.variables) + 4):
                raise LoopBound()
            a = self._answer()
            while len(given) <= self.adds:
                given.append(None)
            given[self.adds] = a
            if a is None:
                return False
            self.prev = a
            for v, x in zip(self.variables, a):
                v.sol = H.fresh(x)       # a real backend creates the value anew on every solve (as_long(), int(token))
            return True
    return Scripted


def script_tok(given):
    return " ".join("U" if a is None else G.vals_tok(a) for a in given)


def scripted_case(ctx, rng, m_reqs, cases):
    import exprio
    decls, cons, keys = gen_program(ctx, rng)
    ms = G.models(decls, cons)
    x = rng.random()
    if x < 0.7:
        policy = rng.choice(["first", "last", "random", "fewest", "most"])
        script = None
    else:
        policy = "script"
        script = []
        doms = [[False, True] if d == "b" else list(range(d[1] - 1, d[2] + 2)) for d in decls]
        for _ in range(rng.randint(0, 5)):
            y = rng.random()
            if y < 0.12:
                script.append(None)
            elif y < 0.4 and script and script[-1] is not None:
                script.append(script[-1])                # repeated answer: nothing is demoted
            elif y < 0.7 and ms:
                script.append(rng.choice(ms))
            else:
                script.append(tuple(rng.choice(dm) for dm in doms))
    ctx.count("policy:" + policy)
    log, given = [], []
    cls = make_scripted(policy, rng, ms, script, log, given)
    r, sols, _s = run_case(decls, cons, keys, cls)
    clauses = [c for k, c in log if k == "add"]
    impl = result_tok(r, sols) + " | " + exprio.show_list(clauses)
    fuel = "auto" if policy != "script" else str(len(script) + 2)
    req = "SCRIPT %s %s [%s ] %s" % (fuel, G.decls_tok(decls), "".join(" 1" if k else " 0" for k in keys),
                                      script_tok(given if policy != "script" else script))
    m_reqs.append(req)
    cases.append({"decls": decls, "cons": cons, "keys": keys, "policy": policy, "impl": impl, "req": req,
                  "result": r, "sols": sols, "ms": ms, "init_ok": [k for k, _ in log][:1] == ["init"]})


# ----------------------------------------------------------------- native route (conformant reply)

def make_native(ms, keys, seen):
    """a SugarLikeBackend whose external solver call answers in the deduction-mode
    format with the facts computed by enumeration (a protocol-conformant backend)."""
    from cspuz.backend.sugar_like import SugarLikeBackend
    from cspuz.expr import BoolVar

    class Native(SugarLikeBackend):
        def _call_solver(self, desc):
            seen.append(desc)
            if not ms:
                return "unsat\n"
            f = G.facts(ms, keys)
            lines = ["sat"]
            for v, k, a in zip(self.variables, keys, f):
                if k and a is not None:
                    name = ("b%d" if isinstance(v, BoolVar) else "i%d") % v.id
                    lines.append("%s %s" % (name, ("true" if a else "false") if isinstance(a, bool) else str(a)))
            return "\n".join(lines) + "\n"
    return Native


# ----------------------------------------------------------------- scenarios (harness/c02gen.py)
# whole histories of one Solver: declarations (vars / arrays), ensure and add_answer_key fed
# through every kind of iterable (lists, tuples, arrays, generators, map, zip, nested generators ...),
# far / wide integer domains with values created at run time, several solve() calls on the same
# object with more constraints / more keys / overwritten sol fields in between, the backend given
# as a class, by name or through config.default_backend.

def make_native2(ms, seen):
    """protocol-conformant deduction backend that answers for the answer keys it is
    actually asked about (the '#' line of the description)."""
    from cspuz.backend.sugar_like import SugarLikeBackend

    class Native2(SugarLikeBackend):
        def _call_solver(self, desc):
            seen.append(desc)
            if not ms:
                return "unsat\n"
            asked = [ln for ln in desc.split("\n") if ln.startswith("#")]
            names = asked[-1][1:].split() if asked else []
            lines = ["sat"]
            for nm in names:
                i = int(nm[1:])
                vals = set(m[i] for m in ms)
                if len(vals) == 1:
                    a = ms[0][i]
                    lines.append("%s %s" % (nm, ("true" if a else "false") if isinstance(a, bool) else str(a)))
            return "\n".join(lines) + "\n"
    return Native2


class z3_route(object):
    """Solver.solve reaches the (call-bounded) z3 backend through the class itself, through
    its name, or through config.default_backend."""

    def __init__(self, how, bound):
        self.how, self.bound, self.cls = how, bound, bounded_z3(bound)

    def __enter__(self):
        import cspuz.backend.z3 as zmod
        from cspuz.configuration import config
        self.zmod, self.config = zmod, config
        self.saved = (zmod.Z3Backend, config.default_backend)
        if self.how == "class":
            return {"backend": self.cls}
        zmod.Z3Backend = self.cls
        if self.how == "name":
            return {"backend": "z3"}
        config.default_backend = "z3"
        return {"backend": None} if self.bound % 2 else {}        # explicit None = omitted

    def __exit__(self, *a):
        self.zmod.Z3Backend, self.config.default_backend = self.saved
        return False


def trees_sorted(cs):
    import exprio
    return sorted(exprio.show(c) for c in cs)


def run_scenario(sc):
    """-> list of records, one per solve() (or one final record for a step that raised)."""
    import random
    from cspuz import Solver
    decls, cands = sc["decls"], sc["cands"]
    recs = []
    s = Solver()
    r0 = vlib.guarded(lambda: H.declare2(s, decls, sc["decl_form"], len(sc["steps"])))
    if r0[0] == "err":
        return [{"step": -1, "setup_err": r0[1], "what": "declare[%s]" % sc["decl_form"]}]
    vs = r0[1]
    s.ensure([G.build(c, vs) for c in H.dom_cons(decls, cands)])
    for n, st in enumerate(sc["steps"]):
        if st[0] == "ensure":
            r = vlib.guarded(lambda: H.post(s, vs, st[1], st[2], st[3]))
            if r[0] == "err":
                recs.append({"step": n, "setup_err": r[1], "what": "ensure[%s]" % st[2]})
                return recs
        elif st[0] == "keys":
            r = vlib.guarded(lambda: H.add_keys(s, vs, st[1], st[2], st[3]))
            if r[0] == "err":
                recs.append({"step": n, "setup_err": r[1], "what": "add_answer_key[%s]" % st[2]})
                return recs
        elif st[0] == "scramble":
            H.scramble(vs, decls, st[1])
        else:
            cons, keys = H.intended(sc, n)
            ms = H.models2(decls, cands, cons)
            f = G.facts(ms, keys)
            before = (trees_sorted(s.constraints), list(s.is_answer_key), [v.sol for v in vs])
            rec = {"step": n, "backend": st[1], "how": st[2], "keys": keys, "cons": cons, "exp": f,
                   "impl_keys": before[1], "impl_cons": before[0]}
            with warnings.catch_warnings():
                warnings.simplefilter("ignore")
                if st[1] == "z3":
                    with z3_route(st[2], sum(1 for k in s.is_answer_key if k) + 4) as kw:
                        r = vlib.guarded(lambda: s.solve(**kw))
                elif st[1] == "native":
                    cls = make_native2(ms, [])
                    r = vlib.guarded(lambda: s.solve(backend=cls))
                else:
                    log, given = [], []
                    cls = make_scripted(st[1][5:], random.Random(7919 * n + len(ms)), ms, None, log, given)
                    r = vlib.guarded(lambda: s.solve(backend=cls))
                    rec["log"], rec["given"] = log, given
            if r[0] == "err":
                r = ("err", r[1] if r[1] in ERR.values() else "Other")
            rec["result"], rec["sols"] = r, [v.sol for v in vs]
            rec["pure"] = (trees_sorted(s.constraints) == before[0] and list(s.is_answer_key) == before[1])
            rec["sols_before"] = before[2]
            rec["state"] = G.state_tok(decls, keys, list(s.constraints))
            recs.append(rec)
    return recs


def reference_setup(sc, upto):
    """the same declarations, constraints and keys given as plain lists to a fresh Solver."""
    from cspuz import Solver
    cons, keys = H.intended(sc, upto)
    s = Solver()
    vs = G.declare(s, sc["decls"])
    s.ensure([G.build(c, vs) for c in cons])
    ks = [v for v, k in zip(vs, keys) if k]
    if ks:
        s.add_answer_key(ks)
    return trees_sorted(s.constraints), list(s.is_answer_key)


def rec_fails(rec):
    """does the property fail at this solve()?  -> None | (category, text)"""
    if "setup_err" in rec:
        return "setup", "%s raises %s" % (rec["what"], rec["setup_err"])
    f, r, keys, sols = rec["exp"], rec["result"], rec["keys"], rec["sols"]
    er = ("ok", f is not None)
    if r != er:
        return "verdict", "solve() -> %s, but the program is %s" % (
            r[1] if r[0] == "ok" else "raises " + r[1], "satisfiable" if er[1] else "unsatisfiable")
    if f is not None:
        for i, k in enumerate(keys):
            if k and (sols[i] != f[i] or type(sols[i]) is not type(f[i])):
                return "fact", "answer key #%d: sol = %r, but %s" % (
                    i, sols[i], ("every solution has %r" % (f[i],)) if f[i] is not None else "two solutions differ on it")
    return None


def scenario_fails(sc):
    """-> None | (category, text, step)"""
    for rec in run_scenario(sc):
        x = rec_fails(rec)
        if x:
            return x[0], "step %d %s: %s" % (rec["step"], "solve(%s)" % rec.get("backend", "") if "result" in rec else "", x[1]), rec["step"]
    return None


def shrink_scenario(sc, cat, budget=150):
    used = [0]

    def still(c):
        used[0] += 1
        try:
            x = scenario_fails(c)
        except Exception:
            return False
        return x is not None and x[0] == cat

    def with_steps(steps):
        d = dict(sc)
        d["steps"] = steps
        return d
    x = scenario_fails(sc)
    if x is None:
        return sc
    sc = with_steps(sc["steps"][: x[2] + 1])             # nothing after the failing step matters
    if sc["decl_form"] != "vars":
        c = dict(sc)
        c["decl_form"] = "vars"
        if still(c):
            sc = c
    progress = True
    while progress and used[0] < budget:
        progress = False
        steps = sc["steps"]
        for i in range(len(steps) - 1):                  # drop a step
            c = with_steps(steps[:i] + steps[i + 1:])
            if still(c):
                sc, progress = c, True
                break
        if progress:
            continue
        for i, st in enumerate(steps):                   # plain forms where the form does not matter
            if st[0] in ("ensure", "keys") and st[2] != "list":
                c = with_steps(steps[:i] + [(st[0], st[1], "list", 0)] + steps[i + 1:])
                if still(c):
                    sc, progress = c, True
                    break
            if st[0] == "solve" and st[2] != "class":
                c = with_steps(steps[:i] + [(st[0], st[1], "class")] + steps[i + 1:])
                if still(c):
                    sc, progress = c, True
                    break
            if st[0] == "keys" and len(st[1]) > 1:
                for j in range(len(st[1])):
                    c = with_steps(steps[:i] + [(st[0], st[1][:j] + st[1][j + 1:], st[2], st[3])] + steps[i + 1:])
                    if still(c):
                        sc, progress = c, True
                        break
                if progress:
                    break
    for i, st in enumerate(sc["steps"]):                 # smaller constraints
        if st[0] == "ensure" and st[1] and used[0] < budget:
            def f(_d, cs, i=i, st=st):
                return still(with_steps(sc["steps"][:i] + [(st[0], list(cs), st[2], st[3])] + sc["steps"][i + 1:]))
            small = G.shrink(sc["decls"], st[1], f, budget=max(10, (budget - used[0]) // 2))
            sc = with_steps(sc["steps"][:i] + [(st[0], small, st[2], st[3])] + sc["steps"][i + 1:])
    return sc


def report_scenario(ctx, sc, first):
    small = shrink_scenario(sc, first[0])
    now = scenario_fails(small)
    if now is None or now[0] != first[0]:
        small, now = sc, first
    cons, keys = H.intended(small, now[2] + 1)
    ms = H.models2(small["decls"], small["cands"], cons)
    ctx.violation("scenario-%s-%s" % (now[0], md5(repr(small))), now[1],
                  {"scenario": repr(small), "history": H.show_steps(small),
                   "decls": [list(d) if d != "b" else "b" for d in small["decls"]],
                   "candidates": {str(k): v for k, v in small["cands"].items()},
                   "decl_form": small["decl_form"], "keys": keys,
                   "program": [G.show_surface(c) for c in cons], "expected_facts": G.facts(ms, keys),
                   "category": now[0], "backend": "scenario"})


def scenario_stream(ctx, rng, m, n):
    """correspondence part: every solve() of every scenario against the extracted model."""
    import exprio
    scs, reqs, slots = [], [], []
    for it in range(n):
        sc = H.gen_scenario(ctx, rng)
        try:
            recs = run_scenario(sc)
        except Exception as ex:      # noqa   the harness itself must not hide a crash
            ctx.mismatches.append({"kind": "scenario-harness", "input": repr(sc), "model": "runs", "impl": vlib.err_name(ex)})
            continue
        scs.append((sc, recs))
        for st in sc["steps"]:
            if st[0] in ("ensure", "keys"):
                ctx.count("form:%s:%s" % (st[0], st[2]))
        narrow = H.max_width(sc) <= 8
        for rec in recs:
            if "setup_err" in rec:
                ctx.corr("sc-setup", (repr(sc), rec["step"]), "accepted", "%s raises %s" % (rec["what"], rec["setup_err"]))
                continue
            ctx.count("sc-solve:%s:%s" % (rec["backend"].split(":")[0], rec["how"]))
            # the API forms: what the Solver holds must be what it holds when given plain lists
            ref = reference_setup(sc, rec["step"])
            ctx.corr("sc-forms", (repr(sc), rec["step"]), "K %r C %s" % (ref[1], " ".join(ref[0])),
                     "K %r C %s" % (rec["impl_keys"], " ".join(rec["impl_cons"])))
            if not rec["pure"]:
                ctx.mismatches.append({"kind": "sc-solve-changes-program", "input": repr(sc), "model": "solve() leaves constraints / is_answer_key alone", "impl": "changed at step %d" % rec["step"]})
            if rec["result"] == ("ok", False):
                after = rec["sols"]
                ctx.count("sc-unsat-sol:" + ("kept" if after == rec["sols_before"] else "cleared" if all(x is None for x in after) else "other"))
            if rec["backend"] == "z3" and narrow:
                ksols = [x if k else None for x, k in zip(rec["sols"], rec["keys"])]
                reqs.append("SOLVEKEYS " + rec["state"])
                slots.append(("sc-solve-z3", (repr(sc), rec["step"]), result_tok(rec["result"], ksols)))
            elif rec["backend"].startswith("live:"):
                clauses = [c for k, c in rec["log"] if k == "add"]
                req = "SCRIPT auto %s [%s ] %s" % (G.decls_tok(sc["decls"]), "".join(" 1" if k else " 0" for k in rec["keys"]),
                                                   script_tok(rec["given"]))
                reqs.append(req)
                slots.append(("sc-scripted", (repr(sc), rec["step"]), result_tok(rec["result"], rec["sols"]) + " | " + exprio.show_list(clauses)))
    outs = m.batch(reqs)
    for (kind, inp, impl), o in zip(slots, outs):
        ctx.corr(kind, inp, o, impl)
    return scs


def scenario_search(ctx, scs):
    for sc, recs in scs:
        for rec in recs:
            ctx.prop_case("scenario-solve-vs-enumeration", (repr(sc), rec["step"]))
            x = rec_fails(rec)
            if x:
                report_scenario(ctx, sc, (x[0], x[1], rec["step"]))
                break


# ----------------------------------------------------------------- correspondence

def correspond(ctx):
    rng = ctx.rng
    m = ctx.model("C02")
    ctx._c02 = {"z3": [], "scripted": []}

    reqs, cases = [], []
    for it in range(600 if not ctx.thorough else 6000):
        scripted_case(ctx, rng, reqs, cases)
    outs = m.batch(reqs)
    for c, o in zip(cases, outs):
        ctx.corr("scripted", (c["req"], c["policy"]), o, c["impl"])
        if not c["init_ok"]:
            ctx.mismatches.append({"kind": "scripted-init", "input": c["req"], "model": "program loaded first", "impl": "not"})
    ctx._c02["scripted"] = cases

    reqs, cases = [], []
    n = 250 if not ctx.thorough else 3000
    if getattr(ctx, "deep", False):
        n *= 3
    for it in range(n):
        decls, cons, keys = gen_program(ctx, rng)
        r, sols, s = run_case(decls, cons, keys, "z3")
        st = G.state_tok(decls, keys, list(s.constraints)) if s is not None else "setup-failed " + repr((decls, keys))
        ksols = [x if k else None for x, k in zip(sols, keys)]
        reqs.append("SOLVEKEYS " + st)
        reqs.append("FACTS " + st)
        cases.append({"decls": decls, "cons": cons, "keys": keys, "result": r, "sols": sols, "ksols": ksols, "state": st})
    outs = m.batch(reqs)
    for i, c in enumerate(cases):
        ctx.corr("solve-z3", c["state"], outs[2 * i], result_tok(c["result"], c["ksols"]))
        c["coq_facts"] = outs[2 * i + 1]
    ctx._c02["z3"] = cases

    n = 450 if not ctx.thorough else 5000
    if getattr(ctx, "deep", False):
        n *= 3
    ctx._c02["scenarios"] = scenario_stream(ctx, rng, m, n)


# ----------------------------------------------------------------- search

def expected(decls, cons, keys):
    ms = G.models(decls, cons)
    f = G.facts(ms, keys)
    return ("ok", f is not None), f


def solve_fails(decls, cons, keys, backend="z3"):
    if backend == "native":
        ms = G.models(decls, cons)
        backend = make_native(ms, keys, [])
    r, sols, _s = run_case(decls, cons, keys, backend)
    er, f = expected(decls, cons, keys)
    if r != er:
        return "verdict", "solve() -> %s, but the program is %s" % (
            r[1] if r[0] == "ok" else "raises " + r[1], "satisfiable" if er[1] else "unsatisfiable")
    if er[1]:
        for i, k in enumerate(keys):
            if k and sols[i] != f[i] or (k and type(sols[i]) is not type(f[i])):
                return "fact", "answer key #%d: sol = %r, but %s" % (
                    i, sols[i], ("every solution has %r" % (f[i],)) if f[i] is not None else "two solutions differ on it")
    return None


def report(ctx, decls, cons, keys, backend, first):
    cat = first[0]

    def same(d, c):
        x = solve_fails(d, c, keys, backend)
        return x is not None and x[0] == cat
    small = G.shrink(decls, cons, same, budget=120) if cons else cons
    now = solve_fails(decls, small, keys, backend) or first
    try:
        s, vs = setup(decls, small, keys)
        st = G.state_tok(decls, keys, list(s.constraints))
    except SetupFailed:
        st = "setup-failed " + repr((decls, keys, small))
    er, f = expected(decls, small, keys)
    ctx.violation("solve-%s-%s" % (backend, md5(st)), now[1],
                  {"decls": [list(d) if d != "b" else "b" for d in decls], "keys": keys,
                   "program": [G.show_surface(c) for c in small], "surface": repr(small), "state": st,
                   "backend": backend, "expected_facts": f, "category": cat})


def check_case(ctx, decls, cons, keys, backend):
    ctx.prop_case("solve-%s-vs-enumeration" % backend,
                  (G.decls_tok(decls), tuple(G.show_surface(c) for c in cons), tuple(keys)))
    x = solve_fails(decls, cons, keys, backend)
    if x:
        report(ctx, decls, cons, keys, backend, x)


def search(ctx):
    rng = ctx.rng
    data = getattr(ctx, "_c02", None)
    progs = []
    if data and data["z3"]:
        for c in data["z3"]:
            progs.append((c["decls"], c["cons"], c["keys"]))
            # the Coq specification of the facts vs the harness' enumeration
            er, f = expected(c["decls"], c["cons"], c["keys"])
            exp = "U" if f is None else "S " + G.vals_tok(f)
            if c.get("coq_facts") != exp:
                ctx.mismatches.append({"kind": "spec-vs-pyfacts", "input": c["state"], "model": c.get("coq_facts"), "impl": exp})
    else:
        for it in range(150):
            progs.append(gen_program(ctx, rng))
    for (decls, cons, keys) in progs:
        check_case(ctx, decls, cons, keys, "z3")
    for (decls, cons, keys) in progs[: (150 if not ctx.thorough else len(progs))]:
        check_case(ctx, decls, cons, keys, "native")
    # the scripted runs with a conformant live backend are also instances of the property
    if data:
        for c in data["scripted"]:
            if c["policy"] == "script":
                continue
            ctx.prop_case("solve-live-vs-enumeration", (c["req"], c["policy"]))
            er, f = expected(c["decls"], c["cons"], c["keys"])
            ok = c["result"] == er and (f is None or all((not k) or c["sols"][i] == f[i] for i, k in enumerate(c["keys"])))
            if not ok:
                st = c["req"]
                ctx.violation("solve-live-" + md5(st), "solve() with a conformant backend (policy %s) reports %r / %r, expected %r"
                              % (c["policy"], c["result"], c["sols"], f),
                              {"decls": [list(d) if d != "b" else "b" for d in c["decls"]], "keys": c["keys"],
                               "program": [G.show_surface(x) for x in c["cons"]], "surface": repr(c["cons"]),
                               "backend": "live:" + c["policy"], "expected_facts": f, "script": c["req"]})
    scs = data.get("scenarios") if data else None
    if scs is None:
        scs = []
        for it in range(300):
            sc = H.gen_scenario(ctx, rng)
            scs.append((sc, run_scenario(sc)))
    scenario_search(ctx, scs)
    if getattr(ctx, "deep", False) and not ctx.violations:
        for it in range(800):
            decls, cons, keys = gen_program(ctx, rng)
            check_case(ctx, decls, cons, keys, "z3")
            if len(ctx.violations) >= 3:
                break
    if getattr(ctx, "deep", False) and not ctx.violations:
        for it in range(1500):
            sc = H.gen_scenario(ctx, rng)
            scenario_search(ctx, [(sc, run_scenario(sc))])
            if len(ctx.violations) >= 3:
                break


def replay(ctx, rp):
    v = rp.get("violation", {}).get("detail", {})
    print(rp.get("violation", rp))
    if v and v.get("backend") == "scenario":
        sc = eval(v["scenario"], {})     # written by this harness: a dict of literals
        x = scenario_fails(sc)
        print("history:", "; ".join(H.show_steps(sc)))
        print("now:", x[1] if x else "property holds on this input")
        return 1 if x else 0
    if not v or "surface" not in v or v.get("backend") not in ("z3", "native"):
        return 0
    decls = [d if d == "b" else tuple(d) for d in v["decls"]]
    cons = eval(v["surface"], {})      # written by this harness: nested tuples of literals
    x = solve_fails(decls, cons, v["keys"], v["backend"])
    print("now:", x[1] if x else "property holds on this input")
    return 1 if x else 0
