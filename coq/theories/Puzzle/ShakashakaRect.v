(* C11 Tier 1 - shakashaka, part 9: the executable rectangle test of Rules_shakashaka.v on a white area
   (is_rectangle on the component list) holds exactly when the area is an upright rectangle of whole cells or a
   rectangle of whole diagonal squares. *)
From Coq Require Import ZArith List Bool Arith Lia.
From Cspuz Require Import Graph.GraphModel Graph.ReachProofs Puzzle.PuzzleBase Puzzle.ModelBase Puzzle.ModelLemmas
     Puzzle.Rules_shakashaka Puzzle.Shakashaka Puzzle.ShakashakaSem Puzzle.ShakashakaGeo Puzzle.ShakashakaDiag
     Puzzle.ShakashakaComplete Puzzle.ShakashakaBridge Puzzle.ShakashakaCount.
Import ListNotations.
Local Open Scope nat_scope.

(* ---- the corner points of a quarter *)
Definition fu (p : nat * nat) : nat := fst p + snd p.
Definition fv (h : nat) (p : nat * nat) : nat := fst p + 2 * h - snd p.
(* diagonal coordinates of quarter q of cell (yy, xx), shifted to nat *)
Definition au (yy xx q : nat) : nat := xx + yy + (if Nat.eqb q 1 || Nat.eqb q 2 then 1 else 0).
Definition bv (h yy xx q : nat) : nat := xx + h - yy - (if Nat.eqb q 2 || Nat.eqb q 3 then 1 else 0).

Lemma qp_bounds yy xx q p : In p (quarter_points yy xx q) ->
  2 * xx <= fst p <= 2 * xx + 2 /\ 2 * yy <= snd p <= 2 * yy + 2.
Proof. unfold quarter_points. destruct q as [|[|[|q]]]; intros [<-|[<-|[<-|[]]]]; cbn [fst snd]; lia. Qed.
Lemma qp_centre yy xx q : In (2 * xx + 1, 2 * yy + 1) (quarter_points yy xx q).
Proof. unfold quarter_points. destruct q as [|[|[|q]]]; cbn [In]; tauto. Qed.
Lemma qp_kinds yy xx q p : In p (quarter_points yy xx q) ->
  p = (2 * xx + 1, 2 * yy + 1) \/
  ((fst p = 2 * xx \/ fst p = 2 * xx + 2) /\ (snd p = 2 * yy \/ snd p = 2 * yy + 2)).
Proof. unfold quarter_points. destruct q as [|[|[|q]]]; intros [<-|[<-|[<-|[]]]]; cbn [fst snd]; first [left; reflexivity|right; lia]. Qed.
Lemma qp_left yy xx q : q < 4 -> q <> 1 -> exists p, In p (quarter_points yy xx q) /\ fst p = 2 * xx.
Proof.
  intros Hq Hn. destruct q as [|[|[|[|q]]]]; try lia; unfold quarter_points;
    (eexists; split; [left; reflexivity|cbn [fst]; lia]).
Qed.
Lemma qp_right yy xx q : q < 4 -> q <> 3 -> exists p, In p (quarter_points yy xx q) /\ fst p = 2 * xx + 2.
Proof.
  intros Hq Hn. destruct q as [|[|[|[|q]]]]; try lia; unfold quarter_points.
  - eexists; split; [right; left; reflexivity|cbn [fst]; lia].
  - eexists; split; [left; reflexivity|cbn [fst]; lia].
  - eexists; split; [right; left; reflexivity|cbn [fst]; lia].
Qed.
Lemma qp_top yy xx q : q < 4 -> q <> 2 -> exists p, In p (quarter_points yy xx q) /\ snd p = 2 * yy.
Proof.
  intros Hq Hn. destruct q as [|[|[|[|q]]]]; try lia; unfold quarter_points;
    (eexists; split; [left; reflexivity|cbn [snd]; lia]).
Qed.
Lemma qp_bottom yy xx q : q < 4 -> q <> 0 -> exists p, In p (quarter_points yy xx q) /\ snd p = 2 * yy + 2.
Proof.
  intros Hq Hn. destruct q as [|[|[|[|q]]]]; try lia; unfold quarter_points.
  - eexists; split; [right; left; reflexivity|cbn [snd]; lia].
  - eexists; split; [left; reflexivity|cbn [snd]; lia].
  - eexists; split; [right; left; reflexivity|cbn [snd]; lia].
Qed.
Lemma qp_u yy xx q p : q < 4 -> In p (quarter_points yy xx q) -> fu p = 2 * au yy xx q \/ fu p = 2 * au yy xx q + 2.
Proof.
  intros Hq. unfold quarter_points, fu, au. destruct q as [|[|[|[|q]]]]; try lia; intros [<-|[<-|[<-|[]]]]; cbn; lia.
Qed.
Lemma qp_u_both yy xx q : q < 4 ->
  (exists p, In p (quarter_points yy xx q) /\ fu p = 2 * au yy xx q) /\
  (exists p, In p (quarter_points yy xx q) /\ fu p = 2 * au yy xx q + 2).
Proof.
  intros Hq. unfold quarter_points, fu, au. destruct q as [|[|[|[|q]]]]; try lia; split.
  - eexists; split; [left; reflexivity|cbn; lia].
  - eexists; split; [right; left; reflexivity|cbn; lia].
  - eexists; split; [left; reflexivity|cbn; lia].
  - eexists; split; [right; left; reflexivity|cbn; lia].
  - eexists; split; [left; reflexivity|cbn; lia].
  - eexists; split; [right; left; reflexivity|cbn; lia].
  - eexists; split; [left; reflexivity|cbn; lia].
  - eexists; split; [right; left; reflexivity|cbn; lia].
Qed.
Lemma qp_v h yy xx q p : q < 4 -> yy < h -> In p (quarter_points yy xx q) ->
  fv h p = 2 * bv h yy xx q \/ fv h p = 2 * bv h yy xx q + 2.
Proof.
  intros Hq Hy. unfold quarter_points, fv, bv. destruct q as [|[|[|[|q]]]]; try lia; intros [<-|[<-|[<-|[]]]]; cbn [fst snd Nat.eqb orb]; lia.
Qed.
Lemma qp_v_both h yy xx q : q < 4 -> yy < h ->
  (exists p, In p (quarter_points yy xx q) /\ fv h p = 2 * bv h yy xx q) /\
  (exists p, In p (quarter_points yy xx q) /\ fv h p = 2 * bv h yy xx q + 2).
Proof.
  intros Hq Hy. unfold quarter_points, fv, bv. destruct q as [|[|[|[|q]]]]; try lia; split.
  - eexists; split; [left; reflexivity|cbn [fst snd Nat.eqb orb]; lia].
  - eexists; split; [right; left; reflexivity|cbn [fst snd Nat.eqb orb]; lia].
  - eexists; split; [right; left; reflexivity|cbn [fst snd Nat.eqb orb]; lia].
  - eexists; split; [left; reflexivity|cbn [fst snd Nat.eqb orb]; lia].
  - eexists; split; [left; reflexivity|cbn [fst snd Nat.eqb orb]; lia].
  - eexists; split; [right; left; reflexivity|cbn [fst snd Nat.eqb orb]; lia].
  - eexists; split; [right; left; reflexivity|cbn [fst snd Nat.eqb orb]; lia].
  - eexists; split; [left; reflexivity|cbn [fst snd Nat.eqb orb]; lia].
Qed.
Lemma au_da yy xx q : Z.of_nat (au yy xx q) = da (Z.of_nat yy, Z.of_nat xx, q).
Proof. unfold au, da. destruct (Nat.eqb q 1 || Nat.eqb q 2); lia. Qed.
Lemma bv_db h yy xx q : yy < h -> Z.of_nat (bv h yy xx q) = (db (Z.of_nat yy, Z.of_nat xx, q) + Z.of_nat h)%Z.
Proof. intros Hy. unfold bv, db. destruct (Nat.eqb q 2 || Nat.eqb q 3); lia. Qed.

Section Rect.
  Variables (h w : nat) (wc : nat -> bool) (ans : list Z).
  Hypothesis Hrange : range_rule ans = true.
  Notation cst := (cstZ h w wc ans).
  Notation g := (quarter_graph h w).
  Notation wqf := (white_quarter wc ans).
  Notation N := (4 * (h * w)).
  Notation dec := (dec w).
  Notation enc := (enc w).
  Notation encZ := (encZ w).
  Variable s : nat.
  Hypothesis Hs : s < N.
  Hypothesis Ws : wqf s = true.

  Definition CL : list nat := component g wqf all_edges_ok s.
  Definition Cq (t : quarter) : Prop := qreach cst (dec s) t.
  Definition qp (n : nat) : list (nat * nat) :=
    quarter_points (Nat.div (Nat.div n 4) w) (Nat.modulo (Nat.div n 4) w) (Nat.modulo n 4).
  Definition pts : list (nat * nat) := flat_map qp CL.

  Lemma is_rectangle_unfold :
    is_rectangle h w CL =
    Nat.eqb (span (map fst pts) * span (map snd pts)) (length CL) ||
    Nat.eqb (span (map fu pts) * span (map (fv h) pts)) (2 * length CL).
  Proof.
    unfold is_rectangle. fold qp. change (flat_map (fun n => qp n) CL) with pts. cbv zeta.
    f_equal. f_equal. f_equal; f_equal; apply map_ext; intros [X Y]; reflexivity.
  Qed.

  Lemma CL_nodup : NoDup CL.
  Proof. apply component_nodup. Qed.
  Lemma CL_in n : In n CL <-> (n < N /\ Cq (dec n)).
  Proof. apply (component_qreach h w wc ans Hrange s n Hs). Qed.
  Lemma s_white : white cst (dec s).
  Proof. apply (wq_white h w wc ans Hrange s Hs). exact Ws. Qed.
  Lemma s_in : In s CL.
  Proof. apply CL_in. split; [exact Hs|apply qr_refl; exact s_white]. Qed.
  Lemma Cq_board t : Cq t -> (0 <= fst (fst t) < Z.of_nat h)%Z /\ (0 <= snd (fst t) < Z.of_nat w)%Z /\ snd t < 4.
  Proof. intros H. apply (white_white_board h w wc ans). apply (qreach_end _ _ _ H). Qed.
  Lemma Cq_in t : Cq t -> In (encZ t) CL /\ dec (encZ t) = t.
  Proof.
    intros H. destruct (Cq_board t H) as [B1 [B2 B3]]. destruct (dec_encZ h w t B1 B2 B3) as [E L].
    split; [|exact E]. apply CL_in. split; [exact L|]. rewrite E. exact H.
  Qed.
  (* coordinates of an index *)
  Definition yy (n : nat) : nat := Nat.div (Nat.div n 4) w.
  Definition xx (n : nat) : nat := Nat.modulo (Nat.div n 4) w.
  Definition qq (n : nat) : nat := Nat.modulo n 4.
  Lemma dec_coords n : dec n = (Z.of_nat (yy n), Z.of_nat (xx n), qq n).
  Proof. reflexivity. Qed.
  Lemma coords_lt n : n < N -> yy n < h /\ xx n < w /\ qq n < 4.
  Proof. intros Hn. destruct (enc_dec h w n Hn) as [_ H]. exact H. Qed.
  Lemma coords_enc y x q : x < w -> q < 4 -> yy (enc y x q) = y /\ xx (enc y x q) = x /\ qq (enc y x q) = q.
  Proof.
    intros Hx Hq. pose proof (dec_enc w y x q Hx Hq) as E. rewrite dec_coords in E.
    injection E as E1 E2 E3. apply Nat2Z.inj in E1. apply Nat2Z.inj in E2. auto.
  Qed.

  Lemma pts_in p : In p pts <-> exists n, In n CL /\ In p (qp n).
  Proof. unfold pts. apply in_flat_map. Qed.
  Lemma pts_ne : pts <> [].
  Proof.
    intros E. assert (H : In (2 * xx s + 1, 2 * yy s + 1) pts).
    { apply pts_in. exists s. split; [exact s_in|apply qp_centre]. }
    rewrite E in H. destruct H.
  Qed.
  Lemma map_pts_in {B} (f : nat * nat -> B) v : In v (map f pts) <-> exists n p, In n CL /\ In p (qp n) /\ v = f p.
  Proof.
    rewrite in_map_iff. split.
    - intros [p [E Hp]]. apply pts_in in Hp. destruct Hp as [n [Hn Hp]]. exists n, p. auto.
    - intros [n [p [Hn [Hp E]]]]. exists p. split; [auto|]. apply pts_in. exists n. auto.
  Qed.
  Lemma map_pts_ne {B} (f : nat * nat -> B) : map f pts <> [].
  Proof. intros E. apply map_eq_nil in E. apply (pts_ne E). Qed.

  (* ---- an upright rectangle of whole cells passes the test *)
  Lemma rectA_test : RectA Cq -> Nat.eqb (span (map fst pts) * span (map snd pts)) (length CL) = true.
  Proof.
    intros [y1 [y2 [x1 [x2 B]]]].
    (* the box is not empty and lies on the board *)
    pose proof (Cq_board _ (qr_refl _ _ s_white)) as Bs. rewrite dec_coords in Bs. cbn [fst snd] in Bs.
    pose proof (proj1 (B _ _ _ (proj2 (proj2 Bs))) (qr_refl _ _ s_white)) as Bx.
    assert (In00 : Cq (y1, x1, 0)) by (apply B; lia).
    assert (In11 : Cq (y2, x2, 0)) by (apply B; lia).
    pose proof (Cq_board _ In00) as B00. pose proof (Cq_board _ In11) as B11. cbn [fst snd] in B00, B11.
    set (Y1 := Z.to_nat y1). set (Y2 := Z.to_nat y2). set (X1 := Z.to_nat x1). set (X2 := Z.to_nat x2).
    assert (Mem : forall n, In n CL <-> (n < N /\ Y1 <= yy n <= Y2 /\ X1 <= xx n <= X2)).
    { intros n. rewrite CL_in. split.
      - intros [Hn Hc]. split; [exact Hn|]. destruct (coords_lt n Hn) as [_ [_ Hq]].
        rewrite dec_coords in Hc. apply (B _ _ _ Hq) in Hc. lia.
      - intros [Hn Hb]. split; [exact Hn|]. destruct (coords_lt n Hn) as [_ [_ Hq]].
        rewrite dec_coords. apply (B _ _ _ Hq). lia. }
    assert (MemE : forall y x q, Y1 <= y <= Y2 -> X1 <= x <= X2 -> q < 4 -> In (enc y x q) CL).
    { intros y x q Hy Hx Hq. apply Mem. destruct (coords_enc y x q ltac:(lia) Hq) as [-> [-> _]].
      split; [apply enc_lt; lia|lia]. }
    (* the number of quarters *)
    assert (Len : length CL = 4 * ((Y2 - Y1 + 1) * (X2 - X1 + 1))).
    { set (bins := list_prod (seq Y1 (Y2 - Y1 + 1)) (seq X1 (X2 - X1 + 1))).
      set (eqb2 := fun a b : nat * nat => Nat.eqb (fst a) (fst b) && Nat.eqb (snd a) (snd b)).
      assert (eqb2_spec : forall a b, eqb2 a b = true <-> a = b).
      { intros [a1 a2] [b1 b2]. unfold eqb2. cbn [fst snd]. rewrite andb_true_iff, !Nat.eqb_eq. split; [intros [-> ->]; reflexivity|intros E; inversion E; auto]. }
      rewrite (length_const_bins _ _ eqb2 eqb2_spec (fun n => (yy n, xx n)) CL bins 4).
      - unfold bins. rewrite prod_length, !seq_length. reflexivity.
      - apply NoDup_list_prod; apply seq_NoDup.
      - intros n Hn. apply Mem in Hn. apply in_prod_iff. split; apply in_seq; lia.
      - intros [y x] Hb. apply in_prod_iff in Hb. destruct Hb as [Hy Hx]. apply in_seq in Hy. apply in_seq in Hx.
        rewrite (count_exact _ CL [enc y x 0; enc y x 1; enc y x 2; enc y x 3]); [reflexivity|exact CL_nodup| | |].
        + unfold ShakashakaBridge.enc. repeat constructor; cbn [In]; lia.
        + intros n [<-|[<-|[<-|[<-|[]]]]]; apply MemE; lia.
        + intros n Hn. pose proof (proj1 (Mem n) Hn) as [Ln _]. rewrite eqb2_spec. split.
          * intros E. injection E as Ey Ex. destruct (enc_dec h w n Ln) as [En [_ [_ Lq]]].
            fold (yy n) (xx n) (qq n) in En, Lq. rewrite Ey, Ex in En.
            destruct (qq n) as [|[|[|[|q]]]]; try lia; rewrite <- En; cbn [In]; tauto.
          * intros [<-|[<-|[<-|[<-|[]]]]]; (destruct (coords_enc y x _ ltac:(lia) ltac:(lia)) as [-> [-> _]] || idtac);
              try reflexivity.
            all: try (destruct (coords_enc y x 0 ltac:(lia) ltac:(lia)) as [-> [-> _]]; reflexivity).
            all: try (destruct (coords_enc y x 1 ltac:(lia) ltac:(lia)) as [-> [-> _]]; reflexivity).
            all: try (destruct (coords_enc y x 2 ltac:(lia) ltac:(lia)) as [-> [-> _]]; reflexivity).
            all: try (destruct (coords_enc y x 3 ltac:(lia) ltac:(lia)) as [-> [-> _]]; reflexivity). }
    (* the spans *)
    assert (SX : span (map fst pts) = 2 * X2 + 2 - 2 * X1).
    { rewrite span_minmax.
      rewrite (lmin_eq (map fst pts) (2 * X1)), (lmax_eq (map fst pts) (2 * X2 + 2)); [reflexivity| | | |].
      - apply map_pts_in. destruct (qp_right Y1 X2 1 ltac:(lia) ltac:(lia)) as [p [Hp E]].
        exists (enc Y1 X2 1), p. split; [apply MemE; lia|]. unfold qp.
        destruct (coords_enc Y1 X2 1 ltac:(lia) ltac:(lia)) as [E1 [E2 E3]]. fold (yy (enc Y1 X2 1)) (xx (enc Y1 X2 1)) (qq (enc Y1 X2 1)).
        rewrite E1, E2, E3. auto.
      - intros v Hv. apply map_pts_in in Hv. destruct Hv as [n [p [Hn [Hp ->]]]]. apply Mem in Hn.
        pose proof (qp_bounds _ _ _ _ Hp). fold (xx n) in H. lia.
      - apply map_pts_in. destruct (qp_left Y1 X1 3 ltac:(lia) ltac:(lia)) as [p [Hp E]].
        exists (enc Y1 X1 3), p. split; [apply MemE; lia|]. unfold qp.
        destruct (coords_enc Y1 X1 3 ltac:(lia) ltac:(lia)) as [E1 [E2 E3]]. fold (yy (enc Y1 X1 3)) (xx (enc Y1 X1 3)) (qq (enc Y1 X1 3)).
        rewrite E1, E2, E3. auto.
      - intros v Hv. apply map_pts_in in Hv. destruct Hv as [n [p [Hn [Hp ->]]]]. apply Mem in Hn.
        pose proof (qp_bounds _ _ _ _ Hp). fold (xx n) in H. lia. }
    assert (SY : span (map snd pts) = 2 * Y2 + 2 - 2 * Y1).
    { rewrite span_minmax.
      rewrite (lmin_eq (map snd pts) (2 * Y1)), (lmax_eq (map snd pts) (2 * Y2 + 2)); [reflexivity| | | |].
      - apply map_pts_in. destruct (qp_bottom Y2 X1 2 ltac:(lia) ltac:(lia)) as [p [Hp E]].
        exists (enc Y2 X1 2), p. split; [apply MemE; lia|]. unfold qp.
        destruct (coords_enc Y2 X1 2 ltac:(lia) ltac:(lia)) as [E1 [E2 E3]]. fold (yy (enc Y2 X1 2)) (xx (enc Y2 X1 2)) (qq (enc Y2 X1 2)).
        rewrite E1, E2, E3. auto.
      - intros v Hv. apply map_pts_in in Hv. destruct Hv as [n [p [Hn [Hp ->]]]]. apply Mem in Hn.
        pose proof (qp_bounds _ _ _ _ Hp). fold (yy n) in H. lia.
      - apply map_pts_in. destruct (qp_top Y1 X1 0 ltac:(lia) ltac:(lia)) as [p [Hp E]].
        exists (enc Y1 X1 0), p. split; [apply MemE; lia|]. unfold qp.
        destruct (coords_enc Y1 X1 0 ltac:(lia) ltac:(lia)) as [E1 [E2 E3]]. fold (yy (enc Y1 X1 0)) (xx (enc Y1 X1 0)) (qq (enc Y1 X1 0)).
        rewrite E1, E2, E3. auto.
      - intros v Hv. apply map_pts_in in Hv. destruct Hv as [n [p [Hn [Hp ->]]]]. apply Mem in Hn.
        pose proof (qp_bounds _ _ _ _ Hp). fold (yy n) in H. lia. }
    rewrite SX, SY, Len. apply Nat.eqb_eq. nia.
  Qed.

  (* ---- a rectangle of whole diagonal squares passes the test *)
  Definition qd (a b : Z) : quarter :=
    if Z.even (a + b) then (((a - b) / 2)%Z, ((a + b) / 2)%Z, 0) else (((a - b - 1) / 2)%Z, ((a + b + 1) / 2)%Z, 3).
  Lemma qd_coords a b : da (qd a b) = a /\ db (qd a b) = b /\ snd (qd a b) < 4.
  Proof.
    unfold qd. destruct (Z.even (a + b)) eqn:E.
    - apply Z.even_spec in E. destruct E as [k E]. cbn [da db snd Nat.eqb orb].
      assert (E1 : ((a + b) / 2 = k)%Z) by (rewrite E, Z.mul_comm; apply Z.div_mul; lia).
      assert (E2 : ((a - b) / 2 = k - b)%Z) by (replace (a - b)%Z with ((k - b) * 2)%Z by lia; apply Z.div_mul; lia).
      rewrite E1, E2. repeat split; lia.
    - assert (O : Z.odd (a + b) = true) by (rewrite <- Z.negb_even, E; reflexivity).
      apply Z.odd_spec in O. destruct O as [k O]. cbn [da db snd Nat.eqb orb].
      assert (E1 : ((a + b + 1) / 2 = k + 1)%Z) by (replace (a + b + 1)%Z with ((k + 1) * 2)%Z by lia; apply Z.div_mul; lia).
      assert (E2 : ((a - b - 1) / 2 = k - b)%Z) by (replace (a - b - 1)%Z with ((k - b) * 2)%Z by lia; apply Z.div_mul; lia).
      rewrite E1, E2. repeat split; lia.
  Qed.
  Lemma partner_ne t : snd t < 4 -> partner t <> t.
  Proof. destruct t as [[y x] q]. cbn [snd]. intros Hq E. destruct q as [|[|[|[|q]]]]; try lia; cbn in E; inversion E; lia. Qed.
  Lemma diamond_two t a b : snd t < 4 -> da t = a -> db t = b -> t = qd a b \/ t = partner (qd a b).
  Proof.
    intros Hq Ea Eb. destruct (qd_coords a b) as [A [B L]].
    apply (same_diamond (qd a b) t L Hq); lia.
  Qed.
  Definition eqbZ2 (p q : Z * Z) : bool := Z.eqb (fst p) (fst q) && Z.eqb (snd p) (snd q).
  Lemma eqbZ2_spec p q : eqbZ2 p q = true <-> p = q.
  Proof.
    destruct p as [p1 p2], q as [q1 q2]. unfold eqbZ2. cbn [fst snd]. rewrite andb_true_iff, !Z.eqb_eq.
    split; [intros [-> ->]; reflexivity|intros E; inversion E; auto].
  Qed.
  Definition dco (n : nat) : Z * Z := (da (dec n), db (dec n)).

  Lemma au_coords n : Z.of_nat (au (yy n) (xx n) (qq n)) = da (dec n).
  Proof. rewrite dec_coords. apply au_da. Qed.
  Lemma bv_coords n : n < N -> Z.of_nat (bv h (yy n) (xx n) (qq n)) = (db (dec n) + Z.of_nat h)%Z.
  Proof. intros Hn. rewrite dec_coords. apply bv_db. apply (coords_lt n Hn). Qed.

  Lemma rectD_test : RectD Cq -> Nat.eqb (span (map fu pts) * span (map (fv h) pts)) (2 * length CL) = true.
  Proof.
    intros [a1 [a2 [b1 [b2 B]]]].
    assert (Mem : forall n, In n CL <-> (n < N /\ (a1 <= da (dec n) <= a2)%Z /\ (b1 <= db (dec n) <= b2)%Z)).
    { intros n. rewrite CL_in. split.
      - intros [Hn Hc]. split; [exact Hn|]. apply (B (dec n)); [apply (coords_lt n Hn)|exact Hc].
      - intros [Hn Hb]. split; [exact Hn|]. apply (B (dec n)); [apply (coords_lt n Hn)|exact Hb]. }
    pose proof (proj1 (Mem s) s_in) as [_ Bs].
    (* the two quarters of every square of the box *)
    assert (Two : forall a b, (a1 <= a <= a2)%Z -> (b1 <= b <= b2)%Z ->
              Cq (qd a b) /\ Cq (partner (qd a b))).
    { intros a b Ha Hb. destruct (qd_coords a b) as [A [Bc L]]. split.
      - apply B; [exact L|]. rewrite A, Bc. lia.
      - apply B; [apply partner_lt4; exact L|]. destruct (partner_diamond (qd a b) L) as [-> ->]. rewrite A, Bc. lia. }
    set (An := Z.to_nat (a2 - a1 + 1)). set (Bn := Z.to_nat (b2 - b1 + 1)).
    assert (Len : length CL = 2 * (An * Bn)).
    { set (bins := list_prod (zseq a1 An) (zseq b1 Bn)).
      rewrite (length_const_bins _ _ eqbZ2 eqbZ2_spec dco CL bins 2).
      - unfold bins. rewrite prod_length, !zseq_length. reflexivity.
      - apply NoDup_list_prod; apply zseq_NoDup.
      - intros n Hn. apply Mem in Hn. unfold dco. apply in_prod_iff. split; apply zseq_in; lia.
      - intros [a b] Hb. apply in_prod_iff in Hb. destruct Hb as [Ha Hb]. apply zseq_in in Ha. apply zseq_in in Hb.
        destruct (Two a b ltac:(lia) ltac:(lia)) as [T1 T2].
        destruct (Cq_in _ T1) as [I1 D1]. destruct (Cq_in _ T2) as [I2 D2].
        destruct (qd_coords a b) as [Ac [Bc L]].
        rewrite (count_exact _ CL [encZ (qd a b); encZ (partner (qd a b))]); [reflexivity|exact CL_nodup| | |].
        + constructor; [|constructor; [intros []|constructor]]. intros [E|[]].
          apply (partner_ne (qd a b) L). rewrite <- D2, E. exact D1.
        + intros n [<-|[<-|[]]]; assumption.
        + intros n Hn. rewrite eqbZ2_spec. unfold dco. split.
          * intros E. injection E as Ea Eb. pose proof (proj1 (Mem n) Hn) as [Ln _].
            destruct (diamond_two (dec n) a b (proj2 (proj2 (coords_lt n Ln))) Ea Eb) as [Et|Et];
              rewrite <- (encZ_dec h w n Ln), Et; cbn [In]; tauto.
          * intros [<-|[<-|[]]]; [rewrite D1|rewrite D2; destruct (partner_diamond (qd a b) L) as [-> ->]]; rewrite Ac, Bc; reflexivity. }
    (* coordinates are not negative on the board *)
    assert (Pos : forall n, n < N -> (0 <= da (dec n))%Z /\ (0 <= db (dec n) + Z.of_nat h)%Z).
    { intros n Hn. rewrite <- au_coords, <- (bv_coords n Hn). lia. }
    assert (Cor : forall a b, (a1 <= a <= a2)%Z -> (b1 <= b <= b2)%Z ->
              exists n, In n CL /\ da (dec n) = a /\ db (dec n) = b).
    { intros a b Ha Hb. destruct (Two a b Ha Hb) as [T1 _]. destruct (Cq_in _ T1) as [I1 D1].
      exists (encZ (qd a b)). split; [exact I1|]. rewrite D1. destruct (qd_coords a b) as [A [Bc _]]. auto. }
    assert (SU : span (map fu pts) = 2 * An).
    { destruct (Cor a1 b1 ltac:(lia) ltac:(lia)) as [n1 [I1 [A1 _]]]. destruct (Cor a2 b1 ltac:(lia) ltac:(lia)) as [n2 [I2 [A2 _]]].
      pose proof (proj1 (Mem n1) I1) as [L1 _]. pose proof (proj1 (Mem n2) I2) as [L2 _].
      rewrite span_minmax.
      rewrite (lmin_eq (map fu pts) (2 * Z.to_nat a1)), (lmax_eq (map fu pts) (2 * Z.to_nat a2 + 2)).
      - destruct (Pos n1 L1) as [P1 _]. unfold An. lia.
      - apply map_pts_in. destruct (proj2 (qp_u_both (yy n2) (xx n2) (qq n2) (proj2 (proj2 (coords_lt n2 L2))))) as [p [Hp E]].
        exists n2, p. split; [exact I2|]. split; [exact Hp|]. rewrite E. pose proof (au_coords n2). lia.
      - intros v Hv. apply map_pts_in in Hv. destruct Hv as [n [p [Hn [Hp ->]]]]. pose proof (proj1 (Mem n) Hn) as [Ln [Ba _]].
        destruct (Pos n Ln) as [P _].
        destruct (qp_u (yy n) (xx n) (qq n) p (proj2 (proj2 (coords_lt n Ln))) Hp) as [E|E]; rewrite E; pose proof (au_coords n); lia.
      - apply map_pts_in. destruct (proj1 (qp_u_both (yy n1) (xx n1) (qq n1) (proj2 (proj2 (coords_lt n1 L1))))) as [p [Hp E]].
        exists n1, p. split; [exact I1|]. split; [exact Hp|]. rewrite E. pose proof (au_coords n1). lia.
      - intros v Hv. apply map_pts_in in Hv. destruct Hv as [n [p [Hn [Hp ->]]]]. pose proof (proj1 (Mem n) Hn) as [Ln [Ba _]].
        destruct (Pos n Ln) as [P _].
        destruct (qp_u (yy n) (xx n) (qq n) p (proj2 (proj2 (coords_lt n Ln))) Hp) as [E|E]; rewrite E; pose proof (au_coords n); lia. }
    assert (SV : span (map (fv h) pts) = 2 * Bn).
    { destruct (Cor a1 b1 ltac:(lia) ltac:(lia)) as [n1 [I1 [_ B1]]]. destruct (Cor a1 b2 ltac:(lia) ltac:(lia)) as [n2 [I2 [_ B2]]].
      pose proof (proj1 (Mem n1) I1) as [L1 _]. pose proof (proj1 (Mem n2) I2) as [L2 _].
      rewrite span_minmax.
      rewrite (lmin_eq (map (fv h) pts) (2 * Z.to_nat (b1 + Z.of_nat h))), (lmax_eq (map (fv h) pts) (2 * Z.to_nat (b2 + Z.of_nat h) + 2)).
      - destruct (Pos n1 L1) as [_ P1]. unfold Bn. lia.
      - apply map_pts_in. destruct (coords_lt n2 L2) as [Y2 [_ Q2]].
        destruct (proj2 (qp_v_both h (yy n2) (xx n2) (qq n2) Q2 Y2)) as [p [Hp E]].
        exists n2, p. split; [exact I2|]. split; [exact Hp|]. rewrite E. pose proof (bv_coords n2 L2). lia.
      - intros v Hv. apply map_pts_in in Hv. destruct Hv as [n [p [Hn [Hp ->]]]]. pose proof (proj1 (Mem n) Hn) as [Ln [_ Bb]].
        destruct (coords_lt n Ln) as [Yn [_ Qn]]. destruct (Pos n Ln) as [_ P].
        destruct (qp_v h (yy n) (xx n) (qq n) p Qn Yn Hp) as [E|E]; rewrite E; pose proof (bv_coords n Ln); lia.
      - apply map_pts_in. destruct (coords_lt n1 L1) as [Y1 [_ Q1]].
        destruct (proj1 (qp_v_both h (yy n1) (xx n1) (qq n1) Q1 Y1)) as [p [Hp E]].
        exists n1, p. split; [exact I1|]. split; [exact Hp|]. rewrite E. pose proof (bv_coords n1 L1). lia.
      - intros v Hv. apply map_pts_in in Hv. destruct Hv as [n [p [Hn [Hp ->]]]]. pose proof (proj1 (Mem n) Hn) as [Ln [_ Bb]].
        destruct (coords_lt n Ln) as [Yn [_ Qn]]. destruct (Pos n Ln) as [_ P].
        destruct (qp_v h (yy n) (xx n) (qq n) p Qn Yn Hp) as [E|E]; rewrite E; pose proof (bv_coords n Ln); lia. }
    rewrite SU, SV, Len. apply Nat.eqb_eq. nia.
  Qed.

  (* ---- conversely: a white area passing the upright test is an upright rectangle of whole cells *)
  Lemma cov_EW s0 : (s0 <= 5) -> (cov s0 1 = false \/ cov s0 3 = false) -> cov s0 0 = false \/ cov s0 2 = false.
  Proof. intros Hs0. destruct s0 as [|[|[|[|[|[|s0]]]]]]; try lia; cbn; intros [H|H]; try discriminate; auto. Qed.
  Lemma cov_NS s0 : (s0 <= 5) -> (cov s0 0 = false \/ cov s0 2 = false) -> cov s0 1 = false \/ cov s0 3 = false.
  Proof. intros Hs0. destruct s0 as [|[|[|[|[|[|s0]]]]]]; try lia; cbn; intros [H|H]; try discriminate; auto. Qed.

  Lemma CL_white n : In n CL -> cov (cst (Z.of_nat (yy n)) (Z.of_nat (xx n))) (qq n) = false.
  Proof.
    intros Hn. apply CL_in in Hn. destruct Hn as [_ Hc]. apply qreach_end in Hc. rewrite dec_coords in Hc.
    destruct Hc as [_ Hw]. unfold wq in Hw. apply negb_true_iff in Hw. exact Hw.
  Qed.
  (* a white quarter of the same cell next to a member is a member *)
  Lemma ring_member n q' :
    In n CL -> q' < 4 -> (q' = Nat.modulo (qq n + 1) 4 \/ q' = Nat.modulo (qq n + 3) 4) ->
    cov (cst (Z.of_nat (yy n)) (Z.of_nat (xx n))) q' = false -> In (enc (yy n) (xx n) q') CL.
  Proof.
    intros Hn Hq' Hadj Hc. pose proof (proj1 (CL_in n) Hn) as [Ln Cn]. destruct (coords_lt n Ln) as [Ly [Lx Lq]].
    assert (A : qadj (dec n) (Z.of_nat (yy n), Z.of_nat (xx n), q')).
    { rewrite dec_coords. destruct Hadj as [-> | ->]; [apply adj_next|apply adj_prev]; exact Lq. }
    assert (Cn' : Cq (Z.of_nat (yy n), Z.of_nat (xx n), q')).
    { eapply qr_step; [exact Cn|exact A|]. split; [exact Hq'|]. unfold wq. rewrite Hc. reflexivity. }
    destruct (Cq_in _ Cn') as [I _]. unfold ShakashakaBridge.encZ in I. cbn [fst snd] in I. rewrite !Nat2Z.id in I. exact I.
  Qed.
  Lemma qp_enc y x q : x < w -> q < 4 -> qp (enc y x q) = quarter_points y x q.
  Proof. intros Hx Hq. unfold qp. destruct (coords_enc y x q Hx Hq) as [E1 [E2 E3]]. unfold yy, xx, qq in *. rewrite E1, E2, E3. reflexivity. Qed.

  Lemma even_bounds :
    (exists k, lmin (map fst pts) = 2 * k) /\ (exists k, lmax (map fst pts) = 2 * k) /\
    (exists k, lmin (map snd pts) = 2 * k) /\ (exists k, lmax (map snd pts) = 2 * k).
  Proof.
    destruct (lmin_spec _ (map_pts_ne fst)) as [I1 M1]. destruct (lmax_spec _ (map_pts_ne fst)) as [I2 M2].
    destruct (lmin_spec _ (map_pts_ne snd)) as [I3 M3]. destruct (lmax_spec _ (map_pts_ne snd)) as [I4 M4].
    (* a member whose centre would be extreme has a cell mate reaching further *)
    assert (Left : forall n, In n CL -> exists p, In p pts /\ fst p = 2 * xx n).
    { intros n Hn. pose proof (proj1 (CL_in n) Hn) as [Ln _]. destruct (coords_lt n Ln) as [Ly [Lx Lq]].
      destruct (Nat.eq_dec (qq n) 1) as [E|NE].
      - pose proof (CL_white n Hn) as Wn. rewrite E in Wn.
        destruct (cov_EW _ (cstZ_le h w wc ans Hrange _ _) (or_introl Wn)) as [C0|C2].
        + pose proof (ring_member n 0 Hn ltac:(lia) ltac:(rewrite E; cbn; right; reflexivity) C0) as I.
          destruct (qp_left (yy n) (xx n) 0 ltac:(lia) ltac:(lia)) as [p [Hp Ep]].
          exists p. split; [|exact Ep]. apply pts_in. exists (enc (yy n) (xx n) 0). split; [exact I|]. rewrite qp_enc by lia. exact Hp.
        + pose proof (ring_member n 2 Hn ltac:(lia) ltac:(rewrite E; cbn; left; reflexivity) C2) as I.
          destruct (qp_left (yy n) (xx n) 2 ltac:(lia) ltac:(lia)) as [p [Hp Ep]].
          exists p. split; [|exact Ep]. apply pts_in. exists (enc (yy n) (xx n) 2). split; [exact I|]. rewrite qp_enc by lia. exact Hp.
      - destruct (qp_left (yy n) (xx n) (qq n) Lq NE) as [p [Hp Ep]]. exists p. split; [|exact Ep].
        apply pts_in. exists n. split; [exact Hn|exact Hp]. }
    assert (Right : forall n, In n CL -> exists p, In p pts /\ fst p = 2 * xx n + 2).
    { intros n Hn. pose proof (proj1 (CL_in n) Hn) as [Ln _]. destruct (coords_lt n Ln) as [Ly [Lx Lq]].
      destruct (Nat.eq_dec (qq n) 3) as [E|NE].
      - pose proof (CL_white n Hn) as Wn. rewrite E in Wn.
        destruct (cov_EW _ (cstZ_le h w wc ans Hrange _ _) (or_intror Wn)) as [C0|C2].
        + pose proof (ring_member n 0 Hn ltac:(lia) ltac:(rewrite E; cbn; left; reflexivity) C0) as I.
          destruct (qp_right (yy n) (xx n) 0 ltac:(lia) ltac:(lia)) as [p [Hp Ep]].
          exists p. split; [|exact Ep]. apply pts_in. exists (enc (yy n) (xx n) 0). split; [exact I|]. rewrite qp_enc by lia. exact Hp.
        + pose proof (ring_member n 2 Hn ltac:(lia) ltac:(rewrite E; cbn; right; reflexivity) C2) as I.
          destruct (qp_right (yy n) (xx n) 2 ltac:(lia) ltac:(lia)) as [p [Hp Ep]].
          exists p. split; [|exact Ep]. apply pts_in. exists (enc (yy n) (xx n) 2). split; [exact I|]. rewrite qp_enc by lia. exact Hp.
      - destruct (qp_right (yy n) (xx n) (qq n) Lq NE) as [p [Hp Ep]]. exists p. split; [|exact Ep].
        apply pts_in. exists n. split; [exact Hn|exact Hp]. }
    assert (Top : forall n, In n CL -> exists p, In p pts /\ snd p = 2 * yy n).
    { intros n Hn. pose proof (proj1 (CL_in n) Hn) as [Ln _]. destruct (coords_lt n Ln) as [Ly [Lx Lq]].
      destruct (Nat.eq_dec (qq n) 2) as [E|NE].
      - pose proof (CL_white n Hn) as Wn. rewrite E in Wn.
        destruct (cov_NS _ (cstZ_le h w wc ans Hrange _ _) (or_intror Wn)) as [C1|C3].
        + pose proof (ring_member n 1 Hn ltac:(lia) ltac:(rewrite E; cbn; right; reflexivity) C1) as I.
          destruct (qp_top (yy n) (xx n) 1 ltac:(lia) ltac:(lia)) as [p [Hp Ep]].
          exists p. split; [|exact Ep]. apply pts_in. exists (enc (yy n) (xx n) 1). split; [exact I|]. rewrite qp_enc by lia. exact Hp.
        + pose proof (ring_member n 3 Hn ltac:(lia) ltac:(rewrite E; cbn; left; reflexivity) C3) as I.
          destruct (qp_top (yy n) (xx n) 3 ltac:(lia) ltac:(lia)) as [p [Hp Ep]].
          exists p. split; [|exact Ep]. apply pts_in. exists (enc (yy n) (xx n) 3). split; [exact I|]. rewrite qp_enc by lia. exact Hp.
      - destruct (qp_top (yy n) (xx n) (qq n) Lq NE) as [p [Hp Ep]]. exists p. split; [|exact Ep].
        apply pts_in. exists n. split; [exact Hn|exact Hp]. }
    assert (Bottom : forall n, In n CL -> exists p, In p pts /\ snd p = 2 * yy n + 2).
    { intros n Hn. pose proof (proj1 (CL_in n) Hn) as [Ln _]. destruct (coords_lt n Ln) as [Ly [Lx Lq]].
      destruct (Nat.eq_dec (qq n) 0) as [E|NE].
      - pose proof (CL_white n Hn) as Wn. rewrite E in Wn.
        destruct (cov_NS _ (cstZ_le h w wc ans Hrange _ _) (or_introl Wn)) as [C1|C3].
        + pose proof (ring_member n 1 Hn ltac:(lia) ltac:(rewrite E; cbn; left; reflexivity) C1) as I.
          destruct (qp_bottom (yy n) (xx n) 1 ltac:(lia) ltac:(lia)) as [p [Hp Ep]].
          exists p. split; [|exact Ep]. apply pts_in. exists (enc (yy n) (xx n) 1). split; [exact I|]. rewrite qp_enc by lia. exact Hp.
        + pose proof (ring_member n 3 Hn ltac:(lia) ltac:(rewrite E; cbn; right; reflexivity) C3) as I.
          destruct (qp_bottom (yy n) (xx n) 3 ltac:(lia) ltac:(lia)) as [p [Hp Ep]].
          exists p. split; [|exact Ep]. apply pts_in. exists (enc (yy n) (xx n) 3). split; [exact I|]. rewrite qp_enc by lia. exact Hp.
      - destruct (qp_bottom (yy n) (xx n) (qq n) Lq NE) as [p [Hp Ep]]. exists p. split; [|exact Ep].
        apply pts_in. exists n. split; [exact Hn|exact Hp]. }
    repeat split.
    - apply map_pts_in in I1. destruct I1 as [n [p [Hn [Hp E]]]].
      destruct (qp_kinds _ _ _ _ Hp) as [Ec|[[Ex|Ex] _]]; fold (xx n) (yy n) in *.
      + exfalso. destruct (Left n Hn) as [p' [Hp' Ep']]. specialize (M1 (fst p') (in_map fst _ _ Hp')). rewrite Ec in E. cbn [fst] in E. lia.
      + exists (xx n). lia.
      + exists (xx n + 1). lia.
    - apply map_pts_in in I2. destruct I2 as [n [p [Hn [Hp E]]]].
      destruct (qp_kinds _ _ _ _ Hp) as [Ec|[[Ex|Ex] _]]; fold (xx n) (yy n) in *.
      + exfalso. destruct (Right n Hn) as [p' [Hp' Ep']]. specialize (M2 (fst p') (in_map fst _ _ Hp')). rewrite Ec in E. cbn [fst] in E. lia.
      + exists (xx n). lia.
      + exists (xx n + 1). lia.
    - apply map_pts_in in I3. destruct I3 as [n [p [Hn [Hp E]]]].
      destruct (qp_kinds _ _ _ _ Hp) as [Ec|[_ [Ex|Ex]]]; fold (xx n) (yy n) in *.
      + exfalso. destruct (Top n Hn) as [p' [Hp' Ep']]. specialize (M3 (snd p') (in_map snd _ _ Hp')). rewrite Ec in E. cbn [snd] in E. lia.
      + exists (yy n). lia.
      + exists (yy n + 1). lia.
    - apply map_pts_in in I4. destruct I4 as [n [p [Hn [Hp E]]]].
      destruct (qp_kinds _ _ _ _ Hp) as [Ec|[_ [Ex|Ex]]]; fold (xx n) (yy n) in *.
      + exfalso. destruct (Bottom n Hn) as [p' [Hp' Ep']]. specialize (M4 (snd p') (in_map snd _ _ Hp')). rewrite Ec in E. cbn [snd] in E. lia.
      + exists (yy n). lia.
      + exists (yy n + 1). lia.
  Qed.

  Lemma rectA_conv : Nat.eqb (span (map fst pts) * span (map snd pts)) (length CL) = true -> RectA Cq.
  Proof.
    intros Heq. apply Nat.eqb_eq in Heq. rewrite !span_minmax in Heq.
    destruct even_bounds as [[X1 EX1] [[X2 EX2] [[Y1 EY1] [Y2 EY2]]]].
    destruct (lmin_spec _ (map_pts_ne fst)) as [I1 M1]. destruct (lmax_spec _ (map_pts_ne fst)) as [I2 M2].
    destruct (lmin_spec _ (map_pts_ne snd)) as [I3 M3]. destruct (lmax_spec _ (map_pts_ne snd)) as [I4 M4].
    rewrite EX1, EX2, EY1, EY2 in *.
    (* members lie in the cell box *)
    assert (Bnd : forall n, In n CL -> X1 <= xx n < X2 /\ Y1 <= yy n < Y2).
    { intros n Hn. assert (Hc : In (2 * xx n + 1, 2 * yy n + 1) pts) by (apply pts_in; exists n; split; [exact Hn|apply qp_centre]).
      pose proof (M1 _ (in_map fst _ _ Hc)). pose proof (M2 _ (in_map fst _ _ Hc)).
      pose proof (M3 _ (in_map snd _ _ Hc)). pose proof (M4 _ (in_map snd _ _ Hc)). cbn [fst snd] in *. lia. }
    assert (Lim : X2 <= w /\ Y2 <= h).
    { apply map_pts_in in I2. destruct I2 as [n [p [Hn [Hp E]]]]. apply map_pts_in in I4. destruct I4 as [n' [p' [Hn' [Hp' E']]]].
      pose proof (proj1 (CL_in n) Hn) as [Ln _]. pose proof (proj1 (CL_in n') Hn') as [Ln' _].
      destruct (coords_lt n Ln) as [_ [Lx _]]. destruct (coords_lt n' Ln') as [Ly' _].
      pose proof (qp_bounds _ _ _ _ Hp) as Bp. pose proof (qp_bounds _ _ _ _ Hp') as Bp'. fold (xx n) (yy n) in Bp. fold (xx n') (yy n') in Bp'. lia. }
    set (cellsb := list_prod (seq Y1 (Y2 - Y1)) (seq X1 (X2 - X1))).
    set (E := flat_map (fun c : nat * nat => [enc (fst c) (snd c) 0; enc (fst c) (snd c) 1; enc (fst c) (snd c) 2; enc (fst c) (snd c) 3]) cellsb).
    assert (LE : length E = 4 * ((Y2 - Y1) * (X2 - X1))).
    { unfold E. rewrite (flat_map_const_length _ _ 4) by (intros; reflexivity). unfold cellsb. rewrite prod_length, !seq_length. reflexivity. }
    assert (Inc : incl CL E).
    { intros n Hn. destruct (Bnd n Hn) as [Bx By]. pose proof (proj1 (CL_in n) Hn) as [Ln _].
      destruct (enc_dec h w n Ln) as [En [_ [_ Lq]]]. fold (yy n) (xx n) (qq n) in En, Lq.
      unfold E. apply in_flat_map. exists (yy n, xx n). split; [apply in_prod_iff; split; apply in_seq; lia|].
      cbn [fst snd]. rewrite <- En at 1. destruct (qq n) as [|[|[|[|q]]]]; try lia; cbn [In]; tauto. }
    assert (Inc' : incl E CL).
    { apply NoDup_length_incl; [exact CL_nodup| |exact Inc]. rewrite LE. nia. }
    exists (Z.of_nat Y1), (Z.of_nat Y2 - 1)%Z, (Z.of_nat X1), (Z.of_nat X2 - 1)%Z. intros y x q Hq. split.
    - intros Hc. destruct (Cq_in _ Hc) as [I D]. destruct (Bnd _ I) as [Bx By]. rewrite dec_coords in D.
      injection D as Dy Dx _. lia.
    - intros [By Bx].
      assert (I : In (enc (Z.to_nat y) (Z.to_nat x) q) E).
      { unfold E. apply in_flat_map. exists (Z.to_nat y, Z.to_nat x). split; [apply in_prod_iff; split; apply in_seq; lia|].
        cbn [fst snd]. destruct q as [|[|[|[|q]]]]; try lia; cbn [In]; tauto. }
      apply Inc' in I. apply CL_in in I. destruct I as [_ I]. rewrite dec_enc in I by lia.
      rewrite !Z2Nat.id in I by lia. exact I.
  Qed.

  (* ---- and a white area passing the diagonal test is a rectangle of whole diagonal squares *)
  Definition onb (t : quarter) : bool :=
    ((0 <=? fst (fst t)) && (fst (fst t) <? Z.of_nat h) && (0 <=? snd (fst t)) && (snd (fst t) <? Z.of_nat w))%Z.
  Lemma onb_spec t : onb t = true <-> ((0 <= fst (fst t) < Z.of_nat h)%Z /\ (0 <= snd (fst t) < Z.of_nat w)%Z).
  Proof.
    unfold onb. rewrite !andb_true_iff, !Z.leb_le, !Z.ltb_lt. tauto.
  Qed.

  Lemma rectD_conv : Nat.eqb (span (map fu pts) * span (map (fv h) pts)) (2 * length CL) = true -> RectD Cq.
  Proof.
    intros Heq. apply Nat.eqb_eq in Heq. rewrite !span_minmax in Heq.
    destruct (lmin_spec _ (map_pts_ne fu)) as [I1 M1]. destruct (lmax_spec _ (map_pts_ne fu)) as [I2 M2].
    destruct (lmin_spec _ (map_pts_ne (fv h))) as [I3 M3]. destruct (lmax_spec _ (map_pts_ne (fv h))) as [I4 M4].
    (* all values are even *)
    assert (EvU : forall v, In v (map fu pts) -> exists k, v = 2 * k).
    { intros v Hv. apply map_pts_in in Hv. destruct Hv as [n [p [Hn [Hp ->]]]]. pose proof (proj1 (CL_in n) Hn) as [Ln _].
      destruct (qp_u (yy n) (xx n) (qq n) p (proj2 (proj2 (coords_lt n Ln))) Hp) as [E|E]; rewrite E; eexists; [reflexivity|].
      instantiate (1 := au (yy n) (xx n) (qq n) + 1). lia. }
    assert (EvV : forall v, In v (map (fv h) pts) -> exists k, v = 2 * k).
    { intros v Hv. apply map_pts_in in Hv. destruct Hv as [n [p [Hn [Hp ->]]]]. pose proof (proj1 (CL_in n) Hn) as [Ln _].
      destruct (coords_lt n Ln) as [Ly [_ Lq]].
      destruct (qp_v h (yy n) (xx n) (qq n) p Lq Ly Hp) as [E|E]; rewrite E; eexists; [reflexivity|].
      instantiate (1 := bv h (yy n) (xx n) (qq n) + 1). lia. }
    destruct (EvU _ I1) as [A1 EA1]. destruct (EvU _ I2) as [A2 EA2]. destruct (EvV _ I3) as [B1 EB1]. destruct (EvV _ I4) as [B2 EB2].
    rewrite EA1, EA2, EB1, EB2 in *.
    assert (Bnd : forall n, In n CL -> A1 <= au (yy n) (xx n) (qq n) < A2 /\ B1 <= bv h (yy n) (xx n) (qq n) < B2).
    { intros n Hn. pose proof (proj1 (CL_in n) Hn) as [Ln _]. destruct (coords_lt n Ln) as [Ly [_ Lq]].
      destruct (qp_u_both (yy n) (xx n) (qq n) Lq) as [[p1 [Hp1 E1]] [p2 [Hp2 E2]]].
      destruct (qp_v_both h (yy n) (xx n) (qq n) Lq Ly) as [[p3 [Hp3 E3]] [p4 [Hp4 E4]]].
      assert (P : forall p, In p (qp n) -> In p pts) by (intros p Hp; apply pts_in; exists n; auto).
      pose proof (M1 _ (in_map fu _ _ (P _ Hp1))). pose proof (M2 _ (in_map fu _ _ (P _ Hp2))).
      pose proof (M3 _ (in_map (fv h) _ _ (P _ Hp3))). pose proof (M4 _ (in_map (fv h) _ _ (P _ Hp4))). lia. }
    set (a1 := Z.of_nat A1). set (a2 := (Z.of_nat A2 - 1)%Z).
    set (b1 := (Z.of_nat B1 - Z.of_nat h)%Z). set (b2 := (Z.of_nat B2 - 1 - Z.of_nat h)%Z).
    assert (BndZ : forall n, In n CL -> (a1 <= da (dec n) <= a2)%Z /\ (b1 <= db (dec n) <= b2)%Z).
    { intros n Hn. pose proof (proj1 (CL_in n) Hn) as [Ln _]. destruct (Bnd n Hn) as [Ba Bb].
      pose proof (au_coords n). pose proof (bv_coords n Ln). unfold a1, a2, b1, b2. lia. }
    set (bins := list_prod (zseq a1 (A2 - A1)) (zseq b1 (B2 - B1))).
    set (T := flat_map (fun c : Z * Z => [qd (fst c) (snd c); partner (qd (fst c) (snd c))]) bins).
    assert (LT : length T = 2 * ((A2 - A1) * (B2 - B1))).
    { unfold T. rewrite (flat_map_const_length _ _ 2) by (intros; reflexivity). unfold bins. rewrite prod_length, !zseq_length. reflexivity. }
    assert (InT : forall t, snd t < 4 -> (a1 <= da t <= a2)%Z -> (b1 <= db t <= b2)%Z -> In t T).
    { intros t Hq Ha Hb. unfold T. apply in_flat_map. exists (da t, db t). split.
      - apply in_prod_iff. split; apply zseq_in; unfold a2, b2 in *; lia.
      - cbn [fst snd]. destruct (diamond_two t (da t) (db t) Hq eq_refl eq_refl) as [E|E]; rewrite <- E; cbn [In]; tauto. }
    set (E' := map encZ (filter onb T)).
    assert (Inc : incl CL E').
    { intros n Hn. pose proof (proj1 (CL_in n) Hn) as [Ln _]. destruct (BndZ n Hn) as [Ba Bb].
      unfold E'. apply in_map_iff. exists (dec n). split; [apply (encZ_dec h w n Ln)|]. apply filter_In. split.
      - apply InT; [apply (coords_lt n Ln)|exact Ba|exact Bb].
      - apply onb_spec. destruct (dec_board h w n Ln) as [P1 [P2 _]]. split; assumption. }
    assert (LE1 : length E' <= length T).
    { unfold E'. rewrite map_length. clear. induction T as [|t r IH]; [apply le_n|]. cbn [filter]. destruct (onb t); cbn [length]; lia. }
    assert (LCT : length CL = length T) by (rewrite LT; nia).
    assert (Inc' : incl E' CL) by (apply NoDup_length_incl; [exact CL_nodup|lia|exact Inc]).
    assert (LE2 : length CL <= length E') by (apply NoDup_incl_length; [exact CL_nodup|exact Inc]).
    assert (AllOn : forall t, In t T -> onb t = true).
    { apply filter_all_length. unfold E' in LE1, LE2. rewrite map_length in LE1, LE2. lia. }
    exists a1, a2, b1, b2. intros t Hq. split.
    - intros Hc. destruct (Cq_in _ Hc) as [I D]. pose proof (BndZ _ I) as Bz. rewrite D in Bz. exact Bz.
    - intros [Ba Bb]. pose proof (InT t Hq Ba Bb) as It. pose proof (AllOn t It) as Ot. apply onb_spec in Ot.
      destruct (dec_encZ h w t (proj1 Ot) (proj2 Ot) Hq) as [D L].
      assert (I : In (encZ t) E') by (unfold E'; apply in_map; apply filter_In; split; [exact It|apply onb_spec; exact Ot]).
      apply Inc' in I. apply CL_in in I. destruct I as [_ I]. rewrite D in I. exact I.
  Qed.

  Theorem is_rectangle_iff : is_rectangle h w CL = true <-> (RectA Cq \/ RectD Cq).
  Proof.
    rewrite is_rectangle_unfold, orb_true_iff. split.
    - intros [H|H]; [left; apply rectA_conv; exact H|right; apply rectD_conv; exact H].
    - intros [H|H]; [left; apply rectA_test; exact H|right; apply rectD_test; exact H].
  Qed.

  Lemma Cq_dec t : Cq t \/ ~ Cq t.
  Proof.
    destruct (onb t) eqn:O; [|right; intros H; destruct (Cq_board t H) as [B1 [B2 _]];
                               assert (onb t = true) by (apply onb_spec; tauto); congruence].
    destruct (lt_dec (snd t) 4) as [Hq|Hq]; [|right; intros H; destruct (Cq_board t H) as [_ [_ B3]]; contradiction].
    apply onb_spec in O. destruct (dec_encZ h w t (proj1 O) (proj2 O) Hq) as [D L].
    destruct (in_dec Nat.eq_dec (encZ t) CL) as [I|NI].
    - left. apply CL_in in I. destruct I as [_ I]. rewrite D in I. exact I.
    - right. intros H. apply NI. apply (Cq_in t H).
  Qed.
End Rect.
