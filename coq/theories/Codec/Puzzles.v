(* The per-puzzle URL functions serialize_<p> / deserialize_<p> of cspuz/puzzle/*.py as data
   (a combinator term plus the arguments of the wrapper) and their meaning.  Definitions only.
   The instances are generated from the Python source into Gen/Codecs.v by the translator
   of harness/pC16.py.

   Comb.v's serialize_problem & co. fix the environment to [mk_env]; the variants here take
   the table of Combinator subclasses ([custom]) so that yajilin's YajilinClue can be used. *)

From Coq Require Import ZArith List Ascii Bool NArith.
From Cspuz Require Import Lib.PyErr Codec.Comb Codec.Legacy Codec.Url.
Import ListNotations.
Local Open Scope Z_scope.
Local Open Scope res_scope.

Definition cu_env (cu : custom) (h w : Z) : env := {| height := h; width := w; cust := cu |}.

Definition serialize_problem_cu (cu : custom) (c : comb) (problem : pv) (h w : Z) : res str :=
  match ser (cu_env cu h w) c (VList [problem]) 0 with
  | Err e => Err e
  | Ok None => Err AssertionError
  | Ok (Some (_, s)) => Ok s
  end.

Definition deserialize_problem_cu (cu : custom) (c : comb) (s : str) (h w : Z) : res (option pv) :=
  match de (cu_env cu h w) c s with
  | Err e => Err e
  | Ok None => Ok None
  | Ok (Some (_, [p])) => Ok (Some p)
  | Ok (Some _) => Err AssertionError
  end.

Definition serialize_url_cu (cu : custom) (c : comb) (puzzle : str) (h w : Z) (problem : pv) (prefix : str)
  : res str :=
  let* body := serialize_problem_cu cu c problem h w in
  Ok (make_url prefix puzzle h w body).

Definition allowed_ok (al : allowed) (puzzle : str) : bool :=
  match al with
  | AllowAny => true
  | AllowOne p => str_eqb puzzle p
  | AllowList l => existsb (str_eqb puzzle) l
  end.

Definition deserialize_url_cu (cu : custom) (c : comb) (url : str) (al : allowed)
           (allow_failure return_size : bool) : res (option pv) :=
  match url_match url with
  | None => if allow_failure then Ok None else Err ValueError     (* not a puzzle URL *)
  | Some (puzzle, wd, hd, body) =>
      let* w := py_int wd 10 in
      let* h := py_int hd 10 in
      if negb (allowed_ok al puzzle) then Err ValueError else
      let* r := deserialize_problem_cu cu c body h w in
      match r with
      | None => Ok None
      | Some VNone => Ok None                              (* `if problem is None` also catches a decoded None *)
      | Some p => Ok (Some (if return_size then VTup [VInt h; VInt w; p] else p))
      end
  end.

(* ------------------------------------------------------------------ the wrappers *)
(* where serialize_<p> takes the board size from *)
Inductive size_src :=
  | SizeOfProblem          (* height = len(problem); width = len(problem[0]) *)
  | SizeArgs.              (* serialize_<p>(height, width, ...) *)

Record ser_wrapper := {
  sw_comb : comb;
  sw_puzzle : str;
  sw_size : size_src
}.

Record de_wrapper := {
  dw_comb : comb;
  dw_allowed : allowed;
  dw_allow_failure : bool;
  dw_return_size : bool
}.

(* len(v) *)
Definition py_len (v : pv) : res Z := let* l := py_items v in Ok (Z.of_nat (length l)).

(* serialize_<p>(problem) *)
Definition run_ser_problem (cu : custom) (sw : ser_wrapper) (problem : pv) : res str :=
  let* h := py_len problem in
  let* rows := py_items problem in
  let* r0 := nth_res rows 0 in
  let* w := py_len r0 in
  serialize_url_cu cu (sw_comb sw) (sw_puzzle sw) h w problem default_prefix.

(* serialize_<p>(height, width, problem) *)
Definition run_ser_sized (cu : custom) (sw : ser_wrapper) (h w : Z) (problem : pv) : res str :=
  serialize_url_cu cu (sw_comb sw) (sw_puzzle sw) h w problem default_prefix.

Definition run_de (cu : custom) (dw : de_wrapper) (url : str) : res (option pv) :=
  deserialize_url_cu cu (dw_comb dw) url (dw_allowed dw) (dw_allow_failure dw) (dw_return_size dw).
