Require Extraction.
Require Import ExtrOcamlBasic.
From Coq Require Import ZArith List Ascii.
Require Import Cspuz.Lib.PyErr Cspuz.Codec.Comb Cspuz.Codec.CombWf Cspuz.Codec.Yajilin Cspuz.Codec.Puzzles Cspuz.Codec.TotalModel Cspuz.Codec.TotalReencModel.
Extraction "model.ml" Z.add Nat.add pyerr_code py_int py_str_int isdigit_c is_hex is_alnum_lower
  no_custom yajilin_custom cu_env de de_at deserialize_problem_cu deserialize_url_cu
  serialize_problem_cu dec_ok single productive wf tupl_single reenc_ok url_match.
