(* C11 Tier 1 - model of cspuz/puzzle/sudoku.py::solve_sudoku, all n.
   Mirrors the Python statement by statement (same variable ids, same posting
   order):
       size = n * n
       answer = solver.int_array((size, size), 1, size)      # ValueError when size = 0
       solver.add_answer_key(answer)
       for i in range(size):
           ensure(alldifferent(answer[i, :])); ensure(alldifferent(answer[:, i]))
       for y in range(n): for x in range(n):
           ensure(alldifferent(answer[y*n:(y+1)*n, x*n:(x+1)*n]))
       for y in range(size): for x in range(size):
           if problem[y][x] >= 1: ensure(answer[y, x] == problem[y][x])
   The problem uses the encoding of Rules_sudoku.v: [[n]; clues].  No proofs here. *)
From Coq Require Import ZArith List Bool Arith.
From Cspuz Require Import Lib.PyErr Core.Expr Core.Program Puzzle.PuzzleBase.
Import ListNotations.
Local Open Scope nat_scope.

Definition sudoku_cell (size : nat) (y x : nat) : expr :=
  IVar (y * size + x) 1 (Z.of_nat size).

Definition sudoku_constraints (n : nat) (clues : list Z) : list expr :=
  let size := n * n in
  flat_map (fun i => [BNode ALLDIFF (map (fun x => sudoku_cell size i x) (seq 0 size));
                      BNode ALLDIFF (map (fun y => sudoku_cell size y i) (seq 0 size))]) (seq 0 size) ++
  map (fun '(by_, bx) =>
         BNode ALLDIFF (map (fun '(dy, dx) => sudoku_cell size (by_ * n + dy) (bx * n + dx)) (cells n n)))
      (cells n n) ++
  (* for y, for x in row-major order: cell y*size+x is the (y*size+x)-th clue *)
  flat_map (fun i => let c := getz clues i in
                     if (1 <=? c)%Z then [BNode EQ [IVar i 1 (Z.of_nat size); PyInt c]] else [])
           (seq 0 (size * size)).

Definition solve_sudoku_model (pb : problem) : res state :=
  let n := dim pb 0 in
  let size := n * n in
  if Nat.eqb size 0 then Err ValueError
  else Ok {| vars := repeat (DInt 1 (Z.of_nat size)) (size * size);
             keys := repeat true (size * size);
             cons := sudoku_constraints n (sec pb 1) |}.
