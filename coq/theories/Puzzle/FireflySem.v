(* C11 Tier 1 - firefly: what the constraints posted by solve_firefly (model Firefly.v) say about an assignment,
   in the vocabulary of darts (FireflyGeo.v): per point the orientation flags of the four segments around it
   (sOut / sIn), the turn counters (sT), the ranks (sR), the ignored segment (sG). *)
From Coq Require Import ZArith List Bool Arith Lia.
From Cspuz Require Import Lib.PyErr Core.Expr Core.Program Graph.GraphModel Graph.CycleLemmas
     Puzzle.PuzzleBase Puzzle.SatAbs Puzzle.ModelBase Puzzle.ModelLemmas
     Puzzle.Rules_firefly Puzzle.Firefly Puzzle.FireflyGeo.
Import ListNotations.
Local Open Scope nat_scope.

Section Sem.
  Variables (h w : nat) (dir num : list Z) (en : env).
  Notation H := (S h).
  Notation W := (S w).
  Notation M := (ff_max_turn H W dir num).
  Notation NE := (ff_E H W).

  Definition sOut (p : pt) (d : nat) : bool := eb en (ff_out H W (fst p) (snd p) d).
  Definition sIn (p : pt) (d : nat) : bool := eb en (ff_in H W (fst p) (snd p) d).
  Definition sT (p : pt) (d : nat) : Z := ei en (ff_nt H W (gsid h w p d)).
  Definition sR (v : nat) : Z := ei en (ff_rk H W v).
  Definition sG (e : nat) : bool := eb en (ff_ig H W e).
  Definition sUnk : Z := (M + 1)%Z.

  (* the same flag seen from the other end of the segment *)
  Lemma sOut_rev p d : gvalid h w p -> In d ff_dirs -> gok h w p d = true ->
    sIn (gstep p d) (opposite d) = sOut p d /\ sOut (gstep p d) (opposite d) = sIn p d /\
    sT (gstep p d) (opposite d) = sT p d.
  Proof.
    intros Hp Hd Hok. destruct (grev h w p d Hp Hd Hok) as [_ [_ R3]].
    unfold sIn, sOut, sT, ff_in, ff_out. fold (gsid h w (gstep p d) (opposite d)). fold (gsid h w p d).
    rewrite R3. destruct (ff_dirs_cases d Hd) as [->|[->|[->| ->]]]; cbn [opposite]; repeat split; reflexivity.
  Qed.

  (* ---- single constraints *)
  Lemma holds_iff_or a b c :
    holds no_graph en (BNode IFF [BVar a; BNode OR [BVar b; BVar c]]) = Bool.eqb (eb en a) (eb en b || eb en c).
  Proof. unfold holds. simpl. destruct (eb en a), (eb en b), (eb en c); reflexivity. Qed.
  Lemma holds_not_and b c :
    holds no_graph en (BNode NOT [BNode AND [BVar b; BVar c]]) = negb (eb en b && eb en c).
  Proof. unfold holds. simpl. destruct (eb en b), (eb en c); reflexivity. Qed.

  Lemma holds_rank1 o cmp e a b : cmp = LT \/ cmp = GT ->
    holds no_graph en (ff_rank1 H W o cmp e a b) =
    implb (eb en (o e) && negb (sG e)) (if op_eqb cmp LT then (sR a <? sR b)%Z else (sR b <? sR a)%Z).
  Proof.
    intros [-> | ->]; unfold holds, ff_rank1, ff_rank, sG, sR; simpl;
      destruct (eb en (o e)), (eb en (ff_ig H W e)); simpl; try reflexivity.
    - destruct (ei en (ff_rk H W a) <? ei en (ff_rk H W b))%Z; reflexivity.
    - destruct (ei en (ff_rk H W b) <? ei en (ff_rk H W a))%Z; reflexivity.
  Qed.

  (* ---- a firefly *)
  Definition fly_b (p : pt) (d0 : nat) (n : Z) : bool :=
    sOut p d0 && (sT p d0 =? (if (n <? 0)%Z then sUnk else n))%Z &&
    forallb (fun i => negb (gok h w p i && negb (Nat.eqb i d0)) ||
                      (negb (sOut p i) && implb (sIn p i) ((sT p i =? 0)%Z || (sT p i =? sUnk)%Z))) ff_dirs.

  Lemma holds_fly y x d0 n :
    forallb (holds no_graph en) (ff_fly H W M y x d0 n) = fly_b (y, x) d0 n.
  Proof.
    unfold ff_fly, fly_b. rewrite forallb_app, forallb_flat_map.
    f_equal.
    - cbn [forallb]. rewrite andb_true_r.
      unfold holds, sOut, sT, ff_turns, gsid, sUnk, ff_unk. cbn [eval map fst snd].
      destruct (eb en (ff_out H W y x d0)); simpl;
        destruct (ei en (ff_nt H W (ff_seg_id H W y x d0)) =? (if (n <? 0)%Z then (M + 1)%Z else n))%Z; reflexivity.
    - apply forallb_ext_in. intros i _. unfold gok. cbn [fst snd].
      destruct (ff_dir_ok H W y x i && negb (Nat.eqb i d0)); [|reflexivity]. cbn [negb orb forallb]. rewrite andb_true_r.
      unfold holds, sOut, sIn, sT, ff_turns, gsid, sUnk, ff_unk. cbn [eval map fst snd].
      destruct (eb en (ff_out H W y x i)), (eb en (ff_in H W y x i)); simpl; try reflexivity;
        destruct (ei en (ff_nt H W (ff_seg_id H W y x i)) =? 0)%Z,
                 (ei en (ff_nt H W (ff_seg_id H W y x i)) =? M + 1)%Z; reflexivity.
  Qed.

  (* ---- a point without firefly *)
  Definition pass_rel (p : pt) (i j : nat) : bool :=
    if Nat.eqb (i / 2) (j / 2) then (sT p i =? sT p j)%Z
    else ((sT p i =? sUnk)%Z && (sT p j =? sUnk)%Z) || (sT p i =? sT p j + 1)%Z.

  Lemma holds_pass y x i j :
    holds no_graph en (ff_pass H W M y x i j) = implb (sIn (y, x) i && sOut (y, x) j) (pass_rel (y, x) i j).
  Proof.
    unfold ff_pass, pass_rel, holds, sIn, sOut, sT, ff_turns, gsid, sUnk, ff_unk. cbn [fst snd].
    destruct (Nat.eqb (i / 2) (j / 2)); cbn [eval map];
      destruct (eb en (ff_in H W y x i)), (eb en (ff_out H W y x j)); simpl; try reflexivity.
    - destruct (ei en (ff_nt H W (ff_seg_id H W y x i)) =? ei en (ff_nt H W (ff_seg_id H W y x j)))%Z; reflexivity.
    - destruct (ei en (ff_nt H W (ff_seg_id H W y x i)) =? M + 1)%Z,
               (ei en (ff_nt H W (ff_seg_id H W y x j)) =? M + 1)%Z; simpl;
        try (replace (ei en (ff_nt H W (ff_seg_id H W y x j)) + (1 + 0))%Z
               with (ei en (ff_nt H W (ff_seg_id H W y x j)) + 1)%Z by lia);
        destruct (ei en (ff_nt H W (ff_seg_id H W y x i)) =? ei en (ff_nt H W (ff_seg_id H W y x j)) + 1)%Z; reflexivity.
  Qed.

  Definition n_in (p : pt) : nat := count (fun d => gok h w p d && sIn p d) ff_dirs.
  Definition n_out (p : pt) : nat := count (fun d => gok h w p d && sOut p d) ff_dirs.

  Definition plain_b (p : pt) : bool :=
    Nat.leb (n_in p) 1 && Nat.eqb (n_in p) (n_out p) &&
    forallb (fun i => forallb (fun j =>
       negb (gok h w p i && gok h w p j && negb (Nat.eqb i j)) ||
       implb (sIn p i && sOut p j) (pass_rel p i j)) ff_dirs) ff_dirs.

  Lemma count_present (f : nat -> nat) (g : nat -> bool) :
    count (eb en) (map f (filter g ff_dirs)) = count (fun d => g d && eb en (f d)) ff_dirs.
  Proof. rewrite count_map, count_filter. reflexivity. Qed.

  Lemma holds_plain y x :
    forallb (holds no_graph en) (ff_plain H W M y x) = plain_b (y, x).
  Proof.
    unfold ff_plain, plain_b. rewrite forallb_app. cbn [forallb]. rewrite andb_true_r.
    assert (Hin : count (eb en) (map (ff_in H W y x) (filter (ff_dir_ok H W y x) [0; 1; 2; 3])) = n_in (y, x)).
    { exact (count_present (ff_in H W y x) (ff_dir_ok H W y x)). }
    assert (Hout : count (eb en) (map (ff_out H W y x) (filter (ff_dir_ok H W y x) [0; 1; 2; 3])) = n_out (y, x)).
    { exact (count_present (ff_out H W y x) (ff_dir_ok H W y x)). }
    f_equal; [f_equal|].
    - unfold holds. cbn [eval map]. rewrite eval_ct_vars, Hin. simpl.
      destruct (Nat.leb_spec (n_in (y, x)) 1) as [L|L];
        [replace (Z.of_nat (n_in (y, x)) <=? 1)%Z with true by (symmetry; apply Z.leb_le; lia)
        |replace (Z.of_nat (n_in (y, x)) <=? 1)%Z with false by (symmetry; apply Z.leb_gt; lia)]; reflexivity.
    - unfold holds. cbn [eval map]. rewrite !eval_ct_vars, Hin, Hout. simpl. rewrite znat_eqb.
      destruct (Nat.eqb (n_in (y, x)) (n_out (y, x))); reflexivity.
    - rewrite forallb_flat_map. apply forallb_ext_in. intros i _.
      rewrite forallb_flat_map. apply forallb_ext_in. intros j _.
      unfold gok. cbn [fst snd].
      destruct (ff_dir_ok H W y x i && ff_dir_ok H W y x j && negb (Nat.eqb i j)); [|reflexivity].
      cbn [forallb negb orb]. rewrite andb_true_r. apply holds_pass.
  Qed.

  (* ---- rows and the whole grid of points *)
  Definition point_b (p : pt) : bool :=
    if ff_is dir W (fst p) (snd p)
    then gok h w p (ff_dot dir W (fst p) (snd p)) &&
         fly_b p (ff_dot dir W (fst p) (snd p)) (at2 num W (fst p) (snd p))
    else plain_b p.

  Lemma holds_row y xs :
    forallb (holds no_graph en) (ff_row H W dir num M y xs) = true <->
    forall x, In x xs -> point_b (y, x) = true.
  Proof.
    induction xs as [|x r IH]; cbn [ff_row].
    - split; [intros _ x []|reflexivity].
    - assert (Hp : point_b (y, x) = true /\ (forall x', In x' r -> point_b (y, x') = true) <->
                   (forall x', In x' (x :: r) -> point_b (y, x') = true)).
      { split.
        - intros [A B] x' [<-|Hx']; [exact A|apply B; exact Hx'].
        - intros A. split; [apply A; left; reflexivity|intros x' Hx'; apply A; right; exact Hx']. }
      rewrite <- Hp, <- IH. unfold point_b, gok. cbn [fst snd].
      destruct (ff_is dir W y x).
      + destruct (ff_dir_ok H W y x (ff_dot dir W y x)).
        * rewrite forallb_app, holds_fly, andb_true_iff. cbn [andb]. reflexivity.
        * cbn [forallb holds eval andb]. split; [discriminate|intros [A _]; discriminate].
      + rewrite forallb_app, holds_plain, andb_true_iff. reflexivity.
  Qed.

  Lemma holds_points :
    forallb (holds no_graph en) (ff_points H W dir num M) = true <->
    forall p, gvalid h w p -> point_b p = true.
  Proof.
    unfold ff_points. rewrite forallb_flat_map, forallb_forall. split.
    - intros A [y x] [Hy Hx]. cbn [fst snd] in *.
      apply (proj1 (holds_row y (seq 0 W)) (A y ltac:(apply in_seq; lia))). apply in_seq. lia.
    - intros A y Hy. apply in_seq in Hy. apply holds_row. intros x Hx. apply in_seq in Hx.
      apply A. split; cbn [fst snd]; lia.
  Qed.

  (* ---- orientation and the ignored segment *)
  Lemma holds_orient :
    forallb (holds no_graph en) (ff_orient H W) = true <->
    (forall e, e < NE -> eb en e = eb en (ff_ul H W e) || eb en (ff_dr H W e)) /\
    (forall e, e < NE -> eb en (ff_ul H W e) && eb en (ff_dr H W e) = false) /\
    count sG (seq 0 NE) = 1.
  Proof.
    unfold ff_orient. rewrite !forallb_app, !andb_true_iff.
    cbn [forallb]. rewrite andb_true_r, holds_ct_eq, count_map. rewrite !forallb_map, !forallb_forall. fold sG.
    split.
    - intros [A [B C]]. split; [|split].
      + intros e He. specialize (A e ltac:(apply in_seq; lia)). rewrite holds_iff_or in A. apply eqb_prop in A. exact A.
      + intros e He. specialize (B e ltac:(apply in_seq; lia)). rewrite holds_not_and in B.
        apply negb_true_iff in B. exact B.
      + apply Z.eqb_eq in C. lia.
    - intros [A [B C]]. split; [|split].
      + intros e He. apply in_seq in He. rewrite holds_iff_or, (A e) by lia. apply eqb_reflx.
      + intros e He. apply in_seq in He. rewrite holds_not_and, (B e) by lia. reflexivity.
      + apply Z.eqb_eq. rewrite C. reflexivity.
  Qed.

  (* ---- ranks: along every oriented, not ignored dart the rank goes down *)
  Definition rank_sem : Prop :=
    forall p d, gvalid h w p -> In d ff_dirs -> gok h w p d = true ->
      sOut p d = true -> sG (gsid h w p d) = false -> (sR (gidx w (gstep p d)) < sR (gidx w p))%Z.

  Lemma holds_ranks : forallb (holds no_graph en) (ff_ranks H W) = true <-> rank_sem.
  Proof.
    unfold ff_ranks, ff_rank_h, ff_rank_v. rewrite !forallb_app, !andb_true_iff, !forallb_map, !forallb_forall.
    replace (W - 1) with w by lia. replace (H - 1) with h by lia.
    split.
    - intros [A [B [C D]]] [y x] d [Hy Hx] Hd Hok Ho Hg. cbn [fst snd] in *.
      unfold sOut, ff_out, gsid, gok, gidx, gstep in *. cbn [fst snd] in *.
      destruct (ff_dirs_cases d Hd) as [->|[->|[->| ->]]]; cbn [ff_dir_ok ff_seg_id step_dir fst snd] in *;
        apply Nat.ltb_lt in Hok.
      + specialize (B (y - 1, x) ltac:(apply cells_in; lia)). cbn beta iota in B.
        rewrite holds_rank1 in B by (left; reflexivity). rewrite Ho, Hg in B. cbn [andb negb implb op_eqb op_code Nat.eqb] in B.
        replace (S (y - 1)) with y in B by lia. apply Z.ltb_lt in B. exact B.
      + specialize (D (y, x) ltac:(apply cells_in; lia)). cbn beta iota in D.
        rewrite holds_rank1 in D by (right; reflexivity). rewrite Ho, Hg in D. cbn [andb negb implb op_eqb op_code Nat.eqb] in D.
        apply Z.ltb_lt in D. exact D.
      + specialize (A (y, x - 1) ltac:(apply cells_in; lia)). cbn beta iota in A.
        rewrite holds_rank1 in A by (left; reflexivity). rewrite Ho, Hg in A. cbn [andb negb implb op_eqb op_code Nat.eqb] in A.
        replace (S (x - 1)) with x in A by lia. apply Z.ltb_lt in A. exact A.
      + specialize (C (y, x) ltac:(apply cells_in; lia)). cbn beta iota in C.
        rewrite holds_rank1 in C by (right; reflexivity). rewrite Ho, Hg in C. cbn [andb negb implb op_eqb op_code Nat.eqb] in C.
        apply Z.ltb_lt in C. exact C.
    - intros R. repeat split; intros [y x] Hc; apply cells_in in Hc; destruct Hc as [Hy Hx]; cbn beta iota;
        rewrite holds_rank1 by (auto); cbn [op_eqb op_code Nat.eqb];
        match goal with |- implb (?a && negb ?b) _ = true => destruct a eqn:Ho; [|reflexivity]; destruct b eqn:Hg; [reflexivity|] end;
        cbn [andb negb implb]; apply Z.ltb_lt.
      + assert (HR : (sR (gidx w (gstep (y, S x) 2)) < sR (gidx w (y, S x)))%Z).
        { apply R; [split; cbn [fst snd]; lia|simpl; auto|reflexivity| |].
          - unfold sOut, ff_out. cbn [fst snd ff_seg_id]. replace (S x - 1) with x by lia. exact Ho.
          - unfold gsid. cbn [fst snd ff_seg_id]. replace (S x - 1) with x by lia. exact Hg. }
        unfold gidx, gstep in HR. cbn [step_dir fst snd] in HR. replace (S x - 1) with x in HR by lia. exact HR.
      + assert (HR : (sR (gidx w (gstep (S y, x) 0)) < sR (gidx w (S y, x)))%Z).
        { apply R; [split; cbn [fst snd]; lia|simpl; auto|reflexivity| |].
          - unfold sOut, ff_out. cbn [fst snd ff_seg_id]. replace (S y - 1) with y by lia. exact Ho.
          - unfold gsid. cbn [fst snd ff_seg_id]. replace (S y - 1) with y by lia. exact Hg. }
        unfold gidx, gstep in HR. cbn [step_dir fst snd] in HR. replace (S y - 1) with y in HR by lia. exact HR.
      + assert (HR : (sR (gidx w (gstep (y, x) 3)) < sR (gidx w (y, x)))%Z).
        { apply R; [split; cbn [fst snd]; lia|simpl; auto| | |].
          - unfold gok. cbn [fst snd ff_dir_ok]. apply Nat.ltb_lt. lia.
          - exact Ho.
          - exact Hg. }
        exact HR.
      + assert (HR : (sR (gidx w (gstep (y, x) 1)) < sR (gidx w (y, x)))%Z).
        { apply R; [split; cbn [fst snd]; lia|simpl; auto| | |].
          - unfold gok. cbn [fst snd ff_dir_ok]. apply Nat.ltb_lt. lia.
          - exact Ho.
          - exact Hg. }
        exact HR.
  Qed.

  (* ---- everything together *)
  Theorem ff_satisfies_iff :
    satisfies no_graph en (firefly_state H W dir num) = true <->
    (forall e, e < NE -> eb en e = eb en (ff_ul H W e) || eb en (ff_dr H W e)) /\
    (forall e, e < NE -> eb en (ff_ul H W e) && eb en (ff_dr H W e) = false) /\
    count sG (seq 0 NE) = 1 /\ rank_sem /\ (forall p, gvalid h w p -> point_b p = true).
  Proof.
    unfold satisfies, firefly_state. cbn [cons]. rewrite !forallb_app, !andb_true_iff.
    rewrite holds_orient, holds_ranks, holds_points. tauto.
  Qed.

  Theorem ff_in_bounds_iff :
    in_bounds en (firefly_state H W dir num) = true <->
    (forall v, v < H * W -> (0 <= sR v <= Z.of_nat (H * W) - 1)%Z) /\
    (forall e, e < NE -> (0 <= ei en (ff_nt H W e) <= M + 1)%Z).
  Proof.
    unfold in_bounds, firefly_state. cbn [vars].
    rewrite !in_bounds_from_app, in_bounds_from_bools, !andb_true_iff, !in_bounds_from_ints, !repeat_length.
    cbn [andb Nat.add]. unfold sR, ff_rk, ff_nt. split.
    - intros [_ [A B]]. split; [exact A|]. intros e He. specialize (B e He).
      replace (4 * NE + H * W + e) with (4 * NE + H * W + e) by lia. exact B.
    - intros [A B]. split; [reflexivity|]. split; [exact A|exact B].
  Qed.
End Sem.
