(* The three answers of z3's Solver.check().  harness/c01translate.py regenerates
   Gen/Z3SolveTable.v (answer -> does Z3Backend.solve return False before it asks
   for a model?) from the verdict test in cspuz/backend/z3.py::Z3Backend.solve;
   Backend/Z3Verdict.v interprets it.  Datatype only. *)
Inductive check_result := CSat | CUnsat | CUnknown.
