"""C01 — find_answer decides satisfiability and leaves a genuine model in .sol."""
import hashlib
import os
import warnings

import c01gen as G
import c01hard as H
import c01translate
import vlib

PROPS = "Props/C01.v"
RULE = ("T: cspuz/backend/z3.py::_convert_expr's operator chain is re-read with ast on every run into Gen/Z3Table.v; "
        "Backend/Z3.v::conv is defined from that table and conv_correct is re-proved against it.  "
        "C (a) 'conv': real _convert_expr(tree) rendered by a structural walk of the z3 AST vs the model's conv on generated "
        "well-typed trees (depth<=5, all operators, literal operands p=0.25, forced empty/singleton/constant-only n-ary forms, "
        "negative/singleton/wide/empty domains) and a malformed stream (None-producing ops under every parent, wrong arities, "
        "None operands, undeclared ids); 'build': constraints.count_true/fold_or/fold_and/alldifferent vs Core/Build.v; "
        "'eval': the harness' reference evaluator of the surface program vs the extracted Coq eval on the tree cspuz built.  "
        "(b) 'find': real Solver.find_answer(backend='z3') vs the extracted find_answer with the brute-force oracle (verdict / "
        "error class).  (c) 'session': random declare/ensure/find_answer interleavings, every step's outcome and the final "
        "program compared.  search: verdict vs brute-force enumeration of the declared domains under the ordinary meaning of "
        "the program as written, and the sol values left by Python must be in bounds, well-typed and satisfy every constraint "
        "(checked by the Python reference and by the extracted sol_is_model).  A case is non-trivial when it is a distinct "
        "(kind, program) pair.  "
        "T2: the body of Z3Backend.solve is re-read with ast on every run: everything but the verdict test must be the text "
        "Backend/Z3.v / Z3Verdict.v were written from (statements that only set options on the solver object are no-ops of "
        "the model), and the verdict test is translated into Gen/Z3SolveTable.v (for sat / unsat / unknown: does solve() "
        "return False before asking for a model?); find_answer_never_wrong / find_answer_decides are re-proved against it "
        "for a three-valued solver.  Second-generation inputs (harness/c01hard.py): programs delivered through every "
        "container form of ensure / count_true / fold_and / fold_or / alldifferent (list, varargs, tuple, generator, iter, "
        "map, zip, generator nested in a list, generator of lists, reversed, arrays, two arguments), every int created at "
        "run time incl. values and domain bounds outside CPython's small-int cache with frequent equal values, variables "
        "declared through bool_array / int_array (1-D, 2-D), the backend named as 'z3' / Z3Backend / config.default_backend / "
        "positionally ('find-forms', 'build-forms'); the same under non-default cspuz.config settings (solver_timeout, "
        "use_graph_primitive, backend_path, default_backend) and under z3's own global parameters rlimit / timeout, where z3 "
        "answers unknown ('find-env': the outcome must be the model's with a solver that answers or with one that gives up; "
        "an exception is accepted under a limit, a wrong verdict never); larger instances with a planted answer (Latin "
        "squares, magic square, pigeons, ordered chains, random planted programs) under the same limits; interleaved "
        "sessions on several Solvers with find_answer issued twice, the caller mutating a list it passed to ensure, and "
        "checks that ensure leaves its arguments and find_answer leaves the program unchanged ('session-forms').")
TRUSTED = [
    "z3 (Solver.check / model) is a Section variable `oracle` with hypotheses oracle_sound / oracle_complete (premises of the theorems, not axioms)",
    "z3py's overload semantics (literal coercion, reflected comparisons, And/Or/Distinct argument handling) as transcribed in Backend/Z3.v::py_bin/lift/z_*; compared structurally with the real z3py on every run (kind 'conv')",
    "zeval: z3's meaning of the term fragment (integer arithmetic, =, distinct, ite, and/or/xor/not)",
    "eval (Core/Expr.v): the 'ordinary meaning' of the operators; validated on every run against an independent Python evaluator of the surface program (kind 'eval')",
    "harness/c01translate.py (ast -> Gen/Z3Table.v and Gen/Z3SolveTable.v, fail-closed)",
    "z3's three answers as `verdict` (Backend/Z3Verdict.v): after a non-sat answer Solver.model() raises; hypotheses verdict_sound_on (a sat answer carries a model, an unsat answer on a bounded query is right; nothing about unknown) are premises of the theorems",
]
ASSUMPTIONS = [
    "constraints are well-typed trees (Core.Expr.wt) whose variables are the Solver's own (refs_ok); ill-sorted mixes of bool and int under a z3 operator are outside the model",
    "z3 assigns every integer constant that occurs in the asserted terms (Z3Backend.solve calls as_long() on model[v])",
    "oracle_complete is only assumed for queries whose integer constants all carry asserted bounds (the queries Z3Backend.solve makes)",
    "when z3 answers unknown (a time / resource limit set by the user on z3 or, if the backend ever passes one on, by cspuz.config) find_answer may raise; it must never turn that answer into a verdict (find_answer_never_wrong); find_answer_decides assumes z3 answers every bounded query",
]

ERR = {1: "IndexError", 2: "KeyError", 3: "AssertionError", 4: "TypeError", 5: "ValueError",
       6: "RecursionError", 7: "NotImplementedError", 8: "Other"}
KNOWN_ERR = set(ERR.values())


def norm_err(name):
    return name if name in KNOWN_ERR else "Other"


def norm_impl(r):
    return ("err", norm_err(r[1])) if r[0] == "err" else r


def parse_model_reply(r):
    t = r.split()
    if t[0] == "E":
        return ("err", ERR[int(t[1])])
    if t[0] == "EXN":
        return ("err", "MODEL-" + r)
    return ("ok", r)


def md5(s):
    return hashlib.md5(s.encode()).hexdigest()[:10]


# ----------------------------------------------------------------- program runs

def run_real(decls, cons, backend="z3"):
    """declare, ensure (through the public API), find_answer; returns
    (outcome, sols, trees, solver) with outcome ("ok", bool) | ("err", name).  An exception
    while building / posting a legitimate program is an error outcome as well."""
    from cspuz import Solver
    s = Solver()
    try:
        vs = G.declare(s, decls)
        built = [G.build(c, vs) for c in cons]
        s.ensure(built)
    except Exception as ex:      # noqa
        return ("err", norm_err(vlib.err_name(ex))), [None] * len(decls), list(s.constraints), s
    with warnings.catch_warnings():
        warnings.simplefilter("ignore")
        r = vlib.guarded(lambda: s.find_answer(backend=backend))
    return norm_impl(r), [v.sol for v in vs], list(s.constraints), s


def sol_problem(decls, cons, sols):
    """None if the sol values are a model of the surface program, else a description."""
    for d, v in zip(decls, sols):
        if d == "b":
            if not isinstance(v, bool):
                return "sol of a BoolVar is %r" % (v,)
        else:
            if isinstance(v, bool) or not isinstance(v, int):
                return "sol of an IntVar is %r" % (v,)
            if not (d[1] <= v <= d[2]):
                return "sol %r outside [%d, %d]" % (v, d[1], d[2])
    for c in cons:
        if not bool(G.seval(c, sols)):
            return "constraint %s is false under sol %r" % (G.show_surface(c), sols)
    return None


def property_fails(decls, cons):
    """does find_answer violate the property on this program?  -> None | (category, text)"""
    r, sols, _, _ = run_real(decls, cons)
    ms = G.models(decls, cons)
    if r != ("ok", bool(ms)):
        cat = ("raises-" + r[1]) if r[0] == "err" else ("false-sat" if r[1] else "false-unsat")
        return cat, "find_answer -> %s, but the program is %s" % (
            r[1] if r[0] == "ok" else "raises " + r[1], "satisfiable" if ms else "unsatisfiable")
    if r == ("ok", True):
        p = sol_problem(decls, cons, sols)
        if p:
            return "sol", "find_answer -> True but " + p
    return None


def used_vars(t, acc):
    if t[0] in ("BV", "IV"):
        acc.add(t[1])
    for c in G.children(t):
        used_vars(c, acc)


def renumber(t, mp):
    if t[0] in ("BV", "IV"):
        return (t[0], mp[t[1]])
    if t[0] == "L":
        return t
    return G.with_children(t, [renumber(c, mp) for c in G.children(t)])


def report(ctx, decls, cons, what):
    first = property_fails(decls, cons)
    cat = first[0] if first else None

    def same(d, c):
        x = property_fails(d, c)
        return x is not None and x[0] == cat
    small = G.shrink(decls, cons, same, budget=150 if not ctx.thorough else 400)
    # drop the variables the minimised program does not mention
    used = set()
    for c in small:
        used_vars(c, used)
    keep = sorted(used)
    d2 = [decls[i] for i in keep]
    c2 = [renumber(c, {v: k for k, v in enumerate(keep)}) for c in small]
    if same(d2, c2):
        decls, small = d2, c2
    now = property_fails(decls, small)
    r, sols, trees, _ = run_real(decls, small)
    st = G.state_tok(decls, [False] * len(decls), trees)
    ctx.violation("fa-" + md5(st), now[1] if now else what,
                  {"decls": [list(d) if d != "b" else "b" for d in decls],
                   "program": [G.show_surface(c) for c in small], "surface": repr(small),
                   "state": st, "find_answer": list(r), "sol": sols, "category": cat,
                   "n_models": len(G.models(decls, small))})


def gen_program(ctx, rng, maxenv=300, depth=(1, 4), ncons=(1, 3)):
    while True:
        decls = G.gen_decls(rng, 4)
        if G.n_envs(decls) <= maxenv:
            break
    g = G.Gen(rng, decls, count=ctx.count)
    cons = [g.gbool(rng.randint(*depth)) for _ in range(rng.randint(*ncons))]
    return decls, cons


def exhaustive_small():
    """every single-constraint program whose constraint has depth <= 1 over the vocabulary
    {b0, b1, i2 in 0..1, i3 in -1..0, True, False, 0, 1}, plus every n-ary helper form on
    operand lists of length <= 2."""
    decls = ["b", "b", ("i", 0, 1), ("i", -1, 0)]
    bl = [("BV", 0), ("BV", 1), ("L", True), ("L", False)]
    il = [("IV", 2), ("IV", 3), ("L", 0), ("L", 1)]
    out = []
    for k in G.INT_CMP:
        for a in il:
            for b in il:
                out.append((k, a, b))
    for k in ("and", "or", "iff", "xor", "xor2", "then"):
        for a in bl:
            for b in bl:
                out.append((k, a, b))
    for a in bl:
        out.append(("not", a))
        out.append(("node", "B", "NOT", [a]))
    lists_b = [[]] + [[a] for a in bl] + [[a, b] for a in bl for b in bl]
    lists_i = [[]] + [[a] for a in il] + [[a, b] for a in il for b in il]
    for l in lists_b:
        out += [("fold_and", l), ("fold_or", l), ("node", "B", "AND", l), ("node", "B", "OR", l),
                ("eq", ("count_true", l), ("IV", 2)), ("le", ("L", 1), ("count_true", l))]
    for l in lists_i:
        out.append(("alldiff", l))
        if l:
            out += [("eq", ("node", "I", "ADD", l), ("IV", 2)), ("lt", ("node", "I", "SUB", l), ("IV", 3))]
    for c in bl:
        for a in il[:3]:
            for b in il[1:]:
                out.append(("ge", ("cond", c, a, b), ("IV", 2)))
    for a in il:
        out.append(("gt", ("neg", a), ("IV", 3)))
        out.append(("ne", ("node", "I", "NEG", [a]), ("L", 0)))
        for b in il:
            out.append(("le", ("add", a, b), ("IV", 2)))
            out.append(("le", ("sub", a, b), ("IV", 3)))
    return [(decls, [c]) for c in out]


# ----------------------------------------------------------------- translator

def translate(ctx):
    c01translate.translate()
    c01translate.translate_solve()


# ----------------------------------------------------------------- correspondence

def malformed_trees(rng, vs):
    """ill-formed trees of the classes Backend/Z3.v models."""
    from cspuz.expr import BoolExpr, BoolVar, IntExpr, IntVar, Op
    bv = [v for v in vs if isinstance(v, BoolVar)] or [True]
    iv = [v for v in vs if isinstance(v, IntVar)] or [1]
    nones = [BoolExpr(Op.VAR, []), IntExpr(Op.VAR, []), BoolExpr(Op.GRAPH_ACTIVE_VERTICES_CONNECTED, [bv[0]]),
             BoolExpr(Op.GRAPH_DIVISION, [iv[0]])]
    out = list(nones)
    for n in nones:
        b, i = rng.choice(bv), rng.choice(iv)
        out += [BoolExpr(Op.NOT, [n]), BoolExpr(Op.AND, [b, n]), BoolExpr(Op.AND, [n]), BoolExpr(Op.OR, [n, b]),
                BoolExpr(Op.XOR, [n, b]), BoolExpr(Op.XOR, [b, n]), BoolExpr(Op.IFF, [n, b]), BoolExpr(Op.IFF, [b, n]),
                BoolExpr(Op.IFF, [n, n]), BoolExpr(Op.IFF, [n, True]), BoolExpr(Op.EQ, [n, 3]), BoolExpr(Op.EQ, [i, n]),
                BoolExpr(Op.NE, [n, i]), BoolExpr(Op.NE, [n, n]), BoolExpr(Op.NE, [2, n]),
                BoolExpr(Op.LE, [n, i]), BoolExpr(Op.LT, [i, n]), BoolExpr(Op.GE, [n, 2]), BoolExpr(Op.GT, [2, n]),
                BoolExpr(Op.LE, [n, n]), IntExpr(Op.NEG, [n]), IntExpr(Op.ADD, [i, n]), IntExpr(Op.ADD, [n, 1]),
                IntExpr(Op.SUB, [n, i]), IntExpr(Op.ADD, [n]), IntExpr(Op.IF, [n, 1, 2]), IntExpr(Op.IF, [b, n, 2]),
                IntExpr(Op.IF, [b, 1, n]), BoolExpr(Op.IMP, [n, b]), BoolExpr(Op.IMP, [b, n]),
                BoolExpr(Op.ALLDIFF, [i, n]), BoolExpr(Op.ALLDIFF, [1, n])]
    b, i = rng.choice(bv), rng.choice(iv)
    out += [IntExpr(Op.ADD, []), IntExpr(Op.SUB, []), IntExpr(Op.NEG, []), BoolExpr(Op.EQ, [i]), BoolExpr(Op.LE, []),
            BoolExpr(Op.NOT, []), BoolExpr(Op.XOR, [b]), BoolExpr(Op.IFF, [b]), BoolExpr(Op.IMP, [b]), BoolExpr(Op.IMP, []),
            IntExpr(Op.IF, [b, 1]), IntExpr(Op.IF, []), BoolExpr(Op.BOOL_CONSTANT, []), IntExpr(Op.INT_CONSTANT, []),
            BoolExpr(Op.AND, [b, None]), BoolExpr(Op.EQ, [None, i]), IntExpr(Op.NEG, [None]), BoolExpr(Op.NOT, [None]),
            BoolExpr(Op.NOT, [BoolVar(len(vs) + 3)]), BoolExpr(Op.EQ, [IntVar(len(vs) + 1, 0, 1), 0]),
            BoolExpr(Op.ALLDIFF, []), BoolExpr(Op.ALLDIFF, [1, 2]), BoolExpr(Op.ALLDIFF, [2, 2]), BoolExpr(Op.ALLDIFF, [7])]
    return out


def real_conv(tree, vs):
    from cspuz.backend import z3 as zb
    be = zb.Z3Backend(vs)
    r = vlib.guarded(lambda: zb._convert_expr(tree, be.variables_dict))
    if r[0] == "err":
        return ("err", norm_err(r[1]))
    return ("ok", G.z3_render(r[1]))


def correspond(ctx):
    import exprio
    from cspuz import Solver
    from cspuz import constraints as C
    rng = ctx.rng
    m = ctx.model("C01")
    ctx._c01 = {"programs": [], "sessions": []}

    # (a) structural: _convert_expr vs conv
    n_trees = 1200 if not ctx.thorough else 20000
    reqs, impl, labels = [], [], []
    for it in range(n_trees):
        decls = G.gen_decls(rng, 4, wide=True)
        s = Solver()
        vs = G.declare(s, decls)
        g = G.Gen(rng, decls, count=ctx.count)
        d = rng.randint(0, 5)
        ctx.count("conv-depth:%d" % d)
        t = g.gbool(d) if rng.random() < 0.7 else g.gint(d)
        tree = G.build(t, vs)
        reqs.append("CONV %s %s" % (G.decls_tok(decls), exprio.show(tree)))
        impl.append(real_conv(tree, vs))
        labels.append(("conv", G.decls_tok(decls) + " " + exprio.show(tree)))
        if it % 8 == 0:
            for tree in malformed_trees(rng, vs):
                reqs.append("CONV %s %s" % (G.decls_tok(decls), exprio.show(tree)))
                impl.append(real_conv(tree, vs))
                labels.append(("conv-malformed", G.decls_tok(decls) + " " + exprio.show(tree)))
    outs = m.batch(reqs)
    for (kind, inp), o, io in zip(labels, outs, impl):
        ctx.corr(kind, inp, parse_model_reply(o), io)

    # (a') helper constructors vs Core/Build.v
    reqs, impl, labels = [], [], []
    for it in range(300 if not ctx.thorough else 3000):
        decls = G.gen_decls(rng, 4)
        s = Solver()
        vs = G.declare(s, decls)
        g = G.Gen(rng, decls, force_p=0.3)
        f = rng.choice(["count_true", "fold_or", "fold_and", "alldifferent"])
        xs = [G.build(x, vs) for x in (g.nary_int_list(2) if f == "alldifferent" else g.nary_bool_list(2))]
        if rng.random() < 0.1:
            xs.insert(rng.randint(0, len(xs)), G.build(g.gbool(1) if f == "alldifferent" else g.gint(1), vs))  # TypeError stream
        reqs.append("BUILD %s %s" % (f, exprio.show_list(xs)))
        r = vlib.guarded(lambda: exprio.show(getattr(C, f)(xs)))
        impl.append(norm_impl(r))
        labels.append(("build", f + " " + exprio.show_list(xs)))
    outs = m.batch(reqs)
    for (kind, inp), o, io in zip(labels, outs, impl):
        ctx.corr(kind, inp, parse_model_reply(o), io)

    # (b) behaviour: find_answer on enumerable programs
    n_prog = 400 if not ctx.thorough else 5000
    if getattr(ctx, "deep", False):
        n_prog *= 3
    reqs, progs = [], []
    for decls, cons in exhaustive_small():
        ctx.count("exhaustive-small")
        r, sols, trees, s = run_real(decls, cons)
        st = G.state_tok(decls, [False] * len(decls), trees)
        reqs.append("FIND " + st)
        progs.append((decls, cons, r, sols, st, trees))
    for it in range(n_prog):
        decls, cons = gen_program(ctx, rng)
        r, sols, trees, s = run_real(decls, cons)
        st = G.state_tok(decls, [False] * len(decls), trees)
        reqs.append("FIND " + st)
        progs.append((decls, cons, r, sols, st, trees))
    outs = m.batch(reqs)
    chk, chk_i = [], []
    for i, ((decls, cons, r, sols, st, trees), o) in enumerate(zip(progs, outs)):
        mo = parse_model_reply(o)
        mv = mo if mo[0] == "err" else ("ok", mo[1].startswith("S"))
        ctx.corr("find", st, mv, r)
        if r == ("ok", True) and all(x is not None for x in sols):
            chk.append("ISMODEL %s %s" % (G.env_tok(decls, sols), st))
            chk_i.append(i)
        # reference evaluator vs Coq eval on the built trees under a random assignment
    ism = dict(zip(chk_i, m.batch(chk)))
    ev_reqs, ev_exp = [], []
    for i, (decls, cons, r, sols, st, trees) in enumerate(progs):
        env = [rng.random() < 0.5 if d == "b" else rng.randint(d[1] - 1, d[2] + 1) for d in decls]
        for c, tr in zip(cons, trees):
            ev_reqs.append("EVAL %s %s" % (G.env_tok(decls, env), exprio.show(tr)))
            ev_exp.append((st, G.env_tok(decls, env), "T" if G.seval(c, env) else "F"))
    for (st, e, exp), o in zip(ev_exp, m.batch(ev_reqs)):
        ctx.corr("eval", (st, e), o, exp)
    ctx._c01["programs"] = [(p, ism.get(i)) for i, p in enumerate(progs)]

    # (c) sessions
    n_sess = 80 if not ctx.thorough else 600
    reqs, runs = [], []
    for it in range(n_sess):
        run = real_session(ctx, rng)
        reqs.append("SESS " + run["ops_tok"])
        runs.append(run)
    outs = m.batch(reqs)
    for run, o in zip(runs, outs):
        ctx.corr("session", run["ops_tok"], o, " ".join(run["outs"]) + " | " + run["final"])
    ctx._c01["sessions"] = runs
    correspond_hard(ctx, m)


def one_of(mo_list, impl):
    """the model outcome to compare with: the one that equals the implementation's if any
    (z3 under a limit may or may not give up on a query), else the first."""
    for mo in mo_list:
        if mo == impl:
            return mo
    return mo_list[0]


def verdict_of(o):
    mo = parse_model_reply(o)
    return mo if mo[0] == "err" else ("ok", mo[1].startswith("S"))


def correspond_hard(ctx, m):
    """second generation of inputs (see c01hard.py): container forms incl. one-shot iterables,
    run-time ints outside the small-int cache, backend naming forms, array declarations,
    non-default cspuz.config / z3 global parameters (time and resource limits: z3 may answer
    unknown), interleaved sessions with call histories."""
    import exprio
    from cspuz import Solver
    from cspuz import constraints as C
    rng = ctx.rng
    data = ctx._c01
    data.update({"cases": [], "hard": [], "sessions2": []})

    # verdict test of Z3Backend.solve: the generated table the model runs on is the translator's reading
    try:
        tbl = c01translate.read_solve(os.path.join(vlib.REPO, "cspuz", "backend", "z3.py"))
        tbl = "sat=%d unsat=%d unknown=%d" % tuple(int(tbl[k]) for k in c01translate.KINDS)
    except c01translate.TranslateError:
        tbl = "untranslatable"        # already reported by the translator stage; the model runs on the last good table
    ctx.corr("solve-table", "Z3Backend.solve verdict test", m.call("FALSEON"), tbl)

    # (a'') helper constructors in every container form vs Core/Build.v on the materialised list
    reqs, impl, labels, side = [], [], [], []
    for it in range(330 if not ctx.thorough else 3300):
        decls = H.gen_decls2(rng)
        s = Solver()
        vs = H.declare2(s, decls, rng.choice(["single", "array"]))
        g = H.Gen2(rng, decls, force_p=0.25)
        f = rng.choice(["count_true", "fold_or", "fold_and", "alldifferent"])
        form = H.FORMS[it % len(H.FORMS)]
        xs = [H.build2(x, vs) for x in (g.nary_int_list(2) if f == "alldifferent" else g.nary_bool_list(2))]
        if rng.random() < 0.1:
            xs.insert(rng.randint(0, len(xs)), H.build2(g.gbool(1) if f == "alldifferent" else g.gint(1), vs))
        ctx.count("build-form:" + form)
        reqs.append("BUILD %s %s" % (f, exprio.show_list(xs)))
        snap = list(xs)
        args = H.wrap(form, xs)
        r = vlib.guarded(lambda: exprio.show(getattr(C, f)(*args)))
        impl.append(norm_impl(r))
        labels.append(("build-forms", "%s<%s> %s" % (f, form, exprio.show_list(snap))))
        if form in ("list", "tuple", "nested-gen"):
            a0 = args[0]
            same = len(a0) == (len(snap) if form != "nested-gen" else 2) and (form == "nested-gen" or all(x is y for x, y in zip(a0, snap)))
            side.append(("helper-leaves-argument", "%s<%s> %s" % (f, form, exprio.show_list(snap)), "unchanged",
                         "unchanged" if same else "changed"))
    for (kind, inp), o, io in zip(labels, m.batch(reqs), impl):
        ctx.corr(kind, inp, parse_model_reply(o), io)
    for kind, inp, exp, got in side:
        ctx.corr(kind, inp, exp, got)

    # (d) find_answer on enumerable programs delivered in every form (default environment)
    n_case = 330 if not ctx.thorough else 4000
    if getattr(ctx, "deep", False):
        n_case *= 2
    cases = []
    for it in range(n_case):
        case = H.gen_case(ctx, rng)
        case["hf"] = H.HFORMS[it % len(H.HFORMS)]
        case["ef"] = H.EFORMS[(it // 3) % len(H.EFORMS)]
        r, sols, trees, s = H.run_case(case)
        st = G.state_tok(case["decls"], [False] * len(case["decls"]), trees)
        cases.append({"case": case, "r": r, "sols": sols, "st": st})
    outs = m.batch(["FIND " + c["st"] for c in cases])
    for c, o in zip(cases, outs):
        c["model"] = verdict_of(o)
        ctx.corr("find-forms", H.case_label(c["case"]) + " " + c["st"], c["model"], c["r"])

    # (e) the same programs' kin under non-default cspuz.config settings, and (f) with z3 made to
    # give up (global rlimit / timeout): the model's three-valued solve either answers or gives up
    n_env = 160 if not ctx.thorough else 1500
    envc = []
    for it in range(n_env):
        case = H.gen_case(ctx, rng)
        case["env"] = H.gen_env(rng)
        envc.append(case)
    for it, c in enumerate(cases[: (140 if not ctx.thorough else 1200)]):
        case = dict(c["case"])
        case["env"] = {"z3": rng.choice([{"rlimit": 1}, {"rlimit": 60}, {"rlimit": 1000}, {"rlimit": 20000}, {"timeout": 1}])}
        envc.append(case)
    runs = []
    for case in envc:
        ctx.count("env:" + ("z3-limit" if case["env"].get("z3") else ",".join(sorted(case["env"].get("config", {})) or ["none"])))
        r, sols, trees, s = H.run_case(case)
        st = G.state_tok(case["decls"], [False] * len(case["decls"]), trees)
        runs.append({"case": case, "r": r, "sols": sols, "st": st})
        ctx.count("env-outcome:%s:%s" % ("z3-limit" if case["env"].get("z3") else "config", r[0] if r[0] == "err" else r[1]))
    o_real = m.batch(["FIND3 R " + c["st"] for c in runs])
    o_unk = m.batch(["FIND3 U " + c["st"] for c in runs])
    for c, a, b in zip(runs, o_real, o_unk):
        ms = [verdict_of(a)] + ([verdict_of(b)] if H.env_has_limit(c["case"]["env"]) else [])
        c["model"] = one_of(ms, c["r"])
        ctx.corr("find-env", H.case_label(c["case"]) + " " + c["st"], c["model"], c["r"])
    data["cases"] = cases + runs

    # (g) larger instances with a known answer under time / resource limits (no model run: the
    # brute-force oracle cannot enumerate them; judged in search against the planted answer)
    hard = []
    for inst in H.hard_instances(rng, ctx.thorough):
        for env in H.LIMIT_ENVS:
            case = dict(inst)
            case.update({"hf": rng.choice(H.HFORMS), "ef": rng.choice(H.EFORMS), "bf": rng.choice(H.BFORMS),
                         "decl": rng.choice(["single", "array"]), "env": env})
            ctx.count("hard:" + inst["name"])
            r, sols, trees, s = H.run_case(case)
            hard.append({"case": case, "r": r, "sols": sols})
            ctx.count("hard-outcome:%s:%s" % (H.env_tok(env), r[0] if r[0] == "err" else r[1]))
    data["hard"] = hard

    # (h) interleaved sessions with histories
    n_pair = 60 if not ctx.thorough else 500
    reqs, runs2 = [], []
    for it in range(n_pair):
        scripts = [H.gen_script(ctx, rng) for _ in range(rng.choice([1, 2, 2, 3]))]
        rs, order = H.run_interleaved(rng, scripts)
        for i, run in enumerate(rs):
            run["scripts"], run["order"], run["index"] = scripts, order, i
            reqs.append("SESS " + run["ops_tok"])
            runs2.append(run)
    for run, o in zip(runs2, m.batch(reqs)):
        ctx.corr("session-forms", run["ops_tok"], o, " ".join(run["outs"]) + " | " + run["final"])
        for kind, inp, exp, got in run["side"]:
            ctx.corr(kind, (inp, run["ops_tok"]), exp, got)
    data["sessions2"] = runs2


def real_session(ctx, rng):
    """a random interleaving of declarations, ensure and find_answer on the real Solver."""
    import exprio
    from cspuz import Solver
    s = Solver()
    decls, vs, cons = [], [], []
    toks, outs, finds = [], [], []
    n_ops = rng.randint(3, 10)
    ops = []
    for k in range(n_ops):
        x = rng.random()
        if k == 0 or x < 0.25:
            ops.append("decl")
        elif x < 0.65:
            ops.append("ensure")
        else:
            ops.append("find")
    ops.append("find")
    for o in ops:
        if o == "decl":
            while True:
                d = "b" if rng.random() < 0.45 else ("i",) + rng.choice(G.DOMAINS_SMALL)
                if G.n_envs(decls + [d]) <= 200:
                    break
            decls.append(d)
            vs.append(s.bool_var() if d == "b" else s.int_var(d[1], d[2]))
            toks.append("b" if d == "b" else "i %d %d" % (d[1], d[2]))
            outs.append("-")
        elif o == "ensure":
            g = G.Gen(rng, decls, count=ctx.count)
            ts = [g.gbool(rng.randint(0, 3)) for _ in range(rng.randint(0, 2))]
            built = [G.build(t, vs) for t in ts]
            p = None
            if rng.random() < 0.08:
                p = rng.randint(0, len(built))
                built.insert(p, G.build(g.gint(1), vs))     # not BoolExpr-like: TypeError
            r = vlib.guarded(lambda: s.ensure(built))
            toks.append("e " + exprio.show_list(built))
            if r[0] == "err":
                outs.append("E %d" % [k for k, v in ERR.items() if v == norm_err(r[1])][0])
                cons += ts[:p] if p is not None else []      # items before the offending one stay posted
            else:
                outs.append("-")
                cons += ts
        else:
            with warnings.catch_warnings():
                warnings.simplefilter("ignore")
                r = norm_impl(vlib.guarded(lambda: s.find_answer(backend="z3")))
            toks.append("f")
            outs.append(("S" if r[1] else "U") if r[0] == "ok" else "E %d" % [k for k, v in ERR.items() if v == r[1]][0])
            finds.append({"decls": list(decls), "cons": list(cons), "result": r, "sols": [v.sol for v in vs],
                          "state": exprio.show_state(s)})
    return {"ops_tok": " ".join(toks), "outs": outs, "final": exprio.show_state(s), "finds": finds}


# ----------------------------------------------------------------- search

def check_program(ctx, decls, cons, r, sols, ismodel, label):
    st_key = (label, G.decls_tok(decls), tuple(G.show_surface(c) for c in cons))
    ctx.prop_case("find_answer-vs-enumeration", st_key)
    ms = G.models(decls, cons)
    bad = None
    if r != ("ok", bool(ms)):
        bad = "verdict"
    elif r == ("ok", True):
        if sol_problem(decls, cons, sols):
            bad = "sol"
        elif ismodel is not None and ismodel != "1":
            # Python reference accepts the sol values, the Coq specification does not: the two
            # readings of the property disagree -> not a finding, a broken tie
            ctx.mismatches.append({"kind": "spec-vs-pyeval", "input": repr(st_key), "model": ismodel, "impl": "1"})
    if bad:
        report(ctx, decls, cons, bad)


def search(ctx):
    data = getattr(ctx, "_c01", None)
    rng = ctx.rng
    if data and data["programs"]:
        for (decls, cons, r, sols, st, trees), ism in data["programs"]:
            check_program(ctx, decls, cons, r, sols, ism, "prog")
        for run in data["sessions"]:
            for f in run["finds"]:
                check_program(ctx, f["decls"], f["cons"], f["result"], f["sols"], None, "session")
    else:
        # the model could not be built/run: the oracle does not need it
        for it in range(450):
            decls, cons = gen_program(ctx, rng)
            r, sols, trees, s = run_real(decls, cons)
            check_program(ctx, decls, cons, r, sols, None, "prog")
        for it in range(30):
            for f in real_session(ctx, rng)["finds"]:
                check_program(ctx, f["decls"], f["cons"], f["result"], f["sols"], None, "session")
    search_hard(ctx, data)
    if getattr(ctx, "deep", False) and not ctx.violations:
        for it in range(1500):
            decls, cons = gen_program(ctx, rng, depth=(1, 5), ncons=(1, 4))
            r, sols, trees, s = run_real(decls, cons)
            check_program(ctx, decls, cons, r, sols, None, "deep")
            if len(ctx.violations) >= 3:
                break


def search_hard(ctx, data):
    rng = ctx.rng
    if not (data and data.get("cases")):
        # the model could not be built / run: generate the second-generation inputs here
        data = {"cases": [], "hard": [], "sessions2": []}
        for it in range(400):
            case = H.gen_case(ctx, rng)
            if it % 3 == 0:
                case["env"] = H.gen_env(rng)
            elif it % 3 == 1:
                case["env"] = {"z3": rng.choice([{"rlimit": 1}, {"rlimit": 1000}, {"timeout": 1}])}
            r, sols, trees, s = H.run_case(case)
            data["cases"].append({"case": case, "r": r, "sols": sols})
        for inst in H.hard_instances(rng, ctx.thorough):
            for env in H.LIMIT_ENVS:
                case = dict(inst)
                case.update({"hf": "list", "ef": rng.choice(H.EFORMS), "bf": "str", "decl": "single", "env": env})
                r, sols, trees, s = H.run_case(case)
                data["hard"].append({"case": case, "r": r, "sols": sols})
        for it in range(40):
            scripts = [H.gen_script(ctx, rng) for _ in range(2)]
            rs, order = H.run_interleaved(rng, scripts)
            for i, run in enumerate(rs):
                run["scripts"], run["order"], run["index"] = scripts, order, i
                data["sessions2"].append(run)
    failing = []
    for c in data["cases"] + data["hard"]:
        case = c["case"]
        ctx.prop_case("find_answer-vs-enumeration",
                      ("case", H.case_label(case), G.decls_tok(case["decls"]), tuple(G.show_surface(x) for x in case["cons"])))
        if H.judge(case, c["r"], c["sols"], H.expected_sat(case)):
            failing.append(c)

    def rank(c):
        # deterministic failures first: no limit, then z3's resource limit, then wall-clock limits
        env = c["case"].get("env") or {}
        if not H.env_has_limit(env):
            return 0
        return 1 if list(env.get("z3", {})) == ["rlimit"] and env.get("config", {}).get("solver_timeout") is None else 2
    failing.sort(key=rank)
    seen_rank = {}
    for c in failing:
        k = rank(c)
        if seen_rank.get(k, 0) >= 2:
            continue
        seen_rank[k] = seen_rank.get(k, 0) + 1
        H.report_case(ctx, c["case"], "verdict / sol", observed=(c["r"], c["sols"]),
                      shrink_budget=100 if not ctx.thorough else 300)
    n_rep = 0
    for run in data["sessions2"]:
        for f in run["finds"]:
            ctx.prop_case("find_answer-vs-enumeration",
                          ("session2", run["ops_tok"], f["step"], f["rep"]))
        probs = H.session_problems(run)
        if probs and n_rep < 4:
            n_rep += 1
            step, cat, text = probs[0]
            again = H.session_problems(H.replay_scripts(run["scripts"], run["order"])[run["index"]])
            scs, od, ix = run["scripts"], run["order"], run["index"]
            outs, final = run["outs"], run["final"]
            if again:
                scs, od, ix = H.minimise_session(scs, od, ix)
                small = H.replay_scripts(scs, od)[ix]
                p2 = H.session_problems(small)
                if p2:
                    (step, cat, text), outs, final = p2[0], small["outs"], small["final"]
            ctx.violation("fs-" + md5(run["ops_tok"]), "session step %d: %s" % (step, text),
                          {"script": H.show_script(scs[ix]), "scripts": repr(scs), "order": od,
                           "index": ix, "step": step, "category": cat, "outs": outs, "final": final,
                           "reproduced_on_rerun": bool(again)})
    if getattr(ctx, "deep", False) and not ctx.violations:
        # a proof or tie broke and nothing failed so far: many more second-generation inputs
        n = 0
        for it in range(2500):
            case = H.gen_case(ctx, rng, depth=(1, 5), ncons=(1, 4))
            if it % 4 == 0:
                case["env"] = H.gen_env(rng)
            elif it % 4 == 1:
                case["env"] = {"z3": rng.choice([{"rlimit": 1}, {"rlimit": 60}, {"rlimit": 1000}])}
            r, sols, trees, s = H.run_case(case)
            ctx.prop_case("find_answer-vs-enumeration",
                          ("deep-case", H.case_label(case), G.decls_tok(case["decls"]), tuple(G.show_surface(x) for x in case["cons"])))
            if H.judge(case, r, sols, H.expected_sat(case)):
                H.report_case(ctx, case, "verdict / sol", observed=(r, sols))
                n += 1
                if n >= 3:
                    break


def replay(ctx, rp):
    v = rp.get("violation", {}).get("detail", {})
    print(rp.get("violation", rp))
    if v and "scripts" in v:
        runs = H.replay_scripts(eval(v["scripts"], {}), v["order"])
        probs = H.session_problems(runs[v["index"]])
        print("now:", probs[0] if probs else "property holds on this session")
        return 1 if probs else 0
    if v and "case" in v and "surface" in v:
        what = H.replay_case(v)
        print("now:", what[1] if what else "property holds on this input")
        return 1 if what else 0
    if not v or "surface" not in v:
        return 0
    decls = [d if d == "b" else tuple(d) for d in v["decls"]]
    cons = eval(v["surface"], {})      # written by this harness: nested tuples of literals
    what = property_fails(decls, cons)
    print("now:", what[1] if what else "property holds on this input")
    return 1 if what else 0
