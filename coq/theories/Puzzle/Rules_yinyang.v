(* C11 rule specification - Yin-Yang.
   Published rules (puzz.link, "Yin-Yang"):
     1. Place a black or a white circle in every empty cell.
     2. All black circles form one orthogonally connected group, and so do all
        white circles.
     3. No 2x2 block of cells may hold circles of one colour only.

   problem = [[h; w]; given]   given: h*w cells row-major, 1 white circle, 2 black circle, anything else empty
   answer  = h*w cells row-major, 1 = black *)
From Coq Require Import ZArith List Bool Arith.
From Cspuz Require Import Graph.GraphModel Puzzle.PuzzleBase.
Import ListNotations.

Definition rules_yinyang (pb : problem) (ans : answer) : bool :=
  let h := dim pb 0 in let w := dim pb 1 in
  let given := sec pb 1 in
  let black := fun v => isb (getz ans v) in
  Nat.eqb (length ans) (h * w) && forallb is01 ans &&
  forallb (fun v => let c := getz given v in
     if (c =? 1)%Z then negb (black v) else if (c =? 2)%Z then black v else true) (seq 0 (h * w)) &&
  cells_connected h w black && cells_connected h w (fun v => negb (black v)) &&
  negb (has_2x2 h w (fun y x => black (y * w + x))) &&
  negb (has_2x2 h w (fun y x => negb (black (y * w + x)))).

Definition answers_yinyang (pb : problem) : list answer :=
  all_answers (bool_doms (dim pb 0 * dim pb 1)).
