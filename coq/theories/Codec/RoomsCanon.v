(* The canonical listing of a room partition given in any order:
   cells row-major inside every room, rooms by their least cell (a stable insertion sort,
   the one list.sort(key=min) performs).  Proofs only; used by RoomsTotal.v and RoomsValued.v. *)
From Coq Require Import ZArith List Ascii Bool NArith Lia Sorting.Sorted Sorting.Permutation.
From Cspuz Require Import Lib.PyErr Codec.Comb Codec.CombWf Codec.CombBasics Codec.CombLeaf Codec.CombRoundTrip
  Codec.RoomsGrid Codec.RoomsFill Codec.RoomsProofs.
Import ListNotations.
Local Open Scope Z_scope.

(* ------------------------------------------------------------------ the order on cells *)
Lemma cell_ltb_false a b : cell_ltb a b = false <-> ~ cell_lt a b.
Proof. unfold cell_lt. destruct (cell_ltb a b); split; intros H; try congruence; exfalso; apply H; reflexivity. Qed.

(* ------------------------------------------------------------------ min(room) *)
Definition cmin (m x : cell) : cell := if cell_ltb x m then x else m.

Definition min_cell (r : list cell) : cell :=
  match r with [] => (0%nat, 0%nat) | a :: t => fold_left cmin t a end.

Lemma fold_cmin_spec : forall t a,
  (fold_left cmin t a = a \/ In (fold_left cmin t a) t) /\
  ~ cell_lt a (fold_left cmin t a) /\ forall x, In x t -> ~ cell_lt x (fold_left cmin t a).
Proof.
  induction t as [|x t IH]; intros a; simpl.
  - split; auto. split; [apply cell_lt_irrefl|]. intros x [].
  - destruct (IH (cmin a x)) as (Hin & Ha & Ht).
    remember (fold_left cmin t (cmin a x)) as m eqn:Em. clear Em.
    assert (Hc : (cmin a x = a /\ ~ cell_lt x a) \/ (cmin a x = x /\ cell_lt x a)).
    { unfold cmin. destruct (cell_ltb x a) eqn:E; [right|left]; split; auto. apply cell_ltb_false; auto. }
    split; [|split].
    + destruct Hin as [Hin|Hin]; auto. destruct Hc as [[Hc _]|[Hc _]]; rewrite Hc in Hin; auto.
    + destruct Hc as [[Hc _]|[Hc Hlt]]; rewrite Hc in Ha; auto.
      intros Ham. apply Ha. eapply cell_ltb_trans; eauto.
    + intros y [E|Hy]; [subst y|auto].
      destruct Hc as [[Hc Hn]|[Hc Hlt]]; rewrite Hc in Ha; auto.
      intros Hxm. destruct (cell_trichotomy m a) as [H1|[H1|H1]].
      * apply Hn. eapply cell_ltb_trans; eauto.
      * rewrite H1 in Hxm. contradiction.
      * contradiction.
Qed.

Lemma min_cell_in r : r <> [] -> In (min_cell r) r.
Proof.
  destruct r as [|a t]; [congruence|]. intros _. simpl.
  destruct (fold_cmin_spec t a) as ([E|Hin] & _); auto.
Qed.

Lemma min_cell_le r x : In x r -> ~ cell_lt x (min_cell r).
Proof.
  destruct r as [|a t]; [intros []|]. simpl. destruct (fold_cmin_spec t a) as (_ & Ha & Ht).
  intros [E|Hin]; [subst; auto|auto].
Qed.

(* ------------------------------------------------------------------ the cells of a room in row-major order *)
Definition canon_cells (h w : Z) (r : list cell) : list cell :=
  filter (fun c => existsb (cell_eqb c) r) (cells_of h w).

Lemma canon_in H W r c : In c (canon_cells (Z.of_nat H) (Z.of_nat W) r) <-> inb H W c /\ In c r.
Proof.
  unfold canon_cells. rewrite filter_In, existsb_cell.
  pose proof (cells_inb H W c) as Hc. unfold cells in Hc. tauto.
Qed.

Lemma canon_sorted H W r : StronglySorted cell_lt (canon_cells (Z.of_nat H) (Z.of_nat W) r).
Proof. apply filter_sorted. apply cells_of_sorted. Qed.

Lemma canon_perm H W r : NoDup r -> (forall c, In c r -> inb H W c) ->
  Permutation r (canon_cells (Z.of_nat H) (Z.of_nat W) r).
Proof.
  intros Hnd Hin. apply NoDup_Permutation; auto.
  - apply sorted_nodup. apply canon_sorted.
  - intros c. rewrite canon_in. split; [intros; split; auto|intros [_ ?]; auto].
Qed.

Lemma canon_head H W r : r <> [] -> NoDup r -> (forall c, In c r -> inb H W c) ->
  room_head (canon_cells (Z.of_nat H) (Z.of_nat W) r) = min_cell r.
Proof.
  intros Hne Hnd Hin. pose proof (canon_perm H W r Hnd Hin) as Hp. pose proof (canon_sorted H W r) as Hs.
  destruct (canon_cells (Z.of_nat H) (Z.of_nat W) r) as [|a t] eqn:E.
  - apply Permutation_sym, Permutation_nil in Hp. contradiction.
  - simpl. inversion Hs as [|? ? _ Hf]; subst. rewrite Forall_forall in Hf.
    assert (Hm : In (min_cell r) (a :: t)) by (eapply Permutation_in; [exact Hp|apply min_cell_in; auto]).
    destruct Hm as [Hm|Hm]; auto. exfalso.
    apply (min_cell_le r a).
    + eapply Permutation_in; [apply Permutation_sym; exact Hp|left; auto].
    + apply Hf; auto.
Qed.

(* ------------------------------------------------------------------ stable insertion sort by a cell key *)
Section ISort.
  Context {A : Type} (key : A -> cell).

  Fixpoint ins (p : A) (l : list A) : list A :=
    match l with
    | [] => [p]
    | q :: t => if cell_ltb (key p) (key q) then p :: l else q :: ins p t
    end.

  Fixpoint isort (l : list A) : list A :=
    match l with [] => [] | p :: t => ins p (isort t) end.

  Definition klt (a b : A) : Prop := cell_lt (key a) (key b).

  Lemma ins_perm p l : Permutation (ins p l) (p :: l).
  Proof.
    induction l as [|q t IH]; simpl; auto. destruct (cell_ltb (key p) (key q)); auto.
    eapply Permutation_trans; [apply perm_skip; exact IH|apply perm_swap].
  Qed.

  Lemma isort_perm l : Permutation (isort l) l.
  Proof.
    induction l as [|p t IH]; simpl; auto.
    eapply Permutation_trans; [apply ins_perm|apply perm_skip; exact IH].
  Qed.

  Lemma ins_sorted p l : StronglySorted klt l -> ~ In (key p) (map key l) -> StronglySorted klt (ins p l).
  Proof.
    induction 1 as [|q t Hs IH Hf]; intros Hnot; simpl.
    - repeat constructor.
    - rewrite Forall_forall in Hf. destruct (cell_ltb (key p) (key q)) eqn:E.
      + constructor; [constructor; auto; apply Forall_forall; auto|].
        apply Forall_forall. intros x [Hx|Hx]; [subst; exact E|].
        unfold klt. eapply cell_ltb_trans; [exact E|apply Hf; auto].
      + apply cell_ltb_false in E. simpl in Hnot.
        assert (Hqp : klt q p).
        { unfold klt. destruct (cell_trichotomy (key q) (key p)) as [H1|[H1|H1]]; auto; [|contradiction].
          exfalso. apply Hnot. left; auto. }
        constructor; [apply IH; intros Hin; apply Hnot; right; auto|].
        apply Forall_forall. intros x Hx. apply (Permutation_in _ (ins_perm p t)) in Hx.
        destruct Hx as [Hx|Hx]; [subst; auto|auto].
  Qed.

  Lemma isort_sorted l : NoDup (map key l) -> StronglySorted klt (isort l).
  Proof.
    induction l as [|p t IH]; simpl; intros Hnd; [constructor|].
    inversion Hnd as [|? ? Hnot Hnd']; subst. apply ins_sorted; auto.
    intros Hin. apply Hnot. eapply Permutation_in; [|exact Hin]. apply Permutation_map. apply isort_perm.
  Qed.

  Lemma isort_id l : StronglySorted klt l -> isort l = l.
  Proof.
    induction 1 as [|p t Hs IH Hf]; simpl; auto. rewrite IH.
    destruct t as [|q t']; simpl; auto. inversion Hf as [|? ? Hpq _]; subst.
    unfold klt, cell_lt in Hpq. rewrite Hpq. reflexivity.
  Qed.
End ISort.

(* ------------------------------------------------------------------ partitions under reordering *)
Lemma perm_concat {A} (l l' : list (list A)) : Permutation l l' -> Permutation (concat l) (concat l').
Proof.
  induction 1; simpl; auto.
  - apply Permutation_app_head; auto.
  - rewrite !app_assoc. apply Permutation_app_tail. apply Permutation_app_comm.
  - eapply Permutation_trans; eauto.
Qed.

Lemma forall2_perm_concat {A} (l l' : list (list A)) :
  Forall2 (@Permutation A) l l' -> Permutation (concat l) (concat l').
Proof. induction 1; simpl; auto. apply Permutation_app; auto. Qed.

Lemma forall2_map_in {A B} (R : A -> B -> Prop) (f : A -> B) l :
  (forall x, In x l -> R x (f x)) -> Forall2 R l (map f l).
Proof. induction l as [|a l IH]; intros Hx; simpl; constructor; [apply Hx; left; auto|apply IH; intros; apply Hx; right; auto]. Qed.

Lemma sorted_map_in {A B} (R : A -> A -> Prop) (R' : B -> B -> Prop) (f : A -> B) l :
  (forall a b, In a l -> In b l -> R a b -> R' (f a) (f b)) -> StronglySorted R l -> StronglySorted R' (map f l).
Proof.
  intros Himp Hs. induction Hs as [|a l Hs IH Hf]; simpl; constructor.
  - apply IH. intros x y Hx Hy. apply Himp; right; auto.
  - rewrite Forall_forall in *. intros y Hy. apply in_map_iff in Hy as (b & E & Hb). subst.
    apply Himp; [left; auto|right; auto|apply Hf; auto].
Qed.

Lemma conn_incl r r' a b : (forall c, In c r -> In c r') -> conn r a b -> conn r' a b.
Proof. intros Hi. induction 1; [apply conn_refl|eapply conn_step]; eauto. Qed.

Lemma valid_rooms_perm h w rs rs1 : Permutation rs1 rs -> valid_rooms h w rs -> valid_rooms h w rs1.
Proof.
  intros Hp (Hne & Hc & Hconn). split; [|split].
  - rewrite Forall_forall in *. intros r Hr. apply Hne. eapply Permutation_in; eauto.
  - eapply Permutation_trans; [apply perm_concat; exact Hp|exact Hc].
  - rewrite Forall_forall in *. intros r Hr. apply Hconn. eapply Permutation_in; eauto.
Qed.

Lemma valid_room_facts H W rs : valid_rooms (Z.of_nat H) (Z.of_nat W) rs -> forall r, In r rs ->
  r <> [] /\ NoDup r /\ forall c, In c r -> inb H W c.
Proof.
  intros Hv r Hr. pose proof (can_nodup H W rs Hv) as Hnd. pose proof (can_in H W rs Hv) as Hin.
  destruct Hv as (Hne & _ & _). rewrite Forall_forall in Hne. split; [auto|]. split.
  - apply (In_nth rs r []) in Hr as (j & Hj & Er). subst r. apply nodup_concat_nth; auto.
  - intros c Hc. apply Hin. apply in_concat. exists r. auto.
Qed.

Lemma min_cells_nodup_gen rs : Forall (fun r : list cell => r <> []) rs -> NoDup (concat rs) -> NoDup (map min_cell rs).
Proof.
  induction rs as [|r rs IH]; intros Hne Hnd; simpl; [constructor|].
  inversion Hne as [|? ? Hr Hne']; subst. simpl in Hnd. destruct (nodup_app_parts _ _ Hnd) as [Hnd' Hdis].
  constructor; auto. intros Hin. apply in_map_iff in Hin as (r2 & E & Hr2).
  apply (Hdis (min_cell r)); [apply min_cell_in; auto|].
  apply in_concat. exists r2. split; auto. rewrite <- E. apply min_cell_in.
  rewrite Forall_forall in Hne'. auto.
Qed.

Lemma min_cells_nodup H W rs : valid_rooms (Z.of_nat H) (Z.of_nat W) rs -> NoDup (map min_cell rs).
Proof.
  intros Hv. apply min_cells_nodup_gen; [apply Hv|apply (can_nodup H W rs Hv)].
Qed.

(* rooms whose least cells increase, each re-listed in row-major order: a canonical partition *)
Lemma canon_rooms_canonical H W rs1 :
  valid_rooms (Z.of_nat H) (Z.of_nat W) rs1 ->
  StronglySorted (fun r1 r2 => cell_lt (min_cell r1) (min_cell r2)) rs1 ->
  canonical_rooms (Z.of_nat H) (Z.of_nat W) (map (canon_cells (Z.of_nat H) (Z.of_nat W)) rs1) /\
  Forall2 (@Permutation cell) rs1 (map (canon_cells (Z.of_nat H) (Z.of_nat W)) rs1).
Proof.
  intros Hv Hs. set (cn := canon_cells (Z.of_nat H) (Z.of_nat W)).
  pose proof (valid_room_facts H W rs1 Hv) as Hfacts.
  assert (HF2 : Forall2 (@Permutation cell) rs1 (map cn rs1)).
  { apply forall2_map_in. intros r Hr. destruct (Hfacts r Hr) as (_ & Hnd & Hin). apply canon_perm; auto. }
  split; [|exact HF2]. destruct Hv as (Hne & Hperm & Hconn). split; [split; [|split]|split].
  - apply Forall_forall. intros r' Hr'. apply in_map_iff in Hr' as (r & E & Hr). subst r'.
    destruct (Hfacts r Hr) as (Hn & Hnd & Hin). intros E. apply Hn.
    pose proof (canon_perm H W r Hnd Hin) as Hp. fold cn in Hp. rewrite E in Hp.
    apply Permutation_sym, Permutation_nil in Hp. exact Hp.
  - eapply Permutation_trans; [apply Permutation_sym; apply forall2_perm_concat; exact HF2|exact Hperm].
  - apply Forall_forall. intros r' Hr'. apply in_map_iff in Hr' as (r & E & Hr). subst r'.
    destruct (Hfacts r Hr) as (Hn & Hnd & Hin). pose proof (canon_perm H W r Hnd Hin) as Hp. fold cn in Hp.
    rewrite Forall_forall in Hconn. intros a b Ha Hb.
    apply (conn_incl r (cn r)); [intros c Hc; eapply Permutation_in; eauto|].
    apply Hconn; auto; eapply Permutation_in; try (apply Permutation_sym; exact Hp); auto.
  - apply Forall_forall. intros r' Hr'. apply in_map_iff in Hr' as (r & E & Hr). subst r'. apply canon_sorted.
  - apply (sorted_map_in (fun r1 r2 => cell_lt (min_cell r1) (min_cell r2))); [|exact Hs].
    intros a b Ha Hb Hab. destruct (Hfacts a Ha) as (Hna & Hnda & Hina). destruct (Hfacts b Hb) as (Hnb & Hndb & Hinb).
    unfold cn. rewrite !canon_head; auto.
Qed.

(* sort by least cell, then canonical cells: for every valid partition *)
Definition canon_rooms (h w : Z) (rs : list (list cell)) : list (list cell) :=
  map (canon_cells h w) (isort min_cell rs).

Lemma canon_rooms_spec H W rs : valid_rooms (Z.of_nat H) (Z.of_nat W) rs ->
  canonical_rooms (Z.of_nat H) (Z.of_nat W) (canon_rooms (Z.of_nat H) (Z.of_nat W) rs) /\
  rooms_equiv rs (canon_rooms (Z.of_nat H) (Z.of_nat W) rs).
Proof.
  intros Hv. pose proof (isort_perm min_cell rs) as Hp.
  pose proof (valid_rooms_perm _ _ rs _ Hp Hv) as Hv1.
  destruct (canon_rooms_canonical H W (isort min_cell rs) Hv1) as [Hcan HF2].
  { apply (isort_sorted min_cell). apply (min_cells_nodup H W rs Hv). }
  split; [exact Hcan|]. exists (isort min_cell rs). split; auto.
Qed.

(* the text of Rooms.serialize depends on the partition only, not on how it is listed *)
Lemma rooms_ser_raw_equiv e rs rs' : env_ok e ->
  valid_rooms (height e) (width e) rs -> valid_rooms (height e) (width e) rs' -> rooms_equiv rs rs' ->
  rooms_ser_raw e (VList [rooms_to_pv rs]) 0 = rooms_ser_raw e (VList [rooms_to_pv rs']) 0.
Proof.
  intros Henv Hv Hv' Heq. pose proof Henv as [Hh Hw].
  rewrite (rooms_ser_raw_valid e rs Henv Hv), (rooms_ser_raw_valid e rs' Henv Hv').
  assert (Hz : valid_rooms (Z.of_nat (Z.to_nat (height e))) (Z.of_nat (Z.to_nat (width e))) rs)
    by (rewrite !Z2Nat.id by lia; auto).
  assert (Hz' : valid_rooms (Z.of_nat (Z.to_nat (height e))) (Z.of_nat (Z.to_nat (width e))) rs')
    by (rewrite !Z2Nat.id by lia; auto).
  destruct (borders_equiv _ _ rs rs' Hz Hz' Heq) as [E1 E2]. rewrite E1, E2. reflexivity.
Qed.
