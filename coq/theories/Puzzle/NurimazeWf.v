(* C11: the program of solve_nurimaze is well formed on every board; composition with C02 (solve_reports). *)
From Coq Require Import ZArith List Bool Arith Lia.
From Cspuz Require Import Lib.PyErr Core.Expr Core.Program Graph.GraphModel Graph.Avc
     Backend.Z3 Backend.Z3Oracle Backend.Z3SolveProofs Backend.SolveLoop Backend.SolveZ3Proofs
     Puzzle.PuzzleBase Puzzle.ModelBase Puzzle.ModelLemmas Puzzle.SatAbs Puzzle.SolveCompose Puzzle.WfLemmas
     Puzzle.Rules_nurimaze Puzzle.Nurimaze Puzzle.NurimazeProofs.
Import ListNotations.
Local Open Scope nat_scope.

Section M.
  Variables h w : nat.
  Notation n := (h * w).
  (* the declarations of the final state: the grid, the ranks and root flags of the helper, the path grid *)
  Variable hi : Z.
  Let vs := repeat DBool n ++ (repeat (DInt 0 hi) n ++ repeat DBool n) ++ repeat DBool n ++ [].
  Let base := 3 * n.

  Lemma nmw_white y x : y < h -> x < w -> ok vs true (nm_white w (y, x)) = true.
  Proof. intros Hy Hx. unfold nm_white, vs. apply ok_more. apply ok_cell; assumption. Qed.

  Lemma nmw_path y x : y < h -> x < w -> ok vs true (nm_path base w (y, x)) = true.
  Proof.
    intros Hy Hx. unfold nm_path, vs. rewrite !app_assoc. rewrite <- app_assoc.
    pose proof (cidx_lt h w y x Hy Hx) as L.
    apply ok_bvar_block. rewrite !app_length, !repeat_length. unfold base. lia.
  Qed.

  Lemma nmw_nb y x : y < h -> x < w ->
    ok vs false (ct_vars (map (fun d => base + cidx w d) (nbr4 h w y x))) = true.
  Proof.
    intros Hy Hx. apply ok_ct_vars_lt. intros i Hi. apply in_map_iff in Hi. destruct Hi as [[y' x'] [<- Hn]].
    destruct (nbr4_in h w y x y' x' Hy Hx Hn). apply (nmw_path y' x'); assumption.
  Qed.

  Lemma nmw_cell wv wh mark sy sx gy gx y x : y < h -> x < w ->
    forallb (ok vs true) (nm_cell base h w wv wh mark sy sx gy gx (y, x)) = true.
  Proof.
    intros Hy Hx. unfold nm_cell. cbv zeta. rewrite !forallb_app.
    repeat (apply andb_true_intro; split).
    - destruct (Nat.ltb_spec (S x) w) as [L|L]; [|reflexivity]. destruct (at2 wv (w - 1) y x =? 0)%Z; [|reflexivity].
      cbn [andb forallb]. autorewrite with okdb. rewrite !nmw_white by assumption. reflexivity.
    - destruct (Nat.ltb_spec (S y) h) as [L|L]; [|reflexivity]. destruct (at2 wh w y x =? 0)%Z; [|reflexivity].
      cbn [andb forallb]. autorewrite with okdb. rewrite !nmw_white by assumption. reflexivity.
    - destruct (nm_is y x sy sx || nm_is y x gy gx); cbn [forallb]; autorewrite with okdb;
        rewrite nmw_path, nmw_nb by assumption; reflexivity.
    - destruct (at2 mark w y x =? 0)%Z; [reflexivity|]. cbn [forallb]. rewrite nmw_white by assumption. reflexivity.
    - destruct (at2 mark w y x =? 1)%Z; [cbn [forallb]; rewrite nmw_path by assumption; reflexivity|].
      destruct (at2 mark w y x =? 2)%Z; [|reflexivity]. cbn [forallb]. autorewrite with okdb. rewrite nmw_path by assumption. reflexivity.
  Qed.

  Lemma nmw_constraints wv wh mark sy sx gy gx :
    forallb (ok vs true) (nurimaze_constraints base h w wv wh mark sy sx gy gx) = true.
  Proof.
    unfold nurimaze_constraints. rewrite !forallb_app, !forallb_map, forallb_flat_map.
    repeat (apply andb_true_intro; split).
    - apply forallb_cells. intros y x Hy Hx. unfold nm_block_or. autorewrite with okdb.
      rewrite !nmw_white by lia. reflexivity.
    - apply forallb_cells. intros y x Hy Hx. unfold nm_block_nand. autorewrite with okdb.
      rewrite !nmw_white by lia. reflexivity.
    - apply forallb_cells. intros y x Hy Hx. autorewrite with okdb. rewrite nmw_path, nmw_white by assumption. reflexivity.
    - apply forallb_cells. intros y x Hy Hx. apply nmw_cell; assumption.
  Qed.
End M.

Lemma nurimaze_model_shape pb st : solve_nurimaze_model pb = Ok st ->
  (wf_state st /\ wf_keys st) /\ exists r, keys st = repeat true (dim pb 0 * dim pb 1) ++ r.
Proof.
  unfold solve_nurimaze_model. set (h := dim pb 0). set (w := dim pb 1).
  destruct (post_avc _ _ _ true false) as [st1|] eqn:E; [|discriminate].
  destruct (_ || _ || _); [discriminate|].
  intros H. inversion H; subst st; clear H.
  destruct (post_avc_wf _ _ _ _ _ E) as [[W K] [Hv Hk]].
  - reflexivity.
  - unfold wf_keys; simpl. rewrite !repeat_length. reflexivity.
  - simpl. apply ok_grid_vars.
  - cbn [vars keys bool_grid_state] in Hv, Hk. change (nv (grid_graph h w)) with (h * w) in Hv, Hk.
    assert (Hnext : next_id st1 = 3 * (h * w)).
    { unfold next_id. rewrite Hv, !app_length, !repeat_length. lia. }
    split; [split|].
    + unfold wf_state. cbn [vars Program.cons]. apply wf_cons_app.
      * apply wf_cons_more. exact W.
      * apply wf_cons_ok. rewrite Hnext, Hv. rewrite <- (app_nil_r (repeat DBool (h * w))) at 3. rewrite <- !app_assoc.
        rewrite (app_assoc (repeat (DInt 0 (Z.of_nat (h * w) - 1)) (h * w))). apply nmw_constraints.
    + unfold wf_keys in *. cbn [vars keys]. rewrite !app_length, !repeat_length. lia.
    + eexists. cbn [keys]. rewrite Hk, <- app_assoc. reflexivity.
Qed.

Lemma nurimaze_model_wf pb st : solve_nurimaze_model pb = Ok st -> wf_state st /\ wf_keys st.
Proof. intros H. exact (proj1 (nurimaze_model_shape pb st H)). Qed.

Theorem nurimaze_solve_reports : forall oracle, oracle_sound_on oracle -> oracle_complete_on oracle ->
  forall h w wv wh mark sy sx gy gx st,
  on_board h w sy sx = true \/ on_board h w gy gx = true ->
  solve_nurimaze_model [[Z.of_nat h; Z.of_nat w]; wv; wh; mark; [sy; sx; gy; gx]] = Ok st ->
  solve_reports oracle st (seq 0 (h * w)) (rules_nurimaze [[Z.of_nat h; Z.of_nat w]; wv; wh; mark; [sy; sx; gy; gx]]).
Proof.
  intros oracle Os Oc h w wv wh mark sy sx gy gx st Hor Hst.
  apply (solve_reports_intro oracle gsem_avc); try assumption.
  - exact (nurimaze_model_wf _ _ Hst).
  - destruct (nurimaze_model_shape _ _ Hst) as [_ [r Hk]]. rewrite dim2_0, dim2_1 in Hk. rewrite Hk.
    intros i. apply keys_prefix.
  - intros ans. exact (nurimaze_exact_gen h w wv wh mark sy sx gy gx st ans Hor Hst).
Qed.
