(* C11 Tier 1 - pieces shared by the models solve_<p>_model of the puzzle
   modules whose encoding is local (no proofs here). *)
From Coq Require Import ZArith List Bool Arith.
From Cspuz Require Import Core.Expr Core.Program Puzzle.PuzzleBase.
Import ListNotations.
Local Open Scope nat_scope.

(* constraints.count_true over BoolVars: each contributes v.cond(1, 0); no
   operand at all gives the constant node *)
Definition ct_vars (ids : list nat) : expr :=
  match ids with
  | [] => INode INT_CONSTANT [PyInt 0]
  | _ => INode ADD (map (fun i => INode IF [BVar i; PyInt 1; PyInt 0]) ids)
  end.

(* the flat index of a cell of a board with w columns *)
Definition cidx (w : nat) (c : nat * nat) : nat := fst c * w + snd c.

(* Solver state right after `a = solver.bool_array((h, w)); solver.add_answer_key(a)` plus constraints *)
Definition bool_grid_state (n : nat) (cs : list expr) : state :=
  {| vars := repeat DBool n; keys := repeat true n; cons := cs |}.
